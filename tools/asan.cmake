# sanitizer + libFuzzer instrumentation for the asan tree (clang++ 14)
add_compile_definitions(THELFER_TFEL_VERIF)
add_compile_options(-w -O1 -gline-tables-only -fsanitize=address,undefined,fuzzer-no-link -fno-sanitize-recover=undefined -fno-omit-frame-pointer)
add_link_options(-fsanitize=address,undefined)
