#!/usr/bin/env python3
"""Merge findings/pending/*.json into known-findings.json applying tools/fixed_map.json (key -> commit)."""
import glob, json, os
V = os.path.dirname(os.path.dirname(os.path.abspath(__file__)))
fixed = json.load(open(os.path.join(V, "tools", "fixed_map.json")))
kf_path = os.path.join(V, "known-findings.json")
kf = json.load(open(kf_path))
have = {f["key"]: f for f in kf["findings"]}
for p in sorted(glob.glob(os.path.join(V, "findings", "pending", "C??.json"))):
    for f in json.load(open(p)).get("findings", []):
        have[f["key"]] = f
out = []
for k, f in sorted(have.items(), key=lambda kv: (kv[1]["property"], kv[0])):
    f = dict(f)
    if k in fixed:
        f["status"] = "fixed"
        f["commit"] = fixed[k]
        f["line"] = "fixed: property=%s %s %s" % (f["property"], fixed[k], f["what"])
    else:
        f.setdefault("status", "known")
    out.append(f)
kf["findings"] = out
json.dump(kf, open(kf_path, "w"), indent=1)
print(len(out), "findings:", sum(1 for f in out if f["status"] == "fixed"), "fixed,",
      sum(1 for f in out if f["status"] == "known"), "known")
missing = [k for k in fixed if k not in have]
print("fixed keys without a finding entry:", missing)
