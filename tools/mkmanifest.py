#!/usr/bin/env python3
"""Regenerate /verif/MANIFEST.json from engine/specs/*.json (+ tools/manifest_static.json)."""
import glob, json, os, subprocess
V = os.path.dirname(os.path.dirname(os.path.abspath(__file__)))
props = [json.loads(l) for l in open(os.path.join(V, "properties.jsonl"))]
static = json.load(open(os.path.join(V, "tools", "manifest_static.json")))
specs = {}
for p in sorted(glob.glob(os.path.join(V, "engine", "specs", "C*.json"))):
    s = json.load(open(p))
    if s.get("disabled"):
        continue
    specs[s["id"]] = s
checks = []
for pr in props:
    s = specs.get(pr["id"])
    if not s:
        continue
    checks.append({
        "property_id": s["id"],
        "quick_cmd": "./check %s --tier quick" % s["id"],
        "thorough_cmd": "./check %s --tier thorough" % s["id"],
        "evidence_file": "/verif/evidence/%s.json" % s["id"],
        "replay_cmd_template": "./check %s --replay {path}" % s["id"],
        "engine": ",".join(sorted(set(u["kind"] for u in s["units"]))),
        "level_claimed": {"category": s.get("level", "exploration"), "text": s.get("level_text", s.get("rule", "")),
                          "design_ref": s.get("design_ref", "DESIGN.md section 7, " + s["id"])},
        "level_note": "; ".join(s.get("assumptions", [])) or "see DESIGN.md",
        "technique": s.get("technique", "property-based testing"),
    })
na = []
na_reasons = static.get("not_applicable_reasons", {})
for pr in props:
    if pr["id"] not in specs:
        na.append({"property_id": pr["id"], "reason": na_reasons.get(pr["id"], "no check registered yet (harness under construction, see DESIGN.md section 7)")})
engines = {}
for s in specs.values():
    for u in s["units"]:
        k = u["kind"]
        e = engines.setdefault(k, {"name": k, "path": {"rc": "engine/rc + engine/common/verif.hxx", "py": "engine/gen + engine/common/verifpy.py"}.get(k, "engine"), "serves_properties": [], "kind_free_text": {"rc": "rapidcheck harnesses (C++), generated cases recorded as draw lists, replay bypasses rapidcheck", "py": "python units: Hypothesis strategies / enumerations / libFuzzer campaigns driving TFEL tools and generated code"}.get(k, k)})
        if s["id"] not in e["serves_properties"]:
            e["serves_properties"].append(s["id"])
m = {"version": 1, "setup_cmd": static["setup_cmd"], "hooks": static["hooks"], "engines": list(engines.values()),
     "checks": checks, "notes": static.get("notes", ""), "not_applicable": na}
json.dump(m, open(os.path.join(V, "MANIFEST.json"), "w"), indent=1)
print("MANIFEST.json: %d checks, %d not_applicable" % (len(checks), len(na)))
