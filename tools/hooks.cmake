# included right after project() of /repo's CMakeLists.txt (CMAKE_PROJECT_INCLUDE):
# TFEL's cmake/modules/compiler.cmake resets CMAKE_CXX_FLAGS, so the guard
# define is injected as a directory-level compile definition instead.
add_compile_definitions(THELFER_TFEL_VERIF)
add_compile_options(-w)
