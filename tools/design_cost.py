#!/usr/bin/env python3
"""Rewrite the cost table of DESIGN.md section 10 from build/runall.quick.txt (output of tools/runall.py quick N)."""
import os, re, sys
V = os.path.dirname(os.path.dirname(os.path.abspath(__file__)))
rows = []
for l in open(os.path.join(V, "build", "runall.quick.txt")):
    m = re.match(r"(C\d+) exit=(-?\d+) wall=(\d+)s known=(\d+)", l)
    if m:
        rows.append(m.groups())
rows.sort()
bad = [r for r in rows if r[1] != "0"]
tab = ["| check | wall (s) | KNOWN-FINDING lines |", "|---|---|---|"] + ["| %s | %s | %s |" % (r[0], r[2], r[3]) for r in rows]
p = os.path.join(V, "DESIGN.md")
s = open(p).read()
i = s.index("| check | wall (s) | KNOWN-FINDING lines |")
j = i
lines = s[i:].split("\n")
n = 0
while n < len(lines) and lines[n].startswith("|"):
    n += 1
s = s[:i] + "\n".join(tab) + "\n" + "\n".join(lines[n:])
open(p, "w").write(s)
print("%d checks, total wall %d s, non-zero exits: %s" % (len(rows), sum(int(r[2]) for r in rows), bad))
