#!/usr/bin/env python3-vt
"""Validate MANIFEST.json and every evidence file against the schemas of /root/.vp (needs jsonschema: python3-vt)."""
import glob, json, os, sys
import jsonschema
V = os.path.dirname(os.path.dirname(os.path.abspath(__file__)))
jsonschema.validate(json.load(open(os.path.join(V, "MANIFEST.json"))), json.load(open("/root/.vp/MANIFEST.schema.json")))
v = jsonschema.Draft202012Validator(json.load(open("/root/.vp/EVIDENCE.schema.json")))
bad = 0
for f in sorted(glob.glob(os.path.join(V, "evidence", "C*.json"))):
    errs = list(v.iter_errors(json.load(open(f))))
    if errs:
        bad += 1
        print(f, [(list(e.path), e.message[:120]) for e in errs][:3])
print("MANIFEST ok; evidence files failing: %d" % bad)
sys.exit(1 if bad else 0)
