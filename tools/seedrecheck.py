#!/usr/bin/env python3
"""Re-run the check against a stored seeded change after the check was strengthened.
   tools/seedrecheck.py <ID>-<k> [seeds...]   (patch from /verif/seeded/<ID>-<k>/patch.diff applied to /repo, undone afterwards)"""
import json, os, subprocess, sys, time
V = os.path.dirname(os.path.dirname(os.path.abspath(__file__)))
name = sys.argv[1]; pid = name.split("-")[0]; seeds = sys.argv[2:] or ["1", "2"]
d = os.path.join(V, "seeded", name)
meta = json.load(open(os.path.join(d, "meta.json")))
def sh(cmd, **kw):
    return subprocess.run(cmd, shell=True, stdout=subprocess.PIPE, stderr=subprocess.STDOUT, text=True, **kw)
st = sh("git -C /repo status --short | grep -v _build")
if st.stdout.strip():
    sys.exit("/repo is not clean: " + st.stdout)
ap = sh("git -C /repo apply %s/patch.diff" % d)
res = []
try:
    if ap.returncode != 0:
        print("patch does not apply:", ap.stdout[-300:]); sys.exit(1)
    for s in seeds:
        t0 = time.time()
        r = sh("./check %s --tier quick" % pid, cwd=V, env=dict(os.environ, VERIF_SEED=s), timeout=7200)
        viol = [l.strip()[:300] for l in r.stdout.splitlines() if l.strip().startswith("violation key=")]
        res.append({"seed": int(s), "exit": r.returncode, "wall_s": round(time.time() - t0), "violations": viol[:4]})
finally:
    sh("git -C /repo checkout -- .")
meta["recheck_after_strengthening"] = res
meta["caught_after_strengthening"] = all(x["exit"] == 1 for x in res)
meta["caught_after_strengthening_on"] = "%d/%d seeds" % (sum(1 for x in res if x["exit"] == 1), len(res))
meta.setdefault("ran", []).append("recheck: git -C /repo apply patch.diff; VERIF_SEED=%s ./check %s --tier quick; git -C /repo checkout -- ." % ("/".join(seeds), pid))
json.dump(meta, open(os.path.join(d, "meta.json"), "w"), indent=1)
print(name, "caught_after_strengthening=%s (%s)" % (meta["caught_after_strengthening"], meta["caught_after_strengthening_on"]), [x["violations"][:1] for x in res])
