#!/usr/bin/env python3
"""Confirm a seeded change and run the check(s) against it.

  tools/seedtest.py <ID> <k> [seeds...]     uses /tmp/seed/<ID> (worktree) and /tmp/seed/<ID>-demo/<k>/

1. demo passes on the unchanged worktree, fails with the patch (confirmation);
2. patch applied to /repo (git apply), ./check <ID> run for the given seeds (default 1 2), patch undone
   (git -C /repo checkout -- .) whatever happens;
3. result stored in /verif/seeded/<ID>-<k>/ (patch.diff, demonstration, meta.json with what was run).
"""
import json, os, shutil, subprocess, sys, time
V = os.path.dirname(os.path.dirname(os.path.abspath(__file__)))
pid, k = sys.argv[1], sys.argv[2]
seeds = sys.argv[3:] or ["1", "2"]
wt = "/tmp/seed/%s" % pid
demo = "/tmp/seed/%s-demo/%s" % (pid, k)
dst = os.path.join(V, "seeded", "%s-%s" % (pid, k))
def sh(cmd, **kw):
    return subprocess.run(cmd, shell=True, stdout=subprocess.PIPE, stderr=subprocess.STDOUT, text=True, **kw)
meta = json.load(open(os.path.join(demo, "meta.json")))
ran = []
sh("git -C %s checkout -- ." % wt)
r0 = sh("bash %s/run.sh %s" % (demo, wt), timeout=3600)
ran.append("run.sh on unchanged worktree: exit %d" % r0.returncode)
a = sh("git -C %s apply %s/patch.diff" % (wt, demo))
r1 = sh("bash %s/run.sh %s" % (demo, wt), timeout=3600)
ran.append("run.sh with patch: exit %d" % r1.returncode)
sh("git -C %s checkout -- ." % wt)
confirmed = (r0.returncode == 0 and r1.returncode != 0 and a.returncode == 0)
meta["confirmed"] = confirmed
meta["demo_output_with_patch"] = r1.stdout[-1500:]
results = []
if confirmed:
    # several chains (one per property) may confirm their demonstrations in parallel; /repo is patched by one at a time
    import fcntl
    _lock = open(os.path.join(V, "build", ".seedtest.lock"), "w")
    fcntl.flock(_lock, fcntl.LOCK_EX)
    ap = sh("git -C /repo apply %s/patch.diff" % demo)
    try:
        if ap.returncode != 0:
            ran.append("git -C /repo apply failed: " + ap.stdout[-300:])
        else:
            for s in seeds:
                t0 = time.time()
                r = sh("./check %s --tier quick" % pid, cwd=V, env=dict(os.environ, VERIF_SEED=s), timeout=7200)
                viol = [l for l in r.stdout.splitlines() if l.startswith("VIOLATION") or l.strip().startswith("violation key=")]
                results.append({"seed": int(s), "exit": r.returncode, "wall_s": round(time.time() - t0),
                                "violations": [v[:400] for v in viol[:6]],
                                "other": [l[:300] for l in r.stdout.splitlines() if l.startswith(("BROKEN", "FLAKY"))][:4]})
                ran.append("VERIF_SEED=%s ./check %s --tier quick -> exit %d" % (s, pid, r.returncode))
    finally:
        sh("git -C /repo checkout -- .")
        ran.append("git -C /repo checkout -- .")
meta["check_results"] = results
meta["caught"] = bool(results) and all(x["exit"] == 1 for x in results)
meta["caught_on"] = "%d/%d seeds" % (sum(1 for x in results if x["exit"] == 1), len(results))
meta["ran"] = ran
os.makedirs(dst, exist_ok=True)
for f in os.listdir(demo):
    p = os.path.join(demo, f)
    if os.path.isfile(p) and os.path.getsize(p) < 200000:
        shutil.copy(p, dst)
json.dump(meta, open(os.path.join(dst, "meta.json"), "w"), indent=1)
print(pid, k, "confirmed=%s" % confirmed, "caught=%s (%s)" % (meta["caught"], meta["caught_on"]), "|", meta.get("what", "")[:150])
for x in results:
    print("   seed", x["seed"], "exit", x["exit"], x["violations"][:1], x["other"][:1])
