#!/usr/bin/env python3
"""Regenerate the counts and the two tables of section 6 of DESIGN.md from known-findings.json"""
import json, os, re
V = os.path.dirname(os.path.dirname(os.path.abspath(__file__)))
kf = json.load(open(os.path.join(V, "known-findings.json")))["findings"]
def row(f):
    w = f["what"].replace("\n", " ").replace("|", "/")
    if len(w) > 230: w = w[:227] + "..."
    return "| %s | `%s` | %s | %s |" % (f["property"], f["key"], f.get("commit", "") if f["status"] == "fixed" else "known", w)
fixed = [f for f in kf if f["status"] == "fixed"]; known = [f for f in kf if f["status"] == "known"]
p = os.path.join(V, "DESIGN.md"); s = open(p).read()
a = s.index("### 6.1 Repaired"); b = s.index("## 7. Per-property designs")
b = s.rindex("---------------------------------------------------------------------------", a, b)
new = ("### 6.1 Repaired (status `fixed`; the commit is in /repo)\n\n| Prop | key | commit | what failed |\n|---|---|---|---|\n%s\n\n"
       "### 6.2 Recorded (status `known`; the check prints KNOWN-FINDING and exits 0)\n\n| Prop | key | | what fails |\n|---|---|---|---|\n%s\n\n"
       % ("\n".join(row(f) for f in fixed), "\n".join(row(f) for f in known)))
s = s[:a] + new + s[b:]
s = re.sub(r"The checks found \*\*\d+ genuine defects\*\*", "The checks found **%d genuine defects**" % len(kf), s)
s = re.sub(r"\*\*\d+ were repaired\*\*\nby \d+ minimal", "**%d were repaired**\nby %d minimal" % (len(fixed), len(set(f["commit"] for f in fixed))), s)
s = re.sub(r"The remaining \*\*\d+ stay known\*\*", "The remaining **%d stay known**" % len(known), s)
open(p, "w").write(s)
print(len(kf), len(fixed), len(set(f["commit"] for f in fixed)), len(known))
