#!/usr/bin/env python3
"""compare a ctest log with the pinned list of /root/.vp/BASELINE.json: every stable_pass test must be 'Passed'"""
import json, re, sys
log = open(sys.argv[1], errors="replace").read()
passed = set(re.findall(r"Test\s+#\d+:\s+(\S+)\s+\.+\s+Passed", log))
want = [t.split("::")[0] for t in json.load(open("/root/.vp/BASELINE.json"))["stable_pass"]]
missing = [t for t in want if t not in passed]
print("pinned=%d passed_of_pinned=%d missing=%s" % (len(want), len(want) - len(missing), missing[:10]))
sys.exit(1 if missing else 0)
