#!/usr/bin/env python3
"""Run the quick (or thorough) tier of every registered check; summary table in build/runall.<tier>.txt"""
import concurrent.futures as cf, json, os, subprocess, sys, time
V = os.path.dirname(os.path.dirname(os.path.abspath(__file__)))
tier = sys.argv[1] if len(sys.argv) > 1 else "quick"
par = int(sys.argv[2]) if len(sys.argv) > 2 else 3
only = sys.argv[3].split(",") if len(sys.argv) > 3 else None
m = json.load(open(os.path.join(V, "MANIFEST.json")))
ids = [c["property_id"] for c in m["checks"] if not only or c["property_id"] in only]
def run(i):
    t0 = time.time()
    env = dict(os.environ, VERIF_JOBS=str(max(2, 16 // par)))
    r = subprocess.run(["./check", i, "--tier", tier], cwd=V, stdout=subprocess.PIPE, stderr=subprocess.STDOUT, text=True, env=env)
    open(os.path.join(V, "build", "runall.%s.%s.log" % (tier, i)), "w").write(r.stdout)
    lines = [l for l in r.stdout.splitlines() if l.startswith(("VIOLATION", "BROKEN", "FLAKY"))]
    kn = sum(1 for l in r.stdout.splitlines() if l.startswith("KNOWN-FINDING"))
    return i, r.returncode, time.time() - t0, kn, lines
out = []
with cf.ThreadPoolExecutor(max_workers=par) as ex:
    for i, rc, dt, kn, lines in ex.map(run, ids):
        s = "%s exit=%d wall=%.0fs known=%d %s" % (i, rc, dt, kn, " | ".join(l[:200] for l in lines[:3]))
        print(s, flush=True)
        out.append(s)
open(os.path.join(V, "build", "runall.%s.txt" % tier), "w").write("\n".join(out) + "\n")
