#!/usr/bin/env python3
"""Fill section 11 of DESIGN.md from /verif/seeded/*/meta.json"""
import glob, json, os, re
V = os.path.dirname(os.path.dirname(os.path.abspath(__file__)))
rows = []; n = c = c2 = 0
for p in sorted(glob.glob(os.path.join(V, "seeded", "*", "meta.json"))):
    m = json.load(open(p)); name = p.split("/")[-2]
    n += 1
    first = "caught %s" % m.get("caught_on") if m.get("caught") else "missed (%s)" % m.get("caught_on")
    if m.get("caught"): c += 1
    after = ""
    if "caught_after_strengthening" in m:
        after = "caught %s" % m["caught_after_strengthening_on"] if m["caught_after_strengthening"] else "still missed (%s)" % m["caught_after_strengthening_on"]
    if m.get("caught") or m.get("caught_after_strengthening"): c2 += 1
    if m.get("note"): after = (after + " — " if after else "") + m["note"]
    what = m.get("what", "").replace("|", "/").replace("\n", " ")
    needs = m.get("needs", "").replace("|", "/").replace("\n", " ")
    rows.append("| %s | %s | %s | %s | %s |" % (name, what[:260], needs[:200], first, after))
table = ("%d changes confirmed; **%d caught by the checks as first built (quick tier, 2/2 seeds)**; "
         "%d caught after the strengthening described in the last column.\n\n"
         "| change | what | needs | first verdict | after strengthening |\n|---|---|---|---|---|\n" % (n, c, c2)) + "\n".join(rows) + "\n"
p = os.path.join(V, "DESIGN.md"); s = open(p).read()
a = s.index("<!-- SEEDED-TABLE-BEGIN -->") if "<!-- SEEDED-TABLE-BEGIN -->" in s else None
if a is None:
    s = s.replace("SEEDED_TABLE_PLACEHOLDER", "<!-- SEEDED-TABLE-BEGIN -->\n" + table + "<!-- SEEDED-TABLE-END -->")
else:
    b = s.index("<!-- SEEDED-TABLE-END -->")
    s = s[:a] + "<!-- SEEDED-TABLE-BEGIN -->\n" + table + s[b:]
open(p, "w").write(s)
print(n, c, c2)
