/* C45 helper: dumps, as JSON, the metadata of a generated library as seen through
 * tfel::system::ExternalLibraryManager.
 *   C45_elm_dump bhv <lib> <behaviour> [extra variable names...]
 *   C45_elm_dump mp  <lib> <function>  [--set name=value]... [--eval v1,v2,...]... [extra names...]
 * Every query is wrapped: an exception becomes {"error": "..."} for that field. */
#include <cstdio>
#include <cstring>
#include <cstdlib>
#include <functional>
#include <iostream>
#include <sstream>
#include <string>
#include <vector>
#include "TFEL/System/ExternalLibraryManager.hxx"

using ELM = tfel::system::ExternalLibraryManager;

static std::string q(const std::string& s) {
  std::string r = "\"";
  for (const unsigned char c : s) {
    if (c == '"' || c == '\\') {
      r += '\\';
      r += static_cast<char>(c);
    } else if (c < 0x20) {
      char b[8];
      std::snprintf(b, sizeof(b), "\\u%04x", c);
      r += b;
    } else {
      r += static_cast<char>(c);
    }
  }
  return r + "\"";
}
static std::string num(const long double v) {
  char b[64];
  std::snprintf(b, sizeof(b), "\"%.21Lg\"", v);
  return b;
}
static std::string hex(const double v) {
  char b[64];
  std::snprintf(b, sizeof(b), "\"%a\"", v);
  return b;
}
static std::string strs(const std::vector<std::string>& v) {
  std::string r = "[";
  for (std::size_t i = 0; i != v.size(); ++i) r += (i ? "," : "") + q(v[i]);
  return r + "]";
}
static std::string ints(const std::vector<int>& v) {
  std::string r = "[";
  for (std::size_t i = 0; i != v.size(); ++i) r += (i ? "," : "") + std::to_string(v[i]);
  return r + "]";
}
static std::string guard(const std::function<std::string()>& f) {
  try {
    return f();
  } catch (std::exception& e) {
    return "{\"error\":" + q(e.what()) + "}";
  } catch (...) {
    return "{\"error\":\"unknown\"}";
  }
}
static std::string b2s(const bool b) { return b ? "true" : "false"; }

int main(const int argc, const char* const* const argv) {
  if (argc < 4) {
    std::cerr << "usage\n";
    return 2;
  }
  auto& elm = ELM::getExternalLibraryManager();
  const std::string mode = argv[1], l = argv[2], f = argv[3];
  std::ostringstream os;
  os << "{";
  auto field = [&os](const std::string& n, const std::string& v, const bool first = false) {
    os << (first ? "" : ",") << q(n) << ":" << v;
  };
  auto common = [&] {
    field("source", guard([&] { return q(elm.getSource(l, f)); }), true);
    field("interface", guard([&] { return q(elm.getInterface(l, f)); }));
    field("law", guard([&] { return q(elm.getLaw(l, f)); }));
    field("material", guard([&] { return q(elm.getMaterial(l, f)); }));
    field("author", guard([&] { return q(elm.getAuthor(l, f)); }));
    field("date", guard([&] { return q(elm.getDate(l, f)); }));
    field("description", guard([&] { return q(elm.getDescription(l, f)); }));
    field("unit_system", guard([&] { return q(elm.getUnitSystem(l, f)); }));
    field("tfel_version", guard([&] { return q(elm.getTFELVersion(l, f)); }));
    field("mkt", guard([&] { return std::to_string(elm.getMaterialKnowledgeType(l, f)); }));
    field("entry_points", guard([&] { return strs(elm.getEntryPoints(l)); }));
  };
  if (mode == "mp") {
    std::vector<std::string> extra;
    std::vector<std::pair<std::string, double>> sets;
    std::vector<std::vector<double>> evals;
    for (int i = 4; i < argc; ++i) {
      const std::string a = argv[i];
      if (a == "--set" && i + 1 < argc) {
        const std::string s = argv[++i];
        const auto p = s.find('=');
        sets.push_back({s.substr(0, p), std::strtod(s.c_str() + p + 1, nullptr)});
      } else if (a == "--eval" && i + 1 < argc) {
        std::vector<double> v;
        std::istringstream is(argv[++i]);
        std::string t;
        while (std::getline(is, t, ',')) v.push_back(std::strtod(t.c_str(), nullptr));
        evals.push_back(v);
      } else {
        extra.push_back(a);
      }
    }
    common();
    field("output", guard([&] { return q(elm.getMaterialPropertyOutput(l, f)); }));
    std::vector<std::string> names;
    field("inputs", guard([&] {
            names = elm.getMaterialPropertyVariables(l, f);
            return strs(names);
          }));
    field("generic_inputs", guard([&] { return strs(elm.getGenericMaterialPropertyVariables(l, f)); }));
    std::vector<std::string> params;
    field("parameters", guard([&] {
            params = elm.getMaterialPropertyParameters(l, f);
            return strs(params);
          }));
    os << ",\"defaults\":{";
    for (std::size_t i = 0; i != params.size(); ++i) {
      os << (i ? "," : "") << q(params[i]) << ":"
         << guard([&] { return num(elm.getRealParameterDefaultValue(l, f, "", params[i])); });
    }
    os << "}";
    auto all = names;
    all.insert(all.end(), params.begin(), params.end());
    all.insert(all.end(), extra.begin(), extra.end());
    os << ",\"bounds\":{";
    for (std::size_t i = 0; i != all.size(); ++i) {
      const auto& n = all[i];
      os << (i ? "," : "") << q(n) << ":{";
      os << "\"has\":" << guard([&] { return b2s(elm.hasBounds(l, f, n)); });
      os << ",\"has_lower\":" << guard([&] { return b2s(elm.hasLowerBound(l, f, n)); });
      os << ",\"has_upper\":" << guard([&] { return b2s(elm.hasUpperBound(l, f, n)); });
      os << ",\"lower\":" << guard([&] { return elm.hasLowerBound(l, f, n) ? num(elm.getLowerBound(l, f, n)) : std::string("null"); });
      os << ",\"upper\":" << guard([&] { return elm.hasUpperBound(l, f, n) ? num(elm.getUpperBound(l, f, n)) : std::string("null"); });
      os << ",\"phas\":" << guard([&] { return b2s(elm.hasPhysicalBounds(l, f, n)); });
      os << ",\"phas_lower\":" << guard([&] { return b2s(elm.hasLowerPhysicalBound(l, f, n)); });
      os << ",\"phas_upper\":" << guard([&] { return b2s(elm.hasUpperPhysicalBound(l, f, n)); });
      os << ",\"plower\":" << guard([&] { return elm.hasLowerPhysicalBound(l, f, n) ? num(elm.getLowerPhysicalBound(l, f, n)) : std::string("null"); });
      os << ",\"pupper\":" << guard([&] { return elm.hasUpperPhysicalBound(l, f, n) ? num(elm.getUpperPhysicalBound(l, f, n)) : std::string("null"); });
      os << "}";
    }
    os << "}";
    // evaluation: before and after the setParameter calls
    auto eval_all = [&](const char* const key) {
      os << ",\"" << key << "\":[";
      for (std::size_t i = 0; i != evals.size(); ++i) {
        os << (i ? "," : "") << guard([&] {
          const auto fct = elm.getGenericMaterialProperty(l, f);
          mfront_gmp_OutputStatus s;
          std::memset(&s, 0, sizeof(s));
          const auto r = fct(&s, evals[i].data(), static_cast<mfront_gmp_size_type>(evals[i].size()), GENERIC_MATERIALPROPERTY_NONE_POLICY);
          return "[" + hex(r) + "," + std::to_string(s.status) + "]";
        });
      }
      os << "]";
    };
    eval_all("eval_default");
    os << ",\"set\":[";
    for (std::size_t i = 0; i != sets.size(); ++i) {
      os << (i ? "," : "") << guard([&] {
        elm.setParameter(l, f, sets[i].first, sets[i].second);
        return std::string("true");
      });
    }
    os << "]";
    eval_all("eval_set");
  } else if (mode == "bhv") {
    common();
    std::vector<std::string> hyps;
    field("hypotheses", guard([&] {
            hyps = elm.getSupportedModellingHypotheses(l, f);
            return strs(hyps);
          }));
    field("btype", guard([&] { return std::to_string(elm.getUMATBehaviourType(l, f)); }));
    field("kinematic", guard([&] { return std::to_string(elm.getUMATBehaviourKinematic(l, f)); }));
    field("symmetry", guard([&] { return std::to_string(elm.getUMATSymmetryType(l, f)); }));
    field("temperature_removed", guard([&] { return b2s(elm.hasTemperatureBeenRemovedFromExternalStateVariables(l, f)); }));
    os << ",\"by_hypothesis\":{";
    for (std::size_t ih = 0; ih != hyps.size(); ++ih) {
      const auto& h = hyps[ih];
      os << (ih ? "," : "") << q(h) << ":{";
      std::vector<std::string> all, params;
      std::vector<int> ptypes;
      auto names = [&](const char* const key, const std::function<std::vector<std::string>()>& g, const bool first = false) {
        os << (first ? "" : ",") << "\"" << key << "\":" << guard([&] {
          const auto v = g();
          all.insert(all.end(), v.begin(), v.end());
          return strs(v);
        });
      };
      names("mps", [&] { return elm.getUMATMaterialPropertiesNames(l, f, h); }, true);
      names("isvs", [&] { return elm.getUMATInternalStateVariablesNames(l, f, h); });
      os << ",\"isv_types\":" << guard([&] { return ints(elm.getUMATInternalStateVariablesTypes(l, f, h)); });
      names("esvs", [&] { return elm.getUMATExternalStateVariablesNames(l, f, h); });
      os << ",\"esv_types\":" << guard([&] { return ints(elm.getUMATExternalStateVariablesTypes(l, f, h)); });
      names("params", [&] {
        params = elm.getUMATParametersNames(l, f, h);
        return params;
      });
      os << ",\"param_types\":" << guard([&] {
        ptypes = elm.getUMATParametersTypes(l, f, h);
        return ints(ptypes);
      });
      os << ",\"defaults\":{";
      for (std::size_t i = 0; i != params.size(); ++i) {
        os << (i ? "," : "") << q(params[i]) << ":" << guard([&] {
          const int t = i < ptypes.size() ? ptypes[i] : 0;
          if (t == 1) return std::to_string(elm.getIntegerParameterDefaultValue(l, f, h, params[i]));
          if (t == 2) return std::to_string(elm.getUnsignedShortParameterDefaultValue(l, f, h, params[i]));
          return num(elm.getRealParameterDefaultValue(l, f, h, params[i]));
        });
      }
      os << "}";
      for (int i = 4; i < argc; ++i) all.push_back(argv[i]);
      os << ",\"bounds\":{";
      for (std::size_t i = 0; i != all.size(); ++i) {
        const auto& n = all[i];
        os << (i ? "," : "") << q(n) << ":{";
        os << "\"has\":" << guard([&] { return b2s(elm.hasBounds(l, f, h, n)); });
        os << ",\"has_lower\":" << guard([&] { return b2s(elm.hasLowerBound(l, f, h, n)); });
        os << ",\"has_upper\":" << guard([&] { return b2s(elm.hasUpperBound(l, f, h, n)); });
        os << ",\"lower\":" << guard([&] { return elm.hasLowerBound(l, f, h, n) ? num(elm.getLowerBound(l, f, h, n)) : std::string("null"); });
        os << ",\"upper\":" << guard([&] { return elm.hasUpperBound(l, f, h, n) ? num(elm.getUpperBound(l, f, h, n)) : std::string("null"); });
        os << ",\"phas\":" << guard([&] { return b2s(elm.hasPhysicalBounds(l, f, h, n)); });
        os << ",\"phas_lower\":" << guard([&] { return b2s(elm.hasLowerPhysicalBound(l, f, h, n)); });
        os << ",\"phas_upper\":" << guard([&] { return b2s(elm.hasUpperPhysicalBound(l, f, h, n)); });
        os << ",\"plower\":" << guard([&] { return elm.hasLowerPhysicalBound(l, f, h, n) ? num(elm.getLowerPhysicalBound(l, f, h, n)) : std::string("null"); });
        os << ",\"pupper\":" << guard([&] { return elm.hasUpperPhysicalBound(l, f, h, n) ? num(elm.getUpperPhysicalBound(l, f, h, n)) : std::string("null"); });
        os << "}";
      }
      os << "}}";
    }
    os << "}";
  } else {
    std::cerr << "unknown mode\n";
    return 2;
  }
  os << "}";
  std::cout << os.str() << std::endl;
  return 0;
}
