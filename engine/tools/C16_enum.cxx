/*!
 * C16 - tested translation unit.
 *
 * This is the ONLY file of the C16 check that includes
 * TFEL/Math/General/IEEE754.hxx.  It is compiled several times by
 * engine/gen/C16_ieee754.py, once per optimisation flag set (g++ / clang++,
 * -O2, -O3 -ffast-math, -Ofast -ffinite-math-only), and linked with
 * C16_oracle.cxx (always compiled by g++ -O2 *without* any fast-math flag),
 * which generates the bit patterns, owns the oracle and compares.
 *
 * The values reach the TFEL functions as genuine floating-point objects
 * (arrays of float / double / long double built by the oracle TU with memcpy),
 * in two ways:
 *   - "loop":  a loop the optimiser may inline / vectorise as it likes,
 *   - "call":  one out-of-line call per value (value passed in a register).
 * and a third, small one:
 *   - "constexpr": constant evaluation by the compiler front-end.
 *
 * result byte = class (FP_* value, 0xf if outside 0..14) | isnan << 4 | isfinite << 5
 */
#include <cstddef>
#include <cstdint>
#include <limits>
#include "TFEL/Math/General/IEEE754.hxx"

#ifndef C16_FLAGSET
#define C16_FLAGSET "unknown"
#endif

namespace {

  template <typename T>
  inline std::uint8_t code(const T x) {
    const int c = tfel::math::ieee754::fpclassify(x);
    const unsigned cc = (c >= 0 && c < 15) ? static_cast<unsigned>(c) : 0xfu;
    const unsigned n = tfel::math::ieee754::isnan(x) ? 1u : 0u;
    const unsigned f = tfel::math::ieee754::isfinite(x) ? 1u : 0u;
    return static_cast<std::uint8_t>(cc | (n << 4) | (f << 5));
  }

  template <typename T>
  constexpr std::uint8_t ccode(const T x) {
    const int c = tfel::math::ieee754::fpclassify(x);
    const unsigned cc = (c >= 0 && c < 15) ? static_cast<unsigned>(c) : 0xfu;
    const unsigned n = tfel::math::ieee754::isnan(x) ? 1u : 0u;
    const unsigned f = tfel::math::ieee754::isfinite(x) ? 1u : 0u;
    return static_cast<std::uint8_t>(cc | (n << 4) | (f << 5));
  }

  template <typename T>
  struct CE {
    using L = std::numeric_limits<T>;
    static constexpr int n = 12;
    // values the front-end has to classify at compile time
    static constexpr T values[n] = {T(0),
                                    -T(0),
                                    L::denorm_min(),
                                    -L::denorm_min(),
                                    L::min(),
                                    L::min() / 2,
                                    L::max(),
                                    L::lowest(),
                                    T(1),
                                    L::infinity(),
                                    -L::infinity(),
                                    L::quiet_NaN()};
    static constexpr std::uint8_t codes[n] = {
        ccode(values[0]), ccode(values[1]), ccode(values[2]),  ccode(values[3]),
        ccode(values[4]), ccode(values[5]), ccode(values[6]),  ccode(values[7]),
        ccode(values[8]), ccode(values[9]), ccode(values[10]), ccode(values[11])};
  };

}  // namespace

extern "C" {

const char* c16_flagset() { return C16_FLAGSET; }

void c16_loop_f(const float* x, std::size_t n, std::uint8_t* out) {
  for (std::size_t i = 0; i != n; ++i) out[i] = code(x[i]);
}
void c16_loop_d(const double* x, std::size_t n, std::uint8_t* out) {
  for (std::size_t i = 0; i != n; ++i) out[i] = code(x[i]);
}
void c16_loop_l(const long double* x, std::size_t n, std::uint8_t* out) {
  for (std::size_t i = 0; i != n; ++i) out[i] = code(x[i]);
}

__attribute__((noinline)) std::uint8_t c16_call_f(float x) { return code(x); }
__attribute__((noinline)) std::uint8_t c16_call_d(double x) { return code(x); }
__attribute__((noinline)) std::uint8_t c16_call_l(long double x) { return code(x); }

//! constant-evaluated classification: writes values and codes, returns the count
int c16_constexpr_f(float* v, std::uint8_t* c) {
  for (int i = 0; i != CE<float>::n; ++i) {
    v[i] = CE<float>::values[i];
    c[i] = CE<float>::codes[i];
  }
  return CE<float>::n;
}
int c16_constexpr_d(double* v, std::uint8_t* c) {
  for (int i = 0; i != CE<double>::n; ++i) {
    v[i] = CE<double>::values[i];
    c[i] = CE<double>::codes[i];
  }
  return CE<double>::n;
}

}  // extern "C"
