/*!
 * C46 - actor process for the histories of the mfront inter-process lock.
 *
 *   C46_lock_actor <uid> <mode> [args]
 *
 * The process first drops to user <uid> (the sandbox runs as root): the
 * semaphore of MFrontLock is named /mfront-<euid>, so the histories of this
 * check never meet the semaphore used by concurrently running mfront
 * processes of other checks.
 *
 * modes
 *   value                    print the value of the semaphore (sem_getvalue) or "absent";
 *                            does not go through MFrontLock
 *   unlink                   sem_unlink the semaphore
 *   touch                    MFrontLock::getMFrontLock(), then exit normally (return from main)
 *   sections K GAP_US START_NS
 *                            wait until CLOCK_MONOTONIC >= START_NS (0: now), then K times
 *                            { MFrontLockGuard g; } separated by GAP_US microseconds; the time
 *                            spent inside a section is the hook's TFEL_VERIF_LOCK_DWELL_US;
 *                            prints "R <pid> <ns>" before each request and "D <pid> <ns>" when
 *                            done; exits normally.  START_NS = -1: print "ready", then read the
 *                            start time from stdin (event based start barrier)
 *   sections_exit K GAP_US START_NS   same, leaves through std::exit(0) (static destructors run)
 *   sections_fast K GAP_US START_NS   same, leaves through _exit(0) (no static destructor)
 *   killed                   instantiates the lock, then SIGKILL outside any section
 *   probe WAIT_MS            sem_timedwait on the semaphore without MFrontLock: prints
 *                            "acquired" (and posts it back) or "timeout"
 */
#include <cerrno>
#include <csignal>
#include <cstdio>
#include <cstdlib>
#include <cstring>
#include <ctime>
#include <fcntl.h>
#include <semaphore.h>
#include <string>
#include <sys/stat.h>
#include <sys/types.h>
#include <unistd.h>
#include "MFront/MFrontLock.hxx"

static long long now() {
  timespec ts;
  ::clock_gettime(CLOCK_MONOTONIC, &ts);
  return static_cast<long long>(ts.tv_sec) * 1000000000ll + ts.tv_nsec;
}

static void sleepUs(const long us) {
  timespec ts{us / 1000000, (us % 1000000) * 1000};
  ::nanosleep(&ts, nullptr);
}

int main(int argc, char** argv) {
  if (argc < 3) {
    std::fprintf(stderr, "usage: C46_lock_actor <uid> <mode> [args]\n");
    return 2;
  }
  const auto uid = static_cast<uid_t>(std::atol(argv[1]));
  if (::geteuid() == 0) {
    if (::setgid(uid) != 0 || ::setuid(uid) != 0) {
      std::perror("setuid");
      return 2;
    }
  }
  const std::string name = "/mfront-" + std::to_string(::geteuid());
  const std::string mode = argv[2];
  const auto arg = [&](int i) { return argc > i ? std::atoll(argv[i]) : 0ll; };
  if (mode == "value") {
    sem_t* s = ::sem_open(name.c_str(), 0);
    if (s == SEM_FAILED) {
      std::printf(errno == ENOENT ? "absent\n" : "error %d\n", errno);
      return 0;
    }
    int v = -1;
    ::sem_getvalue(s, &v);
    std::printf("%d\n", v);
    ::sem_close(s);
    return 0;
  }
  if (mode == "unlink") {
    ::sem_unlink(name.c_str());
    return 0;
  }
  if (mode == "probe") {
    sem_t* s = ::sem_open(name.c_str(), 0);
    if (s == SEM_FAILED) {
      std::printf("absent\n");
      return 0;
    }
    timespec ts;
    ::clock_gettime(CLOCK_REALTIME, &ts);
    const long long t = ts.tv_nsec + arg(3) * 1000000ll;
    ts.tv_sec += t / 1000000000ll;
    ts.tv_nsec = t % 1000000000ll;
    if (::sem_timedwait(s, &ts) == 0) {
      std::printf("acquired\n");
      ::sem_post(s);
    } else {
      std::printf("timeout\n");
    }
    return 0;
  }
  if (mode == "touch") {
    mfront::MFrontLock::getMFrontLock();
    return 0;
  }
  if (mode == "killed") {
    mfront::MFrontLock::getMFrontLock();
    std::fflush(stdout);
    ::kill(::getpid(), SIGKILL);
    for (;;) ::pause();
  }
  if (mode == "sections" || mode == "sections_exit" || mode == "sections_fast") {
    const auto k = arg(3);
    const auto gap = arg(4);
    auto start = arg(5);
    if (start == -1) {
      // event based start: tell the driver we are ready, read the start time
      std::printf("ready\n");
      std::fflush(stdout);
      char line[64];
      start = std::fgets(line, sizeof line, stdin) != nullptr ? std::atoll(line) : 0;
    }
    while (start != 0 && now() < start) {
      if (start - now() > 2000000) {
        sleepUs(500);
      }
    }
    for (long long i = 0; i != k; ++i) {
      std::printf("R %ld %lld\n", static_cast<long>(::getpid()), now());
      {
        mfront::MFrontLockGuard g;
      }
      if (gap > 0) sleepUs(static_cast<long>(gap));
    }
    std::printf("D %ld %lld\n", static_cast<long>(::getpid()), now());
    std::fflush(stdout);
    if (mode == "sections_exit") std::exit(0);
    if (mode == "sections_fast") ::_exit(0);
    return 0;
  }
  std::fprintf(stderr, "unknown mode %s\n", mode.c_str());
  return 2;
}
