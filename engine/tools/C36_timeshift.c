/* LD_PRELOAD shim used by engine/gen/C36_determinism.py: shifts the wall clock
 * seen by the process by $VERIF_TIMESHIFT seconds (time, gettimeofday,
 * clock_gettime(CLOCK_REALTIME*), timespec_get go through these). */
#define _GNU_SOURCE
#include <dlfcn.h>
#include <stdlib.h>
#include <sys/time.h>
#include <time.h>

static long shift(void) {
  const char* e = getenv("VERIF_TIMESHIFT");
  return e ? atol(e) : 0;
}

time_t time(time_t* t) {
  static time_t (*real)(time_t*);
  if (!real) real = (time_t(*)(time_t*))dlsym(RTLD_NEXT, "time");
  time_t r = real(0) + shift();
  if (t) *t = r;
  return r;
}

int gettimeofday(struct timeval* tv, void* tz) {
  static int (*real)(struct timeval*, void*);
  if (!real) real = (int (*)(struct timeval*, void*))dlsym(RTLD_NEXT, "gettimeofday");
  int r = real(tv, tz);
  if (r == 0 && tv) tv->tv_sec += shift();
  return r;
}

int clock_gettime(clockid_t c, struct timespec* ts) {
  static int (*real)(clockid_t, struct timespec*);
  if (!real) real = (int (*)(clockid_t, struct timespec*))dlsym(RTLD_NEXT, "clock_gettime");
  int r = real(c, ts);
  if (r == 0 && ts && (c == CLOCK_REALTIME || c == CLOCK_REALTIME_COARSE)) ts->tv_sec += shift();
  return r;
}
