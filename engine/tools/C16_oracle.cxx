/*!
 * C16 - pattern generator, oracle and comparison (never includes a TFEL header,
 * always compiled by g++ -O2 without any fast-math flag).
 *
 * Oracle (a): integer decoders written from the IEEE-754 binary32/binary64
 * tables and the x87 double-extended table of the Intel SDM (vol. 1, 8.2.2
 * "Unsupported double extended-precision floating-point encodings and
 * pseudo-denormals"), with the classes glibc gives to the pseudo encodings
 * (the property statement says "classified as the platform C library does"):
 *   pseudo-denormal (e=0, J=1)            -> FP_NORMAL  (its value is that of the
 *                                            normal number with e=1)
 *   unnormal (0<e<0x7fff, J=0), pseudo-NaN, pseudo-infinity (e=0x7fff, J=0)
 *                                         -> FP_NAN     (invalid operands)
 * Oracle (b): glibc __fpclassify{f,,l}, __isnan{f,,l}, __finite{f,,l} called
 * through volatile function pointers.  (a) != (b) is reported as an *oracle
 * disagreement* (broken check), never as a violation of TFEL.
 *
 * usage:
 *   C16_x float-full  <threads> <seed> <glibc 0|1>            all 2^32 float patterns (loop variant)
 *   C16_x float-call  <threads> <seed> <first> <count>        call variant on a range of float patterns
 *   C16_x strat       <threads> <seed> <nrandom>              stratified float/double/long double sets, loop + call + constexpr
 *   C16_x single      <f|d|l> <hex bits (l: se:mantissa)>     one pattern, loop + call variants
 *   C16_x constexpr                                           constant-evaluated table only
 * exit status: 0 ok, 1 tested code differs from the oracle, 3 the two oracles disagree.
 * output: one JSON object on stdout.
 */
#include <atomic>
#include <cinttypes>
#include <cmath>
#include <cstdint>
#include <cstdio>
#include <cstdlib>
#include <cstring>
#include <mutex>
#include <string>
#include <thread>
#include <vector>

extern "C" {
const char* c16_flagset();
void c16_loop_f(const float*, std::size_t, std::uint8_t*);
void c16_loop_d(const double*, std::size_t, std::uint8_t*);
void c16_loop_l(const long double*, std::size_t, std::uint8_t*);
std::uint8_t c16_call_f(float);
std::uint8_t c16_call_d(double);
std::uint8_t c16_call_l(long double);
int c16_constexpr_f(float*, std::uint8_t*);
int c16_constexpr_d(double*, std::uint8_t*);
int __fpclassifyf(float);
int __fpclassify(double);
int __fpclassifyl(long double);
int __isnanf(float);
int __isnan(double);
int __isnanl(long double);
int __finitef(float);
int __finite(double);
int __finitel(long double);
}

namespace {

  int (*volatile g_clsf)(float) = __fpclassifyf;
  int (*volatile g_cls)(double) = __fpclassify;
  int (*volatile g_clsl)(long double) = __fpclassifyl;
  int (*volatile g_nanf)(float) = __isnanf;
  int (*volatile g_nan)(double) = __isnan;
  int (*volatile g_nanl)(long double) = __isnanl;
  int (*volatile g_finf)(float) = __finitef;
  int (*volatile g_fin)(double) = __finite;
  int (*volatile g_finl)(long double) = __finitel;

  // class numbering of this platform's <math.h>
  constexpr int K_NAN = FP_NAN, K_INF = FP_INFINITE, K_ZERO = FP_ZERO, K_SUB = FP_SUBNORMAL,
                K_NORMAL = FP_NORMAL;

  inline std::uint8_t codeOf(int cls) {
    const unsigned n = cls == K_NAN ? 1u : 0u;
    const unsigned f = (cls == K_ZERO || cls == K_SUB || cls == K_NORMAL) ? 1u : 0u;
    return static_cast<std::uint8_t>(static_cast<unsigned>(cls) | (n << 4) | (f << 5));
  }

  // ---- oracle (a): integer decoders
  inline int decodeF(std::uint32_t b) {
    const std::uint32_t e = (b >> 23) & 0xffu, m = b & 0x7fffffu;
    if (e == 0) return m == 0 ? K_ZERO : K_SUB;
    if (e == 0xffu) return m == 0 ? K_INF : K_NAN;
    return K_NORMAL;
  }
  inline int decodeD(std::uint64_t b) {
    const std::uint64_t e = (b >> 52) & 0x7ffu, m = b & ((std::uint64_t(1) << 52) - 1);
    if (e == 0) return m == 0 ? K_ZERO : K_SUB;
    if (e == 0x7ffu) return m == 0 ? K_INF : K_NAN;
    return K_NORMAL;
  }
  struct LBits {
    std::uint64_t m;   // explicit integer bit J (bit 63) + 63 fraction bits
    std::uint16_t se;  // sign + 15 exponent bits
  };
  enum LKind { L_ZERO, L_DENORMAL, L_PSEUDO_DENORMAL, L_NORMAL, L_UNNORMAL, L_INF, L_NAN,
               L_PSEUDO_INF, L_PSEUDO_NAN, L_NKINDS };
  const char* const lkindNames[L_NKINDS] = {"zero", "subnormal", "pseudo_denormal", "normal", "unnormal",
                                            "inf", "nan", "pseudo_inf", "pseudo_nan"};
  inline LKind kindL(const LBits& b) {
    const unsigned e = b.se & 0x7fffu;
    const bool J = (b.m >> 63) != 0;
    const std::uint64_t f = b.m & ((std::uint64_t(1) << 63) - 1);
    if (e == 0) {
      if (!J) return f == 0 ? L_ZERO : L_DENORMAL;
      return L_PSEUDO_DENORMAL;
    }
    if (e == 0x7fffu) {
      if (!J) return f == 0 ? L_PSEUDO_INF : L_PSEUDO_NAN;
      return f == 0 ? L_INF : L_NAN;
    }
    return J ? L_NORMAL : L_UNNORMAL;
  }
  inline int decodeL(const LBits& b) {
    switch (kindL(b)) {
      case L_ZERO: return K_ZERO;
      case L_DENORMAL: return K_SUB;
      case L_PSEUDO_DENORMAL: return K_NORMAL;
      case L_NORMAL: return K_NORMAL;
      case L_INF: return K_INF;
      default: return K_NAN;  // nan, unnormal, pseudo-nan, pseudo-infinity
    }
  }
  inline long double makeL(const LBits& b) {
    long double x = 0;
    unsigned char raw[sizeof(long double)];
    std::memset(raw, 0, sizeof raw);
    std::memcpy(raw, &b.m, 8);
    std::memcpy(raw + 8, &b.se, 2);
    std::memcpy(&x, raw, sizeof x);
    return x;
  }

  // ---- reporting
  struct Mismatch {
    std::string type, variant, bits;
    unsigned got, expected;
  };
  struct Report {
    std::mutex mtx;
    std::uint64_t evaluations = 0, nontrivial = 0, mismatches = 0, oracle_disagreements = 0;
    std::uint64_t cls[3][5] = {};       // [type][FP_* class], loop variant only (patterns)
    std::uint64_t lkinds[L_NKINDS] = {};
    std::uint64_t byVariant[3] = {};    // loop, call, constexpr
    std::vector<Mismatch> first;        // first mismatches (tested code vs oracle)
    std::vector<Mismatch> firstOracle;  // first oracle disagreements
    void mismatch(const char* type, const char* variant, const std::string& bits, unsigned got,
                  unsigned expected) {
      std::lock_guard<std::mutex> l(mtx);
      ++mismatches;
      if (first.size() < 8) first.push_back({type, variant, bits, got, expected});
    }
    void oracle(const char* type, const std::string& bits, unsigned a, unsigned b) {
      std::lock_guard<std::mutex> l(mtx);
      ++oracle_disagreements;
      if (firstOracle.size() < 8) firstOracle.push_back({type, "glibc", bits, b, a});
    }
  };
  Report rep;

  std::string hexF(std::uint32_t b) {
    char s[32];
    std::snprintf(s, sizeof s, "0x%08" PRIx32, b);
    return s;
  }
  std::string hexD(std::uint64_t b) {
    char s[32];
    std::snprintf(s, sizeof s, "0x%016" PRIx64, b);
    return s;
  }
  std::string hexL(const LBits& b) {
    char s[48];
    std::snprintf(s, sizeof s, "0x%04x:0x%016" PRIx64, static_cast<unsigned>(b.se), b.m);
    return s;
  }

  struct Local {
    std::uint64_t evaluations = 0, nontrivial = 0;
    std::uint64_t cls[3][5] = {};
    std::uint64_t lkinds[L_NKINDS] = {};
    std::uint64_t byVariant[3] = {};
    void flush() {
      std::lock_guard<std::mutex> l(rep.mtx);
      rep.evaluations += evaluations;
      rep.nontrivial += nontrivial;
      for (int t = 0; t < 3; ++t)
        for (int k = 0; k < 5; ++k) rep.cls[t][k] += cls[t][k];
      for (int k = 0; k < L_NKINDS; ++k) rep.lkinds[k] += lkinds[k];
      for (int k = 0; k < 3; ++k) rep.byVariant[k] += byVariant[k];
    }
  };

  // ---- checking blocks of patterns
  constexpr std::size_t BLOCK = 4096;

  void checkF(Local& lc, const std::uint32_t* bits, std::size_t n, bool loop, bool call, bool glibc) {
    float x[BLOCK];
    std::uint8_t got[BLOCK], exp[BLOCK];
    std::memcpy(x, bits, n * sizeof(float));
    std::uint64_t nn = 0;  // patterns that are not FP_NORMAL
    for (std::size_t i = 0; i != n; ++i) {
      const int c = decodeF(bits[i]);
      exp[i] = codeOf(c);
      ++lc.cls[0][c];
      nn += (c != K_NORMAL);
    }
    if (glibc) {
      for (std::size_t i = 0; i != n; ++i) {
        const int c = g_clsf(x[i]);
        const unsigned b = static_cast<unsigned>(c) | ((g_nanf(x[i]) ? 1u : 0u) << 4) |
                           ((g_finf(x[i]) ? 1u : 0u) << 5);
        if (b != exp[i]) rep.oracle("float", hexF(bits[i]), exp[i], b);
      }
    }
    if (loop) {
      c16_loop_f(x, n, got);
      if (std::memcmp(got, exp, n) != 0)
        for (std::size_t i = 0; i != n; ++i)
          if (got[i] != exp[i]) rep.mismatch("float", "loop", hexF(bits[i]), got[i], exp[i]);
      lc.evaluations += n;
      lc.nontrivial += nn;
      lc.byVariant[0] += n;
    }
    if (call) {
      for (std::size_t i = 0; i != n; ++i) {
        const std::uint8_t g = c16_call_f(x[i]);
        if (g != exp[i]) rep.mismatch("float", "call", hexF(bits[i]), g, exp[i]);
      }
      lc.evaluations += n;
      lc.nontrivial += nn;
      lc.byVariant[1] += n;
    }
  }

  void checkD(Local& lc, const std::uint64_t* bits, std::size_t n) {
    double x[BLOCK];
    std::uint8_t got[BLOCK], exp[BLOCK];
    std::memcpy(x, bits, n * sizeof(double));
    for (std::size_t i = 0; i != n; ++i) {
      const int c = decodeD(bits[i]);
      exp[i] = codeOf(c);
      ++lc.cls[1][c];
      lc.nontrivial += 2 * (c != K_NORMAL);
      const unsigned b = static_cast<unsigned>(g_cls(x[i])) | ((g_nan(x[i]) ? 1u : 0u) << 4) |
                         ((g_fin(x[i]) ? 1u : 0u) << 5);
      if (b != exp[i]) rep.oracle("double", hexD(bits[i]), exp[i], b);
    }
    c16_loop_d(x, n, got);
    for (std::size_t i = 0; i != n; ++i) {
      if (got[i] != exp[i]) rep.mismatch("double", "loop", hexD(bits[i]), got[i], exp[i]);
      const std::uint8_t g = c16_call_d(x[i]);
      if (g != exp[i]) rep.mismatch("double", "call", hexD(bits[i]), g, exp[i]);
    }
    lc.evaluations += 2 * n;
    lc.byVariant[0] += n;
    lc.byVariant[1] += n;
  }

  void checkL(Local& lc, const LBits* bits, std::size_t n) {
    static thread_local long double x[BLOCK];
    std::uint8_t got[BLOCK], exp[BLOCK];
    for (std::size_t i = 0; i != n; ++i) {
      x[i] = makeL(bits[i]);
      const int c = decodeL(bits[i]);
      exp[i] = codeOf(c);
      ++lc.cls[2][c];
      ++lc.lkinds[kindL(bits[i])];
      lc.nontrivial += 2 * (c != K_NORMAL || kindL(bits[i]) != L_NORMAL);
      // glibc 2.36: __fpclassifyl and __isnanl treat the unsupported encodings as
      // NaN, but __finitel only looks at the exponent and still answers "finite"
      // for unnormals (probed).  TFEL documents isfinite as "normal, subnormal or
      // zero, but not infinite or NaN", i.e. derived from the class, which is what
      // the oracle demands; __finitel is therefore not consulted for unnormals.
      const bool fin = kindL(bits[i]) == L_UNNORMAL ? false : g_finl(x[i]) != 0;
      const unsigned b = static_cast<unsigned>(g_clsl(x[i])) | ((g_nanl(x[i]) ? 1u : 0u) << 4) |
                         ((fin ? 1u : 0u) << 5);
      if (b != exp[i]) rep.oracle("long double", hexL(bits[i]), exp[i], b);
    }
    c16_loop_l(x, n, got);
    for (std::size_t i = 0; i != n; ++i) {
      if (got[i] != exp[i]) rep.mismatch("long double", "loop", hexL(bits[i]), got[i], exp[i]);
      const std::uint8_t g = c16_call_l(x[i]);
      if (g != exp[i]) rep.mismatch("long double", "call", hexL(bits[i]), g, exp[i]);
    }
    lc.evaluations += 2 * n;
    lc.byVariant[0] += n;
    lc.byVariant[1] += n;
  }

  // splitmix64: the random part of the stratified sets (seeded, reproducible)
  struct Rng {
    std::uint64_t s;
    std::uint64_t next() {
      std::uint64_t z = (s += 0x9e3779b97f4a7c15ull);
      z = (z ^ (z >> 30)) * 0xbf58476d1ce4e5b9ull;
      z = (z ^ (z >> 27)) * 0x94d049bb133111ebull;
      return z ^ (z >> 31);
    }
  };

  template <typename F>
  void parallelRange(std::uint64_t first, std::uint64_t count, unsigned threads, F f) {
    std::atomic<std::uint64_t> nextChunk{0};
    const std::uint64_t chunk = std::uint64_t(1) << 20;
    const std::uint64_t nchunks = (count + chunk - 1) / chunk;
    std::vector<std::thread> th;
    for (unsigned t = 0; t < threads; ++t) {
      th.emplace_back([&]() {
        Local lc;
        for (;;) {
          const std::uint64_t k = nextChunk.fetch_add(1);
          if (k >= nchunks) break;
          const std::uint64_t b = first + k * chunk;
          const std::uint64_t e = std::min(first + count, b + chunk);
          f(lc, b, e);
        }
        lc.flush();
      });
    }
    for (auto& t : th) t.join();
  }

  void floatRange(std::uint64_t first, std::uint64_t count, unsigned threads, bool loop, bool call,
                  bool glibc) {
    parallelRange(first, count, threads, [=](Local& lc, std::uint64_t b, std::uint64_t e) {
      std::uint32_t bits[BLOCK];
      while (b < e) {
        const std::size_t n = static_cast<std::size_t>(std::min<std::uint64_t>(BLOCK, e - b));
        for (std::size_t i = 0; i != n; ++i) bits[i] = static_cast<std::uint32_t>(b + i);
        checkF(lc, bits, n, loop, call, glibc);
        b += n;
      }
    });
  }

  template <typename B, typename Check>
  void runBlocks(const std::vector<B>& v, unsigned threads, Check check) {
    std::atomic<std::size_t> nextBlock{0};
    const std::size_t nblocks = (v.size() + BLOCK - 1) / BLOCK;
    std::vector<std::thread> th;
    for (unsigned t = 0; t < threads; ++t) {
      th.emplace_back([&]() {
        Local lc;
        for (;;) {
          const std::size_t k = nextBlock.fetch_add(1);
          if (k >= nblocks) break;
          const std::size_t b = k * BLOCK, e = std::min(v.size(), b + BLOCK);
          check(lc, v.data() + b, e - b);
        }
        lc.flush();
      });
    }
    for (auto& t : th) t.join();
  }

  // constant evaluation by the front-end of the tested TU's compiler
  void constantEvaluation() {
      Local lc;
      float vf[32];
      double vd[32];
      std::uint8_t c[32];
      int n = c16_constexpr_f(vf, c);
      for (int i = 0; i < n; ++i) {
        std::uint32_t b;
        std::memcpy(&b, &vf[i], 4);
        const std::uint8_t e = codeOf(decodeF(b));
        if (c[i] != e) rep.mismatch("float", "constexpr", hexF(b), c[i], e);
        lc.nontrivial += (decodeF(b) != K_NORMAL);
      }
      lc.evaluations += n;
      lc.byVariant[2] += n;
      n = c16_constexpr_d(vd, c);
      for (int i = 0; i < n; ++i) {
        std::uint64_t b;
        std::memcpy(&b, &vd[i], 8);
        const std::uint8_t e = codeOf(decodeD(b));
        if (c[i] != e) rep.mismatch("double", "constexpr", hexD(b), c[i], e);
        lc.nontrivial += (decodeD(b) != K_NORMAL);
      }
      lc.evaluations += n;
      lc.byVariant[2] += n;
      lc.flush();
    }

  void stratified(unsigned threads, std::uint64_t seed, std::uint64_t nrandom) {
    Rng rng{seed * 0x2545f4914f6cdd1dull + 12345};
    // float: every exponent x both signs x structured + 64 random mantissas
    {
      std::vector<std::uint32_t> v;
      for (std::uint32_t s = 0; s < 2; ++s)
        for (std::uint32_t e = 0; e < 256; ++e) {
          std::vector<std::uint32_t> ms = {0u, 1u, 0x7fffffu, 0x400000u};
          for (int k = 0; k < 23; ++k) ms.push_back(1u << k);
          for (int k = 0; k < 64; ++k) ms.push_back(static_cast<std::uint32_t>(rng.next()) & 0x7fffffu);
          for (auto m : ms) v.push_back((s << 31) | (e << 23) | m);
        }
      for (std::uint64_t k = 0; k < nrandom; ++k) v.push_back(static_cast<std::uint32_t>(rng.next()));
      runBlocks(v, threads, [](Local& lc, const std::uint32_t* b, std::size_t n) {
        checkF(lc, b, n, true, true, true);
      });
    }
    // double: every exponent (2048) x signs x {0,1,all ones, single bits, 64 random}
    {
      std::vector<std::uint64_t> v;
      const std::uint64_t M = (std::uint64_t(1) << 52) - 1;
      for (std::uint64_t s = 0; s < 2; ++s)
        for (std::uint64_t e = 0; e < 2048; ++e) {
          std::vector<std::uint64_t> ms = {0u, 1u, M};
          for (int k = 0; k < 52; ++k) ms.push_back(std::uint64_t(1) << k);
          for (int k = 0; k < 64; ++k) ms.push_back(rng.next() & M);
          for (auto m : ms) v.push_back((s << 63) | (e << 52) | m);
        }
      for (std::uint64_t k = 0; k < nrandom; ++k) v.push_back(rng.next());
      // random patterns concentrated on the two special exponents
      for (std::uint64_t k = 0; k < nrandom / 4; ++k) {
        const std::uint64_t r = rng.next();
        v.push_back((r & ~(std::uint64_t(0x7ff) << 52)) | ((r & 1) ? (std::uint64_t(0x7ff) << 52) : 0));
      }
      runBlocks(v, threads, [](Local& lc, const std::uint64_t* b, std::size_t n) { checkD(lc, b, n); });
    }
    // x87 long double: every exponent (32768) x integer bit x signs x
    // {0,1,all ones, top fraction bit, 32 random} (+ single bits on the special exponents)
    {
      std::vector<LBits> v;
      const std::uint64_t F = (std::uint64_t(1) << 63) - 1;
      for (unsigned s = 0; s < 2; ++s)
        for (unsigned e = 0; e < 32768; ++e)
          for (std::uint64_t J = 0; J < 2; ++J) {
            std::vector<std::uint64_t> fs = {0u, 1u, F, std::uint64_t(1) << 62};
            for (int k = 0; k < 32; ++k) fs.push_back(rng.next() & F);
            if (e < 2 || e >= 0x7ffe || e == 0x3fff)
              for (int k = 0; k < 63; ++k) fs.push_back(std::uint64_t(1) << k);
            for (auto f : fs)
              v.push_back(LBits{(J << 63) | f, static_cast<std::uint16_t>((s << 15) | e)});
          }
      for (std::uint64_t k = 0; k < nrandom; ++k) {
        const std::uint64_t a = rng.next(), b = rng.next();
        std::uint16_t se = static_cast<std::uint16_t>(b);
        if ((b >> 16) % 4 == 0) se = static_cast<std::uint16_t>((se & 0x8000u) | ((b >> 20) & 1 ? 0x7fffu : 0u));
        v.push_back(LBits{a, se});
      }
      runBlocks(v, threads, [](Local& lc, const LBits* b, std::size_t n) { checkL(lc, b, n); });
    }
    constantEvaluation();
  }

  void printMismatches(const char* name, const std::vector<Mismatch>& v) {
    std::printf("\"%s\":[", name);
    for (std::size_t i = 0; i < v.size(); ++i)
      std::printf("%s{\"type\":\"%s\",\"variant\":\"%s\",\"bits\":\"%s\",\"got\":%u,\"expected\":%u}",
                  i ? "," : "", v[i].type.c_str(), v[i].variant.c_str(), v[i].bits.c_str(), v[i].got,
                  v[i].expected);
    std::printf("]");
  }

  void print() {
    const char* tn[3] = {"float", "double", "ldouble"};
    const char* cn[5] = {nullptr, nullptr, nullptr, nullptr, nullptr};
    cn[K_NAN] = "nan";
    cn[K_INF] = "inf";
    cn[K_ZERO] = "zero";
    cn[K_SUB] = "subnormal";
    cn[K_NORMAL] = "normal";
    std::printf("{\"flagset\":\"%s\",\"evaluations\":%" PRIu64 ",\"nontrivial\":%" PRIu64
                ",\"mismatches\":%" PRIu64 ",\"oracle_disagreements\":%" PRIu64 ",",
                c16_flagset(), rep.evaluations, rep.nontrivial, rep.mismatches, rep.oracle_disagreements);
    std::printf("\"variants\":{\"loop\":%" PRIu64 ",\"call\":%" PRIu64 ",\"constexpr\":%" PRIu64 "},",
                rep.byVariant[0], rep.byVariant[1], rep.byVariant[2]);
    std::printf("\"classes\":{");
    bool first = true;
    for (int t = 0; t < 3; ++t)
      for (int k = 0; k < 5; ++k) {
        if (!rep.cls[t][k]) continue;
        std::printf("%s\"%s.%s\":%" PRIu64, first ? "" : ",", tn[t], cn[k], rep.cls[t][k]);
        first = false;
      }
    for (int k = 0; k < L_NKINDS; ++k) {
      if (!rep.lkinds[k]) continue;
      std::printf("%s\"x87.%s\":%" PRIu64, first ? "" : ",", lkindNames[k], rep.lkinds[k]);
      first = false;
    }
    std::printf("},");
    printMismatches("first_mismatches", rep.first);
    std::printf(",");
    printMismatches("first_oracle_disagreements", rep.firstOracle);
    std::printf("}\n");
  }

}  // namespace

int main(int argc, char** argv) {
  static_assert(sizeof(long double) == 16 && sizeof(float) == 4 && sizeof(double) == 8, "x86-64 layout expected");
  if (argc < 2) return 2;
  const std::string mode = argv[1];
  auto arg = [&](int i, std::uint64_t d) {
    return argc > i ? std::strtoull(argv[i], nullptr, 0) : d;
  };
  if (mode == "float-full") {
    floatRange(0, std::uint64_t(1) << 32, static_cast<unsigned>(arg(2, 4)), true, false, arg(4, 1) != 0);
  } else if (mode == "float-call") {
    floatRange(arg(4, 0), arg(5, 1u << 24), static_cast<unsigned>(arg(2, 4)), false, true, false);
  } else if (mode == "strat") {
    stratified(static_cast<unsigned>(arg(2, 4)), arg(3, 1), arg(4, 100000));
  } else if (mode == "constexpr") {
    constantEvaluation();
  } else if (mode == "single" && argc >= 4) {
    Local lc;
    const std::string t = argv[2];
    if (t == "f") {
      const std::uint32_t b = static_cast<std::uint32_t>(std::strtoull(argv[3], nullptr, 16));
      checkF(lc, &b, 1, true, true, true);
    } else if (t == "d") {
      const std::uint64_t b = std::strtoull(argv[3], nullptr, 16);
      checkD(lc, &b, 1);
    } else {
      const std::string s = argv[3];
      const auto p = s.find(':');
      LBits b{std::strtoull(s.substr(p + 1).c_str(), nullptr, 16),
              static_cast<std::uint16_t>(std::strtoul(s.substr(0, p).c_str(), nullptr, 16))};
      checkL(lc, &b, 1);
    }
    lc.flush();
  } else {
    return 2;
  }
  print();
  return rep.mismatches ? 1 : (rep.oracle_disagreements ? 3 : 0);
}
