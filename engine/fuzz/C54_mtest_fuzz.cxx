/*!
 * \file C54_mtest_fuzz.cxx
 * \brief libFuzzer target of property C54: mtest never crashes on a .mtest /
 * .ptest input file.
 *
 * The bytes are written to <scratch>/fz.mtest (or fz.ptest), then the target
 * does what mtest/src/MTestMain.cxx does for a standard input file:
 * `MTest::readInputFile` (MTestParser) or `PipeTestParser().execute`, the
 * default output file name (`fz.res`), then `execute()` -- when parsing
 * succeeded and the requested amount of work is small (<= 60 times, default
 * or small numbers of sub steps / iterations / elements), so that a legitimate
 * long computation is not mistaken for a hang.  The scheme is `ptest` when the
 * input holds one of the pipe specific keywords (the real executable selects
 * it from the `.ptest` extension; engine/gen/C54_fuzz.py names the file by the
 * same rule).
 *
 * std::exception = clean rejection (mtest's main lets it reach std::terminate,
 * which prints what() and aborts: the documented error path under libstdc++).
 *
 * Environment: VERIF_WORK, VERIF_FUZZ_KEYWORDS, VERIF_FUZZ_KNOWN,
 * VERIF_FUZZ_LIBDIR (directory of the behaviour libraries libC54_<Name>.so the
 * seeds point to: the only shared libraries an input may name),
 * VERIF_FUZZ_PARSE_ONLY=1 (never execute: used by engine B to tell a hang of
 * the parser from a long computation).
 */
#include <unistd.h>
#include <sys/stat.h>
#include <ftw.h>
#include <cfenv>
#include <cstdio>
#include <cstdlib>
#include <cstring>
#include <fstream>
#include <iostream>
#include <map>
#include <memory>
#include <string>
#include <vector>

#include "MFront/MFrontLogStream.hxx"
#include "MTest/MTest.hxx"
#include "MTest/PipeTest.hxx"
#include "MTest/MTestParser.hxx"
#include "MTest/PipeTestParser.hxx"

#include "fuzzstats.hxx"
#include "C35_grammar_mutator.hxx"
#include "C35_known.hxx"

VERIF_GRAMMAR_MUTATOR()

namespace {

  struct NullBuf : std::streambuf {
    int overflow(int c) override { return c; }
    std::streamsize xsputn(const char*, std::streamsize n) override { return n; }
  };

  struct Global {
    std::string dir;
    std::string libdir;
    NullBuf nullbuf;
    std::ostream null{&nullbuf};
    bool parseOnly = false;
  };

  Global& G() {
    static Global g;
    return g;
  }

  std::uint64_t fnv(const std::uint8_t* d, const std::size_t n) {
    std::uint64_t h = 1469598103934665603ull;
    for (std::size_t i = 0; i != n; ++i) {
      h ^= d[i];
      h *= 1099511628211ull;
    }
    return h;
  }

  bool smallWork(const mtest::SolverOptions& o, const std::size_t nt) {
    return (nt <= 60) && (o.mSubSteps == -1 || (o.mSubSteps >= 0 && o.mSubSteps <= 20)) &&
           (o.iterMax == -1 || (o.iterMax >= 0 && o.iterMax <= 200));
  }

  struct FzMTest final : mtest::MTest {
    bool loaded() const { return this->b != nullptr; }
    bool small() const { return smallWork(this->options, this->times.size()); }
  };

  struct FzPipeTest final : mtest::PipeTest {
    bool loaded() const { return this->b != nullptr; }
    bool small() const {
      return smallWork(this->options, this->times.size()) && (this->getMesh().number_of_elements <= 40);
    }
  };

  int rmEntry(const char* p, const struct stat*, int, struct FTW* f) { return f->level == 0 ? 0 : ::remove(p); }

  //! remove the content of the scratch directory (which is the current directory)
  void cleanScratch(const std::string& d) { ::nftw(d.c_str(), rmEntry, 16, FTW_DEPTH | FTW_PHYS); }

  template <typename Scheme, typename Parse>
  void treat(fuzzstats::Scope& sc, const std::string& n, Parse parse) {
    auto& g = G();
    Scheme t;
    int phase = 0;
    try {
      parse(t);
      phase = 1;
      sc.tag("outcome.parsed");
      if (t.loaded()) sc.nontrivial();
      if (!t.isOutputFileNameDefined()) t.setOutputFileName(n + ".res");
      if (g.parseOnly) return;
      if (!t.small()) {
        sc.tag("outcome.parsed_not_executed_large");
        return;
      }
      const auto r = t.execute();
      sc.tag(r.success() ? "outcome.executed_success" : "outcome.executed_failure");
    } catch (std::exception&) {
      if (t.loaded()) sc.nontrivial();
      sc.tag(phase == 0 ? (t.loaded() ? "outcome.rejected_parsing_after_behaviour" : "outcome.rejected_parsing")
                        : "outcome.rejected_execution");
    }
  }

}  // namespace

extern "C" int LLVMFuzzerInitialize(int*, char***) {
  auto& g = G();
  const char* w = std::getenv("VERIF_WORK");
  const std::string root = (w != nullptr) ? w : "/dev/shm";
  g.dir = root + "/c54-scratch-" + std::to_string(::getpid());
  ::mkdir(g.dir.c_str(), 0755);
  g.dir += "/w";
  ::mkdir(g.dir.c_str(), 0755);
  if (::chdir(g.dir.c_str()) != 0) {
    std::fprintf(stderr, "C54 target: can't chdir to %s\n", g.dir.c_str());
    std::exit(3);
  }
  if (const char* l = std::getenv("VERIF_FUZZ_LIBDIR")) g.libdir = l;
  g.parseOnly = std::getenv("VERIF_FUZZ_PARSE_ONLY") != nullptr;
  std::cout.rdbuf(&g.nullbuf);
  std::cerr.rdbuf(&g.nullbuf);
  std::clog.rdbuf(&g.nullbuf);
  return 0;
}

extern "C" int LLVMFuzzerTestOneInput(const std::uint8_t* data, std::size_t size) {
  auto& g = G();
  fuzzstats::Scope sc(data, size);
  const std::string text(reinterpret_cast<const char*>(data), size);
  if (c35::outsideDomain(text, g.libdir.empty() ? std::string() : g.libdir + "/libC54_")) {
    sc.tag("excluded_domain.path");
    return 0;
  }
  if (c54::hugeSubdivision(text)) {
    sc.tag("excluded_domain.huge_subdivision");
    return 0;
  }
  if (const char* k = c54::knownClass(text)) {
    if (c35::isActive(k)) {
      sc.tag((std::string("excluded_known.") + k).c_str());
      return 0;
    }
  }
  const auto h = fnv(data, size);
  // ---- reset of the global state
  mfront::setVerboseMode(mfront::VERBOSE_QUIET);
  mfront::setLogStream(g.null);
  std::fesetround(FE_TONEAREST);
  std::feclearexcept(FE_ALL_EXCEPT);
  static unsigned int niter = 0;
  if (++niter % 64 == 0) {
    cleanScratch(g.dir);
  }
  const bool ptest = c54::isPipeTest(text);
  static_cast<void>(h);
  const auto file = g.dir + (ptest ? "/fz.ptest" : "/fz.mtest");
  {
    std::ofstream f(file, std::ios::binary | std::ios::trunc);
    f.write(text.data(), static_cast<std::streamsize>(text.size()));
  }
  if (ptest) {
    sc.tag("scheme.ptest");
    treat<FzPipeTest>(sc, "fz", [&file](FzPipeTest& t) { mtest::PipeTestParser().execute(t, file, {}, {}); });
  } else {
    sc.tag("scheme.mtest");
    treat<FzMTest>(sc, "fz", [&file](FzMTest& t) { t.readInputFile(file, {}, {}); });
  }
  return 0;
}
