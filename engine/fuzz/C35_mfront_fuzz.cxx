/*!
 * \file C35_mfront_fuzz.cxx
 * \brief libFuzzer target of property C35: mfront (every interface compiled
 * in) and mfront-query never crash on any input file.
 *
 * The bytes are written to <scratch>/fz<pid>.mfront, then the target does what
 * `MFront::treatFile` (mfront/src/MFront.cxx) does -- MFrontBase::getDSL,
 * setInterfaces, analyseFile, generateOutputFiles (into <scratch>/src,
 * <scratch>/include) -- or what mfront-query's main does (getDSL, then
 * {Behaviour,MaterialProperty,Model}Query(argc, argv, dsl, file).exe(), the
 * query classes being linked from the object files of the asan tree).
 * Which of the two, which interface / query bundle and which flags
 * (--pedantic, --debug, --verbose=debug) is derived from a hash of the input,
 * so that an input is a plain .mfront file and its own replay.
 *
 * std::exception = clean rejection (mfront's main reports what() and exits 1,
 * mfront-query's main lets it reach std::terminate under libstdc++, which
 * prints what() and aborts: both are "reports an error with a non-zero exit
 * status").  Everything else (ASan/UBSan report, assert, signal, hang) makes
 * libFuzzer save the input; engine/gen/C35_fuzz.py then confirms it on the
 * real executables.
 *
 * Environment: VERIF_WORK (scratch root), VERIF_FUZZ_KEYWORDS (dictionary of
 * the mutator), VERIF_FUZZ_QUERIES (query bundles: "<b|mp|m> arg arg ..."),
 * VERIF_FUZZ_KNOWN (comma separated keys of the known findings whose input
 * class is skipped; the py unit passes the keys listed as "known").
 */
#include <unistd.h>
#include <sys/stat.h>
#include <ftw.h>
#include <cstdio>
#include <cstdlib>
#include <cstring>
#include <fstream>
#include <iostream>
#include <map>
#include <memory>
#include <set>
#include <sstream>
#include <string>
#include <vector>

#include "MFront/InitDSLs.hxx"
#include "MFront/InitInterfaces.hxx"
#include "MFront/MFrontBase.hxx"
#include "MFront/AbstractDSL.hxx"
#include "MFront/MaterialPropertyDSL.hxx"
#include "MFront/AbstractBehaviourDSL.hxx"
#include "MFront/ModelDSL.hxx"
#include "MFront/MFrontLogStream.hxx"
#include "MFront/PedanticMode.hxx"
#include "MFront/MFrontDebugMode.hxx"
#include "MFront/MFrontWarningMode.hxx"
#include "MFront/SearchPathsHandler.hxx"
#include "MFront/BehaviourInterfaceFactory.hxx"
#include "MFront/MaterialPropertyInterfaceFactory.hxx"
#include "MFront/ModelInterfaceFactory.hxx"
#include "MFront/MaterialPropertyQuery.hxx"
#include "MFront/BehaviourQuery.hxx"
#include "MFront/ModelQuery.hxx"

#include "fuzzstats.hxx"
#include "C35_grammar_mutator.hxx"
#include "C35_known.hxx"

VERIF_GRAMMAR_MUTATOR()

namespace {

  struct NullBuf : std::streambuf {
    int overflow(int c) override { return c; }
    std::streamsize xsputn(const char*, std::streamsize n) override { return n; }
  };

  struct Global {
    std::string dir;
    std::string file;
    std::vector<std::string> bi, mpi, mi;  // interfaces
    std::map<std::string, std::vector<std::vector<std::string>>> queries;
    NullBuf nullbuf;
    std::ostream null{&nullbuf};
  };

  Global& G() {
    static Global g;
    return g;
  }

  std::uint64_t fnv(const std::uint8_t* d, const std::size_t n) {
    std::uint64_t h = 1469598103934665603ull;
    for (std::size_t i = 0; i != n; ++i) {
      h ^= d[i];
      h *= 1099511628211ull;
    }
    return h;
  }

  int rmEntry(const char* p, const struct stat*, int, struct FTW*) { return ::remove(p); }

  void rmTree(const std::string& d) {
    // generated files only live in src/ and include/ (and sub directories)
    for (const char* sub : {"/src", "/include"}) {
      ::nftw((d + sub).c_str(), rmEntry, 16, FTW_DEPTH | FTW_PHYS);
    }
  }

  //! number of `@Keyword` occurrences at the beginning of a statement located on a line < l
  std::size_t keywordsBefore(const std::string& s, const long l) {
    std::size_t n = 0;
    for (const auto& st : gmut::statements(s)) {
      auto i = st.first;
      while (i < st.second && std::isspace(static_cast<unsigned char>(s[i]))) ++i;
      if (i < st.second && s[i] == '@') {
        long line = 1;
        for (std::size_t k = 0; k != i; ++k) line += s[k] == '\n';
        if (l < 0 || line < l) ++n;
      }
    }
    return n;
  }

  long errorLine(const std::string& w) {
    const auto p = w.find("at line '");
    if (p == std::string::npos) return 0;
    return std::atol(w.c_str() + p + 9);
  }

}  // namespace

extern "C" int LLVMFuzzerInitialize(int*, char***) {
  auto& g = G();
  const char* w = std::getenv("VERIF_WORK");
  std::string root = (w != nullptr) ? w : "/dev/shm";
  g.dir = root + "/c35-scratch-" + std::to_string(::getpid());
  ::mkdir(g.dir.c_str(), 0755);
  if (::chdir(g.dir.c_str()) != 0) {
    std::fprintf(stderr, "C35 target: can't chdir to %s\n", g.dir.c_str());
    std::exit(3);
  }
  g.file = g.dir + "/fz.mfront";
  mfront::initDSLs();
  mfront::initInterfaces();
  g.bi = mfront::BehaviourInterfaceFactory::getBehaviourInterfaceFactory().getRegistredInterfaces();
  g.mpi = mfront::MaterialPropertyInterfaceFactory::getMaterialPropertyInterfaceFactory().getRegistredInterfaces();
  g.mi = mfront::ModelInterfaceFactory::getModelInterfaceFactory().getRegistredInterfaces();
  if (const char* q = std::getenv("VERIF_FUZZ_QUERIES")) {
    std::ifstream f(q);
    std::string l;
    while (std::getline(f, l)) {
      std::istringstream is(l);
      std::string t, a;
      is >> t;
      std::vector<std::string> args;
      while (is >> a) args.push_back(a);
      if (!args.empty()) g.queries[t].push_back(args);
    }
  }
  if (g.queries["b"].empty()) g.queries["b"] = {{"--material-properties", "--state-variables", "--parameters"}};
  if (g.queries["mp"].empty()) g.queries["mp"] = {{"--law-name", "--inputs", "--parameters"}};
  if (g.queries["m"].empty()) g.queries["m"] = {{"--model-name", "--outputs", "--parameters"}};
  std::cout.rdbuf(&g.nullbuf);
  std::cerr.rdbuf(&g.nullbuf);
  std::clog.rdbuf(&g.nullbuf);
  return 0;
}

extern "C" int LLVMFuzzerTestOneInput(const std::uint8_t* data, std::size_t size) {
  auto& g = G();
  fuzzstats::Scope sc(data, size);
  const std::string text(reinterpret_cast<const char*>(data), size);
  // ---- domain: an input file must not name devices / files outside the scratch directory
  if (c35::outsideDomain(text)) {
    sc.tag("excluded_domain.path");
    return 0;
  }
  // ---- known findings, excluded by construction (see findings/pending/C35.json)
  if (const char* k = c35::knownClass(text)) {
    if (c35::isActive(k)) {
      sc.tag((std::string("excluded_known.") + k).c_str());
      return 0;
    }
  }
  const auto h = fnv(data, size);
  // ---- reset of the global state
  mfront::setVerboseMode(((h >> 40) % 8 == 0) ? mfront::VERBOSE_DEBUG : mfront::VERBOSE_LEVEL1);
  mfront::setLogStream(g.null);
  mfront::setUnicodeOutputOption(false);
  mfront::setPedanticMode((h >> 44) % 8 == 1);
  mfront::setDebugMode((h >> 48) % 8 == 2);
  mfront::setWarningMode(true);
  mfront::setWarningErrorMode(false);
  mfront::setIgnoreSafeOptionForWarnings(false);
  mfront::SearchPathsHandler::resetPaths({});
  {
    std::ofstream f(g.file, std::ios::binary | std::ios::trunc);
    f.write(text.data(), static_cast<std::streamsize>(text.size()));
  }
  const bool query = (h % 3) == 0;
  int phase = 0;
  bool generated = false;
  try {
    auto dsl = mfront::MFrontBase::getDSL(g.file);
    phase = 1;
    const auto t = dsl->getTargetType();
    const char* tn = t == mfront::AbstractDSL::MATERIALPROPERTYDSL ? "mp" : (t == mfront::AbstractDSL::BEHAVIOURDSL ? "b" : "m");
    sc.tag(t == mfront::AbstractDSL::MATERIALPROPERTYDSL ? "dsl.material_property"
                                                          : (t == mfront::AbstractDSL::BEHAVIOURDSL ? "dsl.behaviour" : "dsl.model"));
    if (query) {
      sc.tag("path.query");
      mfront::setWarningMode(false);  // as mfront-query's main does
      const auto& bundles = g.queries[tn];
      const auto& b = bundles[(h >> 8) % bundles.size()];
      std::vector<const char*> argv = {"mfront-query"};
      for (const auto& a : b) argv.push_back(a.c_str());
      if (t == mfront::AbstractDSL::MATERIALPROPERTYDSL) {
        auto d = std::dynamic_pointer_cast<mfront::MaterialPropertyDSL>(dsl);
        if (d) {
          mfront::MaterialPropertyQuery q(static_cast<int>(argv.size()), argv.data(), d, g.file);
          q.exe();
        }
      } else if (t == mfront::AbstractDSL::BEHAVIOURDSL) {
        auto d = std::dynamic_pointer_cast<mfront::AbstractBehaviourDSL>(dsl);
        if (d) {
          mfront::BehaviourQuery q(static_cast<int>(argv.size()), argv.data(), d, g.file);
          q.exe();
        }
      } else {
        auto d = std::dynamic_pointer_cast<mfront::ModelDSL>(dsl);
        if (d) {
          mfront::ModelQuery q(static_cast<int>(argv.size()), argv.data(), d, g.file);
          q.exe();
        }
      }
      phase = 2;
    } else {
      sc.tag("path.mfront");
      const auto& is = t == mfront::AbstractDSL::MATERIALPROPERTYDSL ? g.mpi : (t == mfront::AbstractDSL::BEHAVIOURDSL ? g.bi : g.mi);
      if (!is.empty() && (h >> 8) % 16 != 0) {  // 1/16: no interface, as `mfront file`
        dsl->setInterfaces({is[(h >> 12) % is.size()]});
      }
      dsl->analyseFile(g.file, {}, {});
      phase = 2;
      dsl->generateOutputFiles();
      generated = true;
      static_cast<void>(dsl->getTargetsDescription());
    }
    sc.tag(query ? "outcome.query_ok" : "outcome.generated");
    if (keywordsBefore(text, -1) >= 4) sc.nontrivial();
  } catch (std::exception& e) {
    const std::string w = e.what();
    if (phase == 0) {
      sc.tag("outcome.rejected_dsl_selection");
    } else {
      const auto l = errorLine(w);
      // keywords located before the faulty line have been processed
      const auto n = (l > 0 && phase == 1) ? keywordsBefore(text, l) : keywordsBefore(text, -1);
      if (n >= 4) sc.nontrivial();
      sc.tag(phase == 1 ? "outcome.rejected_analysis" : "outcome.rejected_generation");
    }
  } catch (...) {
    // mfront's terminate handler prints "unknown exception thrown" and exits 1
    sc.tag("outcome.rejected_nonstd_exception");
  }
  static unsigned int niter = 0;
  if (++niter % 128 == 0) rmTree(g.dir);
  static_cast<void>(generated);
  return 0;
}
