/*!
 * \file C35_grammar_mutator.hxx
 * \brief grammar-aware libFuzzer mutator shared by the C35 (mfront /
 * mfront-query) and C54 (mtest) targets.
 *
 * An MFront / MTest input is a sequence of statements `@Keyword ... ;` or
 * `@Keyword ... { ... }`.  On top of libFuzzer's byte mutations
 * (LLVMFuzzerMutate) the mutator
 *   - deletes / duplicates / swaps whole statements,
 *   - deletes / duplicates an inner `{...}` block,
 *   - replaces a keyword by another one of the dictionary,
 *   - splices a statement of another corpus element (custom cross over),
 *   - truncates at a token boundary,
 *   - perturbs a number (0, negative, huge, nan, overflowing integers...),
 *   - replaces an identifier by another identifier of the same input.
 * The dictionary (one keyword per line) is read from $VERIF_FUZZ_KEYWORDS.
 *
 * engine/gen/C35_fuzz.py and C54_fuzz.py implement the same operators in
 * python for the out-of-process engine.
 */
#ifndef VERIF_C35_GRAMMAR_MUTATOR_HXX
#define VERIF_C35_GRAMMAR_MUTATOR_HXX

#include <cctype>
#include <cstdint>
#include <cstdlib>
#include <cstring>
#include <fstream>
#include <string>
#include <utility>
#include <vector>

extern "C" size_t LLVMFuzzerMutate(uint8_t* Data, size_t Size, size_t MaxSize);

namespace gmut {

  struct Rng {
    std::uint64_t s;
    explicit Rng(const unsigned int seed) : s(0x9E3779B97F4A7C15ull ^ (static_cast<std::uint64_t>(seed) * 0xBF58476D1CE4E5B9ull)) {}
    std::uint64_t next() {
      s ^= s << 13;
      s ^= s >> 7;
      s ^= s << 17;
      return s * 0x2545F4914F6CDD1Dull;
    }
    std::size_t below(const std::size_t n) { return n == 0 ? 0 : static_cast<std::size_t>(next() % n); }
  };

  using Span = std::pair<std::size_t, std::size_t>;  // [begin, end)

  inline const std::vector<std::string>& keywords() {
    static const std::vector<std::string> k = [] {
      std::vector<std::string> r;
      if (const char* p = std::getenv("VERIF_FUZZ_KEYWORDS")) {
        std::ifstream f(p);
        std::string l;
        while (std::getline(f, l)) {
          if (!l.empty()) r.push_back(l);
        }
      }
      if (r.empty()) {
        r = {"@DSL", "@Behaviour", "@Parameter", "@StateVariable", "@Integrator", "@Times", "@Real"};
      }
      return r;
    }();
    return k;
  }

  //! skip a comment or a string starting at i, returns the index after it (or i if none)
  inline std::size_t skipOpaque(const std::string& s, const std::size_t i) {
    const auto n = s.size();
    if (s[i] == '/' && i + 1 < n && s[i + 1] == '/') {
      auto j = i + 2;
      while (j < n && s[j] != '\n') ++j;
      return j;
    }
    if (s[i] == '/' && i + 1 < n && s[i + 1] == '*') {
      auto j = i + 2;
      while (j + 1 < n && !(s[j] == '*' && s[j + 1] == '/')) ++j;
      return j + 1 < n ? j + 2 : n;
    }
    if (s[i] == '"' || s[i] == '\'') {
      const char q = s[i];
      auto j = i + 1;
      while (j < n && s[j] != q && s[j] != '\n') {
        if (s[j] == '\\') ++j;
        ++j;
      }
      return j < n ? j + 1 : n;
    }
    return i;
  }

  //! top level statements
  inline std::vector<Span> statements(const std::string& s) {
    std::vector<Span> r;
    const auto n = s.size();
    std::size_t b = 0, i = 0;
    int depth = 0;
    while (i < n) {
      const auto j = skipOpaque(s, i);
      if (j != i) {
        i = j;
        continue;
      }
      const char c = s[i];
      if (c == '{') {
        ++depth;
      } else if (c == '}') {
        if (depth > 0) --depth;
        if (depth == 0) {
          auto k = i + 1;
          while (k < n && std::isspace(static_cast<unsigned char>(s[k]))) ++k;
          if (k < n && s[k] == ';') i = k;
          r.push_back({b, i + 1});
          b = i + 1;
        }
      } else if (c == ';' && depth == 0) {
        r.push_back({b, i + 1});
        b = i + 1;
      }
      ++i;
    }
    if (b < n) r.push_back({b, n});
    return r;
  }

  //! `{...}` blocks (all depths)
  inline std::vector<Span> blocks(const std::string& s) {
    std::vector<Span> r;
    std::vector<std::size_t> st;
    const auto n = s.size();
    std::size_t i = 0;
    while (i < n) {
      const auto j = skipOpaque(s, i);
      if (j != i) {
        i = j;
        continue;
      }
      if (s[i] == '{') {
        st.push_back(i);
      } else if (s[i] == '}' && !st.empty()) {
        r.push_back({st.back(), i + 1});
        st.pop_back();
      }
      ++i;
    }
    return r;
  }

  inline bool isIdChar(const char c) { return std::isalnum(static_cast<unsigned char>(c)) || c == '_'; }

  //! `@Keyword` occurrences
  inline std::vector<Span> keywordSpans(const std::string& s) {
    std::vector<Span> r;
    for (std::size_t i = 0; i < s.size(); ++i) {
      if (s[i] == '@') {
        auto j = i + 1;
        while (j < s.size() && isIdChar(s[j])) ++j;
        if (j > i + 1) r.push_back({i, j});
        i = j - 1 > i ? j - 1 : i;
      }
    }
    return r;
  }

  //! numeric literals
  inline std::vector<Span> numbers(const std::string& s) {
    std::vector<Span> r;
    const auto n = s.size();
    std::size_t i = 0;
    while (i < n) {
      const bool start = std::isdigit(static_cast<unsigned char>(s[i])) && (i == 0 || !isIdChar(s[i - 1]));
      if (!start) {
        ++i;
        continue;
      }
      auto j = i;
      while (j < n && (std::isdigit(static_cast<unsigned char>(s[j])) || s[j] == '.')) ++j;
      if (j < n && (s[j] == 'e' || s[j] == 'E')) {
        auto k = j + 1;
        if (k < n && (s[k] == '+' || s[k] == '-')) ++k;
        if (k < n && std::isdigit(static_cast<unsigned char>(s[k]))) {
          while (k < n && std::isdigit(static_cast<unsigned char>(s[k]))) ++k;
          j = k;
        }
      }
      r.push_back({i, j});
      i = j;
    }
    return r;
  }

  //! identifiers (not keywords)
  inline std::vector<Span> identifiers(const std::string& s) {
    std::vector<Span> r;
    const auto n = s.size();
    std::size_t i = 0;
    while (i < n) {
      if ((std::isalpha(static_cast<unsigned char>(s[i])) || s[i] == '_') && (i == 0 || (!isIdChar(s[i - 1]) && s[i - 1] != '@'))) {
        auto j = i;
        while (j < n && isIdChar(s[j])) ++j;
        r.push_back({i, j});
        i = j;
      } else {
        ++i;
      }
    }
    return r;
  }

  //! token boundaries: positions where a token ends
  inline std::vector<std::size_t> tokenBoundaries(const std::string& s) {
    std::vector<std::size_t> r;
    for (std::size_t i = 1; i < s.size(); ++i) {
      const bool a = isIdChar(s[i - 1]), b = isIdChar(s[i]);
      if (a != b || (!a && !std::isspace(static_cast<unsigned char>(s[i - 1])))) r.push_back(i);
    }
    return r;
  }

  inline const char* const* numberPool(std::size_t& n) {
    static const char* const p[] = {"0",          "-1",         "1",           "2",          "1e308",      "-1e308",
                                    "1e-320",     "nan",        "inf",         "-0.",        "4294967296", "2147483648",
                                    "-2147483649", "18446744073709551616", "65536", "1e",    "0x10",       "1000000",
                                    "0.5",        "1.e-30",     "99999999999999999999999999", "-"};
    n = sizeof(p) / sizeof(p[0]);
    return p;
  }

  //! one structural mutation; returns false if nothing could be done
  inline bool mutateOnce(std::string& s, Rng& g) {
    // 12 draws: 10 and 11 are the "cut a statement after its k-th token" variant of op 4, which aims at the
    // end-of-input checks of the token readers (the largest class of parser robustness defects)
    auto op = g.below(12);
    const bool prefixCut = (op >= 10) || (op == 4 && g.below(2));
    if (op >= 10) op = 4;
    if (op <= 2) {
      auto st = statements(s);
      if (st.size() < 2) return false;
      const auto a = st[g.below(st.size())];
      if (op == 0) {  // delete
        s.erase(a.first, a.second - a.first);
      } else if (op == 1) {  // duplicate somewhere
        const auto t = s.substr(a.first, a.second - a.first);
        const auto at = st[g.below(st.size())].second;
        s.insert(at, t);
      } else {  // swap
        const auto b = st[g.below(st.size())];
        if (a.first == b.first) return false;
        const auto& lo = a.first < b.first ? a : b;
        const auto& hi = a.first < b.first ? b : a;
        const auto tl = s.substr(lo.first, lo.second - lo.first);
        const auto th = s.substr(hi.first, hi.second - hi.first);
        s.replace(hi.first, hi.second - hi.first, tl);
        s.replace(lo.first, lo.second - lo.first, th);
      }
      return true;
    }
    if (op == 3) {  // keyword replacement
      auto ks = keywordSpans(s);
      if (ks.empty()) return false;
      const auto k = ks[g.below(ks.size())];
      const auto& d = keywords();
      s.replace(k.first, k.second - k.first, d[g.below(d.size())]);
      return true;
    }
    if (op == 4) {  // truncate at token boundary
      if (prefixCut) {
        // inside a statement, after its k-th token (k small): `@Keyword`, `@Keyword a`, `@Keyword a {`...
        // (aims at the end-of-file checks of the token readers)
        auto st = statements(s);
        if (st.empty()) return false;
        // 1/3: one of the header statements (@DSL, @Behaviour...)
        const auto x = g.below(3) == 0 ? st[g.below(std::min<std::size_t>(st.size(), 3))] : st[g.below(st.size())];
        const auto sub = s.substr(x.first, x.second - x.first);
        auto tb = tokenBoundaries(sub);
        // drop the boundaries located in the leading blanks
        std::vector<std::size_t> ok;
        for (const auto b : tb) {
          bool blank = true;
          for (std::size_t i = 0; i != b; ++i) blank = blank && std::isspace(static_cast<unsigned char>(sub[i]));
          if (!blank) ok.push_back(b);
        }
        if (ok.empty()) return false;
        const auto k = g.below(std::min<std::size_t>(ok.size(), 12));
        s.resize(x.first + ok[k]);
        return true;
      }
      auto tb = tokenBoundaries(s);
      if (tb.empty()) return false;
      // favour the tail: truncations near the end keep most of the file
      auto i = g.below(tb.size());
      if (g.below(2)) i = tb.size() - 1 - g.below(std::min<std::size_t>(tb.size(), 40));
      s.resize(tb[i]);
      return true;
    }
    if (op == 5 || op == 6) {  // number perturbation
      auto ns = numbers(s);
      if (ns.empty()) return false;
      const auto k = ns[g.below(ns.size())];
      std::size_t np;
      const auto* pool = numberPool(np);
      const auto c = g.below(np + 3);
      std::string v;
      if (c < np) {
        v = pool[c];
      } else if (c == np) {
        v = "-" + s.substr(k.first, k.second - k.first);
      } else if (c == np + 1) {
        v = s.substr(k.first, k.second - k.first) + "0000000000";
      } else {
        v = s.substr(k.first, k.second - k.first) + "e400";
      }
      s.replace(k.first, k.second - k.first, v);
      return true;
    }
    if (op == 7) {  // delete / duplicate / empty a block
      auto bs = blocks(s);
      if (bs.empty()) return false;
      const auto b = bs[g.below(bs.size())];
      const auto w = g.below(3);
      if (w == 0) {
        s.erase(b.first, b.second - b.first);
      } else if (w == 1) {
        s.insert(b.second, s.substr(b.first, b.second - b.first));
      } else {
        s.replace(b.first, b.second - b.first, "{}");
      }
      return true;
    }
    if (op == 8) {  // identifier confusion
      auto ids = identifiers(s);
      if (ids.size() < 2) return false;
      const auto a = ids[g.below(ids.size())];
      const auto b = ids[g.below(ids.size())];
      const auto t = s.substr(b.first, b.second - b.first);
      s.replace(a.first, a.second - a.first, t);
      return true;
    }
    // op == 9: insert a keyword statement skeleton at a statement boundary
    {
      auto st = statements(s);
      const auto at = st.empty() ? s.size() : st[g.below(st.size())].second;
      const auto& d = keywords();
      std::string t = "\n" + d[g.below(d.size())];
      switch (g.below(4)) {
        case 0:
          t += " x;";
          break;
        case 1:
          t += " 1;";
          break;
        case 2:
          t += "{}";
          break;
        default:
          t += ";";
      }
      s.insert(at, t);
      return true;
    }
  }

  inline std::size_t store(const std::string& s, std::uint8_t* data, const std::size_t maxSize) {
    const auto n = std::min(s.size(), maxSize);
    std::memcpy(data, s.data(), n);
    return n;
  }

  inline std::size_t mutate(std::uint8_t* data, const std::size_t size, const std::size_t maxSize, const unsigned int seed) {
    Rng g(seed);
    if (g.below(5) < 2) {  // 40 %: libFuzzer's byte level mutations (uses its dictionary)
      return LLVMFuzzerMutate(data, size, maxSize);
    }
    std::string s(reinterpret_cast<const char*>(data), size);
    const auto nops = 1 + g.below(3);
    bool done = false;
    for (std::size_t i = 0; i != nops; ++i) {
      for (int tries = 0; tries != 4; ++tries) {
        if (mutateOnce(s, g)) {
          done = true;
          break;
        }
      }
    }
    if (!done) return LLVMFuzzerMutate(data, size, maxSize);
    return store(s, data, maxSize);
  }

  inline std::size_t crossOver(const std::uint8_t* d1,
                               const std::size_t n1,
                               const std::uint8_t* d2,
                               const std::size_t n2,
                               std::uint8_t* out,
                               const std::size_t maxOut,
                               const unsigned int seed) {
    Rng g(seed);
    std::string a(reinterpret_cast<const char*>(d1), n1);
    const std::string b(reinterpret_cast<const char*>(d2), n2);
    const auto sa = statements(a);
    const auto sb = statements(b);
    if (sb.empty()) return store(a, out, maxOut);
    const auto nb = 1 + g.below(2);
    for (std::size_t i = 0; i != nb; ++i) {
      const auto x = sb[g.below(sb.size())];
      const auto t = b.substr(x.first, x.second - x.first);
      const auto st = statements(a);
      if (st.empty()) {
        a += t;
      } else if (g.below(4) == 0) {  // replace
        const auto y = st[g.below(st.size())];
        a.replace(y.first, y.second - y.first, t);
      } else {
        a.insert(st[g.below(st.size())].second, t);
      }
    }
    return store(a, out, maxOut);
  }

}  // end of namespace gmut

#define VERIF_GRAMMAR_MUTATOR()                                                                               \
  extern "C" size_t LLVMFuzzerCustomMutator(uint8_t* data, size_t size, size_t maxSize, unsigned int seed) {  \
    return gmut::mutate(data, size, maxSize, seed);                                                           \
  }                                                                                                           \
  extern "C" size_t LLVMFuzzerCustomCrossOver(const uint8_t* d1, size_t n1, const uint8_t* d2, size_t n2,     \
                                              uint8_t* out, size_t maxOut, unsigned int seed) {               \
    return gmut::crossOver(d1, n1, d2, n2, out, maxOut, seed);                                                \
  }

#endif /* VERIF_C35_GRAMMAR_MUTATOR_HXX */
