/*!
 * C13 engine B (rejection half): libFuzzer target on tfel::math::Evaluator.
 *
 * The input *is* the formula text (libFuzzer dictionary = the evaluator's alphabet, see
 * engine/gen/C13_fuzz.py).  Oracle, inside the target:
 *   1. the library either throws a std::exception or returns values: never a sanitizer
 *      report, an assert, a hang (libFuzzer -timeout);
 *   2. differential with a strict recursive-descent parser of our own (below) building the
 *      AST of engine/rc/evaluator_ast.hxx: when both accept and both evaluate, values agree
 *      within 1024 x (first order bound of a double evaluation);
 *   3. when the string is malformed by a lexical / bracketing criterion (unbalanced
 *      parentheses, empty group, binary operator at the end or directly followed by one of
 *      + * / **, character outside the alphabet, empty formula) the library must throw.
 * The strict parser only accepts what the documentation fixes (no chained **, no `a - -b`,
 * no bare `!`, no unparenthesised mix of && and ||, no diff()); everything else is "unknown":
 * no claim beyond 1.
 * Known finding excluded inside the target: `+` directly followed by `-` (double free in
 * TGroup::reduce, C13.plus_unary_minus.crash): such inputs are skipped and counted; inputs
 * holding `diff` are analysed and evaluated but neither copied nor differentiated
 * (C13.diff.copy.crash).  $VERIF_FUZZ_NO_EXCLUSION (set by the replay mode) disables both.
 */
#include <cstdint>
#include <cstring>
#include <functional>
#include <string>
#include <vector>

#include "fuzzstats.hxx"
#include "evaluator_ast.hxx"

#include "TFEL/PhysicalConstants.hxx"
#include "TFEL/Math/Evaluator.hxx"

using east::E;
using east::NP;
using east::R;

namespace {

  const std::vector<east::CstInfo>& constants() {
    using PC = tfel::PhysicalConstants<double>;
    static const std::vector<east::CstInfo> c = {{"AtomicMassConstant", PC::AtomicMassConstant},
                                                 {"mu", PC::mu},
                                                 {"AvogadroConstant", PC::AvogadroConstant},
                                                 {"Na", PC::Na},
                                                 {"BoltzmannConstant", PC::BoltzmannConstant},
                                                 {"kb", PC::kb},
                                                 {"ConductanceQuantum", PC::ConductanceQuantum},
                                                 {"G0", PC::G0},
                                                 {"ElectricConstant", PC::ElectricConstant},
                                                 {"e0", PC::e0},
                                                 {"ElectronMass", PC::ElectronMass},
                                                 {"me", PC::me},
                                                 {"ElectronVolt", PC::ElectronVolt},
                                                 {"eV", PC::eV},
                                                 {"ElementaryCharge", PC::ElementaryCharge},
                                                 {"e", PC::e},
                                                 {"FaradayConstant", PC::FaradayConstant},
                                                 {"F", PC::F},
                                                 {"FineStructureConstant", PC::FineStructureConstant},
                                                 {"a", PC::a},
                                                 {"MolarGasConstant", PC::MolarGasConstant},
                                                 {"R", PC::R},
                                                 {"StefanBoltzmannConstant", PC::StefanBoltzmannConstant},
                                                 {"s", PC::s}};
    return c;
  }

  const std::vector<std::string> VARS = {"x", "y", "z"};

  // ------------------------------------------------------------ strict lexer
  enum TK { NUM, ID, OP, LPAR, RPAR, COMMA, QUEST, COLON, CMP, AND, OR, NOT, ASSIGN, BAD, HIGH };
  struct Tok {
    TK k;
    std::string s;
  };
  //! false: a character that cannot start any token of the language
  void lex(const std::string& in, std::vector<Tok>& out) {
    std::size_t i = 0;
    const auto n = in.size();
    auto isd = [](const char c) { return c >= '0' && c <= '9'; };
    auto isa = [](const char c) { return (c >= 'a' && c <= 'z') || (c >= 'A' && c <= 'Z') || c == '_' || c == '$'; };
    while (i < n) {
      const char c = in[i];
      if (c == ' ' || c == '\t' || c == '\n' || c == '\r' || c == '\v' || c == '\f') {
        ++i;
        continue;
      }
      if (isd(c) || (c == '.' && i + 1 < n && isd(in[i + 1]))) {
        std::size_t j = i;
        while (j < n && isd(in[j])) ++j;
        if (j < n && in[j] == '.') {
          ++j;
          while (j < n && isd(in[j])) ++j;
        }
        if (j < n && (in[j] == 'e' || in[j] == 'E')) {
          std::size_t k = j + 1;
          if (k < n && (in[k] == '+' || in[k] == '-')) ++k;
          if (k < n && isd(in[k])) {
            while (k < n && isd(in[k])) ++k;
            j = k;
          }
        }
        out.push_back({NUM, in.substr(i, j - i)});
        i = j;
        continue;
      }
      if (isa(c)) {
        std::size_t j = i + 1;
        while (j < n && (isa(in[j]) || isd(in[j])) && in[j] != '$') ++j;
        // x[12]
        if (j < n && in[j] == '[') {
          std::size_t k = j + 1;
          while (k < n && isd(in[k])) ++k;
          if (k > j + 1 && k < n && in[k] == ']') j = k + 1;
        }
        out.push_back({ID, in.substr(i, j - i)});
        i = j;
        continue;
      }
      if (static_cast<unsigned char>(c) >= 0x80) {
        out.push_back({HIGH, std::string(1, c)});
        ++i;
        continue;
      }
      auto two = [&](const char a, const char b) { return c == a && i + 1 < n && in[i + 1] == b; };
      if (two('*', '*')) {
        out.push_back({OP, "**"});
        i += 2;
      } else if (c == '+' || c == '-' || c == '*' || c == '/') {
        out.push_back({OP, std::string(1, c)});
        ++i;
      } else if (c == '(') {
        out.push_back({LPAR, "("});
        ++i;
      } else if (c == ')') {
        out.push_back({RPAR, ")"});
        ++i;
      } else if (c == ',') {
        out.push_back({COMMA, ","});
        ++i;
      } else if (c == '?') {
        out.push_back({QUEST, "?"});
        ++i;
      } else if (c == ':') {
        out.push_back({COLON, ":"});
        ++i;
      } else if (two('=', '=')) {
        out.push_back({CMP, "=="});
        i += 2;
      } else if (two('<', '=')) {
        out.push_back({CMP, "<="});
        i += 2;
      } else if (two('>', '=')) {
        out.push_back({CMP, ">="});
        i += 2;
      } else if (c == '<' || c == '>') {
        out.push_back({CMP, std::string(1, c)});
        ++i;
      } else if (two('&', '&')) {
        out.push_back({AND, "&&"});
        i += 2;
      } else if (two('|', '|')) {
        out.push_back({OR, "||"});
        i += 2;
      } else if (c == '!') {
        out.push_back({NOT, "!"});
        ++i;
      } else if (c == '=') {
        out.push_back({ASSIGN, "="});
        ++i;
      } else {
        out.push_back({BAD, std::string(1, c)});
        ++i;
      }
    }
  }

  //! lexical / bracketing criteria proving that the formula is malformed ("" = none)
  const char* provenMalformed(const std::vector<Tok>& t) {
    if (t.empty()) return "empty formula";
    int depth = 0;
    for (std::size_t i = 0; i != t.size(); ++i) {
      const auto& k = t[i];
      if (k.k == BAD) {
        // characters that belong to no token of the language and to no identifier
        static const char bad[] = "#@{}%^~\"';\\`";
        const unsigned char ch = static_cast<unsigned char>(k.s[0]);
        if (std::strchr(bad, k.s[0]) != nullptr || ch < 0x20 || ch == 0x7f) return "character outside the alphabet";
      }
      if (k.k == LPAR) {
        ++depth;
        if (i + 1 < t.size() && t[i + 1].k == RPAR) return "empty group";
      }
      if (k.k == RPAR) {
        --depth;
        if (depth < 0) return "unbalanced parentheses";
      }
      if (k.k == OP && i + 1 < t.size() && t[i + 1].k == OP && t[i + 1].s != "-") return "binary operator directly after an operator";
    }
    if (depth != 0) return "unbalanced parentheses";
    if (t.back().k == OP) return "operator at the end";
    return "";
  }

  // ----------------------------------------------------------- strict parser
  struct Unknown {
    const char* why;
  };

  struct Parser {
    const std::vector<Tok>& t;
    std::size_t i = 0;
    int nodes = 0;
    explicit Parser(const std::vector<Tok>& tt) : t(tt) {}
    bool end() const { return i >= t.size(); }
    const Tok& cur() const {
      if (end()) throw Unknown{"unexpected end"};
      return t[i];
    }
    bool is(const TK k) const { return !end() && t[i].k == k; }
    bool isOp(const char* s) const { return !end() && t[i].k == OP && t[i].s == s; }
    void expect(const TK k) {
      if (!is(k)) throw Unknown{"unexpected token"};
      ++i;
    }
    NP mk(const east::K k) {
      if (++nodes > 400) throw Unknown{"too big"};
      auto n = std::make_shared<east::Node>();
      n->k = k;
      return n;
    }
    //! index of the token closing the current group: `)` or `,` at depth 0, or t.size()
    std::size_t groupEnd(std::size_t j) const {
      int d = 0;
      for (; j < t.size(); ++j) {
        if (t[j].k == LPAR) ++d;
        if (t[j].k == RPAR) {
          if (d == 0) return j;
          --d;
        }
        if (t[j].k == COMMA && d == 0) return j;
      }
      return t.size();
    }
    //! position of the first token of kind k at depth 0 in [j, e) (`power<N>` brackets skipped)
    std::size_t findAtDepth0(std::size_t j, const std::size_t e, const TK k) const {
      int d = 0;
      for (; j < e; ++j) {
        if (t[j].k == ID && t[j].s == "power" && j + 1 < e && t[j + 1].k == CMP && t[j + 1].s == "<") {
          // skip to the closing >
          std::size_t m = j + 2;
          while (m < e && !(t[m].k == CMP && t[m].s == ">")) ++m;
          j = m;
          continue;
        }
        if (t[j].k == LPAR) ++d;
        if (t[j].k == RPAR) --d;
        if (d == 0 && t[j].k == k) return j;
      }
      return e;
    }
    //! formula := logic ? branch : branch | expr      (current group)
    NP formula() {
      const auto e = groupEnd(i);
      const auto q = findAtDepth0(i, e, QUEST);
      if (q == e) return expr();
      auto n = mk(east::K::Cond);
      n->c = logic(q);
      if (i != q) throw Unknown{"tokens left before ?"};
      ++i;
      n->a = branch();
      expect(COLON);
      n->b = branch();
      return n;
    }
    //! branch of a conditional: an arithmetic expression (a nested conditional must be parenthesised)
    NP branch() { return expr(); }
    //! logic expression ending at token index e
    east::LP logic(const std::size_t e) {
      auto first = lterm(e);
      if (i == e) return first;
      if (!(is(AND) || is(OR))) throw Unknown{"expected && or ||"};
      const TK k = t[i].k;
      auto l = std::make_shared<east::Logic>();
      l->k = k == AND ? east::Logic::And : east::Logic::Or;
      l->ch.push_back(first);
      while (i < e) {
        if (!is(k)) throw Unknown{"unparenthesised mix of && and ||"};
        ++i;
        l->ch.push_back(lterm(e));
      }
      return l;
    }
    std::size_t matching(std::size_t j) const {
      int d = 0;
      for (; j < t.size(); ++j) {
        if (t[j].k == LPAR) ++d;
        if (t[j].k == RPAR && --d == 0) return j;
      }
      throw Unknown{"unbalanced"};
    }
    east::LP lterm(const std::size_t e) {
      if (is(NOT)) {
        ++i;
        if (!is(LPAR)) throw Unknown{"bare !"};
        const auto m = matching(i);
        if (m >= e) throw Unknown{"bad !"};
        ++i;
        auto l = std::make_shared<east::Logic>();
        l->k = east::Logic::Not;
        l->ch.push_back(logic(m));
        if (i != m) throw Unknown{"tokens left in !()"};
        ++i;
        return l;
      }
      if (is(LPAR)) {
        const auto m = matching(i);
        // a parenthesised *logical* group: closes right before && || or the end of the logic part
        if (m < e && (m + 1 == e || t[m + 1].k == AND || t[m + 1].k == OR)) {
          const bool logical = findAtDepth0(i + 1, m, CMP) != m || findAtDepth0(i + 1, m, AND) != m || findAtDepth0(i + 1, m, OR) != m ||
                               findAtDepth0(i + 1, m, NOT) != m;
          if (logical) {
            if (findAtDepth0(i + 1, m, QUEST) != m) throw Unknown{"conditional in a logical group"};
            ++i;
            auto l = logic(m);
            if (i != m) throw Unknown{"tokens left in ()"};
            ++i;
            return l;
          }
        }
      }
      // comparison
      auto l = std::make_shared<east::Logic>();
      l->k = east::Logic::Cmp;
      l->a = expr();
      if (!is(CMP)) throw Unknown{"expected a comparison operator"};
      const auto& s = t[i].s;
      l->op = s == "==" ? east::EQ : s == "<" ? east::LT : s == "<=" ? east::LE : s == ">" ? east::GT : east::GE;
      ++i;
      l->b = expr();
      if (i > e) throw Unknown{"comparison overruns"};
      return l;
    }
    NP expr() {
      NP l;
      if (isOp("-")) {
        ++i;
        auto n = mk(east::K::Neg);
        // -a*b/c : the library negates the whole product, same value
        n->a = term();
        l = n;
      } else {
        l = term();
      }
      while (isOp("+") || isOp("-")) {
        const bool plus = t[i].s == "+";
        ++i;
        if (isOp("-")) throw Unknown{"unary minus after + or -"};
        auto n = mk(plus ? east::K::Add : east::K::Sub);
        n->a = l;
        n->b = term();
        l = n;
      }
      return l;
    }
    NP term() {
      auto l = factor();
      while (isOp("*") || isOp("/")) {
        const bool mul = t[i].s == "*";
        ++i;
        NP r;
        if (isOp("-")) {
          ++i;
          auto n = mk(east::K::Neg);
          n->a = factor();
          r = n;
        } else {
          r = factor();
        }
        auto n = mk(mul ? east::K::Mul : east::K::Div);
        n->a = l;
        n->b = r;
        l = n;
      }
      return l;
    }
    NP factor() {
      auto b = atom();
      if (!isOp("**")) return b;
      ++i;
      NP e;
      if (isOp("-")) {
        ++i;
        auto n = mk(east::K::Neg);
        n->a = atom();
        e = n;
      } else {
        e = atom();
      }
      if (isOp("**")) throw Unknown{"chained **"};
      auto n = mk(east::K::Pow);
      n->a = b;
      n->b = e;
      return n;
    }
    NP atom() {
      const auto& k = cur();
      if (k.k == NUM) {
        auto n = mk(east::K::Num);
        n->lit = k.s;
        char* endp = nullptr;
        n->num = std::strtod(k.s.c_str(), &endp);
        if (endp == nullptr || *endp != '\0' || !std::isfinite(n->num)) throw Unknown{"number"};
        ++i;
        return n;
      }
      if (k.k == LPAR) {
        ++i;
        auto n = formula();
        expect(RPAR);
        return n;
      }
      if (k.k != ID) throw Unknown{"unexpected token"};
      const std::string id = k.s;
      ++i;
      if (id == "Cste") {
        expect(COLON);
        expect(COLON);
        if (!is(ID)) throw Unknown{"constant"};
        const auto& cs = constants();
        for (std::size_t c = 0; c != cs.size(); ++c) {
          if (t[i].s == cs[c].name) {
            auto n = mk(east::K::Cst);
            n->id = static_cast<int>(c);
            ++i;
            return n;
          }
        }
        throw Unknown{"unknown constant"};
      }
      if (id == "power") {
        if (!(is(CMP) && t[i].s == "<")) throw Unknown{"power"};
        ++i;
        int sign = 1;
        if (isOp("-")) {
          sign = -1;
          ++i;
        }
        if (!is(NUM)) throw Unknown{"power"};
        for (const auto ch : t[i].s)
          if (ch < '0' || ch > '9') throw Unknown{"power"};
        if (t[i].s.size() > 3) throw Unknown{"power"};
        auto n = mk(east::K::PowN);
        n->id = sign * std::atoi(t[i].s.c_str());
        ++i;
        if (!(is(CMP) && t[i].s == ">")) throw Unknown{"power"};
        ++i;
        expect(LPAR);
        n->a = formula();
        expect(RPAR);
        return n;
      }
      if (id == "diff") throw Unknown{"diff"};
      const auto& f1 = east::funs1();
      for (std::size_t f = 0; f != f1.size(); ++f) {
        if (id == f1[f].name) {
          auto n = mk(east::K::Fun1);
          n->id = static_cast<int>(f);
          expect(LPAR);
          n->a = formula();
          expect(RPAR);
          return n;
        }
      }
      for (int f = 0; f != 4; ++f) {
        if (id == east::fun2name(f)) {
          auto n = mk(east::K::Fun2);
          n->id = f;
          expect(LPAR);
          n->a = formula();
          expect(COMMA);
          n->b = formula();
          expect(RPAR);
          return n;
        }
      }
      for (std::size_t v = 0; v != VARS.size(); ++v) {
        if (id == VARS[v]) {
          auto n = mk(east::K::Var);
          n->id = static_cast<int>(v);
          return n;
        }
      }
      throw Unknown{"unknown identifier"};
    }
  };

  //! a Pow node whose exponent is an integer literal (possibly negated): integer power (any base)
  void normalisePowers(east::Node& n) {
    if (n.a) normalisePowers(*n.a);
    if (n.b) normalisePowers(*n.b);
    if (n.c) {
      std::function<void(east::Logic&)> rec = [&](east::Logic& l) {
        if (l.k == east::Logic::Cmp) {
          normalisePowers(*l.a);
          normalisePowers(*l.b);
        }
        for (auto& c : l.ch) rec(*c);
      };
      rec(*n.c);
    }
    if (n.k == east::K::Pow) {
      const east::Node* e = n.b.get();
      int sign = 1;
      if (e->k == east::K::Neg) {
        sign = -1;
        e = e->a.get();
      }
      if (e->k == east::K::Num && e->num == std::floor(e->num) && e->num <= 64) {
        n.k = east::K::IPow;
        n.id = sign * static_cast<int>(e->num);
        n.b.reset();
      }
    }
  }

  bool plusMinusClass(const std::vector<Tok>& t) {
    for (std::size_t i = 0; i + 1 < t.size(); ++i)
      if (t[i].k == OP && t[i].s == "+" && t[i + 1].k == OP && t[i + 1].s == "-") return true;
    return false;
  }
  //! same test on the raw text (the library's lexer is not ours: `1e+-2`, `x+ -y` ...)
  bool plusMinusText(const std::string& s) {
    char prev = 0;
    for (const char c : s) {
      if (c == ' ' || c == '\t' || c == '\n' || c == '\r' || c == '\v' || c == '\f') continue;
      if (prev == '+' && c == '-') return true;
      prev = c;
    }
    return false;
  }

}  // namespace

// ------------------------------------------------------------ custom mutator
extern "C" std::size_t LLVMFuzzerMutate(std::uint8_t* data, std::size_t size, std::size_t maxSize);

/*!
 * half of the time a token level mutation (same-class replacement, insertion of `op atom`,
 * of a balanced pair of parentheses, of a function call around a token range, deletion,
 * duplication), so that a useful share of the inputs gets past the tokeniser and the group
 * reducer; else libFuzzer's own byte level mutations (dictionary included).
 */
extern "C" std::size_t LLVMFuzzerCustomMutator(std::uint8_t* data, std::size_t size, std::size_t maxSize, unsigned int seed) {
  std::uint64_t st = seed * 0x9E3779B97F4A7C15ull + 0x1234567ull;
  auto rnd = [&st](const std::size_t n) {
    st = st * 6364136223846793005ull + 1442695040888963407ull;
    return n == 0 ? std::size_t(0) : static_cast<std::size_t>((st >> 33) % n);
  };
  const auto mode = rnd(3);
  if (mode == 0 || (size == 0 && mode != 1)) return LLVMFuzzerMutate(data, size, maxSize);
  std::string in(reinterpret_cast<const char*>(data), size);
  if (mode == 1) {
    // a fresh well formed formula (documented language), then one token level mutation half of the time
    std::function<std::string(int)> ex = [&](const int d) -> std::string {
      static const char* leaves[] = {"x", "y", "z", "1", "2", "0.5", "1.5e-1", "3.", ".25", "Cste::R", "x", "y"};
      if (d <= 0 || rnd(4) == 0) return leaves[rnd(12)];
      switch (rnd(12)) {
        case 0: return ex(d - 1) + "+" + ex(d - 1);
        case 1: return ex(d - 1) + "-" + ex(d - 1);
        case 2: return ex(d - 1) + "*" + ex(d - 1);
        case 3: return ex(d - 1) + "/" + ex(d - 1);
        case 4: return "(" + ex(d - 1) + ")";
        case 5: return "-" + ex(d - 1);
        case 6: return std::string(leaves[rnd(12)]) + "**" + (rnd(2) ? "-" : "") + std::to_string(rnd(19));
        case 7: {
          const auto& f = east::funs1();
          return std::string(f[rnd(f.size())].name) + "(" + ex(d - 1) + ")";
        }
        case 8: return std::string(east::fun2name(static_cast<int>(rnd(4)))) + "(" + ex(d - 1) + "," + ex(d - 1) + ")";
        case 9: return "power<" + std::to_string(1 + rnd(16)) + ">(" + ex(d - 1) + ")";
        case 10: return ex(d - 1) + "*-" + leaves[rnd(12)];
        default: return "(" + ex(d - 1) + ")**" + leaves[rnd(12)];
      }
    };
    static const char* cm[] = {"==", "<", "<=", ">", ">="};
    std::string f = ex(1 + static_cast<int>(rnd(4)));
    if (rnd(4) == 0) {
      std::string c = ex(1) + cm[rnd(5)] + ex(1);
      if (rnd(3) == 0) c += (rnd(2) ? "&&" : "||") + ex(1) + cm[rnd(5)] + ex(1);
      if (rnd(5) == 0) c = "!(" + c + ")";
      f = c + "?" + f + ":" + ex(2);
    }
    if (rnd(2) == 0) {
      if (f.size() > maxSize) f.resize(maxSize);
      std::memcpy(data, f.data(), f.size());
      return f.size();
    }
    in = f;
  }
  std::vector<Tok> t;
  lex(in, t);
  if (t.empty()) return LLVMFuzzerMutate(data, size, maxSize);
  static const char* atoms[] = {"x", "y", "z", "1", "2", "0", "0.5", "1.5e-1", "3.", ".25", "16", "17", "Cste::R", "Cste::kb", "(x+1)", "(y-z)"};
  static const char* ops[] = {"+", "-", "*", "/", "**", "*-", "/-", "**-"};
  static const char* cmps[] = {"==", "<", "<=", ">", ">="};
  auto fname = [&]() -> std::string {
    const auto& f = east::funs1();
    const auto k = rnd(f.size() + 6);
    if (k < f.size()) return f[k].name;
    if (k < f.size() + 4) return east::fun2name(static_cast<int>(k - f.size()));
    return k == f.size() + 4 ? "power<3>" : "power<-2>";
  };
  std::vector<std::string> o;
  for (const auto& k : t) o.push_back(k.s);
  const auto pos = rnd(o.size());
  switch (rnd(9)) {
    case 0:  // same class replacement
      if (t[pos].k == NUM || t[pos].k == ID) {
        o[pos] = atoms[rnd(16)];
      } else if (t[pos].k == OP) {
        o[pos] = ops[rnd(5)];
      } else if (t[pos].k == CMP) {
        o[pos] = cmps[rnd(5)];
      } else if (t[pos].k == AND || t[pos].k == OR) {
        o[pos] = rnd(2) ? "&&" : "||";
      } else {
        o[pos] = atoms[rnd(16)];
      }
      break;
    case 1:  // op atom after a token
      o.insert(o.begin() + pos + 1, {ops[rnd(8)], atoms[rnd(16)]});
      break;
    case 2: {  // balanced parentheses around a range
      const auto e = pos + rnd(o.size() - pos) + 1;
      o.insert(o.begin() + e, ")");
      o.insert(o.begin() + pos, "(");
      break;
    }
    case 3: {  // function call around a range
      const auto e = pos + rnd(o.size() - pos) + 1;
      const auto f = fname();
      const bool two = f == "max" || f == "min" || f == "hypot" || f == "atan2";
      o.insert(o.begin() + e, two ? std::string(",") + atoms[rnd(16)] + ")" : ")");
      o.insert(o.begin() + pos, f + "(");
      break;
    }
    case 4:  // deletion
      o.erase(o.begin() + pos);
      break;
    case 5: {  // duplication of a range
      const auto e = pos + rnd(o.size() - pos) + 1;
      std::vector<std::string> r(o.begin() + pos, o.begin() + e);
      o.insert(o.begin() + rnd(o.size() + 1), r.begin(), r.end());
      break;
    }
    case 6: {  // conditional around everything
      std::vector<std::string> r = {atoms[rnd(16)], cmps[rnd(5)], atoms[rnd(16)], rnd(3) ? "?" : "&&x>0?"};
      r.insert(r.end(), o.begin(), o.end());
      r.push_back(":");
      r.push_back(atoms[rnd(16)]);
      o = r;
      break;
    }
    case 7:  // unary minus / not
      o.insert(o.begin() + pos, rnd(4) ? "-" : "!");
      break;
    default:  // swap two tokens
      std::swap(o[pos], o[rnd(o.size())]);
  }
  std::string out;
  const bool spaces = rnd(4) == 0;
  for (const auto& w : o) {
    if (!out.empty() && (spaces || (std::isalnum(static_cast<unsigned char>(out.back())) && std::isalnum(static_cast<unsigned char>(w[0]))))) out += ' ';
    out += w;
  }
  if (out.size() > maxSize) out.resize(maxSize);
  std::memcpy(data, out.data(), out.size());
  return out.size();
}

extern "C" int LLVMFuzzerTestOneInput(const std::uint8_t* data, std::size_t size) {
  fuzzstats::Scope sc(data, size);
  if (size > 300) return 0;
  const std::string s(reinterpret_cast<const char*>(data), size);
  if (s.find('\0') != std::string::npos) return 0;
  std::vector<Tok> toks;
  lex(s, toks);
  // replays give the raw verdict: no exclusion
  // ... and a class is only excluded while its key is in the known list ($VERIF_KNOWN, set by the driver)
  static const bool raw = std::getenv("VERIF_FUZZ_NO_EXCLUSION") != nullptr;
  static const std::string knownList = std::string(",") + (std::getenv("VERIF_KNOWN") != nullptr ? std::getenv("VERIF_KNOWN") : "") + ",";
  static const bool excludePlusMinus = !raw && knownList.find(",C13.plus_unary_minus.crash,") != std::string::npos;
  static const bool exclude = !raw && knownList.find(",C13.diff.copy.crash,") != std::string::npos;
  if (excludePlusMinus && (plusMinusClass(toks) || plusMinusText(s))) {
    sc.tag("excluded_known.C13.plus_unary_minus.crash");
    return 0;
  }
  // known finding C13.diff.copy.crash: DifferentiatedFunctionExpr::clone leaves null arguments;
  // formulas holding diff(...) are only analysed and evaluated (no copy, no differentiate)
  bool restricted = false;
  if (exclude && s.find("diff") != std::string::npos) {
    sc.tag("excluded_known.C13.diff.copy.crash(no copy/differentiate)");
    restricted = true;
  }
  // evaluation point chosen by the input
  static const double points[4][3] = {{1.5, -0.75, 2.25}, {0.375, 3.5, -1.25}, {-2.5, 0.625, 0.875}, {4., -3., 0.5}};
  const double* x = points[size % 4];

  // ---- the library
  bool accepted = false, evaluated = false;
  double value = 0;
  std::string what;
  try {
    tfel::math::Evaluator ev(VARS, s);
    accepted = true;
    for (std::size_t i = 0; i != VARS.size(); ++i) ev.setVariableValue(VARS[i], x[i]);
    try {
      value = ev.getValue();
      evaluated = true;
    } catch (const std::exception&) {
    }
    try {
      const auto cxx = ev.getCxxFormula();
      (void)cxx;
    } catch (const std::exception&) {
    }
    if (!restricted) try {
      tfel::math::Evaluator copy(ev);
      auto r = copy.resolveDependencies();
      if (evaluated) {
        for (std::size_t i = 0; i != VARS.size(); ++i) r->setVariableValue(i, x[i]);
        const double v2 = r->getValue();
        if (!(v2 == value) && !(std::isnan(v2) && std::isnan(value)))
          fuzzstats::oracle_failure("C13.fuzz.resolveDependencies: value changed for '" + s + "'");
      }
    } catch (const std::exception&) {
    }
    for (std::size_t k = 0; k != 2 && !restricted; ++k) {
      try {
        auto d = ev.differentiate(k);
        for (std::size_t i = 0; i != VARS.size(); ++i) d->setVariableValue(i, x[i]);
        const double dv = d->getValue();
        (void)dv;
        auto d2 = d->differentiate(k);
        (void)d2;
      } catch (const std::exception&) {
      }
    }
  } catch (const std::exception& e) {
    what = e.what();
  }
  // the implicit-variables constructor must not crash either
  try {
    tfel::math::Evaluator ev2(s);
    const auto n = ev2.getVariablesNames();
    for (const auto& v : n) ev2.setVariableValue(v, 1.25);
    const double v = ev2.getValue();
    (void)v;
  } catch (const std::exception&) {
  }
  if (accepted) sc.tag("lib.accepted");
  if (accepted || what.find("splitAtTokenSeperator") == std::string::npos) {
    if (toks.size() >= 3) sc.nontrivial();
  }

  // ---- lexical / bracketing criteria
  const char* mal = provenMalformed(toks);
  if (mal[0] != '\0') {
    sc.tag("strict.proven_malformed");
    if (accepted) fuzzstats::oracle_failure(std::string("C13.fuzz.malformed_accepted: '") + s + "' is malformed (" + mal + ") but the library accepts it");
    return 0;
  }
  // ---- strict parser
  NP root;
  try {
    Parser p(toks);
    root = p.formula();
    if (!p.end()) throw Unknown{"trailing tokens"};
    normalisePowers(*root);
  } catch (const Unknown&) {
    sc.tag("strict.unknown");
    return 0;
  }
  sc.tag("strict.accepted");
  if (!accepted) {
    sc.tag("strict.accepted_lib.rejected");
    static const bool dump = std::getenv("VERIF_FUZZ_DUMP") != nullptr;
    if (dump) std::fprintf(stderr, "STRICT-ACCEPTED-LIB-REJECTED %s\t=> %s\n", s.c_str(), what.c_str());
    return 0;
  }
  if (!evaluated) return 0;
  east::Env<E> env;
  for (int i = 0; i != 3; ++i) env.vars.push_back(E{static_cast<R>(x[i]), 0});
  env.csts = &constants();
  E ref;
  try {
    ref = east::eval<E>(*root, env);
  } catch (const east::Ill&) {
    sc.tag("strict.ill_conditioned");
    return 0;
  }
  sc.tag("differential.compared");
  const R tol = 1024 * ref.e + 1e-290L;
  if (!(fabsl(static_cast<R>(value) - ref.v) <= tol)) {
    char b[256];
    std::snprintf(b, sizeof b, "library %.17g, strict parser %.17Lg (tol %.3Lg) at x=%g y=%g z=%g", value, ref.v, tol, x[0], x[1], x[2]);
    fuzzstats::oracle_failure("C13.fuzz.value_mismatch: '" + s + "': " + b);
  }
  return 0;
}
