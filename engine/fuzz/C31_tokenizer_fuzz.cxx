/*!
 * C31 (robustness half): on arbitrary bytes CxxTokenizer either tokenizes or
 * throws; it never crashes, hangs or reads out of bounds.
 * First byte (+ second) = option bits; rest = the text.
 * Oracle inside the target: std::exception is a clean rejection; when
 * tokenization succeeds stripComments must leave no comment token (the only
 * semantic claim the property makes that is meaningful on arbitrary bytes);
 * memory errors/UB are caught by ASan/UBSan, failed asserts by the no-NDEBUG
 * build, hangs by -timeout.
 */
#include <cstdint>
#include <sstream>
#include <string>
#include <algorithm>
#include "TFEL/Utilities/CxxTokenizer.hxx"
#include "TFEL/Utilities/CxxTokenizerOptions.hxx"
#include "fuzzstats.hxx"

extern "C" int LLVMFuzzerTestOneInput(const std::uint8_t* data, std::size_t size) {
  using namespace tfel::utilities;
  fuzzstats::Scope sc(data, size);
  if (size < 2) return 0;
  const unsigned bits = data[0] | (data[1] << 8);
  CxxTokenizerOptions o;
  o.bKeepCommentBoundaries = bits & 1;
  o.shallMergeStrings = bits & 2;
  o.allowStrayHashCharacter = bits & 4;
  o.treatHashCharacterAsCommentDelimiter = bits & 8;
  o.allowStrayBackSlash = bits & 16;
  o.treatPreprocessorDirectives = !(bits & 32);
  o.treatStrings = !(bits & 64);
  o.treatNumbers = !(bits & 128);
  o.treatCComments = !(bits & 256);
  o.treatCxxComments = !(bits & 512);
  o.joinCxxTwoCharactersSeparators = !(bits & 1024);
  o.graveAccentAsSeparator = !(bits & 2048);
  o.charAsString = bits & 4096;
  o.dotAsSeparator = !(bits & 8192);
  o.plusAsSeparator = !(bits & 16384);
  o.minusAsSeparator = !(bits & 32768);
  const std::string text(reinterpret_cast<const char*>(data + 2), size - 2);
  const auto nlines = static_cast<std::size_t>(std::count(text.begin(), text.end(), '\n')) + 1;
  try {
    CxxTokenizer t(o);
    t.parseString(text);
    sc.tag("tokenized");
    std::size_t n = 0;
    std::size_t last_line = 0;
    bool has_comment_or_string = false;
    for (auto p = t.begin(); p != t.end(); ++p, ++n) {
      // positions are only *read* here (ASan checks the accesses); the
      // property states nothing about them on arbitrary bytes
      last_line = p->line;
      if (p->flag == Token::Comment || p->flag == Token::DoxygenComment ||
          p->flag == Token::DoxygenBackwardComment || p->flag == Token::String)
        has_comment_or_string = true;
    }
    if (n >= 2 && has_comment_or_string && nlines >= 2) sc.nontrivial();
    // the read helpers on (at most 4) token positions, two helpers each: value
    // or exception (a C++ throw costs ~1 ms under ASan: probing every token
    // with every helper makes units slow and starves the campaign)
    const std::size_t stride = n / 4 + 1;
    std::size_t idx = 0;
    for (auto p = t.begin(); p != t.end(); ++p, ++idx) {
      if ((idx + bits) % stride != 0) continue;
      for (int k = static_cast<int>((bits + idx) % 4); k < 5; k += 3) {
        auto q = p;
        try {
          switch (k) {
            case 0: (void)CxxTokenizer::readDouble(q, t.end()); break;
            case 1: (void)CxxTokenizer::readInt(q, t.end()); break;
            case 2: (void)CxxTokenizer::readUnsignedInt(q, t.end()); break;
            case 3: (void)CxxTokenizer::readString(q, t.end()); break;
            default: (void)CxxTokenizer::readStringArray(q, t.end()); break;
          }
        } catch (const std::exception&) {
        }
      }
    }
    std::ostringstream os;
    t.printFileTokens(os);
    t.stripComments();
    for (auto p = t.begin(); p != t.end(); ++p) {
      if (p->flag == Token::Comment || p->flag == Token::DoxygenComment ||
          p->flag == Token::DoxygenBackwardComment) {
        fuzzstats::oracle_failure("C31.fuzz.strip_comments: a comment survived stripComments");
      }
    }
  } catch (const std::exception&) {
    sc.tag("rejected");
  }
  return 0;
}
