/*!
 * \file C35_known.hxx
 * \brief input classes that the C35 / C54 campaigns skip by construction:
 *  - `outsideDomain`: inputs naming absolute / parent paths, devices or
 *    foreign shared libraries (an input file that asks the tool to read
 *    /dev/zero, to write its results over an arbitrary file or to call an
 *    arbitrary function of an arbitrary library is not in the domain of
 *    "never crashes on any input file"; it would also let the fuzzer damage
 *    the machine it runs on);
 *  - `knownClass`: the recorded findings (findings/pending/C35.json,
 *    C54.json), matched as narrowly as the root cause allows so that the
 *    campaign continues behind them and a different crash is still reported.
 * engine/gen/C35_fuzz.py / C54_fuzz.py implement the same predicates in
 * python (functions of the same names); keep them in sync.
 */
#ifndef VERIF_C35_KNOWN_HXX
#define VERIF_C35_KNOWN_HXX

#include <cctype>
#include <cstdlib>
#include <string>

namespace c35 {

  inline bool contains(const std::string& s, const char* p) { return s.find(p) != std::string::npos; }

  /*!
   * \param[in] s: input
   * \param[in] allowed: a path which may appear (library of the C54 behaviours), may be empty
   */
  inline bool outsideDomain(const std::string& s, const std::string& allowed = "") {
    std::string t;
    if (!allowed.empty()) {
      std::string::size_type b = 0;
      for (;;) {
        const auto p = s.find(allowed, b);
        if (p == std::string::npos) {
          t.append(s, b, std::string::npos);
          break;
        }
        t.append(s, b, p - b);
        t += "LIB";
        b = p + allowed.size();
      }
    }
    const auto& u = allowed.empty() ? s : t;
    if (contains(u, "../") || contains(u, "/dev") || contains(u, "/proc") || contains(u, "/sys") ||
        contains(u, "\"/") || contains(u, "'/") || contains(u, "\"~") || contains(u, "'~")) {
      return true;
    }
    // shared library names: ".so" not followed by an identifier character
    for (auto p = u.find(".so"); p != std::string::npos; p = u.find(".so", p + 1)) {
      const auto q = p + 3;
      if (q >= u.size() || !(std::isalnum(static_cast<unsigned char>(u[q])) || u[q] == '_')) return true;
    }
    // a quote followed by blanks then '/' (the tokenizer does not strip, but be conservative)
    for (std::string::size_type i = 0; i + 1 < u.size(); ++i) {
      if (u[i] == '"' || u[i] == '\'') {
        auto j = i + 1;
        while (j < u.size() && (u[j] == ' ' || u[j] == '\t')) ++j;
        if (j < u.size() && j != i + 1 && (u[j] == '/' || u[j] == '~')) return true;
      }
    }
    return false;
  }

  //! \return true if the key is listed in $VERIF_FUZZ_KNOWN
  inline bool isActive(const char* k) {
    const char* e = std::getenv("VERIF_FUZZ_KNOWN");
    if (e == nullptr) return false;
    const std::string l = std::string(",") + e + ",";
    return l.find(std::string(",") + k + ",") != std::string::npos;
  }

  //! \return the key of the known finding the input belongs to, nullptr otherwise
  inline const char* knownClass(const std::string& s) {
    static_cast<void>(s);
    return nullptr;
  }

}  // end of namespace c35

#endif /* VERIF_C35_KNOWN_HXX */
