/*!
 * \file C35_known.hxx
 * \brief input classes that the C35 / C54 campaigns skip by construction:
 *  - `outsideDomain`: inputs naming absolute / parent paths, devices or
 *    foreign shared libraries (an input file that asks the tool to read
 *    /dev/zero, to write its results over an arbitrary file or to call an
 *    arbitrary function of an arbitrary library is not in the domain of
 *    "never crashes on any input file"; it would also let the fuzzer damage
 *    the machine it runs on);
 *  - `knownClass`: the recorded findings (findings/pending/C35.json,
 *    C54.json), matched as narrowly as the root cause allows so that the
 *    campaign continues behind them and a different crash is still reported.
 * engine/gen/C35_fuzz.py / C54_fuzz.py implement the same predicates in
 * python (functions of the same names); keep them in sync.
 */
#ifndef VERIF_C35_KNOWN_HXX
#define VERIF_C35_KNOWN_HXX

#include <cctype>
#include <cstdlib>
#include <cstring>
#include <string>

namespace c35 {

  inline bool contains(const std::string& s, const char* p) { return s.find(p) != std::string::npos; }

  /*!
   * \param[in] s: input
   * \param[in] allowed: a path which may appear (library of the C54 behaviours), may be empty
   */
  inline bool outsideDomain(const std::string& s, const std::string& allowed = "") {
    std::string t;
    if (!allowed.empty()) {
      std::string::size_type b = 0;
      for (;;) {
        const auto p = s.find(allowed, b);
        if (p == std::string::npos) {
          t.append(s, b, std::string::npos);
          break;
        }
        t.append(s, b, p - b);
        t += "LIB";
        b = p + allowed.size();
        // <allowed><Name>.so is the whole allowed token
        auto e = b;
        while (e < s.size() && (std::isalnum(static_cast<unsigned char>(s[e])) || s[e] == '_')) ++e;
        if (s.compare(e, 3, ".so") == 0) b = e + 3;
      }
    }
    const auto& u = allowed.empty() ? s : t;
    if (contains(u, "../") || contains(u, "/dev") || contains(u, "/proc") || contains(u, "/sys") ||
        contains(u, "\"/") || contains(u, "'/") || contains(u, "\"~") || contains(u, "'~")) {
      return true;
    }
    // shared library names: ".so" not followed by an identifier character
    for (auto p = u.find(".so"); p != std::string::npos; p = u.find(".so", p + 1)) {
      const auto q = p + 3;
      if (q >= u.size() || !(std::isalnum(static_cast<unsigned char>(u[q])) || u[q] == '_')) return true;
    }
    // a quote followed by blanks then '/' (the tokenizer does not strip, but be conservative)
    for (std::string::size_type i = 0; i + 1 < u.size(); ++i) {
      if (u[i] == '"' || u[i] == '\'') {
        auto j = i + 1;
        while (j < u.size() && (u[j] == ' ' || u[j] == '\t')) ++j;
        if (j < u.size() && j != i + 1 && (u[j] == '/' || u[j] == '~')) return true;
      }
    }
    return false;
  }

  //! \return true if the key is listed in $VERIF_FUZZ_KNOWN
  inline bool isActive(const char* k) {
    const char* e = std::getenv("VERIF_FUZZ_KNOWN");
    if (e == nullptr) return false;
    const std::string l = std::string(",") + e + ",";
    return l.find(std::string(",") + k + ",") != std::string::npos;
  }

  //! \return the key of the known finding the input belongs to, nullptr otherwise
  inline const char* knownClass(const std::string& s) {
    static_cast<void>(s);
    return nullptr;
  }

}  // end of namespace c35

namespace c54 {

  //! the real mtest selects the ptest scheme from the file extension: the campaign derives it from the content
  inline bool isPipeTest(const std::string& s) {
    return c35::contains(s, "@InnerRadius") || c35::contains(s, "@OuterRadius") || c35::contains(s, "@NumberOfElements") ||
           c35::contains(s, "@RadialLoading") || c35::contains(s, "@AxialLoading");
  }

  /*!
   * \return true if the input asks for a huge number of time steps (`@Times {0, 1 in 99999999}`): the
   * parser builds the whole array, time and memory are proportional to the count; this is work requested
   * by the input, not a hang (the out-of-process engine still runs such inputs)
   */
  inline bool hugeSubdivision(const std::string& s) {
    for (auto p = s.find("in"); p != std::string::npos; p = s.find("in", p + 1)) {
      if (p > 0 && (std::isalnum(static_cast<unsigned char>(s[p - 1])) || s[p - 1] == '_')) continue;
      auto q = p + 2;
      if (q >= s.size() || !std::isspace(static_cast<unsigned char>(s[q]))) continue;
      while (q < s.size() && std::isspace(static_cast<unsigned char>(s[q]))) ++q;
      // a negative count is read as an unsigned int: `in -1` means 4294967295 intervals
      if (q < s.size() && s[q] == '-') return true;
      std::size_t nd = 0;
      bool expo = false;
      while (q < s.size() && (std::isdigit(static_cast<unsigned char>(s[q])) || s[q] == '.' || s[q] == 'e' || s[q] == 'E' || s[q] == '+')) {
        if (std::isdigit(static_cast<unsigned char>(s[q]))) ++nd;
        if ((s[q] == 'e' || s[q] == 'E') && nd > 0) expo = true;
        ++q;
      }
      if (nd >= 6 || expo) return true;
    }
    return false;
  }

  /*!
   * \return true if the input ends (blanks and comments removed) with `@Behaviour<interface,` or `@Model<interface,`:
   * SingleStructureSchemeParser::handleBehaviour reads the wrapper name (`w = p->value; ++p;`) without checking
   * the end of the tokens (C54.read_past_end.handleBehaviour_wrapper_at_end_of_file)
   */
  inline bool wrapperAtEndOfFile(const std::string& s) {
    // z: the input without blanks and comments (strings kept as a quote)
    std::string z;
    const auto n = s.size();
    std::size_t i = 0;
    while (i < n) {
      const char c = s[i];
      if (c == '/' && i + 1 < n && s[i + 1] == '/') {
        while (i < n && s[i] != '\n') ++i;
        continue;
      }
      if (c == '/' && i + 1 < n && s[i + 1] == '*') {
        i += 2;
        while (i + 1 < n && !(s[i] == '*' && s[i + 1] == '/')) ++i;
        i = (i + 1 < n) ? i + 2 : n;
        continue;
      }
      if (!std::isspace(static_cast<unsigned char>(c))) z += c;
      ++i;
    }
    if (z.empty() || z.back() != ',') return false;
    auto e = z.size() - 1;
    auto b = e;
    while (b > 0 && (std::isalnum(static_cast<unsigned char>(z[b - 1])) || z[b - 1] == '_')) --b;
    if (b == e || b == 0 || z[b - 1] != '<') return false;
    const auto head = z.substr(0, b - 1);
    auto ends = [&head](const char* k) {
      const auto l = std::strlen(k);
      return head.size() >= l && head.compare(head.size() - l, l, k) == 0;
    };
    return ends("@Behaviour") || ends("@Model");
  }

  //! \return true if a `@Description {` block is still opened at the end of the input (plain brace counting)
  inline bool unterminatedDescription(const std::string& s) {
    const auto n = s.size();
    for (auto p = s.find("@Description"); p != std::string::npos; p = s.find("@Description", p + 1)) {
      auto q = p + 12;
      while (q < n && std::isspace(static_cast<unsigned char>(s[q]))) ++q;
      if (q >= n || s[q] != '{') continue;
      int depth = 0;
      auto i = q;
      while (i < n) {
        const char c = s[i];
        if (c == '/' && i + 1 < n && s[i + 1] == '/') {
          while (i < n && s[i] != '\n') ++i;
          continue;
        }
        if (c == '/' && i + 1 < n && s[i + 1] == '*') {
          i += 2;
          while (i + 1 < n && !(s[i] == '*' && s[i + 1] == '/')) ++i;
          i = (i + 1 < n) ? i + 2 : n;
          continue;
        }
        if (c == '"' || c == '\'') {
          auto j = i + 1;
          while (j < n && s[j] != c && s[j] != '\n') {
            if (s[j] == '\\') ++j;
            ++j;
          }
          i = j < n ? j + 1 : n;
          continue;
        }
        if (c == '{') ++depth;
        if (c == '}') {
          --depth;
          if (depth == 0) break;
        }
        ++i;
      }
      if (depth > 0) return true;
    }
    return false;
  }

  /*!
   * \return the key of the known finding the input belongs to, nullptr otherwise
   *
   * C54.read_past_end.handleDescription_unterminated: a `@Description {` block which is not closed before the
   * end of the file: the loop of SchemeParserBase::handleDescription tests `p->value` before `p != end`.
   *
   * C54.read_past_end.handleBehaviour_wrapper_at_end_of_file: see wrapperAtEndOfFile.
   *
   * C54.heap-buffer-overflow.treatKeyword_at_end_of_file: the last token of the file (comments removed) is
   * a `@Keyword`: {SchemeParserBase,SingleStructureSchemeParser,MTestParser,PipeTestParser}::treatKeyword do
   * `++p; const auto line = p->line;` without checking p against the end of the tokens.
   */
  inline const char* knownClass(const std::string& s) {
    if (unterminatedDescription(s)) return "C54.read_past_end.handleDescription_unterminated";
    if (wrapperAtEndOfFile(s)) return "C54.read_past_end.handleBehaviour_wrapper_at_end_of_file";
    // last token, comments removed (c1, c2: the last two characters which are neither blank nor in a comment)
    std::string last;
    std::string cur;
    char c1 = 0, c2 = 0;
    const auto n = s.size();
    std::size_t i = 0;
    while (i < n) {
      const char c = s[i];
      if (c == '/' && i + 1 < n && (s[i + 1] == '/' || s[i + 1] == '*')) {
        if (!cur.empty()) {
          last = cur;
          cur.clear();
        }
        if (s[i + 1] == '/') {
          while (i < n && s[i] != '\n') ++i;
        } else {
          i += 2;
          while (i + 1 < n && !(s[i] == '*' && s[i + 1] == '/')) ++i;
          i = (i + 1 < n) ? i + 2 : n;
        }
        continue;
      }
      if (c == '"' || c == '\'') {
        if (!cur.empty()) cur.clear();
        auto j = i + 1;
        while (j < n && s[j] != c && s[j] != '\n') {
          if (s[j] == '\\') ++j;
          ++j;
        }
        i = j < n ? j + 1 : n;
        last = "'";
        c1 = c2;
        c2 = '\'';
        continue;
      }
      if (std::isspace(static_cast<unsigned char>(c))) {
        if (!cur.empty()) {
          last = cur;
          cur.clear();
        }
      } else {
        cur += c;
        c1 = c2;
        c2 = c;
      }
      ++i;
    }
    if (!cur.empty()) last = cur;
    // `;` is registered as a keyword (SchemeParserBase::handleLonelySeparator): a file reduced to `;` or ending
    // with `;;` ends with a keyword
    // (C54.heap-buffer-overflow.handleLonelySeparator_at_end_of_file: the handler reads p->line, p->offset of
    // the iterator which follows the `;`)
    if (c2 == ';' && (c1 == ';' || c1 == 0)) return "C54.heap-buffer-overflow.handleLonelySeparator_at_end_of_file";
    // does it end with @identifier (not preceded by an identifier character)?
    auto e = last.size();
    while (e > 0 && (std::isalnum(static_cast<unsigned char>(last[e - 1])) || last[e - 1] == '_')) --e;
    if (e < last.size() && e > 0 && last[e - 1] == '@') {
      if (e == 1 || !(std::isalnum(static_cast<unsigned char>(last[e - 2])) || last[e - 2] == '_')) {
        return "C54.heap-buffer-overflow.treatKeyword_at_end_of_file";
      }
    }
    return nullptr;
  }

}  // end of namespace c54

#endif /* VERIF_C35_KNOWN_HXX */
