/*!
 * C07 - shared generator / oracle for the dense linear solver harnesses.
 *
 * A generated system is held in long double *after rounding to the tested
 * type*, so every oracle is about the matrix actually passed.
 */
#ifndef VERIF_C07_COMMON_HXX
#define VERIF_C07_COMMON_HXX

#include "gens.hxx"

namespace c07 {

  using ref::R;
  using ref::Vec;

  template <typename T>
  constexpr R U() {
    return static_cast<R>(std::numeric_limits<T>::epsilon());
  }

  struct System {
    int n = 0;
    Vec A;  // row major, rounded to T
    //! exactly singular by construction in a way every tested algorithm must detect
    bool singular = false;
    //! singular through an exactly null column (or all zero): also detected by QR
    bool zero_column = false;
    //! singular through exactly proportional integer rows (n<=3: the closed forms compute det == 0)
    bool proportional = false;
    //! built to need row exchanges
    bool pivoting = false;
    bool has_inverse = false;
    Vec inv;       // long double inverse when it exists
    R normA = 0;   // infinity norm
    R cond = 0;    // infinity norm condition number (inf if no inverse)
    R scale = 1;
    /*!
     * n == 3 only: |A|^2 / |adj(A)| = |A|^3 / (|det| cond) ~ sigma1/sigma2.  Cramer's
     * rule computes the cofactors with an absolute error u |A|^2, i.e. a relative
     * error u g when two singular values are small.
     */
    R cofactor_growth = 1;
  };

  template <typename T>
  R roundT(const R v) {
    return static_cast<R>(static_cast<T>(v));
  }

  //! random orthogonal matrix: product of k Householder reflections
  inline Vec orthogonal(verif::Case& c, const int n, const int k) {
    Vec Q(n * n, 0);
    for (int i = 0; i < n; ++i) Q[i * n + i] = 1;
    for (int h = 0; h < k; ++h) {
      Vec v(n);
      R nv = 0;
      for (int i = 0; i < n; ++i) {
        v[i] = c.sreal(1., "hv");
        nv += v[i] * v[i];
      }
      if (nv == 0) continue;
      // Q <- Q (I - 2 v v^T / nv)
      for (int i = 0; i < n; ++i) {
        R s = 0;
        for (int j = 0; j < n; ++j) s += Q[i * n + j] * v[j];
        s = 2 * s / nv;
        for (int j = 0; j < n; ++j) Q[i * n + j] -= s * v[j];
      }
    }
    return Q;
  }

  /*!
   * generate a square system.  kmax: overall scale 10^[-kmax,kmax];
   * condmax: largest prescribed condition number exponent (1e9 for double)
   */
  template <typename T>
  System genSystem(verif::Case& c, const int n, const int kmax, const int condexpmax) {
    System s;
    s.n = n;
    s.A.assign(n * n, 0);
    auto& A = s.A;
    const auto cls = c.integer(0, 9, "mat_class");
    auto dense = [&]() {
      for (auto& x : A) x = c.sreal(1., "a");
    };
    switch (cls) {
      case 0:
      case 1:
        c.tag("A.dense");
        dense();
        break;
      case 2: {
        // prescribed singular values, cond in {1,1e3,1e6,1e9}
        const int ce = static_cast<int>(c.integer(0, 3, "cond_class")) * 3;
        const int e = std::min(ce, condexpmax);
        c.tag("A.svd_cond1e" + std::to_string(e));
        const int k = std::min(n, 3);
        // singular value profile: geometric, one large (rank one dominated), one small
        const auto prof = c.integer(0, 2, "sv_profile");
        const Vec Um = orthogonal(c, n, k), Vm = orthogonal(c, n, k);
        for (int i = 0; i < n; ++i)
          for (int j = 0; j < n; ++j) {
            R v = 0;
            for (int l = 0; l < n; ++l) {
              const R sig = n == 1 ? R(1)
                            : (prof == 0 ? std::pow(R(10), -R(e) * l / (n - 1))
                                         : (prof == 1 ? (l == 0 ? R(1) : std::pow(R(10), -R(e)))
                                                      : (l == n - 1 ? std::pow(R(10), -R(e)) : R(1))));
              v += Um[i * n + l] * sig * Vm[j * n + l];
            }
            A[i * n + j] = v;
          }
        break;
      }
      case 3:
        c.tag("A.small_int");
        for (auto& x : A) x = static_cast<R>(c.integer(-3, 3, "a"));
        break;
      case 4: {
        // needs pivoting: null or tiny leading entries, or a row-permuted triangular matrix
        s.pivoting = true;
        if (c.boolean("perm_triangular")) {
          c.tag("A.permuted_triangular");
          std::vector<int> perm(n);
          for (int i = 0; i < n; ++i) perm[i] = i;
          for (int i = n - 1; i > 0; --i) std::swap(perm[i], perm[c.integer(0, i, "perm")]);
          const bool lower = c.boolean("lower");
          for (int i = 0; i < n; ++i)
            for (int j = 0; j < n; ++j) {
              const bool in = lower ? j <= i : j >= i;
              if (!in) continue;
              R v = c.sreal(1., "a");
              if (i == j) v = (v < 0 ? -1 : 1) * (R(0.2) + std::fabs(v));
              A[perm[i] * n + j] = v;
            }
        } else {
          c.tag("A.tiny_leading");
          dense();
          const int m = static_cast<int>(c.integer(1, std::max(1, n - 1), "nlead"));
          for (int i = 0; i < std::min(m, n); ++i)
            A[i * n + i] = c.boolean("exact_zero") ? R(0) : c.sreal(1., "t") * R(1e-14);
        }
        break;
      }
      case 5: {
        c.tag("A.hilbert_like");
        const R sh = c.real(0., 4., "hilbert_shift");
        for (int i = 0; i < n; ++i)
          for (int j = 0; j < n; ++j) A[i * n + j] = 1 / (R(i + j + 1) + sh);
        break;
      }
      case 6: {
        c.tag("A.row_scaled");
        dense();
        for (int i = 0; i < n; ++i) {
          const int rs = std::min(8, kmax);
          const R f = c.log10real(-rs, rs, "row_scale");
          for (int j = 0; j < n; ++j) A[i * n + j] *= f;
        }
        break;
      }
      case 7: {
        c.tag("A.diag_dominant");
        dense();
        for (int i = 0; i < n; ++i) A[i * n + i] += (c.boolean("sg") ? 1 : -1) * R(n);
        break;
      }
      default: {
        // structurally singular
        s.singular = true;
        const auto k = c.integer(0, n <= 3 && n >= 2 ? 3 : 2, "sing_class");
        const bool ints = c.boolean("ints");
        for (auto& x : A) x = ints ? static_cast<R>(c.integer(-3, 3, "a")) : c.sreal(1., "a");
        if (k == 0) {
          c.tag("A.singular.zero_row");
          const int r = static_cast<int>(c.integer(0, n - 1, "zr"));
          for (int j = 0; j < n; ++j) A[r * n + j] = 0;
          if (n == 1) s.zero_column = true;
        } else if (k == 1) {
          c.tag("A.singular.zero_column");
          const int cc = static_cast<int>(c.integer(0, n - 1, "zc"));
          for (int i = 0; i < n; ++i) A[i * n + cc] = 0;
          s.zero_column = true;
        } else if (k == 2) {
          c.tag("A.singular.all_zero");
          for (auto& x : A) x = 0;
          s.zero_column = true;
        } else {
          // n in {2,3}: proportional small integer rows => the closed forms get det == 0 exactly
          c.tag("A.singular.proportional_rows");
          s.proportional = true;
          for (auto& x : A) x = static_cast<R>(c.integer(-3, 3, "a"));
          const int r0 = static_cast<int>(c.integer(0, n - 1, "r0"));
          const int r1 = (r0 + 1 + static_cast<int>(c.integer(0, n - 2, "r1"))) % n;
          const R f = static_cast<R>(c.integer(-3, 3, "factor"));
          for (int j = 0; j < n; ++j) A[r1 * n + j] = f * A[r0 * n + j];
        }
      }
    }
    // overall scale (power of two for the proportional-integer class: products stay exact)
    if (s.proportional) {
      s.scale = std::ldexp(R(1), static_cast<int>(c.integer(-20, 20, "scale2")));
    } else {
      s.scale = static_cast<R>(gen::scale(c, kmax));
    }
    for (auto& x : A) x = roundT<T>(x * s.scale);
    s.normA = ref::matNormInf(n, A);
    s.has_inverse = !s.singular && ref::inverseN(n, A, s.inv);
    if (s.has_inverse) {
      s.cond = s.normA * ref::matNormInf(n, s.inv);
      if (!std::isfinite(static_cast<double>(s.cond))) s.has_inverse = false;
    }
    if (!s.has_inverse) s.cond = INFINITY;
    if (s.has_inverse && n == 3) {
      const R det = std::fabs(ref::detN(n, A));
      if (det > 0) s.cofactor_growth = std::max<R>(1, s.normA * s.normA * s.normA / (det * s.cond));
    }
    return s;
  }

  //! right hand side (rounded to T)
  template <typename T>
  Vec genRhs(verif::Case& c, const System& s, const int kmax) {
    const int n = s.n;
    Vec b(n, 0);
    const auto cls = c.integer(0, 4, "rhs_class");
    if (cls == 0) {
      for (auto& x : b) x = static_cast<R>(c.integer(-3, 3, "b"));
    } else if (cls == 1) {
      // image of a chosen solution
      Vec x(n);
      for (auto& v : x) v = c.sreal(1., "x");
      b = ref::matvec(n, s.A, x);
    } else if (cls == 2 && c.chance(1, 4, "zero_rhs")) {
      // null right hand side
    } else {
      const R sc = static_cast<R>(gen::scale(c, kmax, "rhs_scale"));
      for (auto& x : b) x = c.sreal(1., "b") * sc;
    }
    for (auto& x : b) x = roundT<T>(x);
    return b;
  }

  /*!
   * residual check of a claimed solution x of A x = b.
   *   |b - A x|_inf <= K n u cond_inf(A) (|A|_inf |x|_inf + |b|_inf)
   * (the statement's bound: "conditioning times machine precision").  The
   * cond-free backward error is recorded as information (key info.*).
   */
  template <typename T>
  void checkSolution(verif::Case& c, const System& s, const Vec& b, const Vec& x, const R K,
                     const std::string& key, const std::string& what, const R extra = 1,
                     const std::string& classKey = "") {
    const int n = s.n;
    for (const auto v : x)
      c.check(std::isfinite(static_cast<double>(v)), key, what + ": non finite component in a solution reported as valid");
    const Vec Ax = ref::matvec(n, s.A, x);
    Vec r(n);
    for (int i = 0; i < n; ++i) r[i] = b[i] - Ax[i];
    const R res = ref::normInf(r);
    const R den = s.normA * ref::normInf(x) + ref::normInf(b);
    const R tiny = static_cast<R>(std::numeric_limits<T>::min()) * 1e3L;
    const R u = U<T>();
    if (den > 0) c.err("info." + key + ".backward_error_over_n_u", static_cast<double>(res / (n * u * den + tiny)));
    if (!s.has_inverse) return;  // numerically singular even in long double: nothing to claim
    const R tol = K * n * u * s.cond * den + tiny;
    if (!classKey.empty()) {
      // input class with a recorded finding: the algorithm's own (weaker) bound is
      // still enforced under an unlisted key, then the statement's bound under classKey
      const R gtol = K * n * u * s.cond * extra * den + tiny;
      c.err(key + ".gross", static_cast<double>(res / gtol));
      if (!(res <= gtol)) {
        std::ostringstream os;
        os.precision(17);
        os << what << ": n=" << n << " residual " << static_cast<double>(res) << " > gross tol "
           << static_cast<double>(gtol) << " (cond " << static_cast<double>(s.cond) << ", growth "
           << static_cast<double>(extra) << ")";
        c.check(false, key + ".gross", os.str());
      }
      if (!(res <= tol)) {
        std::ostringstream os;
        os.precision(17);
        os << what << ": n=" << n << " residual " << static_cast<double>(res) << " > tol "
           << static_cast<double>(tol) << " = " << static_cast<double>(K) << " n u cond (|A||x|+|b|), cond "
           << static_cast<double>(s.cond) << ", |A||x|+|b| " << static_cast<double>(den)
           << ", sigma1/sigma2 ~ " << static_cast<double>(extra);
        c.check(false, classKey, os.str());
      }
      return;
    }
    c.err(key, static_cast<double>(res / tol));
    if (!(res <= tol)) {
      std::ostringstream os;
      os.precision(17);
      os << what << ": n=" << n << " residual " << static_cast<double>(res) << " > tol "
         << static_cast<double>(tol) << " (cond " << static_cast<double>(s.cond) << ", |A||x|+|b| "
         << static_cast<double>(den) << ")";
      c.check(false, key, os.str());
    }
  }

  //! is the system within the "must succeed" domain: safely non singular
  template <typename T>
  bool mustSucceed(const System& s) {
    return s.has_inverse && s.cond * U<T>() < R(1e-4);
  }

}  // namespace c07

#endif
