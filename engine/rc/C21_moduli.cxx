/*!
 * C21 - Isotropic moduli and stiffness tensors are mutually consistent.
 *
 * Grounding: docs/web/tfel-material.md ("Isotropic elastic moduli",
 * "Orthotropic axes convention"), include/TFEL/Material/{IsotropicModuli,
 * Lame,StiffnessTensor,OrthotropicAxesConvention}.hxx.
 *
 * Oracle: textbook formulas evaluated in long double on the values actually
 * passed (rounded to the tested type), 6x6 Mandel matrices, ref::inverseN of
 * the compliance built from the engineering constants, the documented axis
 * permutation (Pipe convention: second and third material axes exchanged in
 * plane stress / plane strain / generalised plane strain), sub-block
 * extraction, and static condensation for the ALTERED plane stress tensor.
 *
 * Non-trivial: orthotropic sets with three distinct Young moduli, or nu
 * within 0.02 of an end point of (-1, 1/2).
 */
#include "gens.hxx"
#include "TFEL/Material/IsotropicModuli.hxx"
#include "TFEL/Material/Lame.hxx"
#include "TFEL/Material/StiffnessTensor.hxx"
#include "TFEL/Material/OrthotropicAxesConvention.hxx"

using ref::R;
using ref::Vec;
using namespace tfel::material;
using MH = ModellingHypothesis;
using STAC = StiffnessTensorAlterationCharacteristic;
using OAC = OrthotropicAxesConvention;

namespace {

  template <typename T>
  constexpr R U() {
    return static_cast<R>(std::numeric_limits<T>::epsilon());
  }
  std::string num(const long double v) {
    char b[64];
    std::snprintf(b, sizeof b, "%.12Lg", v);
    return b;
  }

  //! Poisson ratio in (-1+1e-3, 1/2-1e-4), denser near the ends and near 0
  template <typename T>
  T genNu(verif::Case& c) {
    const auto cls = c.integer(0, 7, "nu_class");
    double nu;
    switch (cls) {
      case 0:
      case 1:
      case 2:
        c.tag("nu.uniform");
        nu = c.real(-0.999, 0.4999, "nu");
        break;
      case 3:
        c.tag("nu.near_minus_one");
        nu = -1 + c.log10real(-3, -1, "1+nu");
        break;
      case 4:
        c.tag("nu.near_half");
        nu = 0.5 - c.log10real(-4, -1, "0.5-nu");
        break;
      case 5:
        c.tag("nu.near_zero");
        nu = (c.boolean("neg") ? -1 : 1) * c.log10real(-12, -1, "|nu|");
        break;
      case 6:
        c.tag("nu.zero");
        nu = 0;
        break;
      default:
        c.tag("nu.usual");
        nu = c.real(0.1, 0.45, "nu");
    }
    T t = static_cast<T>(nu);
    if (t < static_cast<T>(-0.999)) t = static_cast<T>(-0.999);
    if (t > static_cast<T>(0.4999)) t = static_cast<T>(0.4999);
    return t;
  }
  template <typename T>
  T genE(verif::Case& c, const char* n = "E") {
    return static_cast<T>(c.log10real(3, 12, n));
  }
  bool nuNontrivial(const R nu) { return nu < -0.98L || nu > 0.48L; }

  // ------------------------------------------------------------ conversions
  template <typename T>
  void conversions(verif::Case& c) {
    const T E = genE<T>(c);
    const T nu = genNu<T>(c);
    const R u = U<T>();
    const R El = E, nl = nu;
    c.nontrivial(nuNontrivial(nl));
    // textbook
    const R K = El / (3 * (1 - 2 * nl));
    const R G = El / (2 * (1 + nl));
    const R lam = nl * El / ((1 + nl) * (1 - 2 * nl));
    // conditioning of the representations: (K,G)->nu loses 1/(1-2nu), (lambda,mu)->K loses 1/(1+nu)
    const R cnd = 1 + 1 / (1 + nl) + 1 / (1 - 2 * nl);
    const R tiny = static_cast<R>(std::numeric_limits<T>::min()) * 1e3L;
    // Lame.hxx
    c.close(computeLambda<T>(E, nu), lam, 256 * u * std::fabs(lam) + tiny, "C21.computeLambda", "lambda");
    c.close(computeMu<T>(E, nu), G, 256 * u * G, "C21.computeMu", "mu");
    const YoungNuModuli<T> yn(E, nu);
    // YoungNu -> KG, LambdaMu (direct formulas: no cancellation beyond 1-2nu, 1+nu which are exact to u)
    const auto kg = yn.ToKG();
    c.close(kg.kappa, K, 256 * u * K, "C21.YoungNu.ToKG", "kappa");
    c.close(kg.mu, G, 256 * u * G, "C21.YoungNu.ToKG", "mu");
    const auto lm = yn.ToLambdaMu();
    c.close(lm.lambda, lam, 256 * u * std::fabs(lam) + tiny, "C21.YoungNu.ToLambdaMu", "lambda");
    c.close(lm.mu, G, 256 * u * G, "C21.YoungNu.ToLambdaMu", "mu");
    const auto yn0 = yn.ToYoungNu();
    c.check(yn0.young == E && yn0.nu == nu, "C21.YoungNu.ToYoungNu", "identity conversion changed the values");
    // KG -> others, from the rounded (K,G) actually held by kg
    {
      const R Kr = kg.kappa, Gr = kg.mu;
      const R nur = (3 * Kr - 2 * Gr) / (2 * Gr + 6 * Kr);
      const R Er = 9 * Kr * Gr / (3 * Kr + Gr);
      const R lr = Kr - 2 * Gr / 3;
      const auto y2 = kg.ToYoungNu();
      c.close(y2.nu, nur, 256 * u, "C21.KG.ToYoungNu", "nu (absolute)");
      c.close(y2.young, Er, 512 * u * Er * (1 + 1 / (1 + nur)), "C21.KG.ToYoungNu", "young");
      const auto l2 = kg.ToLambdaMu();
      c.close(l2.lambda, lr, 256 * u * (Kr + Gr), "C21.KG.ToLambdaMu", "lambda");
      c.check(l2.mu == kg.mu, "C21.KG.ToLambdaMu", "mu changed");
      const auto k2 = kg.ToKG();
      c.check(k2.kappa == kg.kappa && k2.mu == kg.mu, "C21.KG.ToKG", "identity conversion changed the values");
      // round trips to the original (E,nu)
      c.close(y2.nu, nl, 1024 * u * cnd, "C21.roundtrip.YoungNu_KG_YoungNu", "nu");
      c.close(y2.young, El, 1024 * u * cnd * El, "C21.roundtrip.YoungNu_KG_YoungNu", "young");
      const auto k3 = l2.ToKG();
      c.close(k3.kappa, Kr, 1024 * u * cnd * Kr, "C21.roundtrip.KG_LambdaMu_KG", "kappa");
      c.close(k3.mu, Gr, 1024 * u * cnd * Gr, "C21.roundtrip.KG_LambdaMu_KG", "mu");
      const auto k4 = y2.ToKG();
      c.close(k4.kappa, Kr, 1024 * u * cnd * Kr, "C21.roundtrip.KG_YoungNu_KG", "kappa");
      c.close(k4.mu, Gr, 1024 * u * cnd * Gr, "C21.roundtrip.KG_YoungNu_KG", "mu");
    }
    // LambdaMu -> others
    {
      const R lr = lm.lambda, Gr = lm.mu;
      const R nur = lr / (2 * (lr + Gr));
      const R Er = Gr * (3 * lr + 2 * Gr) / (lr + Gr);
      const R Kr = lr + 2 * Gr / 3;
      const auto y2 = lm.ToYoungNu();
      // lambda + mu = E / (2 (1+nu)(1-2nu)): mild cancellation near nu=-1 (factor 5)
      c.close(y2.nu, nur, 512 * u * (1 + std::fabs(nur)), "C21.LambdaMu.ToYoungNu", "nu (absolute)");
      c.close(y2.young, Er, 512 * u * Er * (1 + 1 / (1 + nur)), "C21.LambdaMu.ToYoungNu", "young");
      const auto k2 = lm.ToKG();
      c.close(k2.kappa, Kr, 256 * u * (std::fabs(lr) + Gr), "C21.LambdaMu.ToKG", "kappa");
      c.check(k2.mu == lm.mu, "C21.LambdaMu.ToKG", "mu changed");
      const auto l2 = lm.ToLambdaMu();
      c.check(l2.lambda == lm.lambda && l2.mu == lm.mu, "C21.LambdaMu.ToLambdaMu", "identity changed values");
      c.close(y2.nu, nl, 1024 * u * cnd, "C21.roundtrip.YoungNu_LambdaMu_YoungNu", "nu");
      c.close(y2.young, El, 1024 * u * cnd * El, "C21.roundtrip.YoungNu_LambdaMu_YoungNu", "young");
    }
  }

  // ------------------------------------------------------------ 6x6 helpers
  template <unsigned short N, typename T>
  Vec toVec(const tfel::math::st2tost2<N, T>& C) {
    const int n = ref::stensorSize(N);
    Vec v(n * n);
    for (int i = 0; i < n; ++i)
      for (int j = 0; j < n; ++j) v[i * n + j] = static_cast<R>(C(i, j));
    return v;
  }
  R normF(const Vec& v) {
    R s = 0;
    for (auto x : v) s += x * x;
    return std::sqrt(s);
  }
  //! Cholesky in long double: true iff symmetric positive definite
  bool cholesky(int n, Vec A) {
    for (int j = 0; j < n; ++j) {
      R d = A[j * n + j];
      for (int k = 0; k < j; ++k) d -= A[j * n + k] * A[j * n + k];
      if (!(d > 0)) return false;
      const R l = std::sqrt(d);
      A[j * n + j] = l;
      for (int i = j + 1; i < n; ++i) {
        R s = A[i * n + j];
        for (int k = 0; k < j; ++k) s -= A[i * n + k] * A[j * n + k];
        A[i * n + j] = s / l;
      }
    }
    return true;
  }
  //! isotropic stiffness in Mandel notation: lambda I(x)I + 2 mu Id
  Vec isoMandel(const R lam, const R mu) {
    Vec v(36, 0);
    for (int i = 0; i < 3; ++i)
      for (int j = 0; j < 3; ++j) v[i * 6 + j] = lam;
    for (int i = 0; i < 6; ++i) v[i * 6 + i] += 2 * mu;
    return v;
  }
  template <unsigned short N, typename T>
  void cmp(verif::Case& c, const tfel::math::st2tost2<N, T>& C, const Vec& e, R tol, const std::string& key,
           const std::string& what) {
    const int n = ref::stensorSize(N);
    for (int i = 0; i < n; ++i)
      for (int j = 0; j < n; ++j)
        c.close(static_cast<R>(C(i, j)), e[i * n + j], tol, key,
                what + " component (" + std::to_string(i) + "," + std::to_string(j) + ")");
  }
  //! fill with a quiet NaN sentinel: a component the library does not write stays NaN
  template <unsigned short N, typename T>
  tfel::math::st2tost2<N, T> sentinel() {
    tfel::math::st2tost2<N, T> C;
    for (auto& x : C) x = std::numeric_limits<T>::quiet_NaN();
    return C;
  }

  // ------------------------------------------------------------ isotropic 3D tensor
  template <typename T>
  void isoTensor(verif::Case& c) {
    const T E = genE<T>(c);
    const T nu = genNu<T>(c);
    const R u = U<T>();
    const R El = E, nl = nu;
    c.nontrivial(nuNontrivial(nl));
    const R K = El / (3 * (1 - 2 * nl)), G = El / (2 * (1 + nl));
    const R lam = nl * El / ((1 + nl) * (1 - 2 * nl));
    const Vec Cref = isoMandel(lam, G);
    const R nC = normF(Cref);
    const YoungNuModuli<T> yn(E, nu);
    const int rep = static_cast<int>(c.integer(0, 2, "representation"));
    tfel::math::st2tost2<3u, T> C;
    if (rep == 0) {
      C = computeIsotropicStiffnessTensor<T>(yn);
    } else if (rep == 1) {
      const KGModuli<T> kg(static_cast<T>(K), static_cast<T>(G));
      C = computeIsotropicStiffnessTensor<T>(kg);
    } else {
      const LambdaMuModuli<T> lm(static_cast<T>(lam), static_cast<T>(G));
      C = computeIsotropicStiffnessTensor<T>(lm);
    }
    cmp<3u, T>(c, C, Cref, 512 * u * nC, "C21.computeIsotropicStiffnessTensor", "3K J + 2G K vs lambda IxI + 2 mu Id");
    // symmetric, exactly (built from symmetric J and K)
    for (int i = 0; i < 6; ++i)
      for (int j = 0; j < i; ++j)
        c.close(C(i, j), C(j, i), 4 * u * nC, "C21.stiffness.symmetric", "C(i,j) vs C(j,i)");
    // positive definite (Cholesky of the returned matrix, symmetrised)
    {
      Vec M = toVec<3u, T>(C);
      for (int i = 0; i < 6; ++i)
        for (int j = 0; j < i; ++j) M[i * 6 + j] = M[j * 6 + i] = (M[i * 6 + j] + M[j * 6 + i]) / 2;
      c.check(cholesky(6, M), "C21.stiffness.positive_definite", "Cholesky of C failed: E=" + num(El) + " nu=" + num(nl));
      // eigen-structure {3K, 2G x5}: C:(I/sqrt3) = 3K I/sqrt3, C:d = 2G d for the deviatoric basis
      const R s3 = std::sqrt(3.L), s2 = std::sqrt(2.L), s6 = std::sqrt(6.L);
      const R vecs[6][6] = {{1 / s3, 1 / s3, 1 / s3, 0, 0, 0}, {1 / s2, -1 / s2, 0, 0, 0, 0},
                            {1 / s6, 1 / s6, -2 / s6, 0, 0, 0}, {0, 0, 0, 1, 0, 0},
                            {0, 0, 0, 0, 1, 0},                {0, 0, 0, 0, 0, 1}};
      for (int k = 0; k < 6; ++k) {
        const R ev = k == 0 ? 3 * K : 2 * G;
        c.check(ev > 0, "C21.stiffness.positive_definite", "non positive eigenvalue");
        for (int i = 0; i < 6; ++i) {
          R s = 0;
          for (int j = 0; j < 6; ++j) s += M[i * 6 + j] * vecs[k][j];
          c.close(s, ev * vecs[k][i], 512 * u * nC, "C21.stiffness.eigen_structure",
                  "C:v - ev v, eigenvector " + std::to_string(k));
        }
      }
    }
    // computeKGModuli recovers (K,G); K = lambda + 2mu/3 cancels near nu = -1
    const auto kg2 = computeKGModuli<T>(C);
    c.close(kg2.kappa, K, 512 * u * (std::fabs(lam) + 2 * G), "C21.computeKGModuli", "kappa");
    c.close(kg2.mu, G, 512 * u * (std::fabs(lam) + 2 * G), "C21.computeKGModuli", "mu");
    const auto km = computeKappaMu<T>(C);
    c.check(km.first == kg2.kappa && km.second == kg2.mu, "C21.computeKappaMu", "differs from computeKGModuli");
    // isIsotropic
    const T eps = std::is_same_v<T, float> ? T(1e-4) : T(1e-10);
    c.check(isIsotropic<T>(C, eps), "C21.isIsotropic.accepts", "isotropic tensor rejected: E=" + num(El) + " nu=" + num(nl));
    // anisotropic perturbation of one Mandel entry (symmetrically): the
    // distance to the isotropic projection is >= sqrt(0.8) |delta| for any entry
    {
      const int i = static_cast<int>(c.integer(0, 5, "pi")), j = static_cast<int>(c.integer(0, 5, "pj"));
      auto Cp = C;
      const T delta = static_cast<T>(1e-3L * nC);
      Cp(i, j) += delta;
      if (i != j) Cp(j, i) += delta;
      c.check(!isIsotropic<T>(Cp, eps), "C21.isIsotropic.rejects",
              "perturbed tensor accepted (entry " + std::to_string(i) + "," + std::to_string(j) + ")");
      // documented definition: relative_error = ||C1 - C2|| / ||C2||
      const Vec a = toVec<3u, T>(Cp), b = toVec<3u, T>(C);
      Vec d(36);
      for (int k = 0; k < 36; ++k) d[k] = a[k] - b[k];
      c.close(relative_error<3u, T>(Cp, C), normF(d) / normF(b), 512 * u, "C21.relative_error", "||C1-C2||/||C2||");
    }
  }

  // ------------------------------------------------------------ orthotropic
  struct Ortho {
    R E[3], n12, n23, n13, G12, G23, G13;
  };
  /*!
   * engineering constants with an SPD compliance: correlation-like matrix from
   * a row-normalised Cholesky factor (diagonal >= 0.3: bounded conditioning),
   * S_ij = Corr_ij / sqrt(E_i E_j)
   */
  template <typename T>
  Ortho genOrtho(verif::Case& c) {
    Ortho o;
    // float: the library forms det S ~ E^-3: keep E^3 inside the float range
    // (overflow-scale inputs are outside every domain, DESIGN 3.1)
    const double E0 = c.log10real(6, std::is_same_v<T, float> ? 9 : 12, "E0");
    const auto cls = c.integer(0, 3, "ortho_class");
    double r[3] = {1, 1, 1};
    if (cls == 0) {
      c.tag("ortho.isotropic_moduli");
    } else if (cls == 1) {
      c.tag("ortho.transverse");
      r[2] = c.log10real(-1, 1, "r3");
    } else {
      c.tag("ortho.distinct");
      r[1] = c.log10real(-1, 1, "r2");
      r[2] = c.log10real(-1, 1, "r3");
    }
    double L[3][3] = {{1, 0, 0}, {0, 1, 0}, {0, 0, 1}};
    {
      const double a = c.sreal(1., "l10"), d = c.real(0.3, 1., "l11");
      const double n = std::sqrt(a * a + d * d);
      L[1][0] = a / n;
      L[1][1] = d / n;
      const double b0 = c.sreal(1., "l20"), b1 = c.sreal(1., "l21"), b2 = c.real(0.3, 1., "l22");
      const double m = std::sqrt(b0 * b0 + b1 * b1 + b2 * b2);
      L[2][0] = b0 / m;
      L[2][1] = b1 / m;
      L[2][2] = b2 / m;
    }
    double Corr[3][3];
    for (int i = 0; i < 3; ++i)
      for (int j = 0; j < 3; ++j) {
        Corr[i][j] = 0;
        for (int k = 0; k < 3; ++k) Corr[i][j] += L[i][k] * L[j][k];
      }
    T E[3];
    for (int i = 0; i < 3; ++i) E[i] = static_cast<T>(E0 * r[i]);
    // nu_ij = -S_ij E_i = -Corr_ij sqrt(E_i/E_j)
    const T n12 = static_cast<T>(-Corr[0][1] * std::sqrt(static_cast<double>(E[0]) / static_cast<double>(E[1])));
    const T n13 = static_cast<T>(-Corr[0][2] * std::sqrt(static_cast<double>(E[0]) / static_cast<double>(E[2])));
    const T n23 = static_cast<T>(-Corr[1][2] * std::sqrt(static_cast<double>(E[1]) / static_cast<double>(E[2])));
    for (int i = 0; i < 3; ++i) o.E[i] = E[i];
    o.n12 = n12;
    o.n13 = n13;
    o.n23 = n23;
    o.G12 = static_cast<T>(E0 * c.log10real(-2, 1, "g12"));
    o.G23 = static_cast<T>(E0 * c.log10real(-2, 1, "g23"));
    o.G13 = static_cast<T>(E0 * c.log10real(-2, 1, "g13"));
    c.nontrivial(o.E[0] != o.E[1] && o.E[1] != o.E[2] && o.E[0] != o.E[2]);
    return o;
  }
  //! 6x6 Mandel compliance from the engineering constants (textbook)
  Vec compliance(const Ortho& o) {
    Vec S(36, 0);
    S[0] = 1 / o.E[0];
    S[7] = 1 / o.E[1];
    S[14] = 1 / o.E[2];
    S[0 * 6 + 1] = S[1 * 6 + 0] = -o.n12 / o.E[0];
    S[0 * 6 + 2] = S[2 * 6 + 0] = -o.n13 / o.E[0];
    S[1 * 6 + 2] = S[2 * 6 + 1] = -o.n23 / o.E[1];
    // Mandel: eps_M = sqrt2 eps_12 = sqrt2 sig_12/(2G) = sig_M /(2G);  order xy(12), xz(13), yz(23)
    S[3 * 6 + 3] = 1 / (2 * o.G12);
    S[4 * 6 + 4] = 1 / (2 * o.G13);
    S[5 * 6 + 5] = 1 / (2 * o.G23);
    return S;
  }
  /*!
   * 3D stiffness (Mandel) in the frame of the modelling hypothesis.
   * pipe_swap: the second and third material axes are exchanged
   * (docs/web/tfel-material.md, "Orthotropic axes convention").
   */
  bool stiffness3D(const Ortho& o, const bool pipe_swap, Vec& C, R& condS) {
    const Vec S = compliance(o);
    if (!cholesky(6, S)) return false;
    Vec Cm;
    if (!ref::inverseN(6, S, Cm)) return false;
    // the shear terms are decoupled (2G exactly): conditioning of the normal block only
    {
      Vec Sn(9), Cn(9);
      for (int i = 0; i < 3; ++i)
        for (int j = 0; j < 3; ++j) {
          Sn[i * 3 + j] = S[i * 6 + j];
          Cn[i * 3 + j] = Cm[i * 6 + j];
        }
      condS = ref::matNormInf(3, Sn) * ref::matNormInf(3, Cn);
    }
    if (!pipe_swap) {
      C = Cm;
      return true;
    }
    // frame axis 2 = material axis 3, frame axis 3 = material axis 2:
    // normal components 1<->2, shear 12<->13 (Mandel 3<->4), 23 unchanged
    static const int p[6] = {0, 2, 1, 4, 3, 5};
    C.assign(36, 0);
    for (int i = 0; i < 6; ++i)
      for (int j = 0; j < 6; ++j) C[i * 6 + j] = Cm[p[i] * 6 + p[j]];
    return true;
  }
  //! leading n x n block of a 6x6
  Vec block(const Vec& C, int n) {
    Vec r(n * n);
    for (int i = 0; i < n; ++i)
      for (int j = 0; j < n; ++j) r[i * n + j] = C[i * 6 + j];
    return r;
  }
  //! static condensation of the normal component k (sigma_kk = 0): rows/cols k zeroed
  Vec condense(const Vec& C, int n, int k) {
    Vec r(n * n, 0);
    for (int i = 0; i < n; ++i)
      for (int j = 0; j < n; ++j) {
        if (i == k || j == k) continue;
        r[i * n + j] = C[i * n + j] - C[i * n + k] * C[k * n + j] / C[k * n + k];
      }
    return r;
  }

  template <MH::Hypothesis H>
  constexpr bool isPlane() {
    return H == MH::PLANESTRESS || H == MH::PLANESTRAIN || H == MH::GENERALISEDPLANESTRAIN;
  }
  template <MH::Hypothesis H>
  const char* hname() {
    if constexpr (H == MH::TRIDIMENSIONAL) return "tridimensional";
    else if constexpr (H == MH::AXISYMMETRICAL) return "axisymmetrical";
    else if constexpr (H == MH::PLANESTRAIN) return "planestrain";
    else if constexpr (H == MH::GENERALISEDPLANESTRAIN) return "generalisedplanestrain";
    else if constexpr (H == MH::PLANESTRESS) return "planestress";
    else if constexpr (H == MH::AXISYMMETRICALGENERALISEDPLANESTRAIN) return "agpstrain";
    else return "agpstress";
  }

  /*!
   * expected tensor for (H, smt, convention) from the 3D one.
   * AXISYMMETRICALGENERALISEDPLANESTRESS + ALTERED is handled by the caller
   * (separate key).
   */
  template <MH::Hypothesis H, STAC smt>
  Vec expected(const Vec& C3) {
    constexpr auto N = ModellingHypothesisToSpaceDimension<H>::value;
    const int n = ref::stensorSize(N);
    Vec B = block(C3, n);
    if constexpr (H == MH::PLANESTRESS && smt == STAC::ALTERED) {
      // sigma_zz = 0: eliminate the out-of-plane normal strain (component 2)
      B = condense(B, n, 2);
    }
    return B;
  }

  template <MH::Hypothesis H, STAC smt, typename T>
  void orthoOne(verif::Case& c, const Ortho& o) {
    constexpr auto N = ModellingHypothesisToSpaceDimension<H>::value;
    constexpr bool agps_altered = (H == MH::AXISYMMETRICALGENERALISEDPLANESTRESS && smt == STAC::ALTERED);
    const R u = U<T>();
    const std::string hk = std::string("C21.ortho.") + hname<H>() + (smt == STAC::ALTERED ? ".altered" : ".unaltered");
    const T E1 = o.E[0], E2 = o.E[1], E3 = o.E[2], n12 = o.n12, n23 = o.n23, n13 = o.n13, G12 = o.G12, G23 = o.G23,
            G13 = o.G13;
    for (int conv = 0; conv < 3; ++conv) {
      // conv 0: function without convention, 1: DEFAULT, 2: PIPE
      const bool swap = conv == 2 && isPlane<H>();
      Vec C3;
      R cnd = 1;
      if (!stiffness3D(o, swap, C3, cnd)) c.discard();
      const R nC = normF(C3);
      const R tol = 1024 * u * cnd * nC;
      auto C = sentinel<N, T>();
      if (conv == 0) computeOrthotropicStiffnessTensor<H, smt, T, T>(C, E1, E2, E3, n12, n23, n13, G12, G23, G13);
      else if (conv == 1)
        computeOrthotropicStiffnessTensor<H, smt, OAC::DEFAULT, T, T>(C, E1, E2, E3, n12, n23, n13, G12, G23, G13);
      else computeOrthotropicStiffnessTensor<H, smt, OAC::PIPE, T, T>(C, E1, E2, E3, n12, n23, n13, G12, G23, G13);
      const std::string what = std::string(conv == 0 ? "no convention" : (conv == 1 ? "DEFAULT" : "PIPE"));
      if constexpr (agps_altered) {
        // documented component order in 1D: (rr, zz, tt); "ALTERED: eliminating
        // the effect of axial strain": condensation of component 1 (zz)
        const Vec e = condense(block(C3, 3), 3, 1);
        cmp<N, T>(c, C, e, tol, "C21.agps_altered.axial_component", "orthotropic " + what);
      } else {
        cmp<N, T>(c, C, expected<H, smt>(C3), tol, hk, what);
      }
    }
  }
  template <MH::Hypothesis H, typename T>
  void ortho(verif::Case& c) {
    const Ortho o = genOrtho<T>(c);
    orthoOne<H, STAC::UNALTERED, T>(c, o);
    if constexpr (H != MH::AXISYMMETRICALGENERALISEDPLANESTRESS) {
      orthoOne<H, STAC::ALTERED, T>(c, o);
    }
  }
  //! dimension-only API: computeOrthotropicStiffnessTensorII<N, smt>
  template <typename T>
  void orthoII(verif::Case& c) {
    const Ortho o = genOrtho<T>(c);
    const R u = U<T>();
    const T E1 = o.E[0], E2 = o.E[1], E3 = o.E[2], n12 = o.n12, n23 = o.n23, n13 = o.n13, G12 = o.G12, G23 = o.G23,
            G13 = o.G13;
    Vec C3;
    R cnd = 1;
    if (!stiffness3D(o, false, C3, cnd)) c.discard();
    const R tol = 1024 * u * cnd * normF(C3);
    {
      auto C = sentinel<3u, T>();
      computeOrthotropicStiffnessTensorII<3u, STAC::UNALTERED, T, T>(C, E1, E2, E3, n12, n23, n13, G12, G23, G13);
      cmp<3u, T>(c, C, C3, tol, "C21.orthoII.3d", "UNALTERED");
      auto Ca = sentinel<3u, T>();
      computeOrthotropicStiffnessTensorII<3u, STAC::ALTERED, T, T>(Ca, E1, E2, E3, n12, n23, n13, G12, G23, G13);
      cmp<3u, T>(c, Ca, C3, tol, "C21.orthoII.3d", "ALTERED (no effect in 3D)");
    }
    {
      auto C = sentinel<2u, T>();
      computeOrthotropicStiffnessTensorII<2u, STAC::UNALTERED, T, T>(C, E1, E2, E3, n12, n23, n13, G12, G23, G13);
      cmp<2u, T>(c, C, block(C3, 4), tol, "C21.orthoII.2d.unaltered", "UNALTERED");
      auto Ca = sentinel<2u, T>();
      computeOrthotropicStiffnessTensorII<2u, STAC::ALTERED, T, T>(Ca, E1, E2, E3, n12, n23, n13, G12, G23, G13);
      cmp<2u, T>(c, Ca, condense(block(C3, 4), 4, 2), tol, "C21.orthoII.2d.altered", "ALTERED = plane stress");
      // ComputeAlteredStiffnessTensor<PLANESTRESS>: condensation of an unaltered tensor
      auto Cb = sentinel<2u, T>();
      ComputeAlteredStiffnessTensor<MH::PLANESTRESS>::exe(Cb, C);
      cmp<2u, T>(c, Cb, condense(block(C3, 4), 4, 2), 2 * tol, "C21.ComputeAlteredStiffnessTensor.planestress",
                 "condensation of the unaltered tensor");
      auto Cc = sentinel<2u, T>();
      ComputeAlteredStiffnessTensor<MH::PLANESTRAIN>::exe(Cc, C);
      for (int i = 0; i < 4; ++i)
        for (int j = 0; j < 4; ++j)
          c.check(Cc(i, j) == C(i, j), "C21.ComputeAlteredStiffnessTensor.other", "not a copy outside plane stress");
    }
    {
      auto C = sentinel<1u, T>();
      computeOrthotropicStiffnessTensorII<1u, STAC::UNALTERED, T, T>(C, E1, E2, E3, n12, n23, n13, G12, G23, G13);
      cmp<1u, T>(c, C, block(C3, 3), tol, "C21.orthoII.1d.unaltered", "UNALTERED");
    }
  }

  // ------------------------------------------------------------ isotropic per hypothesis
  template <MH::Hypothesis H, STAC smt, typename T>
  void isoOne(verif::Case& c, const T E, const T nu) {
    constexpr auto N = ModellingHypothesisToSpaceDimension<H>::value;
    constexpr bool agps_altered = (H == MH::AXISYMMETRICALGENERALISEDPLANESTRESS && smt == STAC::ALTERED);
    static_assert(!agps_altered, "handled separately");
    const R u = U<T>();
    const R El = E, nl = nu;
    const R lam = nl * El / ((1 + nl) * (1 - 2 * nl)), G = El / (2 * (1 + nl));
    const Vec C3 = isoMandel(lam, G);
    const R nC = normF(C3);
    const std::string hk = std::string("C21.iso.") + hname<H>() + (smt == STAC::ALTERED ? ".altered" : ".unaltered");
    const Vec e = expected<H, smt>(C3);
    // plane stress condensation: lambda^2/(lambda+2mu) cancellation is benign (same sign terms for nu>0;
    // for nu<0 lambda<0 and lambda+2mu>0): tolerance on the scale of the 3D tensor
    auto C = sentinel<N, T>();
    computeIsotropicStiffnessTensor<H, smt, T, T>(C, E, nu);
    // the library evaluates E/(1-nu^2): 1-nu^2 loses 1/(1-nu^2) (relative) near nu=-1
    const R cps = (H == MH::PLANESTRESS && smt == STAC::ALTERED) ? 1 + 1 / (1 - nl * nl) : 1;
    cmp<N, T>(c, C, e, 512 * u * nC * cps, hk, "computeIsotropicStiffnessTensor<H,smt>");
    // Lame.hxx: computeAlteredElasticStiffness<H,T> (ALTERED) / computeElasticStiffness<N,T> (UNALTERED)
    auto D = sentinel<N, T>();
    const T l = static_cast<T>(lam), m = static_cast<T>(G);
    if constexpr (smt == STAC::ALTERED) computeAlteredElasticStiffness<H, T>::exe(D, l, m);
    else computeElasticStiffness<N, T>::exe(D, l, m);
    const Vec C3r = isoMandel(static_cast<R>(l), static_cast<R>(m));
    cmp<N, T>(c, D, expected<H, smt>(C3r), 512 * u * nC, hk + ".lame", "Lame.hxx counterpart");
  }
  template <MH::Hypothesis H, typename T>
  void iso(verif::Case& c) {
    const T E = genE<T>(c);
    const T nu = genNu<T>(c);
    c.nontrivial(nuNontrivial(nu));
    isoOne<H, STAC::UNALTERED, T>(c, E, nu);
    if constexpr (H != MH::AXISYMMETRICALGENERALISEDPLANESTRESS) isoOne<H, STAC::ALTERED, T>(c, E, nu);
  }
  template <typename T>
  void isoII(verif::Case& c) {
    const T E = genE<T>(c);
    const T nu = genNu<T>(c);
    c.nontrivial(nuNontrivial(nu));
    const R u = U<T>();
    const R El = E, nl = nu;
    const R lam = nl * El / ((1 + nl) * (1 - 2 * nl)), G = El / (2 * (1 + nl));
    const Vec C3 = isoMandel(lam, G);
    const R tol = 512 * u * normF(C3);
    auto C = sentinel<3u, T>();
    computeIsotropicStiffnessTensorII<3u, STAC::UNALTERED, T, T>(C, E, nu);
    cmp<3u, T>(c, C, C3, tol, "C21.isoII.3d", "UNALTERED");
    auto C2 = sentinel<2u, T>();
    computeIsotropicStiffnessTensorII<2u, STAC::UNALTERED, T, T>(C2, E, nu);
    cmp<2u, T>(c, C2, block(C3, 4), tol, "C21.isoII.2d.unaltered", "UNALTERED");
    auto C2a = sentinel<2u, T>();
    computeIsotropicStiffnessTensorII<2u, STAC::ALTERED, T, T>(C2a, E, nu);
    cmp<2u, T>(c, C2a, condense(block(C3, 4), 4, 2), tol * (1 + 1 / (1 - nl * nl)), "C21.isoII.2d.altered", "ALTERED");
    auto C1 = sentinel<1u, T>();
    computeIsotropicStiffnessTensorII<1u, STAC::UNALTERED, T, T>(C1, E, nu);
    cmp<1u, T>(c, C1, block(C3, 3), tol, "C21.isoII.1d.unaltered", "UNALTERED");
  }

  // ------------------------------------------------------------ AGPS + ALTERED (separate keys)
  /*!
   * Every component of the output must be written (the functions document D
   * as an output parameter and callers pass uninitialised members).
   */
  template <typename T>
  void agpsAlteredWritten(verif::Case& c) {
    const T E = genE<T>(c);
    const T nu = genNu<T>(c);
    c.nontrivial(true);
    auto C = sentinel<1u, T>();
    computeIsotropicStiffnessTensor<MH::AXISYMMETRICALGENERALISEDPLANESTRESS, STAC::ALTERED, T, T>(C, E, nu);
    for (int i = 0; i < 3; ++i)
      for (int j = 0; j < 3; ++j)
        c.check(!std::isnan(C(i, j)), "C21.iso_agps_altered.unset_component",
                "computeIsotropicStiffnessTensor<AGPStress,ALTERED> leaves component (" + std::to_string(i) + "," +
                    std::to_string(j) + ") unwritten");
  }
  template <typename T>
  void agpsAlteredWrittenOthers(verif::Case& c) {
    // same requirement for the other 1D ALTERED entry points (they do write everything)
    const Ortho o = genOrtho<T>(c);
    c.nontrivial(true);
    auto C = sentinel<1u, T>();
    computeOrthotropicStiffnessTensor<MH::AXISYMMETRICALGENERALISEDPLANESTRESS, STAC::ALTERED, T, T>(
        C, static_cast<T>(o.E[0]), static_cast<T>(o.E[1]), static_cast<T>(o.E[2]), static_cast<T>(o.n12),
        static_cast<T>(o.n23), static_cast<T>(o.n13), static_cast<T>(o.G12), static_cast<T>(o.G23),
        static_cast<T>(o.G13));
    auto D = sentinel<1u, T>();
    computeAlteredElasticStiffness<MH::AXISYMMETRICALGENERALISEDPLANESTRESS, T>::exe(D, static_cast<T>(o.E[0]),
                                                                                       static_cast<T>(o.E[1]));
    for (int i = 0; i < 3; ++i)
      for (int j = 0; j < 3; ++j) {
        c.check(!std::isnan(C(i, j)), "C21.agps_altered.written", "orthotropic: component unwritten");
        c.check(!std::isnan(D(i, j)), "C21.agps_altered.written", "Lame: component unwritten");
      }
  }
  template <typename T>
  void agpsAlteredAxis(verif::Case& c) {
    const Ortho o = genOrtho<T>(c);
    orthoOne<MH::AXISYMMETRICALGENERALISEDPLANESTRESS, STAC::ALTERED, T>(c, o);
    // isotropic counterparts
    const T E = genE<T>(c);
    const T nu = genNu<T>(c);
    const R El = E, nl = nu;
    const R lam = nl * El / ((1 + nl) * (1 - 2 * nl)), G = El / (2 * (1 + nl));
    const Vec C3 = isoMandel(lam, G);
    const Vec e = condense(block(C3, 3), 3, 1);
    auto C = sentinel<1u, T>();
    computeIsotropicStiffnessTensor<MH::AXISYMMETRICALGENERALISEDPLANESTRESS, STAC::ALTERED, T, T>(C, E, nu);
    cmp<1u, T>(c, C, e, 512 * U<T>() * normF(C3), "C21.agps_altered.axial_component", "isotropic");
  }

  // ------------------------------------------------------------ convertStressFreeExpansionStrain
  template <MH::Hypothesis H, OAC conv>
  void convertOne(verif::Case& c, const double a, const double b, const double d, const double e) {
    constexpr auto N = ModellingHypothesisToSpaceDimension<H>::value;
    tfel::math::stensor<N, double> s(0.);
    s[0] = a;
    s[1] = b;
    s[2] = d;
    if constexpr (N >= 2) s[3] = e;
    auto s2 = s;
    convertStressFreeExpansionStrain<H, conv, double>(s2);
    const bool swap = conv == OAC::PIPE && isPlane<H>();
    const std::string key = std::string("C21.convertStressFreeExpansionStrain.") + hname<H>();
    c.check(s2[0] == s[0], key, "component 0 changed");
    c.check(s2[1] == (swap ? s[2] : s[1]), key, "component 1");
    c.check(s2[2] == (swap ? s[1] : s[2]), key, "component 2");
    if constexpr (N >= 2) c.check(s2[3] == s[3], key, "shear changed");
  }
  template <MH::Hypothesis H>
  void convertH(verif::Case& c, const double a, const double b, const double d, const double e) {
    convertOne<H, OAC::DEFAULT>(c, a, b, d, e);
    convertOne<H, OAC::PIPE>(c, a, b, d, e);
    if constexpr (isPlane<H>() || H == MH::TRIDIMENSIONAL) convertOne<H, OAC::PLATE>(c, a, b, d, e);
  }

}  // namespace

VERIF_SUB(conversions_d) { conversions<double>(c); }
VERIF_SUB_W(conversions_f, 0.5) { conversions<float>(c); }
VERIF_SUB(iso_tensor_d) { isoTensor<double>(c); }
VERIF_SUB_W(iso_tensor_f, 0.5) { isoTensor<float>(c); }

VERIF_SUB_W(ortho_3d, 0.3) { ortho<MH::TRIDIMENSIONAL, double>(c); }
VERIF_SUB_W(ortho_axis, 0.3) { ortho<MH::AXISYMMETRICAL, double>(c); }
VERIF_SUB_W(ortho_pstrain, 0.3) { ortho<MH::PLANESTRAIN, double>(c); }
VERIF_SUB_W(ortho_gpstrain, 0.3) { ortho<MH::GENERALISEDPLANESTRAIN, double>(c); }
VERIF_SUB_W(ortho_pstress, 0.3) { ortho<MH::PLANESTRESS, double>(c); }
VERIF_SUB_W(ortho_agpstrain, 0.3) { ortho<MH::AXISYMMETRICALGENERALISEDPLANESTRAIN, double>(c); }
VERIF_SUB_W(ortho_agpstress, 0.3) { ortho<MH::AXISYMMETRICALGENERALISEDPLANESTRESS, double>(c); }
VERIF_SUB_W(ortho_pstress_f, 0.15) { ortho<MH::PLANESTRESS, float>(c); }
VERIF_SUB_W(ortho_II, 0.3) { orthoII<double>(c); }

VERIF_SUB_W(iso_3d, 0.3) { iso<MH::TRIDIMENSIONAL, double>(c); }
VERIF_SUB_W(iso_axis, 0.3) { iso<MH::AXISYMMETRICAL, double>(c); }
VERIF_SUB_W(iso_pstrain, 0.3) { iso<MH::PLANESTRAIN, double>(c); }
VERIF_SUB_W(iso_gpstrain, 0.3) { iso<MH::GENERALISEDPLANESTRAIN, double>(c); }
VERIF_SUB_W(iso_pstress, 0.3) { iso<MH::PLANESTRESS, double>(c); }
VERIF_SUB_W(iso_agpstrain, 0.3) { iso<MH::AXISYMMETRICALGENERALISEDPLANESTRAIN, double>(c); }
VERIF_SUB_W(iso_agpstress, 0.3) { iso<MH::AXISYMMETRICALGENERALISEDPLANESTRESS, double>(c); }
VERIF_SUB_W(iso_II, 0.3) { isoII<double>(c); }

VERIF_SUB_W(agps_altered_iso_written, 0.05) { agpsAlteredWritten<double>(c); }
VERIF_SUB_W(agps_altered_written, 0.1) { agpsAlteredWrittenOthers<double>(c); }
VERIF_SUB_W(agps_altered_axis, 0.05) { agpsAlteredAxis<double>(c); }

VERIF_SUB_W(convert_expansion, 0.2) {
  const double a = c.sreal(1., "a"), b = c.sreal(1., "b"), d = c.sreal(1., "c"), e = c.sreal(1., "d");
  c.nontrivial(b != d);
  convertH<MH::TRIDIMENSIONAL>(c, a, b, d, e);
  convertH<MH::AXISYMMETRICAL>(c, a, b, d, e);
  convertH<MH::PLANESTRAIN>(c, a, b, d, e);
  convertH<MH::GENERALISEDPLANESTRAIN>(c, a, b, d, e);
  convertH<MH::PLANESTRESS>(c, a, b, d, e);
  convertH<MH::AXISYMMETRICALGENERALISEDPLANESTRAIN>(c, a, b, d, e);
  convertH<MH::AXISYMMETRICALGENERALISEDPLANESTRESS>(c, a, b, d, e);
}

VERIF_MAIN("C21_moduli")
