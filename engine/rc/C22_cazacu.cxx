/*!
 * C22 - equivalent-stress criteria, unit "cazacu": criteria written on the
 * invariants J2, J3 of the deviator (Drucker 1949, isotropic Cazacu 2004) and on
 * their orthotropic generalisations J2O, J3O (Cazacu 2001, orthotropic Cazacu 2004).
 * Independent values from the header formulas:
 *   Drucker 1949 / Cazacu 2001 : sqrt(3) (J2^3 - c J3^2)^(1/6)
 *   Cazacu 2004 (iso / ortho)  : (J2^(3/2) - c J3)^(1/3)
 *   J2O, J3O                   : polynomials of OrthotropicPlasticity.hxx
 *     (the printed J3O has s_zz^3 in its fourth line where the degree requires
 *      s_zz^2; with b_i = 1 the corrected polynomial is det(dev(sigma))).
 *   The header of the orthotropic Cazacu 2004 criterion repeats the formula of the
 *   2001 criterion; the isotropic header, the paper it cites and the isotropic
 *   limit all give (J2O^(3/2) - c J3O)^(1/3), which is what is demanded here.
 * See C22_common.hxx for the oracle and the tolerances.
 */
#include "C22_common.hxx"
// Drucker1949YieldCriterion.ixx uses computeJ3Derivative without including its header
#include "TFEL/Material/IsotropicPlasticity.hxx"
#include "TFEL/Material/Drucker1949YieldCriterion.hxx"
#include "TFEL/Material/Cazacu2001YieldCriterion.hxx"
#include "TFEL/Material/Cazacu2004IsotropicYieldCriterion.hxx"
#include "TFEL/Material/Cazacu2004OrthotropicYieldCriterion.hxx"

using namespace c22;

namespace {

  R refJ2(const M3& s) {
    const M3 d = ref::dev(s);
    return ref::ddot(d, d) / 2;
  }
  R refJ3(const M3& s) { return ref::det(ref::dev(s)); }

  struct OrthoCoefs {
    double a[6];
    double b[11];
    bool isotropic = false;
    R J2O(const M3& s) const {
      const R xx = s(0, 0), yy = s(1, 1), zz = s(2, 2);
      return R(a[5]) * s(1, 2) * s(1, 2) + R(a[4]) * s(0, 2) * s(0, 2) +
             R(a[3]) * s(0, 1) * s(0, 1) + R(a[1]) / 6 * (yy - zz) * (yy - zz) +
             R(a[2]) / 6 * (xx - zz) * (xx - zz) + R(a[0]) / 6 * (xx - yy) * (xx - yy);
    }
    R J3O(const M3& s) const {
      // the polynomial is insensitive to the pressure: evaluate it on the deviator
      const M3 d = ref::dev(s);
      const R xx = d(0, 0), yy = d(1, 1), zz = d(2, 2), xy = d(0, 1), xz = d(0, 2),
              yz = d(1, 2);
      const R b1 = b[0], b2 = b[1], b3 = b[2], b4 = b[3], b5 = b[4], b6 = b[5], b7 = b[6],
              b8 = b[7], b9 = b[8], b10 = b[9], b11 = b[10];
      return (b1 + b2) * xx * xx * xx / 27 + (b3 + b4) * yy * yy * yy / 27 +
             (2 * (b1 + b4) - b2 - b3) * zz * zz * zz / 27 -
             (b1 * yy + b2 * zz) * xx * xx / 9 - (b3 * zz + b4 * xx) * yy * yy / 9 -
             ((b1 - b2 + b4) * xx + (b1 - b3 + b4) * yy) * zz * zz / 9 +
             2 * (b1 + b4) * xx * yy * zz / 9 -
             xz * xz / 3 * (2 * b9 * yy - b8 * zz - (2 * b9 - b8) * xx) -
             xy * xy / 3 * (2 * b10 * zz - b5 * yy - (2 * b10 - b5) * xx) -
             yz * yz / 3 * ((b6 + b7) * xx - b6 * yy - b7 * zz) + 2 * b11 * xy * xz * yz;
    }
    template <unsigned short N>
    tfel::material::J2OCoefficients<S2<N>> A() const {
      tfel::material::J2OCoefficients<S2<N>> r;
      for (int i = 0; i < 6; ++i) r[i] = a[i];
      return r;
    }
    template <unsigned short N>
    tfel::material::J3OCoefficients<S2<N>> B() const {
      tfel::material::J3OCoefficients<S2<N>> r;
      for (int i = 0; i < 11; ++i) r[i] = b[i];
      return r;
    }
  };

  OrthoCoefs genOrtho(verif::Case& c) {
    OrthoCoefs r;
    r.isotropic = c.chance(1, 4, "isotropic_coefficients");
    for (auto& x : r.a) x = r.isotropic ? 1. : c.real(0.7, 1.3, "a_k");
    for (auto& x : r.b) x = r.isotropic ? 1. : c.real(0.7, 1.3, "b_k");
    return r;
  }

  // ---------------------------------------------------------------- Drucker
  struct Drucker {
    double c;
    template <unsigned short N>
    double value(const S2<N>& s, double) const {
      return tfel::material::computeDrucker1949StressCriterion(s, c);
    }
    template <unsigned short N>
    std::pair<double, S2<N>> normal(const S2<N>& s, double seps) const {
      const auto r = tfel::material::computeDrucker1949StressCriterionNormal(s, c, seps);
      return {std::get<0>(r), S2<N>(std::get<1>(r))};
    }
    template <unsigned short N>
    std::tuple<double, S2<N>, S4<N>> second(const S2<N>& s, double seps) const {
      const auto r =
          tfel::material::computeDrucker1949StressCriterionSecondDerivative(s, c, seps);
      return {std::get<0>(r), S2<N>(std::get<1>(r)), S4<N>(std::get<2>(r))};
    }
    R ref(const M3& s) const {
      const R J2 = refJ2(s), J3 = refJ3(s);
      return std::sqrt(R(3)) * std::pow(J2 * J2 * J2 - R(c) * J3 * J3, R(1) / 6);
    }
  };

  // ------------------------------------------------------------ Cazacu 2001
  struct Cazacu2001 {
    OrthoCoefs k;
    double c;
    template <unsigned short N>
    double value(const S2<N>& s, double) const {
      return tfel::material::computeCazacu2001StressCriterion(s, k.A<N>(), k.B<N>(), c);
    }
    template <unsigned short N>
    std::pair<double, S2<N>> normal(const S2<N>& s, double seps) const {
      const auto r = tfel::material::computeCazacu2001StressCriterionNormal(
          s, k.A<N>(), k.B<N>(), c, seps);
      return {std::get<0>(r), S2<N>(std::get<1>(r))};
    }
    template <unsigned short N>
    std::tuple<double, S2<N>, S4<N>> second(const S2<N>& s, double seps) const {
      const auto r = tfel::material::computeCazacu2001StressCriterionSecondDerivative(
          s, k.A<N>(), k.B<N>(), c, seps);
      return {std::get<0>(r), S2<N>(std::get<1>(r)), S4<N>(std::get<2>(r))};
    }
    R ref(const M3& s) const {
      const R J2 = k.J2O(s), J3 = k.J3O(s);
      return std::sqrt(R(3)) * std::pow(J2 * J2 * J2 - R(c) * J3 * J3, R(1) / 6);
    }
  };

  // -------------------------------------------------- Cazacu 2004 isotropic
  struct Cazacu2004Iso {
    double c;
    template <unsigned short N>
    double value(const S2<N>& s, double) const {
      return tfel::material::computeCazacu2004IsotropicStressCriterion(s, c);
    }
    template <unsigned short N>
    std::pair<double, S2<N>> normal(const S2<N>& s, double seps) const {
      const auto r =
          tfel::material::computeCazacu2004IsotropicStressCriterionNormal(s, c, seps);
      return {std::get<0>(r), S2<N>(std::get<1>(r))};
    }
    template <unsigned short N>
    std::tuple<double, S2<N>, S4<N>> second(const S2<N>& s, double seps) const {
      const auto r =
          tfel::material::computeCazacu2004IsotropicStressCriterionSecondDerivative(s, c, seps);
      return {std::get<0>(r), S2<N>(std::get<1>(r)), S4<N>(std::get<2>(r))};
    }
    R ref(const M3& s) const {
      const R J2 = refJ2(s), J3 = refJ3(s);
      return std::cbrt(J2 * std::sqrt(J2) - R(c) * J3);
    }
  };

  // ------------------------------------------------ Cazacu 2004 orthotropic
  struct Cazacu2004Ortho {
    OrthoCoefs k;
    double c;
    template <unsigned short N>
    double value(const S2<N>& s, double) const {
      return tfel::material::computeCazacu2004OrthotropicStressCriterion(s, k.A<N>(),
                                                                          k.B<N>(), c);
    }
    template <unsigned short N>
    std::pair<double, S2<N>> normal(const S2<N>& s, double seps) const {
      const auto r = tfel::material::computeCazacu2004OrthotropicStressCriterionNormal(
          s, k.A<N>(), k.B<N>(), c, seps);
      return {std::get<0>(r), S2<N>(std::get<1>(r))};
    }
    template <unsigned short N>
    std::tuple<double, S2<N>, S4<N>> second(const S2<N>& s, double seps) const {
      const auto r =
          tfel::material::computeCazacu2004OrthotropicStressCriterionSecondDerivative(
              s, k.A<N>(), k.B<N>(), c, seps);
      return {std::get<0>(r), S2<N>(std::get<1>(r)), S4<N>(std::get<2>(r))};
    }
    R ref(const M3& s) const {
      const R J2 = k.J2O(s), J3 = k.J3O(s);
      return std::cbrt(J2 * std::sqrt(J2) - R(c) * J3);
    }
  };

  //! Drucker / Cazacu 2001 coefficient: convexity range [-27/8, 9/4]
  double genDruckerC(verif::Case& c) {
    switch (c.integer(0, 5, "c_class")) {
      case 0: return 0;
      case 1: return 1;
      case 2: return 2.25;
      case 3: return -3.375;
      default: return c.real(-3.375, 2.25, "c");
    }
  }
  //! Cazacu 2004 coefficient: convexity range [-3 sqrt(3)/2, 3 sqrt(3)/4]; the
  //! lower end makes the criterion vanish in one direction: kept away from it
  double genCazacu2004C(verif::Case& c) {
    switch (c.integer(0, 4, "c_class")) {
      case 0: return 0;
      case 1: return 1.299;
      case 2: return -2.;
      default: return c.real(-2., 1.299, "c");
    }
  }
  /*!
   * sub-class of the inputs for the second-derivative keys: the closed form of
   * Drucker1949YieldCriterion.ixx / Cazacu2001YieldCriterion.ixx divides by
   * c^2 J3^4 - 2 J2^3 J3^2 + J2^6, which is (J2^3 - c J3^2)^2 only for c == 1 or J3 == 0
   * (known finding C22.*.second_fd.*.c_ne_1)
   */
  std::string druckerClass(const double cc, const R J3, const R J2) {
    if (cc == 1) return ".c_eq_1";
    if (std::fabs(J3) < 1e-6L * J2 * std::sqrt(J2)) return ".J3_eq_0";
    return ".c_ne_1";
  }

  template <unsigned short N>
  void drucker(verif::Case& c) {
    const auto st = genStress<N>(c);
    const double cc = genDruckerC(c);
    Options o;
    o.name = "drucker";
    o.eig = false;
    // J2^3 - c J3^2 >= J2^3 (1 - 4 c/27): at least 2/3 J2^3; powers up to 6 and the
    // products J2^3, J3^2 of rounded invariants: factor 16
    o.amp = 16;
    o.secondKeySuffix = druckerClass(cc, refJ3(st.sig), refJ2(st.sig));
    c.tag("drucker" + o.secondKeySuffix);
    checkAll<N>(c, Drucker{cc}, st, o);
    if (cc == 0) {
      // Drucker(c=0) = sqrt(3 J2) = von Mises
      const auto s = toS<N>(st.sig);
      c.close(Drucker{0.}.template value<N>(s, 0.), ref::vonMises(st.sig),
              512 * 16 * st.Einv() * st.vm, "C22.drucker.c0_is_mises", "Drucker(c=0) vs sqrt(3 J2)");
    }
  }

  template <unsigned short N>
  void cazacu2004iso(verif::Case& c) {
    const auto st = genStress<N>(c);
    const double cc = genCazacu2004C(c);
    Options o;
    o.name = "cazacu2004iso";
    o.eig = false;
    // J2^(3/2) - c J3 >= J2^(3/2) (1 - 2|c|/(3 sqrt 3)) >= 0.23 J2^(3/2)
    o.amp = 32;
    checkAll<N>(c, Cazacu2004Iso{cc}, st, o);
    if (cc == 0) {
      const auto s = toS<N>(st.sig);
      c.close(Cazacu2004Iso{0.}.template value<N>(s, 0.), ref::vonMises(st.sig) / std::sqrt(R(3)),
              512 * 8 * st.Einv() * st.vm, "C22.cazacu2004iso.c0_is_sqrtJ2",
              "Cazacu2004(c=0) vs sqrt(J2)");
    }
  }

  //! the orthotropic invariants are evaluated on the stress itself: the pressure
  //! cancels between terms of size ||s||^3 (J3O) : one factor tri^2 more than J3
  template <unsigned short N>
  void cazacu2001(verif::Case& c) {
    const auto st = genStress<N>(c);
    const auto k = genOrtho(c);
    const double cc = genDruckerC(c);
    const R J2 = k.J2O(st.sig), J3 = k.J3O(st.sig);
    // domain: the radicand must be positive (yield surface defined)
    if (!(J2 > 0 && J2 * J2 * J2 - R(cc) * J3 * J3 > R(0.2) * J2 * J2 * J2)) c.discard();
    Options o;
    o.name = "cazacu2001";
    o.eig = false;
    o.isotropic = k.isotropic;
    o.amp = 40 * st.tri * st.tri;
    o.secondKeySuffix = druckerClass(cc, J3, J2);
    c.tag("cazacu2001" + o.secondKeySuffix);
    c.tag(k.isotropic ? "ortho.isotropic_coefficients" : "ortho.generic");
    checkAll<N>(c, Cazacu2001{k, cc}, st, o);
    if (k.isotropic) {
      // with a_k = b_k = 1 the criterion is Drucker's
      const auto s = toS<N>(st.sig);
      const double seps = static_cast<double>(st.seps);
      const auto a = Cazacu2001{k, cc}.template normal<N>(s, seps);
      const auto b = Drucker{cc}.template normal<N>(s, seps);
      const R E = o.amp * st.Einv();
      c.close(std::get<0>(a), std::get<0>(b), 512 * E * std::fabs(std::get<0>(b)),
              "C22.cazacu2001.isotropic_is_drucker", "Cazacu2001(a=b=1) vs Drucker: value");
      closeM(c, toM<N>(std::get<1>(a)), toM<N>(std::get<1>(b)),
             512 * E * (1 + ref::norm(toM<N>(std::get<1>(b)))),
             "C22.cazacu2001.isotropic_is_drucker", "Cazacu2001(a=b=1) vs Drucker: normal", N);
    }
  }

  template <unsigned short N>
  void cazacu2004ortho(verif::Case& c) {
    const auto st = genStress<N>(c);
    const auto k = genOrtho(c);
    const double cc = genCazacu2004C(c);
    const R J2 = k.J2O(st.sig), J3 = k.J3O(st.sig);
    if (!(J2 > 0 && J2 * std::sqrt(J2) - R(cc) * J3 > R(0.2) * J2 * std::sqrt(J2))) c.discard();
    Options o;
    o.name = "cazacu2004ortho";
    o.eig = false;
    o.isotropic = k.isotropic;
    o.amp = 40 * st.tri * st.tri;
    c.tag(k.isotropic ? "ortho.isotropic_coefficients" : "ortho.generic");
    checkAll<N>(c, Cazacu2004Ortho{k, cc}, st, o);
    if (k.isotropic) {
      const auto s = toS<N>(st.sig);
      const double seps = static_cast<double>(st.seps);
      const auto a = Cazacu2004Ortho{k, cc}.template second<N>(s, seps);
      const auto b = Cazacu2004Iso{cc}.template second<N>(s, seps);
      const R E = o.amp * st.Einv();
      c.close(std::get<0>(a), std::get<0>(b), 512 * E * std::fabs(std::get<0>(b)),
              "C22.cazacu2004ortho.isotropic_is_iso", "ortho(a=b=1) vs isotropic: value");
      closeM(c, toM<N>(std::get<1>(a)), toM<N>(std::get<1>(b)),
             512 * E * (1 + ref::norm(toM<N>(std::get<1>(b)))),
             "C22.cazacu2004ortho.isotropic_is_iso", "ortho(a=b=1) vs isotropic: normal", N);
      constexpr int n = N == 1 ? 3 : (N == 2 ? 4 : 6);
      const R t = 512 * E * (norm4<N>(std::get<2>(b)) + 1 / st.vm);
      for (int i = 0; i < n; ++i)
        for (int j = 0; j < n; ++j)
          c.close(std::get<2>(a)(i, j), std::get<2>(b)(i, j), t,
                  "C22.cazacu2004ortho.isotropic_is_iso_second",
                  "ortho(a=b=1) vs isotropic: second derivative");
    }
  }

}  // namespace

VERIF_SUB_W(drucker_1d, 0.25) { drucker<1u>(c); }
VERIF_SUB_W(drucker_2d, 0.5) { drucker<2u>(c); }
VERIF_SUB(drucker_3d) { drucker<3u>(c); }
VERIF_SUB_W(cazacu2004iso_1d, 0.25) { cazacu2004iso<1u>(c); }
VERIF_SUB_W(cazacu2004iso_2d, 0.5) { cazacu2004iso<2u>(c); }
VERIF_SUB(cazacu2004iso_3d) { cazacu2004iso<3u>(c); }
VERIF_SUB_W(cazacu2001_1d, 0.25) { cazacu2001<1u>(c); }
VERIF_SUB_W(cazacu2001_2d, 0.5) { cazacu2001<2u>(c); }
VERIF_SUB(cazacu2001_3d) { cazacu2001<3u>(c); }
VERIF_SUB_W(cazacu2004ortho_1d, 0.25) { cazacu2004ortho<1u>(c); }
VERIF_SUB_W(cazacu2004ortho_2d, 0.5) { cazacu2004ortho<2u>(c); }
VERIF_SUB(cazacu2004ortho_3d) { cazacu2004ortho<3u>(c); }

VERIF_MAIN("C22_cazacu")
