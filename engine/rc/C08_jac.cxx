//! C08 - Newton-Raphson, Levenberg-Marquardt, Broyden, second Broyden
#define C08_SOLVERS(X) X(NR) X(LM) X(BR) X(BR2)
#include "C08_nonlinear.hxx"
VERIF_MAIN("C08_jac")
