//! C07 - fixed size solvers, sizes 10..12
#define C07_SIZES(X) X(10) X(11) X(12)
#include "C07_tiny.hxx"
VERIF_MAIN("C07_tiny_c")
