/*!
 * \file C22_common.hxx
 * \brief Shared machinery of the C22 harnesses (equivalent-stress criteria).
 *
 * A criterion is described by an *adaptor* `Ad`:
 *   double                value<N>(s, seps)   library, value variant
 *   pair<double,Sn>       normal<N>(s, seps)  library, value + normal
 *   tuple<double,Sn,S4>   second<N>(s, seps)  library, value + normal + second derivative
 *   R                     ref(M3)             independent long-double value written from
 *                                             the documented definition (never calls TFEL)
 * and `c22::checkAll` verifies, for one generated stress state:
 *   (1) the three variants return the same value / the same normal,
 *   (2) library value == independent value,
 *   (3) normal : D == d/dh ref(s + h D)   (central FD in long double, two steps,
 *       Richardson extrapolated), (dn : D) == d/dh n(s + h D) (central FD of the
 *       *library* normal in double, two steps, Richardson),
 *   (4) degree-one homogeneity, Euler identity, isotropy (when the adaptor says so).
 *
 * Tolerances.  u = 2^-52, tri = ||s|| / s_vM, g = principal gaps / s_vM.
 * Error model of the inputs of a criterion (relative to s_vM):
 *   E(s)  = u tri                      criteria written on invariants (the hydrostatic
 *                                      part does not cancel exactly in the deviator)
 *   E(s)  = min(u tri^2 / gmin, sqrt(u) tri)   criteria using the default (analytical,
 *           Cardano + Newton) eigen solver, documented in docs/web/tensors.md as "less
 *           accurate than Jacobi": a root of the characteristic polynomial separated
 *           by gmin from its neighbour carries u tri^2/gmin, a double root sqrt(u) tri.
 *   En(s) = E(s) / gnz                 error of the eigen-tensors, hence of a normal
 *           (gnz = smallest gap that is not a rounding residue, > 1e-13 ||s||).
 *   value      : |v - ref|  <= kv E |ref|
 *   variants   : same inputs, same formulas: kv E (value), kn En (normal)
 *   normal FD  : |n:D - Rich| <= kn En (1+|n|) + 50 |FD(h)-FD(h/2)|   (FD of the long
 *                double reference value: no noise term)
 *   second FD  : |dn:D - Rich| <= kn max(En(s+hD),En(s-hD)) (1+|n|)/h  (noise of the
 *                library normal) + 50 |FD(h)-FD(h/2)| + ks En (|dn|+1/s_vM)
 *                (DESIGN 3.2: the factor 50 covers a convergence as slow as h^0.03,
 *                 the error of the extrapolated value is then <= 14 |FD(h)-FD(h/2)|)
 *   invariances: kn En (normal), kv E (value), ks En/gnz (second derivative)
 * kv = kn = ks = 512 (x4 for the homogeneity of the second derivative): calibrated over
 * 8 seeds x quick tier, worst observed error / tolerance <= 0.01 for the rounding terms
 * and <= 0.2 (theoretical bound 0.28) for the FD-convergence term, see mutants/C22.md.
 */
#ifndef VERIF_C22_COMMON_HXX
#define VERIF_C22_COMMON_HXX

#include <tuple>
#include <functional>
#include <utility>
#include <string>
#include "gens.hxx"
#include "TFEL/Math/stensor.hxx"
#include "TFEL/Math/st2tost2.hxx"

namespace c22 {

  using ref::M3;
  using ref::R;
  constexpr R u = 2.220446049250313e-16L;

  template <unsigned short N>
  using S2 = tfel::math::stensor<N, double>;
  template <unsigned short N>
  using S4 = tfel::math::st2tost2<N, double>;

  //! a generated stress state
  struct Stress {
    M3 sig;       //!< value actually represented by the (rounded) double tensor
    R scale = 1;  //!< 10^[0,9]
    R seps = 0;   //!< 1e-12 * scale, the `seps` handed to the library
    R vm = 0;     //!< reference von Mises stress
    R nrm = 0;    //!< Frobenius norm
    R tri = 1;    //!< nrm / vm
    R gap = 1;    //!< smallest principal gap that is not a rounding residue / vm
    R gmin = 1;   //!< smallest principal gap / vm (0 for a repeated value)
    R vp[3] = {0, 0, 0};
    bool two_equal = false;
    bool rotated = false;  //!< principal frame not aligned with the axes
    std::string cls;       //!< "distinct" | "two_equal"
    //! relative error of the inputs of an invariant based criterion
    R Einv() const { return u * tri; }
    //! relative error of the eigenvalues returned by the analytical solver
    R Eeig() const {
      const R w = std::sqrt(u) * tri;
      return gmin > 0 ? std::min(u * tri * tri / gmin, w) : w;
    }
    R E(bool eig) const { return eig ? Eeig() : Einv(); }
    //! error of eigen-tensors / normals
    R En(bool eig) const { return eig ? Eeig() / std::min(gap, R(1)) : Einv(); }
  };

  inline void analyse(Stress& st) {
    M3 V;
    ref::jacobi(st.sig, st.vp, V);
    ref::sort3(st.vp);
    st.vm = ref::vonMises(st.sig);
    st.nrm = ref::norm(st.sig);
    st.tri = st.vm > 0 ? st.nrm / st.vm : 1;
    const R g1 = st.vp[1] - st.vp[0], g2 = st.vp[2] - st.vp[1];
    // a gap below 1e-13 ||s|| is a rounding residue of an exactly repeated value
    const R zero = 1e-13L * st.nrm;
    R g = st.vp[2] - st.vp[0];
    if (g1 > zero) g = std::min(g, g1);
    if (g2 > zero) g = std::min(g, g2);
    st.gap = st.vm > 0 ? g / st.vm : 1;
    const R gm = std::min(g1, g2);
    st.gmin = (st.vm > 0 && gm > zero) ? gm / st.vm : 0;
  }
  inline Stress analysed(const M3& s) {
    Stress st;
    st.sig = s;
    analyse(st);
    return st;
  }

  /*!
   * stress = Q diag(l) Q^T * scale, principal-gap classes {distinct (relative
   * gaps log-uniform in [1e-3,1]), exactly two equal}, triaxiality from pure
   * shear to nearly hydrostatic (|p| up to 100 s_vM), scale 10^[0,9].
   * N==1: diagonal; N==2: rotation about z.
   */
  template <unsigned short N>
  Stress genStress(verif::Case& c, const bool allowTwoEqual = true) {
    Stress st;
    st.scale = c.log10real(0, 9, "scale");
    st.seps = 1e-12L * st.scale;
    st.two_equal = allowTwoEqual && c.chance(2, 5, "two_equal");
    R l[3];
    if (st.two_equal) {
      const R g = c.log10real(-1, 0, "gap") * (c.boolean("sgn") ? 1 : -1);
      const int k = static_cast<int>(c.pick(3, "single"));  // which one is alone
      for (int i = 0; i < 3; ++i) l[i] = (i == k) ? g : 0;
    } else {
      const R g1 = c.log10real(-3, 0, "gap1"), g2 = c.log10real(-3, 0, "gap2");
      R t[3] = {0, g1, g1 + g2};
      const int p = static_cast<int>(c.pick(6, "perm"));
      static const int P[6][3] = {{0, 1, 2}, {0, 2, 1}, {1, 0, 2},
                                  {1, 2, 0}, {2, 0, 1}, {2, 1, 0}};
      for (int i = 0; i < 3; ++i) l[i] = t[P[p][i]];
    }
    // normalise the deviatoric part to a von Mises stress of 1, then add pressure
    {
      const R m = (l[0] + l[1] + l[2]) / 3;
      R q = 0;
      for (auto& x : l) {
        x -= m;
        q += x * x;
      }
      const R vm = std::sqrt(R(1.5) * q);
      for (auto& x : l) x /= vm;
    }
    R tri = 0;  // sigma_m / sigma_vM
    switch (c.integer(0, 5, "tri_class")) {
      case 0: tri = 0; break;
      case 1: tri = c.boolean("tsgn") ? R(1) / 3 : -R(1) / 3; break;
      case 2: tri = c.sreal(3., "tri"); break;
      case 3: tri = c.sreal(3., "tri"); break;
      case 4: tri = c.sreal(1., "tri") * 10; break;
      default: tri = c.log10real(0, 2, "tri") * (c.boolean("tsgn") ? 1 : -1);
    }
    for (auto& x : l) x += tri;
    M3 D;
    for (int i = 0; i < 3; ++i) D(i, i) = l[i] * st.scale;
    const M3 Q = gen::rot(c, N);
    const M3 s0 = ref::sym(Q * D * ref::transpose(Q));
    // value represented by the double tensor
    const auto s = gen::toStensor<S2<N>>(s0);
    st.sig = gen::stensorToM3(s);
    analyse(st);
    const R off = std::max({std::fabs(st.sig(0, 1)), std::fabs(st.sig(0, 2)),
                            std::fabs(st.sig(1, 2))});
    st.rotated = gen::misalignment(Q) > 1e-3 && off > 1e-3L * st.vm;
    st.cls = st.two_equal ? "two_equal" : "distinct";
    c.tag(std::string("c22.") + st.cls);
    if (N == 3 && st.rotated) c.tag(std::string("c22.3d_rotated.") + st.cls);
    c.nontrivial(N == 3 && st.rotated);
    return st;
  }

  //! random symmetric direction valid in dimension N, Frobenius norm 1
  template <unsigned short N>
  M3 genDirection(verif::Case& c) {
    M3 d;
    for (int tries = 0; tries < 4; ++tries) {
      for (int i = 0; i < 3; ++i) d(i, i) = c.sreal(1., "Dd");
      if (N >= 2) d(0, 1) = d(1, 0) = c.sreal(1., "Dxy");
      if (N == 3) {
        d(0, 2) = d(2, 0) = c.sreal(1., "Dxz");
        d(1, 2) = d(2, 1) = c.sreal(1., "Dyz");
      }
      if (ref::norm(d) > 1e-3L) break;
      d(0, 0) += 1;
    }
    const R n = ref::norm(d);
    if (!(n > 0)) {
      d = M3::Id();
      return (1 / std::sqrt(R(3))) * d;
    }
    return (1 / n) * d;
  }

  template <unsigned short N>
  S2<N> toS(const M3& m) {
    return gen::toStensor<S2<N>>(m);
  }
  template <unsigned short N>
  M3 toM(const S2<N>& s) {
    return gen::stensorToM3(s);
  }
  //! (dn : D) in the Mandel basis, accumulated in long double
  template <unsigned short N>
  M3 apply(const S4<N>& dn, const M3& D) {
    const auto d = ref::toStensor(D);
    std::array<R, 6> r{};
    constexpr int n = N == 1 ? 3 : (N == 2 ? 4 : 6);
    for (int i = 0; i < n; ++i) {
      R s = 0;
      for (int j = 0; j < n; ++j) s += static_cast<R>(dn(i, j)) * d[j];
      r[i] = s;
    }
    return ref::fromStensor(r, N);
  }
  template <unsigned short N>
  R norm4(const S4<N>& dn) {
    R s = 0;
    constexpr int n = N == 1 ? 3 : (N == 2 ? 4 : 6);
    for (int i = 0; i < n; ++i)
      for (int j = 0; j < n; ++j) s += static_cast<R>(dn(i, j)) * dn(i, j);
    return std::sqrt(s);
  }
  template <unsigned short N>
  bool finite2(const S2<N>& s) {
    for (std::size_t i = 0; i < s.size(); ++i)
      if (!std::isfinite(s[i])) return false;
    return true;
  }
  template <unsigned short N>
  bool finite4(const S4<N>& s) {
    constexpr int n = N == 1 ? 3 : (N == 2 ? 4 : 6);
    for (int i = 0; i < n; ++i)
      for (int j = 0; j < n; ++j)
        if (!std::isfinite(s(i, j))) return false;
    return true;
  }

  //! compare two symmetric matrices component-wise (Mandel components)
  inline void closeM(verif::Case& c, const M3& a, const M3& b, R tol,
                     const std::string& key, const std::string& what, int N) {
    const auto x = ref::toStensor(a), y = ref::toStensor(b);
    for (int k = 0; k < ref::stensorSize(N); ++k)
      c.close(x[k], y[k], tol, key, what + " [" + std::to_string(k) + "]");
  }

  //! error model of the inputs of a criterion at a given stress (see the file header)
  struct ErrModel {
    R E;    //!< relative error of the quantities the value is built on
    R En;   //!< error of the normal
    R gap;  //!< scale (relative to s_vM) on which the criterion varies
  };

  struct Options {
    std::string name;          //!< criterion name used in the keys
    //! optional replacement of the default error model (criteria that decompose
    //! transformed stresses)
    std::function<ErrModel(const M3&)> model;
    bool eig = true;           //!< criterion based on an eigen-decomposition
    R amp = 1;                 //!< criterion specific amplification of the input errors
    bool homogeneous = true;   //!< degree-one homogeneous (with seps scaled)
    bool isotropic = true;
    bool hasRef = true;
    bool checkSecond = true;
    R kv = 512;                //!< value constant
    R kn = 512;                //!< normal constant
    R ks = 512;                //!< second-derivative constant
    std::string secondKeySuffix;  //!< extra input class for the second-derivative keys
    R eta = 0;                 //!< relative FD step (0: chosen from the gaps)
    bool positive = true;      //!< the value is an equivalent stress (>= 10 seps in the domain)
    R vscale = 0;              //!< scale of the terms the value is built from (0: |value|)
    R ampSecond = 1;           //!< further amplification for the second derivative
    /*!
     * optional: index of the smooth piece of the criterion a stress lies in.  A
     * criterion which is only piecewise C2 has no converged central difference of its
     * normal across a junction: the second-derivative FD check is skipped (and tagged)
     * when the FD points are not all in the piece of the central point.
     */
    std::function<int(const M3&)> regime;
    std::string valueKeySuffix;  //!< extra input class for the value key
    bool fdLibraryValue = false; //!< differentiate the library value although a reference exists
  };

  /*!
   * central FD + Richardson of a scalar function along D.
   * returns (extrapolated value, |FD(h)-FD(h/2)|)
   */
  template <typename F>
  std::pair<R, R> fdScalar(const F& f, const M3& s, const M3& D, R h) {
    const R d1 = (f(s + h * D) - f(s - h * D)) / (2 * h);
    const R h2 = h / 2;
    const R d2 = (f(s + h2 * D) - f(s - h2 * D)) / (2 * h2);
    return {(4 * d2 - d1) / 3, std::fabs(d2 - d1)};
  }

  template <unsigned short N, typename Ad>
  void checkAll(verif::Case& c, const Ad& ad, const Stress& st, const Options& o) {
    const std::string K = "C22." + o.name;
    const std::string C = "." + st.cls;
    const double seps = static_cast<double>(st.seps);
    const auto s = toS<N>(st.sig);
    const auto model = [&o](const M3& x) -> ErrModel {
      if (o.model) return o.model(x);
      const Stress t = analysed(x);
      return {t.E(o.eig), t.En(o.eig), o.eig ? t.gap : R(1)};
    };
    const ErrModel em = model(st.sig);
    const R E = o.amp * em.E, En = o.amp * em.En;
    // a violation recorded as a known finding drops the case: the checks that carry
    // an input-class suffix are evaluated, but their known hit is raised at the end so
    // that the other sub-claims are still verified on the same input
    bool haveKnown = false;
    verif::KnownHit pending;
    auto deferred = [&](const auto& f) {
      try {
        f();
      } catch (const verif::KnownHit& k) {
        if (!haveKnown) pending = k;
        haveKnown = true;
      }
    };
    // ---------------------------------------------------------- (1) variants
    const double v1 = ad.template value<N>(s, seps);
    const auto r2 = ad.template normal<N>(s, seps);
    const auto r3 = ad.template second<N>(s, seps);
    const double v2 = std::get<0>(r2), v3 = std::get<0>(r3);
    const auto& n2 = std::get<1>(r2);
    const auto& n3 = std::get<1>(r3);
    const auto& dn = std::get<2>(r3);
    c.check(std::isfinite(v1) && std::isfinite(v2) && std::isfinite(v3) &&
                finite2<N>(n2) && finite2<N>(n3) && finite4<N>(dn),
            K + ".finite" + C, "non finite value / normal / second derivative");
    // domain: the criteria are only evaluated for seq >= 10 seps
    if (o.positive && !(v1 >= 10 * seps)) c.discard();
    const R vs = o.vscale > 0 ? o.vscale : std::fabs(static_cast<R>(v1));
    const R vtol = o.kv * E * vs;
    c.close(v2, v1, vtol, K + ".variants" + C, "value: normal variant vs value variant");
    c.close(v3, v1, vtol, K + ".variants" + C,
            "value: second-derivative variant vs value variant");
    const M3 n2m = toM<N>(n2), n3m = toM<N>(n3);
    const R nn = ref::norm(n3m);
    closeM(c, n2m, n3m, o.kn * En * (1 + nn), K + ".variants" + C,
           "normal: normal variant vs second-derivative variant", N);
    // ---------------------------------------------------------- (2) value
    if (o.hasRef) {
      const R vr = ad.ref(st.sig);
      deferred([&] {
        c.close(v1, vr, o.kv * E * (o.vscale > 0 ? o.vscale : std::fabs(vr)),
                K + ".value" + C + o.valueKeySuffix,
                "library value vs independent long double value");
      });
    }
    // ---------------------------------------------------------- (3) FD
    const M3 D = genDirection<N>(c);
    // step: 1e-2 of the smallest significant gap (the functions of the eigenvalues
    // vary on that scale), at most 1e-2, relative to ||s||
    const R eta = o.eta > 0 ? o.eta : std::min(R(1e-2), em.gap * 1e-2L) / st.tri;
    const R dnn = norm4<N>(dn);
    {
      // gradient of the value
      std::pair<R, R> fd;
      R noise = 0;
      if (o.hasRef && !o.fdLibraryValue) {
        const R h = eta * st.nrm * 1e-2L;
        fd = fdScalar([&ad](const M3& x) { return ad.ref(x); }, st.sig, D, h);
      } else {
        // FD of the library value at the rounded points, the increments and the
        // effective step being accumulated in long double
        const R h = eta * st.nrm;
        R Emax = 0;
        auto d = [&](R hh) {
          const auto xp = toS<N>(st.sig + hh * D), xm = toS<N>(st.sig - hh * D);
          const M3 mp = toM<N>(xp), mm = toM<N>(xm);
          Emax = std::max({Emax, model(mp).E, model(mm).E});
          const R he = ref::ddot(mp - mm, D) / 2;
          return (static_cast<R>(ad.template value<N>(xp, seps)) -
                  static_cast<R>(ad.template value<N>(xm, seps))) /
                 (2 * he);
        };
        const R d1 = d(h), d2 = d(h / 2);
        fd = {(4 * d2 - d1) / 3, std::fabs(d2 - d1)};
        noise = o.kv * o.amp * Emax * vs / h;
      }
      const R tol = o.kn * En * (1 + nn) + 50 * fd.second + noise;
      c.close(ref::ddot(n3m, D), fd.first, tol, K + ".normal_fd" + C,
              "normal:D vs central finite difference of the value");
    }
    if (o.checkSecond) {
      // gradient of the (library) normal
      const R h = eta * st.nrm;
      R Enmax = 0;
      auto nat = [&](const M3& x) {
        Enmax = std::max(Enmax, model(x).En);
        return toM<N>(std::get<1>(ad.template normal<N>(toS<N>(x), seps)));
      };
      // the points actually evaluated are the rounded ones
      auto diff = [&](R hh) {
        const M3 xp = toM<N>(toS<N>(st.sig + hh * D)), xm = toM<N>(toS<N>(st.sig - hh * D));
        // effective step along D of the rounded points
        const R he = ref::ddot(xp - xm, D) / 2;
        return (1 / (2 * he)) * (nat(xp) - nat(xm));
      };
      bool same = true;
      if (o.regime) {
        const int r0 = o.regime(st.sig);
        for (const R hh : {2 * h, -2 * h, h, -h, h / 2, -h / 2})
          same = same && o.regime(st.sig + hh * D) == r0;
        c.tag(same ? "fd.same_piece" : "fd.crosses_junction");
      }
      const M3 d1 = diff(h), d2 = diff(h / 2);
      const M3 rich = (R(4) / 3) * d2 - (R(1) / 3) * d1;
      const R err = ref::maxabs(d2 - d1);
      const R noise = o.kn * o.amp * Enmax * (1 + nn) / h;
      const R tol = o.ks * o.ampSecond * En * (dnn + 1 / st.vm) + 50 * err + noise;
      if (same)
        deferred([&] {
          closeM(c, apply<N>(dn, D), rich, tol, K + ".second_fd" + C + o.secondKeySuffix,
                 "(second derivative):D vs central finite difference of the normal", N);
        });
      // the second derivative of a scalar is symmetric
      const R stol = o.ks * o.ampSecond * En * (dnn + 1 / st.vm);
      constexpr int n = N == 1 ? 3 : (N == 2 ? 4 : 6);
      for (int i = 0; i < n; ++i)
        for (int j = i + 1; j < n; ++j)
          c.close(dn(i, j), dn(j, i), stol, K + ".second_symmetry" + C + o.secondKeySuffix,
                  "second derivative not symmetric (" + std::to_string(i) + "," +
                      std::to_string(j) + ")");
    }
    // ---------------------------------------------------------- (4) invariances
    if (o.homogeneous) {
      // Euler: n : s = seq
      c.close(ref::ddot(n3m, st.sig), v3, o.kn * En * (1 + nn) * st.nrm + o.kv * E * std::fabs(v3),
              K + ".euler" + C, "n:s vs seq");
      const R lam = c.log10real(-2, 2, "lambda");
      const auto sl = toS<N>(lam * st.sig);
      const double sepsl = static_cast<double>(lam * st.seps);
      const auto rl = ad.template second<N>(sl, sepsl);
      c.close(std::get<0>(rl), lam * v3, o.kv * E * lam * std::fabs(v3), K + ".homogeneity" + C,
              "seq(lambda s) vs lambda seq(s)");
      closeM(c, toM<N>(std::get<1>(rl)), n3m, o.kn * En * (1 + nn), K + ".homogeneity" + C,
             "n(lambda s) vs n(s)", N);
      if (o.checkSecond) {
        const auto& dl = std::get<2>(rl);
        constexpr int n = N == 1 ? 3 : (N == 2 ? 4 : 6);
        // one more factor 4: the two operands are both computed values
        const R t = 4 * o.ks * En / std::min(R(1), em.gap) * (dnn + 1 / st.vm);
        for (int i = 0; i < n; ++i)
          for (int j = 0; j < n; ++j)
            c.close(lam * static_cast<R>(dl(i, j)), dn(i, j), t,
                    K + ".homogeneity_second" + C + o.secondKeySuffix,
                    "lambda dn(lambda s) vs dn(s)");
      }
    }
    if (o.isotropic && N >= 2) {
      const M3 Q = gen::rot(c, N);
      const M3 sr = ref::sym(Q * st.sig * ref::transpose(Q));
      const auto rr = ad.template normal<N>(toS<N>(sr), seps);
      c.close(std::get<0>(rr), v2, o.kv * E * vs, K + ".isotropy" + C,
              "seq(Q s Q^T) vs seq(s)");
      closeM(c, toM<N>(std::get<1>(rr)), ref::sym(Q * n2m * ref::transpose(Q)),
             o.kn * En * (1 + nn), K + ".isotropy" + C, "n(Q s Q^T) vs Q n(s) Q^T", N);
    }
    if (haveKnown) throw pending;
  }

}  // namespace c22

#endif /* VERIF_C22_COMMON_HXX */
