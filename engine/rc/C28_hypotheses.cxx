/*!
 * C28 - Modelling hypotheses and orthotropic axes conventions are coherent.
 *
 * (a) names: every hypothesis round-trips through toString/fromString, the
 *     names are the documented ones, every other string is rejected
 *     (std::runtime_error from tfel::raise), space dimension / stensor size /
 *     tensor size follow the documented table 1D:3/3, 2D:4/5, 3D:6/9, at run
 *     time and in the compile-time metafunctions.
 * (b) axes conventions (docs/web/tfel-material.md "Orthotropic axes
 *     convention", OrthotropicAxesConvention.hxx): material data are given in
 *     the 3D frame;
 *       DEFAULT : never any exchange
 *       PIPE    : (rr,zz,tt) in 3D, axisymmetrical, 1D hypotheses; (rr,tt,zz)
 *                 in plane stress / plane strain / generalised plane strain,
 *                 i.e. axes 2 and 3 are exchanged for these three hypotheses
 *       PLATE   : same axes in 3D and in the plane hypotheses (only defined
 *                 for those)
 *     Oracle: the 3D object (built by the library in 3D, or by the documented
 *     formula) is converted to a full 4th order tensor of the reference
 *     algebra, transformed by the orthogonal matrix of the documented axis
 *     permutation (ref::rotate), and its components on the tensor basis of
 *     the reduced hypothesis are compared with what the library returns for
 *     that hypothesis.  Checked objects: stress free expansion (diagonal
 *     tensor), Hill tensor, orthotropic stiffness tensor (unaltered; altered
 *     = plane-stress condensation of the permuted 3D tensor for PLANESTRESS)
 *     and, in addition, the orthotropic stress linear transformation (header
 *     documentation of the PIPE case).  End-to-end: the Hill stress and the
 *     elastic stress of a state of the reduced hypothesis equal the in-plane
 *     part of the 3D response for the same state embedded in 3D.
 *
 * Non-trivial (DESIGN 7/C28): PIPE with a plane hypothesis and data that
 * distinguish axes 2 and 3.
 */
#include "gens.hxx"
#include <array>
#include <cctype>
#include "TFEL/Math/stensor.hxx"
#include "TFEL/Math/st2tost2.hxx"
#include "TFEL/Math/tvector.hxx"
#include "TFEL/Material/ModellingHypothesis.hxx"
#include "TFEL/Material/OrthotropicAxesConvention.hxx"
#include "TFEL/Material/Hill.hxx"
#include "TFEL/Material/StiffnessTensor.hxx"
#include "TFEL/Material/OrthotropicStressLinearTransformation.hxx"

using ref::M3;
using ref::R;
using ref::T4;
using namespace tfel::material;
using MH = ModellingHypothesis;
using OAC = OrthotropicAxesConvention;
using STAC = StiffnessTensorAlterationCharacteristic;

namespace {

  // ------------------------------------------------------------ documented tables
  struct HypothesisRow {
    MH::Hypothesis h;
    const char* name;  // docs/web (e.g. mfront.md, *-keywords.md "@ModellingHypothesis")
    unsigned short dime, stensor_size, tensor_size;
    bool plane;  // plane stress, plane strain, generalised plane strain
  };
  const HypothesisRow table[7] = {
      {MH::AXISYMMETRICALGENERALISEDPLANESTRAIN, "AxisymmetricalGeneralisedPlaneStrain", 1, 3, 3, false},
      {MH::AXISYMMETRICALGENERALISEDPLANESTRESS, "AxisymmetricalGeneralisedPlaneStress", 1, 3, 3, false},
      {MH::AXISYMMETRICAL, "Axisymmetrical", 2, 4, 5, false},
      {MH::PLANESTRESS, "PlaneStress", 2, 4, 5, true},
      {MH::PLANESTRAIN, "PlaneStrain", 2, 4, 5, true},
      {MH::GENERALISEDPLANESTRAIN, "GeneralisedPlaneStrain", 2, 4, 5, true},
      {MH::TRIDIMENSIONAL, "Tridimensional", 3, 6, 9, false}};

  const HypothesisRow& row(const MH::Hypothesis h) {
    for (const auto& r : table)
      if (r.h == h) return r;
    throw std::logic_error("C28: unknown hypothesis in the harness table");
  }

  template <MH::Hypothesis H>
  constexpr bool metafunctionsAgree(const unsigned short d, const unsigned short s, const unsigned short t) {
    return ModellingHypothesisToSpaceDimension<H>::value == d &&
           ModellingHypothesisToStensorSize<H>::value == s &&
           ModellingHypothesisToTensorSize<H>::value == t &&
           tfel::math::StensorDimeToSize<ModellingHypothesisToSpaceDimension<H>::value>::value == s &&
           tfel::math::TensorDimeToSize<ModellingHypothesisToSpaceDimension<H>::value>::value == t;
  }

  bool metafunctions(const MH::Hypothesis h, unsigned short d, unsigned short s, unsigned short t) {
    switch (h) {
      case MH::AXISYMMETRICALGENERALISEDPLANESTRAIN: return metafunctionsAgree<MH::AXISYMMETRICALGENERALISEDPLANESTRAIN>(d, s, t);
      case MH::AXISYMMETRICALGENERALISEDPLANESTRESS: return metafunctionsAgree<MH::AXISYMMETRICALGENERALISEDPLANESTRESS>(d, s, t);
      case MH::AXISYMMETRICAL: return metafunctionsAgree<MH::AXISYMMETRICAL>(d, s, t);
      case MH::PLANESTRESS: return metafunctionsAgree<MH::PLANESTRESS>(d, s, t);
      case MH::PLANESTRAIN: return metafunctionsAgree<MH::PLANESTRAIN>(d, s, t);
      case MH::GENERALISEDPLANESTRAIN: return metafunctionsAgree<MH::GENERALISEDPLANESTRAIN>(d, s, t);
      case MH::TRIDIMENSIONAL: return metafunctionsAgree<MH::TRIDIMENSIONAL>(d, s, t);
      default: return false;
    }
  }

  //! does the documented convention exchange axes 2 and 3 for (h, c)?
  bool swaps(const MH::Hypothesis h, const OAC c) { return c == OAC::PIPE && row(h).plane; }
  //! orthogonal matrix of the documented permutation (symmetric: its own inverse)
  M3 permutationMatrix(const bool swap) {
    M3 p;
    p(0, 0) = 1;
    if (swap) {
      p(1, 2) = p(2, 1) = 1;
    } else {
      p(1, 1) = p(2, 2) = 1;
    }
    return p;
  }
  const char* cname(const OAC c) { return c == OAC::DEFAULT ? "DEFAULT" : (c == OAC::PIPE ? "PIPE" : "PLATE"); }

  // ------------------------------------------------------------ dispatch
  /*!
   * the 18 valid (hypothesis, convention) pairs: DEFAULT and PIPE for the 7
   * hypotheses, PLATE for 3D and the three plane hypotheses.  `f` is a
   * generic functor called as f.template operator()<H, c>().
   */
  template <bool WithPlate = true, typename F>
  void dispatch(verif::Case& cs, F&& f) {
    const auto k = cs.integer(0, WithPlate ? 17 : 13, "hypothesis_convention");
#define C28_CASE(I, HYP, CONV) \
  case I: f.template operator()<MH::HYP, OAC::CONV>(); break;
    switch (k) {
      C28_CASE(0, AXISYMMETRICALGENERALISEDPLANESTRAIN, DEFAULT)
      C28_CASE(1, AXISYMMETRICALGENERALISEDPLANESTRESS, DEFAULT)
      C28_CASE(2, AXISYMMETRICAL, DEFAULT)
      C28_CASE(3, PLANESTRESS, DEFAULT)
      C28_CASE(4, PLANESTRAIN, DEFAULT)
      C28_CASE(5, GENERALISEDPLANESTRAIN, DEFAULT)
      C28_CASE(6, TRIDIMENSIONAL, DEFAULT)
      C28_CASE(7, AXISYMMETRICALGENERALISEDPLANESTRAIN, PIPE)
      C28_CASE(8, AXISYMMETRICALGENERALISEDPLANESTRESS, PIPE)
      C28_CASE(9, AXISYMMETRICAL, PIPE)
      C28_CASE(10, PLANESTRESS, PIPE)
      C28_CASE(11, PLANESTRAIN, PIPE)
      C28_CASE(12, GENERALISEDPLANESTRAIN, PIPE)
      C28_CASE(13, TRIDIMENSIONAL, PIPE)
      default:
        if constexpr (WithPlate) {
          switch (k) {
            C28_CASE(14, PLANESTRESS, PLATE)
            C28_CASE(15, PLANESTRAIN, PLATE)
            C28_CASE(16, GENERALISEDPLANESTRAIN, PLATE)
            default: f.template operator()<MH::TRIDIMENSIONAL, OAC::PLATE>(); break;
          }
        }
        break;
    }
#undef C28_CASE
  }

  template <MH::Hypothesis H, OAC c>
  void tagCase(verif::Case& cs) {
    cs.tag(std::string("conv.") + cname(c));
    cs.tag(std::string("hyp.") + row(H).name);
    if (swaps(H, c)) cs.tag("permutation.swap23");
  }

  //! T4 of a library st2tost2<N,...> embedded in 3D (missing components are 0)
  template <typename ST>
  T4 toT4(const ST& t, const int n) {
    return ref::toT4([&t](int I, int J) { return static_cast<R>(t(I, J)); }, n, true, n, true);
  }

  template <typename ST>
  R maxAbs(const ST& t, const int n) {
    R m = 0;
    for (int i = 0; i < n; ++i)
      for (int j = 0; j < n; ++j) m = std::max(m, std::fabs(static_cast<R>(t(i, j))));
    return m;
  }

  /*!
   * compare the library tensor `got` of the reduced hypothesis (size n) with
   * the components (I,J), I,J<n, of the 3D reference tensor transformed by
   * the documented permutation.
   */
  template <typename ST>
  void compareReduced(verif::Case& cs, const ST& got, const int n, const T4& ref3d,
                      const bool swap, const R tol, const std::string& key, const std::string& what) {
    const T4 e = swap ? ref::rotate(ref3d, permutationMatrix(true)) : ref3d;
    for (int I = 0; I < n; ++I)
      for (int J = 0; J < n; ++J)
        cs.close(static_cast<R>(got(I, J)), ref::componentOf(e, I, true, J, true), tol, key,
                 what + " component (" + std::to_string(I) + "," + std::to_string(J) + ")");
  }

  //! a state of the reduced hypothesis embedded in the 3D material frame
  M3 embed(const M3& reduced, const bool swap) {
    if (!swap) return reduced;
    const M3 p = permutationMatrix(true);
    return p * reduced * p;
  }

  //! random symmetric state representable in dimension N (in the frame of the hypothesis)
  M3 state(verif::Case& cs, const int N, const char* n) {
    M3 m;
    for (int i = 0; i < 3; ++i) m(i, i) = cs.sreal(1., n);
    if (N >= 2) m(0, 1) = m(1, 0) = cs.sreal(1., n);
    if (N == 3) {
      m(0, 2) = m(2, 0) = cs.sreal(1., n);
      m(1, 2) = m(2, 1) = cs.sreal(1., n);
    }
    return m;
  }

  //! a coefficient: small integer, simple fraction or real in [lo,hi]
  double coef(verif::Case& cs, const double lo, const double hi, const char* n) {
    const auto k = cs.integer(0, 3, "coef_class");
    if (k == 0) return lo + (hi - lo) * static_cast<double>(cs.integer(0, 8, n)) / 8;
    return cs.real(lo, hi, n);
  }

}  // namespace

//! does the convention-aware stiffness builder exist for (H, smt, c)?
template <MH::Hypothesis H, STAC smt, OAC c>
concept StiffnessBuilderAvailable =
    requires { sizeof(tfel::material::internals::ComputeOrthotropicStiffnessTensor<H, smt, c>); };

// ================================================================== names
VERIF_SUB_W(names_roundtrip, 0.02) {
  const auto& r = table[c.pick(7, "hypothesis")];
  c.nontrivial();
  c.tag(std::string("hyp.") + r.name);
  const auto s = MH::toString(r.h);
  c.check(s == r.name, "C28.names.documented_name", "toString gives '" + s + "' for " + r.name);
  c.check(MH::fromString(s) == r.h, "C28.names.roundtrip", "fromString(toString(h)) != h for " + s);
  c.check(MH::fromString(r.name) == r.h, "C28.names.fromString", std::string("fromString of the documented name ") + r.name);
  c.check(MH::isModellingHypothesis(r.name), "C28.names.isModellingHypothesis", r.name);
  std::string up = r.name;
  for (auto& ch : up) ch = static_cast<char>(std::toupper(static_cast<unsigned char>(ch)));
  c.check(MH::toUpperCaseString(r.h) == up, "C28.names.upper_case", "toUpperCaseString gives '" + MH::toUpperCaseString(r.h) + "'");
  c.check(getSpaceDimension(r.h) == r.dime, "C28.sizes.space_dimension", r.name);
  c.check(getStensorSize(r.h) == r.stensor_size, "C28.sizes.stensor_size", r.name);
  c.check(getTensorSize(r.h) == r.tensor_size, "C28.sizes.tensor_size", r.name);
  c.check(metafunctions(r.h, r.dime, r.stensor_size, r.tensor_size), "C28.sizes.metafunctions", r.name);
  // the list of hypotheses is the 7 documented ones, once each
  const auto& l = MH::getModellingHypotheses();
  c.check(l.size() == 7u, "C28.names.list", "getModellingHypotheses().size() = " + std::to_string(l.size()));
  int count = 0;
  for (const auto h : l) count += (h == r.h) ? 1 : 0;
  c.check(count == 1, "C28.names.list", std::string(r.name) + " appears " + std::to_string(count) + " times");
}

VERIF_SUB(names_rejection) {
  // a string derived from a documented name by a few edits, or a random one
  static const char alphabet[] = "abcdefghijklmnopqrstuvwxyzABCDEFGHIJKLMNOPQRSTUVWXYZ _-0123456789";
  const auto nalpha = sizeof(alphabet) - 1;
  std::string s;
  const auto mode = c.integer(0, 9, "mode");
  if (mode <= 6) {
    s = table[c.pick(7, "base")].name;
    const auto nedits = c.integer(1, 3, "edits");
    for (int e = 0; e < nedits; ++e) {
      const auto op = c.integer(0, 6, "op");
      const auto pos = s.empty() ? 0 : c.pick(s.size(), "pos");
      const char ch = alphabet[c.pick(nalpha, "char")];
      switch (op) {
        case 0: if (!s.empty()) s.erase(pos, 1); c.tag("edit.delete"); break;
        case 1: s.insert(pos, 1, ch); c.tag("edit.insert"); break;
        case 2: if (!s.empty()) s[pos] = ch; c.tag("edit.replace"); break;
        case 3:
          if (!s.empty()) {
            const auto u = static_cast<unsigned char>(s[pos]);
            s[pos] = static_cast<char>(std::isupper(u) ? std::tolower(u) : std::toupper(u));
          }
          c.tag("edit.case");
          break;
        case 4: s.push_back(ch); c.tag("edit.append"); break;
        case 5: s = s.substr(0, pos); c.tag("edit.truncate"); break;
        default: if (pos + 1 < s.size()) std::swap(s[pos], s[pos + 1]); c.tag("edit.transpose"); break;
      }
    }
  } else if (mode == 7) {
    // upper case / lower case variants, concatenations of two names
    const auto& a = table[c.pick(7, "base")];
    const auto v = c.integer(0, 3, "variant");
    s = a.name;
    if (v == 0) for (auto& ch : s) ch = static_cast<char>(std::toupper(static_cast<unsigned char>(ch)));
    if (v == 1) for (auto& ch : s) ch = static_cast<char>(std::tolower(static_cast<unsigned char>(ch)));
    if (v == 2) s += table[c.pick(7, "second")].name;
    if (v == 3) s = std::string("ModellingHypothesis::") + s;
    c.tag("string.variant");
  } else {
    const auto n = c.integer(0, 40, "length");
    for (int i = 0; i < n; ++i) s.push_back(alphabet[c.pick(nalpha, "char")]);
    c.tag("string.random");
  }
  const HypothesisRow* hit = nullptr;
  for (const auto& r : table)
    if (s == r.name) hit = &r;
  c.nontrivial(hit == nullptr);
  bool thrown = false;
  MH::Hypothesis h = MH::UNDEFINEDHYPOTHESIS;
  try {
    h = MH::fromString(s);
  } catch (const std::runtime_error&) {
    // documented failure (tfel::raise)
    thrown = true;
  }
  if (hit == nullptr) {
    c.check(thrown, "C28.names.rejects_non_names", "fromString accepted '" + s + "'");
    c.check(!MH::isModellingHypothesis(s), "C28.names.isModellingHypothesis", "accepted '" + s + "'");
  } else {
    c.tag("string.valid_after_edits");
    c.check(!thrown && h == hit->h, "C28.names.fromString", "documented name '" + s + "' not recognised");
  }
}

// ================================================================== stress free expansion
template <typename T>
static void sfeBody(verif::Case& c) {
  const double sc = gen::scale(c, std::is_same_v<T, float> ? 10 : 30);
  T v[3];
  const auto cls = c.integer(0, 3, "sfe_class");
  for (auto& x : v) x = static_cast<T>(cls == 0 ? static_cast<double>(c.integer(-3, 3, "e")) : c.sreal(sc, "e"));
  if (cls == 1) v[2] = v[1];
  dispatch(c, [&]<MH::Hypothesis H, OAC cv>() {
    tagCase<H, cv>(c);
    constexpr auto N = ModellingHypothesisToSpaceDimension<H>::value;
    tfel::math::stensor<N, T> s(T(0));
    for (unsigned short i = 0; i < 3; ++i) s[i] = v[i];
    convertStressFreeExpansionStrain<H, cv>(s);
    const bool sw = swaps(H, cv);
    c.nontrivial(sw && v[1] != v[2]);
    // a permutation of the diagonal: exact
    const T e[3] = {v[0], sw ? v[2] : v[1], sw ? v[1] : v[2]};
    for (unsigned short i = 0; i < 3; ++i)
      c.check(s[i] == e[i], std::string("C28.sfe.") + (sw ? "swap23" : "identity"),
              std::string(row(H).name) + "/" + cname(cv) + " component " + std::to_string(i) + ": got " +
                  std::to_string(static_cast<double>(s[i])) + " expected " + std::to_string(static_cast<double>(e[i])));
    for (unsigned short i = 3; i < s.size(); ++i)
      c.check(s[i] == T(0), "C28.sfe.offdiagonal_untouched", std::string(row(H).name) + "/" + cname(cv));
  });
}
VERIF_SUB(stress_free_expansion_double) { sfeBody<double>(c); }
VERIF_SUB_W(stress_free_expansion_float, 0.5) { sfeBody<float>(c); }

// ================================================================== Hill tensor
template <typename T>
static void hillBody(verif::Case& c) {
  const R u = static_cast<R>(std::numeric_limits<T>::epsilon());
  const double sc = gen::scale(c, std::is_same_v<T, float> ? 6 : 20);
  T h[6];  // F G H L M N
  const auto cls = c.integer(0, 4, "hill_class");
  for (auto& x : h) x = static_cast<T>(sc * coef(c, 0., 3., "hill"));
  if (cls == 0) {  // isotropic (von Mises)
    h[0] = h[1] = h[2] = static_cast<T>(0.5 * sc);
    h[3] = h[4] = h[5] = static_cast<T>(1.5 * sc);
    c.tag("hill.isotropic");
  } else if (cls == 1) {
    for (auto& x : h) x = static_cast<T>(sc * c.sreal(3., "hill_signed"));
    c.tag("hill.signed");
  } else {
    c.tag("hill.positive");
  }
  const R F = h[0], G = h[1], H_ = h[2], L = h[3], M = h[4], N_ = h[5];
  const R hmax = std::max({std::fabs(F), std::fabs(G), std::fabs(H_), std::fabs(L), std::fabs(M), std::fabs(N_)});
  // 3D reference, built from the matrix documented in Hill.hxx
  ref::Vec m(36, R(0));
  m[0] = F + H_; m[1] = -F; m[2] = -H_;
  m[6] = -F; m[7] = G + F; m[8] = -G;
  m[12] = -H_; m[13] = -G; m[14] = H_ + G;
  m[21] = L; m[28] = M; m[35] = N_;
  const T4 H3 = ref::fromMandel66(m);
  const R tol = 128 * u * hmax + static_cast<R>(std::numeric_limits<T>::min());
  const M3 red = state(c, 3, "sig");  // trimmed to the dimension below
  dispatch(c, [&]<MH::Hypothesis HY, OAC cv>() {
    tagCase<HY, cv>(c);
    constexpr auto ND = ModellingHypothesisToSpaceDimension<HY>::value;
    constexpr int n = ModellingHypothesisToStensorSize<HY>::value;
    const bool sw = swaps(HY, cv);
    // the exchange 2<->3 maps (F,H) and (L,M) onto each other
    c.nontrivial(sw && (h[0] != h[2] || h[3] != h[4]));
    const auto t1 = computeHillTensor<HY, cv, T>(h[0], h[1], h[2], h[3], h[4], h[5]);
    const auto t2 = makeHillTensor<HY, cv, T>(h[0], h[1], h[2], h[3], h[4], h[5]);
    const std::string w = std::string(row(HY).name) + "/" + cname(cv);
    const std::string key = std::string("C28.hill.") + (sw ? "swap23" : "identity");
    compareReduced(c, t1, n, H3, sw, tol, key, "computeHillTensor " + w);
    compareReduced(c, t2, n, H3, sw, tol, key, "makeHillTensor " + w);
    if (cv == OAC::DEFAULT) {
      const auto t3 = hillTensor<ND, T>(h[0], h[1], h[2], h[3], h[4], h[5]);
      const auto t4 = makeHillTensor<ND, T>(h[0], h[1], h[2], h[3], h[4], h[5]);
      compareReduced(c, t3, n, H3, false, tol, "C28.hill.dimension_only", "hillTensor<N> " + w);
      compareReduced(c, t4, n, H3, false, tol, "C28.hill.dimension_only", "makeHillTensor<N> " + w);
    }
    // end-to-end: Hill stress of a state of the hypothesis == the documented
    // quadratic form evaluated in the 3D material frame on the embedded state
    M3 sr = red;
    if (ND <= 2) sr(0, 2) = sr(2, 0) = sr(1, 2) = sr(2, 1) = 0;
    if (ND == 1) sr(0, 1) = sr(1, 0) = 0;
    using S = tfel::math::stensor<ND, T>;
    const S sig = gen::toStensor<S>(sr);
    const M3 s3 = embed(gen::stensorToM3(sig), sw);
    const R expected = F * (s3(0, 0) - s3(1, 1)) * (s3(0, 0) - s3(1, 1)) +
                       G * (s3(1, 1) - s3(2, 2)) * (s3(1, 1) - s3(2, 2)) +
                       H_ * (s3(2, 2) - s3(0, 0)) * (s3(2, 2) - s3(0, 0)) +
                       2 * L * s3(0, 1) * s3(0, 1) + 2 * M * s3(0, 2) * s3(0, 2) + 2 * N_ * s3(1, 2) * s3(1, 2);
    const S hs = t1 * sig;
    const T got = sig | hs;
    const R n2 = ref::ddot(s3, s3);
    c.close(static_cast<R>(got), expected, 512 * u * hmax * n2 + static_cast<R>(std::numeric_limits<T>::min()),
            std::string("C28.hill_stress.") + (sw ? "swap23" : "identity"), "sigma|H*sigma " + w);
  });
}
VERIF_SUB(hill_double) { hillBody<double>(c); }
VERIF_SUB_W(hill_float, 0.5) { hillBody<float>(c); }

// ================================================================== stiffness tensor
VERIF_SUB(stiffness) {
  using T = double;
  const R u = static_cast<R>(std::numeric_limits<T>::epsilon());
  const double sc = gen::scale(c, 20);
  // engineering constants with a well conditioned compliance: E ratios in
  // [1/2,2] and |nu| <= 0.3 make the scaled compliance strictly diagonally
  // dominant (off-diagonal row sum <= 2*0.3*sqrt(2) < 1): cond <= 12
  const double e0 = c.real(1., 2., "E");
  double E[3], nu[3], G[3];  // nu: 12 23 13 ; G: 12 23 13
  const auto cls = c.integer(0, 3, "stiffness_class");
  for (auto& x : E) x = sc * e0 * c.real(0.75, 1.4, "Eratio");
  for (auto& x : nu) x = coef(c, -0.3, 0.3, "nu");
  for (auto& x : G) x = sc * e0 * c.real(0.1, 1., "G");
  if (cls == 0) {  // isotropic
    E[1] = E[2] = E[0];
    nu[1] = nu[2] = nu[0];
    G[0] = G[1] = G[2] = E[0] / (2 * (1 + nu[0]));
    c.tag("stiffness.isotropic");
  } else if (cls == 1) {  // transverse isotropy around axis 1: axes 2 and 3 equivalent
    E[2] = E[1];
    nu[2] = nu[0];          // nu13 = nu12
    G[2] = G[0];            // G13 = G12
    c.tag("stiffness.axes23_equivalent");
  } else {
    c.tag("stiffness.orthotropic");
  }
  // 3D unaltered tensor by the library, in the 3D material frame
  tfel::math::st2tost2<3u, T> C3;
  computeOrthotropicStiffnessTensor<MH::TRIDIMENSIONAL, STAC::UNALTERED, OAC::DEFAULT>(
      C3, E[0], E[1], E[2], nu[0], nu[1], nu[2], G[0], G[1], G[2]);
  const R cmax = maxAbs(C3, 6);
  if (!(cmax > 0) || !std::isfinite(static_cast<double>(cmax))) c.discard();
  const T4 C3r = toT4(C3, 6);
  const bool altered = c.boolean("altered");
  const M3 red = state(c, 3, "eps");
  // rounding: the 3x3 compliance is inverted in both evaluations, cond <= 12
  const R tol = 4096 * u * cmax;
  auto body = [&]<MH::Hypothesis HY, OAC cv>() {
    tagCase<HY, cv>(c);
    constexpr auto ND = ModellingHypothesisToSpaceDimension<HY>::value;
    constexpr int n = ModellingHypothesisToStensorSize<HY>::value;
    const bool sw = swaps(HY, cv);
    const std::string w = std::string(row(HY).name) + "/" + cname(cv);
    const bool distinct = E[1] != E[2] || nu[0] != nu[2] || G[0] != G[2];
    c.nontrivial(sw && distinct);
    tfel::math::st2tost2<ND, T> C;
    // "ALTERED" is only meaningful in plane stress (StiffnessTensor.ixx); the
    // altered 1D tensor belongs to C21, not to the axes conventions
    const bool alt = altered && HY == MH::PLANESTRESS;
    if (alt) {
      c.tag("stiffness.altered_plane_stress");
      computeOrthotropicStiffnessTensor<HY, STAC::ALTERED, cv>(C, E[0], E[1], E[2], nu[0], nu[1], nu[2], G[0], G[1], G[2]);
      // plane stress condensation of the permuted 3D tensor (sigma_zz = 0,
      // zz being the third axis of the plane hypothesis)
      const T4 e = sw ? ref::rotate(C3r, permutationMatrix(true)) : C3r;
      auto comp = [&e](int I, int J) { return ref::componentOf(e, I, true, J, true); };
      const std::string key = std::string("C28.stiffness_altered.") + (sw ? "swap23" : "identity");
      for (int I = 0; I < 4; ++I)
        for (int J = 0; J < 4; ++J) {
          R ex = 0;
          if (I < 2 && J < 2) ex = comp(I, J) - comp(I, 2) * comp(2, J) / comp(2, 2);
          if (I == 3 && J == 3) ex = comp(3, 3);
          c.close(static_cast<R>(C(I, J)), ex, tol, key, "altered stiffness " + w + " (" + std::to_string(I) + "," + std::to_string(J) + ")");
        }
      return;
    }
    computeOrthotropicStiffnessTensor<HY, STAC::UNALTERED, cv>(C, E[0], E[1], E[2], nu[0], nu[1], nu[2], G[0], G[1], G[2]);
    const std::string key = std::string("C28.stiffness.") + (sw ? "swap23" : "identity");
    compareReduced(c, C, n, C3r, sw, tol, key, "stiffness " + w);
    // end-to-end: same strain state in the reduced hypothesis and embedded in 3D
    M3 er = red;
    if (ND <= 2) er(0, 2) = er(2, 0) = er(1, 2) = er(2, 1) = 0;
    if (ND == 1) er(0, 1) = er(1, 0) = 0;
    using S = tfel::math::stensor<ND, T>;
    using S3 = tfel::math::stensor<3u, T>;
    const S eps = gen::toStensor<S>(er);
    const S3 eps3 = gen::toStensor<S3>(embed(gen::stensorToM3(eps), sw));
    const S sig = C * eps;
    const S3 sig3 = C3 * eps3;
    // back to the frame of the hypothesis
    const M3 back = embed(gen::stensorToM3(sig3), sw);
    const auto eb = ref::toStensor(back);
    const R ne = ref::norm(gen::stensorToM3(eps));
    for (int k = 0; k < n; ++k)
      c.close(static_cast<R>(sig[k]), eb[k], 8 * tol * ne + static_cast<R>(std::numeric_limits<T>::min()),
              std::string("C28.stiffness_response.") + (sw ? "swap23" : "identity"),
              "in-plane stress " + w + " component " + std::to_string(k));
  };
  // computeOrthotropicStiffnessTensor<H,smt,PLATE> has no specialisation in the
  // unrepaired StiffnessTensor.ixx (known finding C28.instantiable.stiffness.PLATE,
  // decided by the py unit "instantiable").  A call that does not compile cannot
  // be written here, so the existence of the builder is probed (complete type,
  // SFINAE friendly): when it exists the pair is checked like any other one,
  // when it is missing the case fails (excluded and counted if the key is a listed known finding).
  dispatch<true>(c, [&]<MH::Hypothesis HY, OAC cv>() {
    if constexpr (StiffnessBuilderAvailable<HY, STAC::UNALTERED, cv> &&
                  StiffnessBuilderAvailable<HY, STAC::ALTERED, cv>) {
      body.template operator()<HY, cv>();
    } else {
      tagCase<HY, cv>(c);
      c.tag("stiffness.builder_missing");
      const std::string key = std::string("C28.instantiable.stiffness.") + cname(cv);
      // excluded (and counted) when the key is a listed known finding, a failure otherwise
      c.check(false, key,
              std::string("computeOrthotropicStiffnessTensor is not instantiable for ") + row(HY).name + "/" + cname(cv));
    }
  });
}

// ================================================================== stress linear transformation
VERIF_SUB_W(stress_linear_transformation, 0.5) {
  using T = double;
  const R u = static_cast<R>(std::numeric_limits<T>::epsilon());
  T a[9];  // c12 c21 c13 c31 c23 c32 c44 c55 c66
  for (auto& x : a) x = coef(c, -2., 2., "c");
  if (c.chance(1, 6, "identity_like")) for (auto& x : a) x = 1;
  // 3D reference: the library's own 3D transformation (DEFAULT convention);
  // only the axis permutation is in the scope of C28 (the header formula for
  // the shear block, c44/3 vs c44, is not)
  const auto l3 = makeOrthotropicStressLinearTransformation<MH::TRIDIMENSIONAL, OAC::DEFAULT, T>(
      a[0], a[1], a[2], a[3], a[4], a[5], a[6], a[7], a[8]);
  const T4 L3 = toT4(l3, 6);
  const R tol = 64 * u * 4;
  dispatch(c, [&]<MH::Hypothesis HY, OAC cv>() {
    tagCase<HY, cv>(c);
    constexpr int n = ModellingHypothesisToStensorSize<HY>::value;
    const bool sw = swaps(HY, cv);
    c.nontrivial(sw);
    const auto l1 = makeOrthotropicStressLinearTransformation<HY, cv, T>(a[0], a[1], a[2], a[3], a[4], a[5], a[6], a[7], a[8]);
    tfel::math::tvector<9u, T> v;
    for (unsigned short i = 0; i < 9; ++i) v[i] = a[i];
    const auto l2 = makeOrthotropicStressLinearTransformation<HY, cv, T>(v);
    const std::string w = std::string(row(HY).name) + "/" + cname(cv);
    const std::string key = std::string("C28.stress_linear_transformation.") + (sw ? "swap23" : "identity");
    compareReduced(c, l1, n, L3, sw, tol, key, "makeOrthotropicStressLinearTransformation " + w);
    compareReduced(c, l2, n, L3, sw, tol, key, "makeOrthotropicStressLinearTransformation(tvector) " + w);
  });
}

VERIF_MAIN("C28_hypotheses")
