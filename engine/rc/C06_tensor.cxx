/*!
 * C06 (unit "tensor") - closed-form derivative helpers whose argument is a
 * non symmetric tensor (determinant, Cauchy-Green tensors, velocity gradient /
 * spin / rate of deformation) are true derivatives.
 * Oracle: converged central finite differences (long double, three steps,
 * Richardson) of the reference primitive, see C06_fd.hxx.
 * Non-trivial: 3D non symmetric argument (or 2D with xy != yx, both non-zero)
 * and a direction with at least two non-zero components.
 */
#include "C06_fd.hxx"
#include "TFEL/Math/stensor.hxx"
#include "TFEL/Math/tensor.hxx"
#include "TFEL/Math/t2tot2.hxx"
#include "TFEL/Math/t2tost2.hxx"

using namespace tfel::math;

namespace {

  constexpr bool SYM = true, NS = false;

  M3 cofactor(const M3& x) { return ref::transpose(ref::cofactorT(x)); }

  template <unsigned short N, typename T>
  void determinant(verif::Case& c) {
    using TT = tensor<N, T>;
    const bool flt = std::is_same_v<T, float>;
    const double sc = gen::scale(c, flt ? 6 : 20);
    const TT F = gen::toTensor<TT>(c.chance(1, 3, "use_genF") ? R(sc) * gen::F(c, N, 0.2, 5.)
                                                              : gen::dense(c, N, sc));
    const M3 X = gen::tensorToM3(F);
    const M3 dir = fd::direction(c, N, NS);
    c.nontrivial(nonsym(X, N) && fd::support(dir, N, NS) >= 2);
    const R nX = std::max<R>(ref::norm(X), R(sc) * 1e-3L);
    const R h = 1e-4L * nX;
    const R rel = flt ? 1e-4L : 1e-9L;
    const auto det = [](const M3& x) { return ref::det(x); };
    fd::check2(c, computeDeterminantDerivative(F), N, NS, det, X, h, nX * nX, rel, dir,
               "C06.tensor.det.first", "computeDeterminantDerivative(tensor)");
    TT dJ;
    computeDeterminantDerivative(dJ, F);
    fd::check2(c, dJ, N, NS, det, X, h, nX * nX, rel, dir, "C06.tensor.det.first",
               "computeDeterminantDerivative(dJ,F)");
  }

  template <unsigned short N, typename T>
  void det_second(verif::Case& c) {
    using TT = tensor<N, T>;
    const bool flt = std::is_same_v<T, float>;
    const double sc = gen::scale(c, flt ? 6 : 20);
    const TT F = gen::toTensor<TT>(c.chance(1, 3, "use_genF") ? R(sc) * gen::F(c, N, 0.2, 5.)
                                                              : gen::dense(c, N, sc));
    const M3 X = gen::tensorToM3(F);
    const M3 dir = fd::direction(c, N, NS);
    c.nontrivial(nonsym(X, N) && fd::support(dir, N, NS) >= 2);
    const R nX = std::max<R>(ref::norm(X), R(sc) * 1e-3L);
    const R h = 1e-4L * nX;
    const R rel = flt ? 1e-4L : 1e-9L;
    const auto det = [](const M3& x) { return ref::det(x); };
    // reference gradient (cofactor matrix, docs: det(a) a^-T) checked, then differentiated
    const auto g = [](const M3& x) { return f4::restrict(cofactor(x), N); };
    fd::check2(c, ref::toTensor(g(X)), N, NS, det, X, h, nX * nX, 1e-12L, dir,
               "C06.harness.reference_gradient", "reference det gradient");
    const auto H = computeDeterminantSecondDerivative(F);
    // rows 0..2 (derivatives of d det/dF_ii): plain check.  Rows >= 3: the
    // library returns them with xy<->yx (xz<->zx, yz<->zy) exchanged, see
    // findings/pending/C06.json; that exact shape has its own key, anything
    // else is reported under the generic key.
    const int n = f4::dimOf(N, NS);
    std::vector<fd::Estimate<M3>> cols;
    for (int J = 0; J < n; ++J) cols.push_back(fd::derivative(g, X, fd::basis(J, NS), h));
    const auto tolOf = [&](int J) { return std::max(rel * nX, 50 * cols[J].conv); };
    const auto swp = [](int I) { return I < 3 ? I : (I % 2 == 1 ? I + 1 : I - 1); };
    const auto rowErr = [&](int I, int Iexp) {
      R m = 0;
      for (int J = 0; J < n; ++J)
        m = std::max(m, std::fabs(static_cast<R>(H(I, J)) -
                                  ref::ddot(fd::basis(Iexp, NS), cols[J].value)) /
                            tolOf(J));
      return m;
    };
    for (int I = 0; I < std::min(n, 3); ++I)
      for (int J = 0; J < n; ++J)
        c.close(static_cast<R>(H(I, J)), ref::ddot(fd::basis(I, NS), cols[J].value), tolOf(J),
                "C06.tensor.det.second", "computeDeterminantSecondDerivative(tensor) component (" +
                                             std::to_string(I) + "," + std::to_string(J) + ")");
    bool true_ok = true, swapped_ok = true;
    for (int I = 3; I < n; ++I) {
      true_ok = true_ok && rowErr(I, I) <= 1;
      swapped_ok = swapped_ok && rowErr(I, swp(I)) <= 1;
    }
    if (true_ok) {
      for (int I = 3; I < n; ++I) c.err("C06.tensor.det.second", static_cast<double>(rowErr(I, I)));
      fd::checkSymmetric(c, H, n, 16 * U<T>() * nX, "C06.tensor.det.second", "second derivative");
    } else if (swapped_ok) {
      for (int I = 3; I < n; ++I)
        c.err("C06.tensor.det.second.offdiag_rows_swapped", static_cast<double>(rowErr(I, swp(I))));
      c.check(false, "C06.tensor.det.second.offdiag_rows_swapped",
              "computeDeterminantSecondDerivative(tensor): the rows of the off-diagonal "
              "components are the derivatives of the *transposed* first derivative (row xy holds "
              "d/dF of d det/dF_yx, ...): not the derivative of computeDeterminantDerivative, not "
              "symmetric");
    } else {
      for (int I = 3; I < n; ++I)
        for (int J = 0; J < n; ++J)
          c.close(static_cast<R>(H(I, J)), ref::ddot(fd::basis(I, NS), cols[J].value), tolOf(J),
                  "C06.tensor.det.second",
                  "computeDeterminantSecondDerivative(tensor) component (" + std::to_string(I) +
                      "," + std::to_string(J) + ")");
    }
  }

  template <unsigned short N, typename T>
  void cauchy_green(verif::Case& c) {
    using TT = tensor<N, T>;
    using TS = t2tost2<N, T>;
    const bool flt = std::is_same_v<T, float>;
    const double sc = gen::scale(c, flt ? 6 : 20);
    const TT F = gen::toTensor<TT>(c.chance(1, 2, "use_genF") ? R(sc) * gen::F(c, N, 0.2, 5.)
                                                              : gen::dense(c, N, sc));
    const M3 X = gen::tensorToM3(F);
    const M3 dir = fd::direction(c, N, NS);
    c.nontrivial(nonsym(X, N) && fd::support(dir, N, NS) >= 2);
    const R nX = std::max<R>(ref::norm(X), R(sc) * 1e-3L);
    const R h = 1e-4L * nX;
    const R rel = flt ? 1e-4L : 1e-9L;
    // C = F^T F, B = F F^T (docs/web/tensors.md)
    fd::check4(c, TS(TS::dCdF(F)), N, SYM, NS, [](const M3& x) { return ref::transpose(x) * x; }, X,
               h, nX, rel, dir, "C06.tensor.dCdF", "t2tost2::dCdF");
    fd::check4(c, TS(TS::dBdF(F)), N, SYM, NS, [](const M3& x) { return x * ref::transpose(x); }, X,
               h, nX, rel, dir, "C06.tensor.dBdF", "t2tost2::dBdF");
    // Green-Lagrange strain E = (C - I)/2: its derivative is dCdF/2 (no dedicated helper)
    // (only for 0.1 < |F| < 1e3: the constant I absorbs F^T F otherwise, even in long double)
    if (ref::norm(X) > 0.1L && ref::norm(X) < 1e3L)
      fd::check4(c, TS(TS::dCdF(F) / 2), N, SYM, NS,
               [](const M3& x) { return R(0.5) * (ref::transpose(x) * x - M3::Id()); }, X, h, nX,
               rel, dir, "C06.tensor.dEdF", "dCdF/2 vs Green-Lagrange");
  }

  template <unsigned short N, typename T>
  void rates(verif::Case& c) {
    using TT = tensor<N, T>;
    using TTt = t2tot2<N, T>;
    using TS = t2tost2<N, T>;
    const bool flt = std::is_same_v<T, float>;
    const double sc = c.chance(1, 2, "unit") ? 1. : c.log10real(-3, 3, "scale");
    const TT F = gen::toTensor<TT>(R(sc) * gen::F(c, N, 0.2, 5.));
    const M3 X = gen::tensorToM3(F);
    if (!(ref::det(X) > 0)) c.discard();
    const M3 iF = ref::inverse(X);
    const M3 dir = fd::direction(c, N, NS);
    c.nontrivial(nonsym(X, N) && fd::support(dir, N, NS) >= 2);
    const R nI = ref::norm(iF), k2 = ref::norm(X) * nI;
    const R rel = (flt ? 1e-4L : 1e-9L) * k2;
    const M3 Z;
    const R h = 1e-4L;
    // L = dF . F^-1 ;  W = (L - L^T)/2 ;  D = (L + L^T)/2  are linear in dF
    const auto L = [&](const M3& x) { return x * iF; };
    const auto W = [&](const M3& x) { return R(0.5) * (x * iF - ref::transpose(x * iF)); };
    const auto D = [&](const M3& x) { return ref::sym(x * iF); };
    fd::check4(c, TTt(computeVelocityGradientDerivative(F)), N, NS, NS, L, Z, h, nI, rel, dir,
               "C06.tensor.velocity_gradient", "computeVelocityGradientDerivative");
    fd::check4(c, TTt(computeSpinRateDerivative(F)), N, NS, NS, W, Z, h, nI, rel, dir,
               "C06.tensor.spin_rate", "computeSpinRateDerivative");
    fd::check4(c, TS(computeRateOfDeformationDerivative(F)), N, SYM, NS, D, Z, h, nI, rel, dir,
               "C06.tensor.rate_of_deformation", "computeRateOfDeformationDerivative");
  }

}  // namespace

#define C06_INST(NAME, FCT)                          \
  VERIF_SUB(NAME##_1d) { FCT<1u, double>(c); }       \
  VERIF_SUB(NAME##_2d) { FCT<2u, double>(c); }       \
  VERIF_SUB(NAME##_3d) { FCT<3u, double>(c); }       \
  VERIF_SUB_W(NAME##_3f, 0.3) { FCT<3u, float>(c); }

C06_INST(determinant, determinant)
C06_INST(det_second, det_second)
C06_INST(cauchy_green, cauchy_green)
C06_INST(rates, rates)

VERIF_MAIN("C06_tensor")
