//! C07 - fixed size solvers, sizes 7..9
#define C07_SIZES(X) X(7) X(8) X(9)
#include "C07_tiny.hxx"
VERIF_MAIN("C07_tiny_b")
