/*!
 * C06 (unit "pk1") - derivative helpers of finite strain stress measures:
 * conversions to / from the derivative of the first Piola-Kirchhoff stress
 * (T2toT2/ConvertToPK1Derivative.hxx, ConvertFromPK1Derivative.hxx).
 * A smooth symmetric stress function of the deformation gradient is generated
 *   sigma(F) = S0 + c1 F.F^T + c2 det(F) sym(F) + c3 (F^T.F)^2
 * (resp. a second Piola-Kirchhoff stress S(E) = S0 + C:E + c E^2 of the
 * Green-Lagrange strain).  The derivative handed to the library is the
 * converged long double finite difference of that function; the derivative
 * returned by the library is compared with the converged finite difference of
 * the composed primitive (e.g. P(F) = det(F) sigma(F) F^-T).
 * Non-trivial: 3D non symmetric F (or 2D with xy != yx) and a direction with at
 * least two non-zero components.
 */
#include "C06_fd.hxx"
#include "TFEL/Math/stensor.hxx"
#include "TFEL/Math/tensor.hxx"
#include "TFEL/Math/st2tost2.hxx"
#include "TFEL/Math/t2tot2.hxx"
#include "TFEL/Math/t2tost2.hxx"
#include "TFEL/Math/T2toT2/ConvertToPK1Derivative.hxx"
#include "TFEL/Math/T2toT2/ConvertFromPK1Derivative.hxx"

using namespace tfel::math;

namespace {

  constexpr bool SYM = true, NS = false;

  struct Setup {
    M3 F, iF, dir;
    R J, nF, nI, ss;
  };

  //! deformation gradient: R.U with stretches in [0.5,2] (conditioning <= 4)
  template <typename TT>
  Setup setup(verif::Case& c, int N, TT& F) {
    Setup s;
    F = gen::toTensor<TT>(gen::F(c, N, 0.5, 2.));
    s.F = gen::tensorToM3(F);
    s.J = ref::det(s.F);
    if (!(s.J > 0)) c.discard();
    s.iF = ref::inverse(s.F);
    s.dir = fd::direction(c, N, NS);
    s.nF = ref::norm(s.F);
    s.nI = ref::norm(s.iF);
    s.ss = gen::scale(c, 12, "stress_scale");
    c.nontrivial(nonsym(s.F, N) && fd::support(s.dir, N, NS) >= 2);
    return s;
  }

  //! generated smooth Cauchy stress
  struct Sigma {
    M3 S0;
    R c1, c2, c3;
    M3 operator()(const M3& F) const {
      const M3 C = ref::transpose(F) * F;
      return S0 + c1 * (F * ref::transpose(F)) + (c2 * ref::det(F)) * ref::sym(F) + c3 * (C * C);
    }
  };
  Sigma genSigma(verif::Case& c, int N, R ss) {
    Sigma s;
    s.S0 = gen::sym(c, N, static_cast<double>(ss));
    s.c1 = ss * c.sreal(1., "c1");
    s.c2 = ss * c.sreal(1., "c2");
    s.c3 = ss * c.sreal(1., "c3");
    return s;
  }

  template <unsigned short N>
  void pk1(verif::Case& c) {
    using T = double;
    using TT = tensor<N, T>;
    using S = stensor<N, T>;
    using SS = st2tost2<N, T>;
    using TS = t2tost2<N, T>;
    using TTt = t2tot2<N, T>;
    TT F;
    const Setup u = setup(c, N, F);
    const Sigma sig = genSigma(c, N, u.ss);
    const S s = gen::toStensor<S>(sig(u.F));
    const M3 Sm = gen::stensorToM3(s);
    const R h = 1e-4L, rel = 1e-9L;
    const R nS = std::max<R>(ref::norm(Sm), u.ss);
    // P = J sigma F^-T
    const auto P = [&](const M3& x) {
      return ref::det(x) * (sig(x) * ref::transpose(ref::inverse(x)));
    };
    const T4 dsr = fd::jacobian(sig, u.F, h, N, NS);
    const TS ds = f4::fromT4<TS>(dsr, N, SYM, NS);
    const R nds = std::max<R>(ref::norm(dsr), u.ss);
    const R S1 = u.J * u.nI * (nds + 2 * nS * u.nI);
    fd::check4(c, TTt(convertCauchyStressDerivativeToFirstPiolaKirchoffStressDerivative(ds, F, s)),
               N, NS, NS, P, u.F, h, S1, rel, u.dir, "C06.stress.pk1_from_cauchy",
               "convertCauchyStressDerivativeToFirstPiolaKirchoffStressDerivative");
    // tau = P F^T from dP/dF (dP is the derivative of a P consistent with a symmetric tau)
    const T4 dPr = fd::jacobian(P, u.F, h, N, NS);
    const TTt dP = f4::fromT4<TTt>(dPr, N, NS, NS);
    const auto tau = [&](const M3& x) { return ref::det(x) * sig(x); };
    const R S2 = u.nF * std::max<R>(ref::norm(dPr), u.ss) + u.J * nS * u.nI;
    fd::check4(c, TS(convertFirstPiolaKirchoffStressDerivativeToKirchhoffStressDerivative(dP, F, s)),
               N, SYM, NS, tau, u.F, h, S2, rel, u.dir, "C06.stress.kirchhoff_from_pk1",
               "convertFirstPiolaKirchoffStressDerivativeToKirchhoffStressDerivative");
    // second Piola-Kirchhoff stress function of the Green-Lagrange strain
    const SS Cm = f4::fromT4<SS>(f4::gen(c, N, SYM, SYM, static_cast<double>(u.ss)), N, SYM, SYM);
    const T4 Cr = f4::toT4(Cm, N, SYM, SYM);
    const M3 S0 = gen::sym(c, N, static_cast<double>(u.ss));
    const R cq = u.ss * c.sreal(1., "cq");
    const auto S_of_E = [&](const M3& e) { return S0 + ref::ddot(Cr, e) + cq * (e * e); };
    const auto E_of_F = [](const M3& x) { return R(0.5) * (ref::transpose(x) * x - M3::Id()); };
    const M3 E = E_of_F(u.F);
    const T4 dSdEr = fd::jacobian(S_of_E, E, h, N, SYM);
    const SS dSdE = f4::fromT4<SS>(dSdEr, N, SYM, SYM);
    const auto P2 = [&](const M3& x) { return x * S_of_E(E_of_F(x)); };
    // third argument: the Cauchy stress sigma = F.S.F^T / J
    const M3 S2m = S_of_E(E);
    const S s2 = gen::toStensor<S>((1 / u.J) * (u.F * S2m * ref::transpose(u.F)));
    const R nS2 = std::max<R>(ref::norm(S2m), u.ss);
    const R S3 = nS2 + u.nF * u.nF * std::max<R>(ref::norm(dSdEr), u.ss);
    fd::check4(
        c,
        TTt(convertSecondPiolaKirchhoffStressDerivativeToFirstPiolaKirchoffStressDerivative(dSdE, F,
                                                                                            s2)),
        N, NS, NS, P2, u.F, h, S3, rel * u.nF * u.nI * u.nF * u.nI, u.dir,
        "C06.stress.pk1_from_pk2",
        "convertSecondPiolaKirchhoffStressDerivativeToFirstPiolaKirchoffStressDerivative");
  }

}  // namespace

VERIF_SUB_W(pk1_1d, 0.5) { pk1<1u>(c); }
VERIF_SUB(pk1_2d) { pk1<2u>(c); }
VERIF_SUB(pk1_3d) { pk1<3u>(c); }

VERIF_MAIN("C06_pk1")
