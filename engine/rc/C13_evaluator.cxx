/*!
 * C13 - tfel::math::Evaluator implements the documented formula language
 *       (engine A, semantic half).
 *
 * Generated: expression ASTs (depth <= 8) over variables, numbers in all accepted
 * spellings, + - * / **, unary minus, the 28 unary and 4 binary built-ins,
 * power<N>, Cste:: constants, conditional / logical expressions; printed with
 * minimal parentheses + random white space (engine/rc/evaluator_ast.hxx).
 * Oracle: the harness's own long double evaluation of the AST carrying a running
 * first-order error bound `e` of a double evaluation (type east::E); tolerance
 * TOLK * e + tiny.
 *
 * Sub-checks
 *   value      getValue, getValue(map), operator(), copy construction, getVariablesNames
 *   deps       external parameters / functions: resolveDependencies, removeDependencies,
 *              createFunctionByChangingParametersIntoVariables
 *   cxx        getCxxFormula really compiled (small batch per case) and evaluated
 *   plus_neg / cond_paren / cxx_intlit / cxx_names : dedicated sub-checks of the known
 *              findings (the generator of the other sub-checks skips exactly these classes)
 */
#include "verif.hxx"
#include "evaluator_ast.hxx"

#include <dlfcn.h>
#include <fcntl.h>
#include <sys/resource.h>
#include <sys/wait.h>
#include <unistd.h>
#include <fstream>

#include "TFEL/PhysicalConstants.hxx"
#include "TFEL/Math/Evaluator.hxx"

using east::E;
using east::R;
using tfel::math::Evaluator;

namespace {

  //! tolerance = TOLK * (first order error bound) + TINY
  constexpr R TOLK = 1024;
  constexpr R TINY = 1e-290L;

  const std::vector<east::CstInfo>& constants() {
    using PC = tfel::PhysicalConstants<double>;
    static const std::vector<east::CstInfo> c = {
        {"AtomicMassConstant", PC::AtomicMassConstant},
        {"mu", PC::mu},
        {"AvogadroConstant", PC::AvogadroConstant},
        {"Na", PC::Na},
        {"BoltzmannConstant", PC::BoltzmannConstant},
        {"kb", PC::kb},
        {"ConductanceQuantum", PC::ConductanceQuantum},
        {"G0", PC::G0},
        {"ElectricConstant", PC::ElectricConstant},
        {"e0", PC::e0},
        {"ElectronMass", PC::ElectronMass},
        {"me", PC::me},
        {"ElectronVolt", PC::ElectronVolt},
        {"eV", PC::eV},
        {"ElementaryCharge", PC::ElementaryCharge},
        {"e", PC::e},
        {"FaradayConstant", PC::FaradayConstant},
        {"F", PC::F},
        {"FineStructureConstant", PC::FineStructureConstant},
        {"a", PC::a},
        {"MolarGasConstant", PC::MolarGasConstant},
        {"R", PC::R},
        {"StefanBoltzmannConstant", PC::StefanBoltzmannConstant},
        {"s", PC::s}};
    return c;
  }

  std::string dbl(const long double v) {
    char b[64];
    std::snprintf(b, sizeof b, "%.17g", static_cast<double>(v));
    return b;
  }

  struct Formula {
    east::NP root;
    std::vector<std::string> names;
    std::vector<double> x;
    std::string text;
    east::PrintInfo pinfo;
    east::Shape shape;
  };

  /*!
   * Which known-finding classes the generator leaves out.  A class is only excluded while its key
   * is in the known list handed over by the driver; the state is *recorded as draws* so that a
   * replay (which never sees the known list) rebuilds exactly the same formula text.
   */
  struct Exclusions {
    bool plusNeg = true, condLhsParen = true, condCste = true, condNested = true, cxxIntLit = true, cxxNames = true,
         nestedCall = true, intExp = true;
    static bool one(verif::Case& c, const char* key) {
      if (c.mode() == verif::Case::GENERATE) {
        const int v = verif::Global::get().known_keys.count(key) ? 1 : 0;
        return c.integer(v, v, key) == 1;
      }
      return c.integer(0, 1, key) == 1;
    }
    static Exclusions draw(verif::Case& c) {
      Exclusions e;
      e.plusNeg = one(c, "C13.plus_unary_minus.crash");
      e.condLhsParen = one(c, "C13.cond.lhs_paren.rejected");
      e.condCste = one(c, "C13.cond.cste_first_branch.rejected");
      e.condNested = one(c, "C13.cond.nested.rejected");
      e.cxxIntLit = one(c, "C13.cxx.integer_literal");
      e.cxxNames = one(c, "C13.cxx.nonstandard_function");
      e.nestedCall = one(c, "C13.deps.nested_same_function");
      e.intExp = one(c, "C13.deps.integer_exponent_parameter");
      return e;
    }
    void apply(east::Generator& g) const {
      g.nestedFullCond = !condNested;
      g.allowNestedSameCall = !nestedCall;
      g.allowIntegerParameterExponent = !intExp;
    }
    void apply(east::PrintOptions& po) const {
      po.allowPlusNeg = !plusNeg;
      po.allowCondLhsParen = !condLhsParen;
      po.allowCondCste = !condCste;
    }
  };

  void tagShape(verif::Case& c, const Formula& f, const Exclusions& ex = Exclusions()) {
    const auto& s = f.shape;
    c.nontrivial(s.depth >= 3 && s.opclasses.size() >= 2);
    if (s.depth >= 6) c.tag("depth>=6");
    if (s.hasCond) c.tag("cond");
    if (s.hasLogicMix) c.tag("logic.and_or");
    for (const auto id : s.funs1) c.tag(std::string("f.") + east::funs1()[id].name);
    for (const auto k : s.opclasses) {
      static const char* kn[] = {"num", "var", "cst", "par", "neg", "add", "sub", "mul", "div", "pow", "ipow", "powN", "fun1", "fun2", "cond", "call"};
      c.tag(std::string("op.") + kn[k]);
    }
    if (f.pinfo.unaryAfterMulDivPow > 0) c.tag("unary_minus.after_mul_div_pow");
    if (f.pinfo.plusNeg > 0) c.tag(ex.plusNeg ? "excluded_known.plus_unary_minus(parenthesised)" : "class.plus_unary_minus");
    if (f.pinfo.condLhsParen > 0) c.tag(ex.condLhsParen ? "excluded_known.cond_lhs_paren(mirrored)" : "class.cond_lhs_paren");
    if (f.pinfo.condCste > 0) c.tag(ex.condCste ? "excluded_known.cond_cste_first_branch(parenthesised)" : "class.cond_cste_first_branch");
    if (f.pinfo.condNested > 0) c.tag(ex.condNested ? "BUG.cond_nested_generated" : "class.cond_nested");
  }

  //! draws a formula + a point; `g` is returned for further use (environment)
  using Wrap = std::function<east::NP(east::Generator&, east::NP)>;
  Formula drawFormula(verif::Case& c, east::Generator& g, const east::PrintOptions* popt = nullptr, const Wrap& wrap = {},
                      const Exclusions& ex = Exclusions()) {
    Formula f;
    ex.apply(g);
    g.drawPoint();
    const int depth = static_cast<int>(c.integer(2, g.o.maxDepth, "depth"));
    f.root = wrap ? wrap(g, g.gen(depth)) : g.genRoot(depth);
    f.x = g.x;
    east::shapeOf(*f.root, f.shape);
    east::PrintOptions po;
    if (popt != nullptr) {
      po = *popt;
    } else {
      po.varnames = east::drawNames(c, g.o.nvars);
    }
    po.csts = g.o.csts;
    ex.apply(po);
    f.names = po.varnames;
    east::Printer pr(po);
    const auto toks = pr.expr(*f.root);
    f.pinfo = pr.info;
    f.text = east::join(toks, static_cast<int>(c.pick(4, "ws")), c.bits64("wsseed"));
    return f;
  }

  E oracle(verif::Case& c, const east::Node& root, const east::Env<E>& env) {
    try {
      return east::eval<E>(root, env);
    } catch (const east::Ill& i) {
      c.tag(std::string("discard.") + i.why);
      c.discard();
    }
  }

  east::Env<E> envE(const std::vector<double>& x, const std::vector<double>& p = {}) {
    east::Env<E> e;
    for (const auto v : x) e.vars.push_back(E{static_cast<R>(v), 0});
    for (const auto v : p) e.pars.push_back(E{static_cast<R>(v), 0});
    e.csts = &constants();
    return e;
  }

  R tolOf(const E& o) { return TOLK * o.e + TINY; }

  //! build the evaluator; a rejection of a well formed formula is a failure
  std::shared_ptr<Evaluator> build(verif::Case& c, const Formula& f, const bool explicitVars, const std::vector<std::string>& declared,
                                   std::shared_ptr<tfel::math::parser::ExternalFunctionManager> m = {}) {
    try {
      if (explicitVars) {
        if (m) return std::make_shared<Evaluator>(declared, f.text, m);
        return std::make_shared<Evaluator>(declared, f.text);
      }
      if (m) return std::make_shared<Evaluator>(f.text, m);
      return std::make_shared<Evaluator>(f.text);
    } catch (const std::exception& e) {
      c.check(false, "C13.parse.rejected", "well formed formula '" + f.text + "' rejected: " + e.what());
    }
    return {};
  }

  void setPoint(Evaluator& ev, const Formula& f, const std::set<int>& used, const bool explicitVars) {
    for (std::size_t i = 0; i != f.names.size(); ++i) {
      if (explicitVars || used.count(static_cast<int>(i))) ev.setVariableValue(f.names[i], f.x[i]);
    }
  }

  std::string describe(const Formula& f) {
    std::string s = "'" + f.text + "' at";
    for (std::size_t i = 0; i != f.names.size(); ++i) s += " " + f.names[i] + "=" + dbl(f.x[i]);
    return s;
  }

}  // namespace

namespace {
  /*!
   * runs `f` in a forked child.  returns 0: normal value agreeing (child exit 0), 1: exception,
   * 2: wrong value, >= 100: killed by signal (100 + signal)
   */
  int forked(const std::function<int()>& f) {
    std::fflush(nullptr);
    const pid_t pid = ::fork();
    if (pid == 0) {
      for (int sig : {SIGSEGV, SIGBUS, SIGFPE, SIGILL, SIGABRT}) std::signal(sig, SIG_DFL);
      struct rlimit nocore = {0, 0};
      ::setrlimit(RLIMIT_CORE, &nocore);
      // silence glibc's "double free or corruption" message
      const int fd = ::open("/dev/null", 1);
      if (fd >= 0) {
        ::dup2(fd, 2);
      }
      int r = 3;
      try {
        r = f();
      } catch (...) {
        r = 1;
      }
      ::_exit(r);
    }
    int status = 0;
    ::waitpid(pid, &status, 0);
    if (WIFSIGNALED(status)) return 100 + WTERMSIG(status);
    return WEXITSTATUS(status);
  }
}  // namespace


// ---------------------------------------------------------------- value
VERIF_SUB(value) {
  east::GenOptions o;
  o.nvars = static_cast<int>(c.integer(1, 4, "nvars"));
  o.csts = &constants();
  const auto ex = Exclusions::draw(c);
  east::Generator g(c, o);
  const auto f = drawFormula(c, g, nullptr, {}, ex);
  tagShape(c, f, ex);
  const auto ref = oracle(c, *f.root, envE(f.x));
  c.note(f.text);
  const bool explicitVars = c.boolean("explicit");
  // declared variables: a permutation of the names (all of them, used or not)
  std::vector<std::string> declared = f.names;
  if (explicitVars) {
    const auto rot = c.pick(declared.size(), "rot");
    std::rotate(declared.begin(), declared.begin() + rot, declared.end());
    c.tag("ctor.explicit_variables");
  }
  auto ev = build(c, f, explicitVars, declared);
  double got = 0;
  try {
    setPoint(*ev, f, f.shape.vars, explicitVars);
    got = ev->getValue();
  } catch (const std::exception& e) {
    c.check(false, "C13.value.exception", describe(f) + ": " + e.what());
  }
  c.close(got, ref.v, tolOf(ref), "C13.value", describe(f));
  // variables: exactly the used ones (implicit) / the declared ones (explicit)
  {
    const auto vn = ev->getVariablesNames();
    std::set<std::string> a(vn.begin(), vn.end()), b;
    for (std::size_t i = 0; i != f.names.size(); ++i)
      if (explicitVars || f.shape.vars.count(static_cast<int>(i))) b.insert(f.names[i]);
    c.check(a == b && vn.size() == b.size(), "C13.getVariablesNames", "variables of '" + f.text + "' differ from the ones used");
    c.check(ev->getNumberOfVariables() == b.size(), "C13.getNumberOfVariables", "'" + f.text + "'");
  }
  // getValue(map), operator()(map), operator()
  try {
    std::map<std::string, double> m;
    for (std::size_t i = 0; i != f.names.size(); ++i)
      if (explicitVars || f.shape.vars.count(static_cast<int>(i))) m[f.names[i]] = f.x[i];
    Evaluator e2(*ev);  // copy construction
    // scramble the values of the copy, then give them back through the map
    for (const auto& kv : m) e2.setVariableValue(kv.first, 0.375);
    const double v2 = e2.getValue(m);
    c.check(v2 == got, "C13.copy_getValue_map", describe(f) + ": copy + getValue(map) gives " + dbl(v2) + " instead of " + dbl(got));
    c.check(e2(m) == got && e2() == got, "C13.call_operator", describe(f));
    // the original is not affected by the copy
    c.check(ev->getValue() == got, "C13.copy_independent", describe(f));
    Evaluator e3;
    e3 = *ev;
    c.check(e3.getValue() == got, "C13.assignment", describe(f));
  } catch (const std::exception& e) {
    c.check(false, "C13.value.exception", describe(f) + " (copy/map): " + e.what());
  }
}

// ---------------------------------------------------------------- deps
VERIF_SUB_W(deps, 0.5) {
  using namespace tfel::math::parser;
  const auto ex = Exclusions::draw(c);
  // 1. the user function g_k(u,v) (binary), generated for arguments in [0.5,2]
  east::GenOptions o;
  o.csts = &constants();
  o.npars = static_cast<int>(c.integer(1, 3, "npars"));
  const int ncalls = static_cast<int>(c.integer(0, 2, "ncalls"));
  const auto parnames = east::drawNames(c, o.npars, {});
  std::set<std::string> reserved(parnames.begin(), parnames.end());
  std::vector<std::string> callnames;
  for (int i = 0; i != ncalls; ++i) callnames.push_back(std::string("fct") + char('A' + i));
  // parameters values
  std::vector<double> pv;
  {
    east::Generator gp(c, o);
    for (int i = 0; i != o.npars; ++i) pv.push_back(gp.drawValue("p"));
  }
  auto manager = std::make_shared<ExternalFunctionManager>();
  // parameters first: `a ** p` evaluates a constant exponent while the formula is analysed
  for (int i = 0; i != o.npars; ++i) (*manager)[parnames[i]] = std::make_shared<Evaluator>(pv[i]);
  std::vector<std::pair<east::NP, int>> calls;
  std::vector<std::string> bodies;
  for (int i = 0; i != ncalls; ++i) {
    east::GenOptions ob;
    ob.csts = &constants();
    ob.nvars = 2;
    ob.npars = o.npars;
    ob.maxDepth = 4;
    ob.maxNodes = 20;
    east::Generator gb(c, ob);
    gb.x = {c.real(0.5, 2., "u"), c.real(0.5, 2., "v")};
    gb.p = pv;
    // the body must be valid for every argument in [0.5,2]^2: polynomial / rational shape,
    // built from a generated tree evaluated at the corner + its own safe wrappers
    // (kept simple: a*u + b*v*p + c/(u+v) like trees come out of gen with depth 4);
    // validity at the actual arguments is re-checked by the oracle (Ill => discard)
    auto body = gb.gen(static_cast<int>(c.integer(2, 4, "bdepth")));
    east::PrintOptions po;
    po.varnames = {"u", "v"};
    po.parnames = parnames;
    po.csts = &constants();
    east::Printer pr(po);
    const auto text = east::join(pr.expr(*body), 1, 0);
    bodies.push_back(text);
    calls.push_back({body, 2});
    try {
      (*manager)[callnames[i]] = std::make_shared<Evaluator>(std::vector<std::string>{"u", "v"}, text, manager);
    } catch (const std::exception& e) {
      c.check(false, "C13.parse.rejected", "function body '" + text + "' rejected: " + e.what());
    }
  }
  // 2. the formula
  o.nvars = static_cast<int>(c.integer(1, 3, "nvars"));
  o.ncalls = ncalls;
  o.maxDepth = 6;
  east::Generator g(c, o);
  ex.apply(g);
  g.calls = calls;
  g.drawPoint();
  g.p = pv;
  east::PrintOptions po;
  ex.apply(po);
  po.varnames = east::drawNames(c, o.nvars, reserved);
  po.parnames = parnames;
  po.callnames = callnames;
  po.csts = &constants();
  Formula f;
  f.root = g.genRoot(static_cast<int>(c.integer(2, o.maxDepth, "depth")));
  f.x = g.x;
  f.names = po.varnames;
  east::shapeOf(*f.root, f.shape);
  {
    east::Printer pr(po);
    const auto toks = pr.expr(*f.root);
    f.pinfo = pr.info;
    f.text = east::join(toks, static_cast<int>(c.pick(3, "ws")), c.bits64("wsseed"));
  }
  tagShape(c, f, ex);
  if (g.avoidedNestedCalls > 0) c.tag("excluded_known.deps_nested_same_function(replaced by a leaf)");
  if (g.avoidedIntegerExponents > 0) c.tag("excluded_known.deps_integer_exponent_parameter(+0.25)");
  c.nontrivial(f.shape.depth >= 3 && (!f.shape.pars.empty() || f.shape.hasCall));
  if (f.shape.hasCall) c.tag("deps.call");
  if (!f.shape.pars.empty()) c.tag("deps.parameter");
  auto env = envE(f.x, pv);
  env.calls = calls;
  const auto ref = oracle(c, *f.root, env);
  std::string ctx = describe(f);
  for (int i = 0; i != o.npars; ++i) ctx += " " + parnames[i] + ":=" + dbl(pv[i]);
  for (int i = 0; i != ncalls; ++i) ctx += " " + callnames[i] + "(u,v):=" + bodies[i];
  c.note(ctx);
  // explicit variables: otherwise parameters would be taken for variables
  auto ev = build(c, f, true, f.names, manager);
  double got = 0;
  try {
    setPoint(*ev, f, f.shape.vars, true);
    got = ev->getValue();
  } catch (const std::exception& e) {
    c.check(false, "C13.deps.exception", ctx + ": " + e.what());
  }
  c.close(got, ref.v, tolOf(ref), "C13.deps.value", ctx);
  try {
    // parameters names
    std::set<std::string> pn;
    ev->getParametersNames(pn);
    std::set<std::string> expected;
    std::function<void(const east::Node&, bool)> collect = [&](const east::Node& n, const bool) {
      if (n.k == east::K::Par) expected.insert(parnames[n.id]);
      if (n.a) collect(*n.a, false);
      if (n.b) collect(*n.b, false);
      if (n.c) {
        std::function<void(const east::Logic&)> rl = [&](const east::Logic& l) {
          if (l.k == east::Logic::Cmp) {
            collect(*l.a, false);
            collect(*l.b, false);
          }
          for (const auto& ch : l.ch) rl(*ch);
        };
        rl(*n.c);
      }
      for (const auto& a : n.args) collect(*a, false);
      if (n.k == east::K::Call) collect(*calls[n.id].first, false);
    };
    collect(*f.root, false);
    // `p**0` is folded to 1 when the formula is analysed: only demand that nothing foreign is listed
    c.check(std::includes(expected.begin(), expected.end(), pn.begin(), pn.end()), "C13.deps.getParametersNames", ctx);
    expected = pn;
    // resolveDependencies keeps the value ...
    auto r = ev->resolveDependencies();
    for (std::size_t i = 0; i != f.names.size(); ++i) r->setVariableValue(i, f.x[i]);
    c.close(r->getValue(), ref.v, tolOf(ref), "C13.deps.resolveDependencies", ctx);
    // removeDependencies (in place, on a copy)
    Evaluator e2(*ev);
    e2.removeDependencies();
    c.close(e2.getValue(), ref.v, tolOf(ref), "C13.deps.removeDependencies", ctx);
    // parameters -> variables
    if (!expected.empty()) {
      std::vector<std::string> chosen;
      for (const auto& n : expected)
        if (chosen.empty() || c.boolean("param")) chosen.push_back(n);
      auto nf = ev->createFunctionByChangingParametersIntoVariables(chosen);
      c.check(nf->getNumberOfVariables() == f.names.size() + chosen.size(), "C13.deps.param2var.arity", ctx);
      // same values: same result
      for (std::size_t i = 0; i != f.names.size(); ++i) nf->setVariableValue(i, f.x[i]);
      std::vector<double> pv2 = pv;
      for (std::size_t k = 0; k != chosen.size(); ++k) {
        const auto ip = std::find(parnames.begin(), parnames.end(), chosen[k]) - parnames.begin();
        nf->setVariableValue(f.names.size() + k, pv[ip]);
      }
      c.close(nf->getValue(), ref.v, tolOf(ref), "C13.deps.param2var.same_point", ctx);
      // other values of the new variables: the oracle with these parameter values
      east::Generator gp(c, o);
      for (std::size_t k = 0; k != chosen.size(); ++k) {
        const auto ip = std::find(parnames.begin(), parnames.end(), chosen[k]) - parnames.begin();
        // stay close to the original value: the tree was built to be valid at pv
        pv2[ip] = pv[ip] + c.sreal(1e-3, "dp") * (1 + std::fabs(pv[ip]));
        nf->setVariableValue(f.names.size() + k, pv2[ip]);
      }
      auto env2 = envE(f.x, pv2);
      env2.calls = calls;
      E ref2;
      bool ok2 = true;
      try {
        ref2 = east::eval<E>(*f.root, env2);
      } catch (const east::Ill&) {
        ok2 = false;
      }
      if (ok2) {
        c.tag("deps.param2var.moved");
        c.close(nf->getValue(), ref2.v, tolOf(ref2), "C13.deps.param2var.moved_point", ctx + " moved parameters");
      }
    }
  } catch (const std::exception& e) {
    c.check(false, "C13.deps.exception", ctx + " (metamorphic part): " + e.what());
  }
}

// ------- findings on the (undocumented) diff(f, v) construct
namespace {
  //! draws f(x,y) differentiable, returns text of f and d f / d x_k at the point
  struct DiffCase {
    std::string ftext;
    std::vector<double> x;
    E ref;
    int k = 0;
  };
  DiffCase drawDiff(verif::Case& c, const bool yFirst) {
    east::GenOptions o;
    o.nvars = 2;
    o.csts = &constants();
    o.differentiableOnly = true;
    o.allowCond = false;
    o.maxDepth = 4;
    o.maxNodes = 16;
    east::Generator g(c, o);
    g.drawPoint();
    auto vx = g.mk(east::K::Var);
    vx->id = 0;
    auto vy = g.mk(east::K::Var);
    vy->id = 1;
    g.finish(vx);
    g.finish(vy);
    // y appears before x; both variables matter: y * x * x + gen
    east::NP root = yFirst ? g.binary(east::K::Mul, g.binary(east::K::Mul, vy, vx), vx) : g.binary(east::K::Mul, g.binary(east::K::Mul, vx, vx), vy);
    root = g.tame(g.binary(east::K::Add, root, g.gen(static_cast<int>(c.integer(1, 3, "depth")))));
    DiffCase d;
    east::PrintOptions po;
    po.varnames = {"x", "y"};
    po.csts = &constants();
    east::Printer pr(po);
    d.ftext = east::join(pr.expr(*root), 0, 0);
    d.x = g.x;
    d.k = static_cast<int>(c.pick(2, "k"));
    std::vector<east::Dual<E>> v;
    for (int i = 0; i != 2; ++i) v.push_back({E{static_cast<R>(g.x[i]), 0}, E{i == d.k ? R(1) : R(0), 0}});
    east::Env<east::Dual<E>> env;
    env.vars = v;
    env.csts = &constants();
    try {
      d.ref = east::eval<east::Dual<E>>(*root, env).d;
    } catch (const east::Ill&) {
      c.discard();
    }
    return d;
  }
}  // namespace

VERIF_SUB_W(diff_order, 0.002) {
  const auto d = drawDiff(c, true);
  const std::string text = "diff(" + d.ftext + "," + (d.k == 0 ? "x" : "y") + ")";
  c.nontrivial(true);
  c.tag("diff.variables_not_in_alphabetical_order");
  try {
    Evaluator ev(text);  // variables registered in order of appearance: y, x
    ev.setVariableValue("x", d.x[0]);
    ev.setVariableValue("y", d.x[1]);
    c.close(ev.getValue(), d.ref.v, 4096 * d.ref.e + TINY, "C13.diff.variable_order",
            "'" + text + "' at x=" + dbl(d.x[0]) + " y=" + dbl(d.x[1]));
  } catch (const std::exception& e) {
    // the swapped variables may also leave the domain of f: same defect
    c.check(false, "C13.diff.variable_order", "'" + text + "' at x=" + dbl(d.x[0]) + " y=" + dbl(d.x[1]) + ": " + e.what());
  }
}

VERIF_SUB_W(diff_copy, 0.0015) {
  const auto d = drawDiff(c, false);
  const std::string text = "diff(" + d.ftext + "," + (d.k == 0 ? "x" : "y") + ")";
  c.nontrivial(true);
  c.tag("diff.copy");
  const R tol = 4096 * d.ref.e + TINY;
  const int r = forked([&]() {
    Evaluator ev(std::vector<std::string>{"x", "y"}, text);
    Evaluator copy(ev);
    copy.setVariableValue("x", d.x[0]);
    copy.setVariableValue("y", d.x[1]);
    const double v = copy.getValue();
    return fabsl(v - d.ref.v) <= tol ? 0 : 2;
  });
  c.check(r < 100, "C13.diff.copy.crash", "copy of Evaluator('" + text + "') then getValue: the process is killed by signal " + std::to_string(r - 100));
  c.check(r == 0, "C13.diff.copy.value", "copy of Evaluator('" + text + "') then getValue: " + (r == 1 ? "exception" : "wrong value"));
}

// ------- known finding: f(a, f(b,c)) with f an external function
VERIF_SUB_W(deps_reentrant, 0.002) {
  using namespace tfel::math::parser;
  auto manager = std::make_shared<ExternalFunctionManager>();
  east::GenOptions ob;
  ob.csts = &constants();
  ob.nvars = 2;
  ob.maxDepth = 3;
  ob.maxNodes = 10;
  ob.allowCond = false;
  east::Generator gb(c, ob);
  gb.x = {c.real(0.5, 2., "u"), c.real(0.5, 2., "v")};
  // body depending on its first argument
  auto u = gb.mk(east::K::Var);
  u->id = 0;
  auto body = gb.binary(c.boolean("bop") ? east::K::Add : east::K::Mul, gb.finish(u), gb.gen(2));
  east::PrintOptions pb;
  pb.varnames = {"u", "v"};
  pb.csts = &constants();
  east::Printer prb(pb);
  const auto btext = east::join(prb.expr(*body), 1, 0);
  (*manager)["fctA"] = std::make_shared<Evaluator>(std::vector<std::string>{"u", "v"}, btext, manager);
  east::GenOptions o;
  o.csts = &constants();
  o.nvars = 1;
  o.ncalls = 1;
  o.maxDepth = 3;
  o.maxNodes = 12;
  o.allowCond = false;
  east::Generator g(c, o);
  g.calls = {{body, 2}};
  g.drawPoint();
  auto inner = g.mk(east::K::Call);
  inner->id = 0;
  inner->args = {g.fit(g.gen(2), 0.5, 2), g.fit(g.gen(2), 0.5, 2)};
  g.finish(inner);
  auto outer = g.mk(east::K::Call);
  outer->id = 0;
  outer->args = {g.fit(g.gen(2), 0.5, 2), g.fit(inner, 0.5, 2)};
  auto root = g.finish(outer);
  east::PrintOptions po;
  po.varnames = {"x"};
  po.callnames = {"fctA"};
  po.csts = &constants();
  east::Printer pr(po);
  const auto text = east::join(pr.expr(*root), 1, 0);
  c.nontrivial(true);
  c.tag("deps_nested_same_function");
  auto env = envE(g.x);
  env.calls = g.calls;
  E ref;
  try {
    ref = east::eval<E>(*root, env);
  } catch (const east::Ill&) {
    c.discard();
  }
  try {
    Evaluator ev(std::vector<std::string>{"x"}, text, manager);
    ev.setVariableValue("x", g.x[0]);
    const std::string ctx = "'" + text + "' with fctA(u,v):=" + btext + " at x=" + dbl(g.x[0]);
    c.close(ev.getValue(), ref.v, tolOf(ref), "C13.deps.nested_same_function", ctx);
    // the same call pattern through the other evaluation paths (ExternalFunctionExpr2 after
    // resolveDependencies / removeDependencies / copy, derivative of an external function call);
    // only reached once the first assertion holds
    {
      auto r = ev.resolveDependencies();
      r->setVariableValue(0, g.x[0]);
      c.close(r->getValue(), ref.v, tolOf(ref), "C13.deps.nested_same_function.resolveDependencies", ctx);
      Evaluator e2(ev);
      e2.removeDependencies();
      c.close(e2.getValue(), ref.v, tolOf(ref), "C13.deps.nested_same_function.removeDependencies", ctx);
      Evaluator e3(ev);
      c.close(e3.getValue(), ref.v, tolOf(ref), "C13.deps.nested_same_function.copy", ctx);
      // derivative (the body and the arguments only hold differentiable nodes when no unsupported function was drawn)
      std::vector<east::Dual<E>> dv{{E{static_cast<R>(g.x[0]), 0}, E{1, 0}}};
      east::Env<east::Dual<E>> denv;
      denv.vars = dv;
      denv.calls = g.calls;
      denv.csts = &constants();
      bool haveRef = true;
      E dref;
      try {
        dref = east::eval<east::Dual<E>>(*root, denv).d;
      } catch (const east::Ill&) {
        haveRef = false;
      }
      std::shared_ptr<tfel::math::parser::ExternalFunction> d;
      try {
        d = ev.differentiate(0);
      } catch (const std::exception&) {
        c.tag("deps_nested_same_function.derivative_unsupported");
      }
      if (d && haveRef) {
        d->setVariableValue(0, g.x[0]);
        double dval = 0;
        bool ok = true;
        try {
          dval = d->getValue();
        } catch (const std::exception&) {
          ok = false;
        }
        if (ok) {
          c.tag("deps_nested_same_function.derivative_checked");
          c.close(dval, dref.v, 4096 * dref.e + TINY, "C13.deps.nested_same_function.derivative", ctx);
          auto dr = d->resolveDependencies();
          dr->setVariableValue(0, g.x[0]);
          c.close(dr->getValue(), dref.v, 4096 * dref.e + TINY, "C13.deps.nested_same_function.derivative.resolveDependencies", ctx);
        }
      }
    }
  } catch (const std::exception& e) {
    c.check(false, "C13.deps.exception", "'" + text + "' with fctA(u,v):=" + btext + ": " + e.what());
  }
}

// ------- known finding: a ** p, p an external parameter holding an integer
VERIF_SUB_W(deps_intexp, 0.002) {
  using namespace tfel::math::parser;
  auto manager = std::make_shared<ExternalFunctionManager>();
  const int n = static_cast<int>(c.integer(-16, 16, "n"));
  (*manager)["p"] = std::make_shared<Evaluator>(static_cast<double>(n));
  east::GenOptions o;
  o.csts = &constants();
  o.nvars = 1;
  o.npars = 1;
  o.maxDepth = 3;
  o.maxNodes = 10;
  o.allowCond = false;
  east::Generator g(c, o);
  g.drawPoint();
  g.p = {static_cast<double>(n)};
  auto par = g.mk(east::K::Par);
  par->id = 0;
  auto root = g.binary(east::K::Pow, g.fit(g.gen(2), 0.5, 3), g.finish(par));
  if (c.boolean("more")) root = g.binary(east::K::Add, root, g.gen(2));
  east::PrintOptions po;
  po.varnames = {"x"};
  po.parnames = {"p"};
  po.csts = &constants();
  east::Printer pr(po);
  const auto text = east::join(pr.expr(*root), 1, 0);
  c.nontrivial(true);
  c.tag("deps_integer_exponent_parameter");
  const double p2 = n + c.real(0.05, 0.45, "dp");
  E ref, ref2;
  try {
    ref = east::eval<E>(*root, envE(g.x, {static_cast<double>(n)}));
    ref2 = east::eval<E>(*root, envE(g.x, {p2}));
  } catch (const east::Ill&) {
    c.discard();
  }
  const std::string ctx = "'" + text + "' at x=" + dbl(g.x[0]) + " analysed while p=" + std::to_string(n);
  try {
    Evaluator ev(std::vector<std::string>{"x"}, text, manager);
    ev.setVariableValue("x", g.x[0]);
    c.close(ev.getValue(), ref.v, tolOf(ref), "C13.deps.value", ctx);
    auto nf = ev.createFunctionByChangingParametersIntoVariables(std::vector<std::string>{"p"});
    nf->setVariableValue(0, g.x[0]);
    nf->setVariableValue(1, p2);
    c.close(nf->getValue(), ref2.v, tolOf(ref2), "C13.deps.integer_exponent_parameter",
            ctx + ": createFunctionByChangingParametersIntoVariables({p}) evaluated at p=" + dbl(p2));
  } catch (const std::exception& e) {
    c.check(false, "C13.deps.integer_exponent_parameter", ctx + ": " + e.what());
  }
}

// ---------------------------------------------------------------- cxx
namespace {

  std::string workDir() {
    const char* w = std::getenv("VERIF_WORK");
    std::string d = w != nullptr ? w : "/verif/build/work/manual";
    ::system(("mkdir -p '" + d + "'").c_str());
    return d;
  }
  std::string envOr(const char* n, const char* d) {
    const char* v = std::getenv(n);
    return v != nullptr ? v : d;
  }

  struct CxxUnit {
    std::vector<std::string> bodies;  // function bodies: "return <formula>;"
    std::vector<int> arity;
    std::vector<std::vector<std::string>> argnames;
    void* handle = nullptr;
    std::string so, src, log;
    //! returns "" or the compiler's error lines
    std::string compile() {
      static int counter = 0;
      const auto base = workDir() + "/cxx_" + std::to_string(::getpid()) + "_" + std::to_string(counter++);
      src = base + ".cxx";
      so = base + ".so";
      log = base + ".log";
      // the prelude (TFEL/Math/power.hxx is expensive) is precompiled once per process
      static std::string prelude;
      const std::string flags = "g++ -std=c++20 -O0 -w -fPIC -I'" + envOr("VERIF_REPO", "/repo") + "/include' -I'" +
                                envOr("VERIF_BUILD", "/verif/build/hooks") + "/include' ";
      if (prelude.empty()) {
        prelude = workDir() + "/cxx_prelude_" + std::to_string(::getpid()) + ".hxx";
        {
          std::ofstream f(prelude);
          f << "#include <cmath>\n#include <algorithm>\n#include \"TFEL/Math/power.hxx\"\n"
               "#include \"TFEL/Math/General/IEEE754.hxx\"\nusing namespace std;\n";
        }
        const auto pch = flags + "-x c++-header '" + prelude + "' -o '" + prelude + ".gch' > /dev/null 2>&1";
        if (::system(pch.c_str()) != 0) ::unlink((prelude + ".gch").c_str());  // falls back to the plain header
        static struct Cleaner {
          ~Cleaner() {
            ::unlink(prelude.c_str());
            ::unlink((prelude + ".gch").c_str());
          }
        } cleaner;
      }
      {
        std::ofstream f(src);
        f << "#include \"" << prelude << "\"\n";
        for (std::size_t k = 0; k != bodies.size(); ++k) {
          f << "extern \"C\" double f" << k << "(const double* const verif_args){\n";
          for (int i = 0; i != arity[k]; ++i) f << "  [[maybe_unused]] const double " << argnames[k][i] << " = verif_args[" << i << "];\n";
          f << "  return " << bodies[k] << ";\n}\n";
        }
      }
      // compile, then a direct `ld -shared` (the g++ link driver costs more than the compilation);
      // libm / libstdc++ symbols are resolved from the harness process at dlopen
      const auto cmd = flags + "-c '" + src + "' -o '" + so + ".o' > '" + log + "' 2>&1 && ld -shared '" + so + ".o' -o '" + so + "' >> '" + log +
                       "' 2>&1";
      const int rc = ::system(cmd.c_str());
      if (rc != 0) {
        std::ifstream l(log);
        std::string line, out;
        while (std::getline(l, line))
          if (line.find("error") != std::string::npos && out.size() < 600) out += line + " | ";
        cleanup();
        return out.empty() ? "compiler failed" : out;
      }
      handle = ::dlopen(so.c_str(), RTLD_NOW | RTLD_LOCAL);
      if (handle == nullptr) {
        const std::string m = ::dlerror();
        cleanup();
        return "dlopen failed: " + m;
      }
      return "";
    }
    double call(const std::size_t k, const std::vector<double>& a) const {
      using fct = double (*)(const double*);
      auto p = reinterpret_cast<fct>(::dlsym(handle, ("f" + std::to_string(k)).c_str()));
      if (p == nullptr) throw std::runtime_error("dlsym failed");
      return p(a.data());
    }
    void cleanup() {
      if (handle != nullptr) ::dlclose(handle);
      handle = nullptr;
      ::unlink(src.c_str());
      ::unlink(so.c_str());
      ::unlink((so + ".o").c_str());
      ::unlink(log.c_str());
    }
    ~CxxUnit() { cleanup(); }
  };

  bool plainIdentifier(const std::string& n) {
    if (n.empty() || !(std::isalpha(static_cast<unsigned char>(n[0])) || n[0] == '_')) return false;
    for (const auto ch : n)
      if (!(std::isalnum(static_cast<unsigned char>(ch)) || ch == '_')) return false;
    return true;
  }

  //! formulas whose C++ text calls a function that standard C++ does not provide
  bool hasNonStandardName(const east::Shape& s) { return s.funs1.count(6) /*ln*/ || s.funs1.count(27) /*H*/; }

  //! compile a batch of formulas and compare; `knownClasses`: do not skip the known classes
  void cxxBatchImpl(verif::Case& c, const int nmax, const bool knownIntLit, const bool knownNames, const Wrap& wrap);
  /*!
   * Every execution costs a compilation: once a failure has been seen, rapidcheck's shrinking is
   * given a budget of 60 further compilations, after which the executions are discarded (the
   * shrink stops at the smallest failing case found so far; the verdict and the replay are
   * unaffected: a replay is a fresh process).
   */
  void cxxBatch(verif::Case& c, const int nmax, const bool knownIntLit, const bool knownNames, const Wrap& wrap = {}) {
    static std::map<std::string, std::pair<int, int>> budget;  // per sub-check: failures, executions after the first one
    auto& b = budget[c.sub()];
    if (b.first > 0 && c.mode() == verif::Case::GENERATE && ++b.second > 60) c.discard();
    try {
      cxxBatchImpl(c, nmax, knownIntLit, knownNames, wrap);
    } catch (const verif::Failure&) {
      ++b.first;
      throw;
    }
  }
  void cxxBatchImpl(verif::Case& c, const int nmax, const bool knownIntLit, const bool knownNames, const Wrap& wrap) {
    // the dedicated sub-checks (wrap) always assert their class: no exclusion state drawn there
    const auto ex = wrap ? Exclusions() : Exclusions::draw(c);
    const int n = static_cast<int>(c.integer(1, nmax, "batch"));
    CxxUnit u;
    std::vector<Formula> fs;
    std::vector<E> refs;
    for (int k = 0; k != n; ++k) {
      east::GenOptions o;
      o.nvars = static_cast<int>(c.integer(1, 3, "nvars"));
      o.csts = &constants();
      o.maxNodes = 40;
      east::Generator g(c, o);
      auto f = drawFormula(c, g, nullptr, wrap, ex);
      const bool intlit = east::cxxIntClass(*f.root);
      const bool names = hasNonStandardName(f.shape);
      if (intlit && !knownIntLit && ex.cxxIntLit) {
        c.tag("excluded_known.cxx_integer_literal");
        continue;
      }
      if (names && !knownNames && ex.cxxNames) {
        c.tag("excluded_known.cxx_nonstandard_function");
        continue;
      }
      E ref;
      try {
        ref = east::eval<E>(*f.root, envE(f.x));
      } catch (const east::Ill&) {
        c.tag("discard.ill");
        continue;
      }
      std::shared_ptr<Evaluator> ev;
      try {
        ev = std::make_shared<Evaluator>(f.names, f.text);
      } catch (const std::exception& e) {
        c.check(false, "C13.parse.rejected", "well formed formula '" + f.text + "' rejected: " + e.what());
      }
      // substitution map: always for names that are not C++ identifiers, else at random
      std::map<std::string, std::string> m;
      std::vector<std::string> an;
      bool allPlain = true;
      for (const auto& nm : f.names) allPlain = allPlain && plainIdentifier(nm);
      const bool rename = !allPlain || c.boolean("rename");
      for (std::size_t i = 0; i != f.names.size(); ++i) {
        if (rename) {
          m[f.names[i]] = "this_v" + std::to_string(i);
          an.push_back("this_v" + std::to_string(i));
        } else {
          an.push_back(f.names[i]);
        }
      }
      std::string cxx;
      try {
        cxx = ev->getCxxFormula(m);
      } catch (const std::exception& e) {
        c.check(false, "C13.cxx.exception", "getCxxFormula of '" + f.text + "': " + e.what());
      }
      tagShape(c, f, ex);
      if (rename) c.tag("cxx.substitution_map");
      u.bodies.push_back(cxx);
      u.arity.push_back(static_cast<int>(f.names.size()));
      u.argnames.push_back(an);
      fs.push_back(f);
      refs.push_back(ref);
    }
    if (fs.empty()) c.discard();
    std::string key_compile = "C13.cxx.compile_error";
    if (knownIntLit) key_compile = "C13.cxx.integer_literal";
    if (knownNames) key_compile = "C13.cxx.nonstandard_function";
    const auto err = u.compile();
    if (!err.empty()) {
      std::string all;
      for (std::size_t k = 0; k != fs.size(); ++k) all += " [" + fs[k].text + " => " + u.bodies[k] + "]";
      c.check(false, key_compile, "C++ text returned by getCxxFormula does not compile:" + all + " : " + err);
    }
    for (std::size_t k = 0; k != fs.size(); ++k) {
      const double v = u.call(k, fs[k].x);
      c.close(v, refs[k].v, tolOf(refs[k]), knownIntLit ? "C13.cxx.integer_literal" : "C13.cxx.value",
              describe(fs[k]) + " => C++ '" + u.bodies[k] + "'");
    }
  }

}  // namespace

VERIF_SUB_W(cxx, 0.00075) { cxxBatch(c, 10, false, false); }

// ---------------------------------------------- known finding: `a + -b`
VERIF_SUB_W(plus_neg, 0.0015) {
  // a + -b : the reducer accepts a unary minus after a binary + (TGroup::reduce)
  east::GenOptions o;
  o.nvars = 2;
  o.csts = &constants();
  o.maxDepth = 3;
  o.maxNodes = 8;
  o.allowCond = false;
  east::Generator g(c, o);
  g.drawPoint();
  auto a = g.gen(static_cast<int>(c.integer(1, 2, "da")));
  auto b = g.gen(static_cast<int>(c.integer(1, 2, "db")));
  auto nb = g.mk(east::K::Neg);
  nb->a = b;
  auto root = g.binary(east::K::Add, a, g.finish(nb));
  east::PrintOptions po;
  po.varnames = {"x", "y"};
  po.csts = &constants();
  po.allowPlusNeg = true;
  east::Printer pr(po);
  const auto text = east::join(pr.expr(*root), static_cast<int>(c.pick(3, "ws")), c.bits64("wsseed"));
  c.nontrivial(true);
  c.tag("plus_unary_minus");
  E ref;
  try {
    ref = east::eval<E>(*root, envE(g.x));
  } catch (const east::Ill&) {
    c.discard();
  }
  c.note(text);
  const auto x = g.x;
  const R tol = tolOf(ref);
  const int r = forked([&]() {
    Evaluator ev(std::vector<std::string>{"x", "y"}, text);
    ev.setVariableValue("x", x[0]);
    ev.setVariableValue("y", x[1]);
    const double v = ev.getValue();
    return fabsl(v - ref.v) <= tol ? 0 : 2;
  });
  c.check(r < 100, "C13.plus_unary_minus.crash",
          "'" + text + "' (unary minus after a binary +): the process is killed by signal " + std::to_string(r - 100));
  c.check(r == 0, "C13.plus_unary_minus.value", "'" + text + "': " + (r == 1 ? "exception" : "wrong value"));
}

// ------------------------- known finding: comparison starting with `(`
VERIF_SUB_W(cond_paren, 0.002) {
  east::GenOptions o;
  o.nvars = 2;
  o.csts = &constants();
  o.maxDepth = 4;
  o.maxNodes = 16;
  o.allowCond = false;
  east::Generator g(c, o);
  g.drawPoint();
  // (a op b) op2 c  <cmp>  d  ?  e1 : e2   -- the left operand of the comparison starts with `(`
  auto inner = g.binary(c.boolean("innerop") ? east::K::Add : east::K::Sub, g.gen(2), g.gen(2));
  auto lhs = c.boolean("bare") ? inner : g.binary(c.boolean("outerop") ? east::K::Mul : east::K::Div, inner, g.fit(g.gen(2), 0.5, 4));
  auto l = std::make_shared<east::Logic>();
  l->k = east::Logic::Cmp;
  l->op = static_cast<int>(c.integer(1, 4, "cmp"));
  // a bare Add/Sub does not need parentheses: force them through a product by one
  if (lhs == inner) lhs = g.binary(east::K::Mul, inner, g.number(1.));
  l->a = lhs;
  l->b = g.fit(g.gen(2), static_cast<double>(lhs->val) + 1, static_cast<double>(lhs->val) + 5);
  auto root = g.mk(east::K::Cond);
  root->c = l;
  root->a = g.gen(2);
  root->b = g.gen(2);
  east::PrintOptions po;
  po.varnames = {"x", "y"};
  po.csts = &constants();
  po.allowCondLhsParen = true;
  east::Printer pr(po);
  const auto toks = pr.expr(*root);
  if (pr.info.condLhsParen == 0) c.discard();
  const auto text = east::join(toks, static_cast<int>(c.pick(3, "ws")), c.bits64("wsseed"));
  c.nontrivial(true);
  c.tag("cond_lhs_paren");
  E ref;
  try {
    ref = east::eval<E>(*root, envE(g.x));
  } catch (const east::Ill&) {
    c.discard();
  }
  try {
    Evaluator ev(std::vector<std::string>{"x", "y"}, text);
    ev.setVariableValue("x", g.x[0]);
    ev.setVariableValue("y", g.x[1]);
    c.close(ev.getValue(), ref.v, tolOf(ref), "C13.value", "'" + text + "'");
  } catch (const std::exception& e) {
    c.check(false, "C13.cond.lhs_paren.rejected",
            "'" + text + "' (comparison whose left operand starts with a parenthesis) is rejected: " + e.what());
  }
}

// ------- known finding: Cste:: in the first branch of a conditional
VERIF_SUB_W(cond_cste, 0.002) {
  east::GenOptions o;
  o.nvars = 2;
  o.csts = &constants();
  o.maxDepth = 3;
  o.maxNodes = 16;
  east::Generator g(c, o);
  g.drawPoint();
  auto root = g.mk(east::K::Cond);
  root->c = g.flatLogic();
  auto k = g.mk(east::K::Cst);
  k->id = static_cast<int>(c.pick(constants().size(), "cst"));
  root->a = c.boolean("bare") ? g.finish(k) : g.binary(c.boolean("op") ? east::K::Mul : east::K::Add, g.flatAtom(), g.finish(k));
  root->b = g.gen(2);
  east::PrintOptions po;
  po.varnames = {"x", "y"};
  po.csts = &constants();
  po.allowCondCste = true;
  east::Printer pr(po);
  const auto toks = pr.expr(*root);
  const auto text = east::join(toks, static_cast<int>(c.pick(3, "ws")), c.bits64("wsseed"));
  c.nontrivial(true);
  c.tag("cond_cste_first_branch");
  E ref;
  try {
    ref = east::eval<E>(*root, envE(g.x));
  } catch (const east::Ill&) {
    c.discard();
  }
  try {
    Evaluator ev(std::vector<std::string>{"x", "y"}, text);
    ev.setVariableValue("x", g.x[0]);
    ev.setVariableValue("y", g.x[1]);
    c.close(ev.getValue(), ref.v, tolOf(ref), "C13.value", "'" + text + "'");
  } catch (const std::exception& e) {
    c.check(false, "C13.cond.cste_first_branch.rejected",
            "'" + text + "' (physical constant in the first branch of a conditional) is rejected: " + e.what());
  }
}

// ------- known finding: nested conditional with parentheses before the ':'
VERIF_SUB_W(cond_nested, 0.002) {
  east::GenOptions o;
  o.nvars = 2;
  o.csts = &constants();
  o.maxDepth = 4;
  o.maxNodes = 24;
  east::Generator g(c, o);
  g.drawPoint();
  auto cond = g.fullCond(static_cast<int>(c.integer(3, 4, "depth")));
  east::NP root;
  const int kind = static_cast<int>(c.pick(3, "where"));
  if (kind == 0) {
    root = g.binary(east::K::Add, g.gen(2), cond);  // a + ( c ? x : y )
  } else if (kind == 1) {
    auto f = g.mk(east::K::Fun1);  // atan( c ? x : y )
    f->id = 22;
    f->a = cond;
    root = g.finish(f);
  } else {
    auto f = g.mk(east::K::Fun2);  // hypot( c ? x : y , z )
    f->id = east::F2_HYPOT;
    f->a = cond;
    f->b = g.gen(2);
    root = g.finish(f);
  }
  east::PrintOptions po;
  po.varnames = {"x", "y"};
  po.csts = &constants();
  east::Printer pr(po);
  const auto toks = pr.expr(*root);
  if (pr.info.condNested == 0) c.discard();
  const auto text = east::join(toks, static_cast<int>(c.pick(3, "ws")), c.bits64("wsseed"));
  c.nontrivial(true);
  c.tag("cond_nested");
  E ref;
  try {
    ref = east::eval<E>(*root, envE(g.x));
  } catch (const east::Ill&) {
    c.discard();
  }
  try {
    Evaluator ev(std::vector<std::string>{"x", "y"}, text);
    ev.setVariableValue("x", g.x[0]);
    ev.setVariableValue("y", g.x[1]);
    c.close(ev.getValue(), ref.v, tolOf(ref), "C13.value", "'" + text + "'");
  } catch (const std::exception& e) {
    c.check(false, "C13.cond.nested.rejected",
            "'" + text + "' (conditional inside parentheses / function argument with a parenthesis before its ':') is rejected: " + e.what());
  }
}

// ----------------------- known finding: integer literals in getCxxFormula
VERIF_SUB_W(cxx_intlit, 0.00015) {
  cxxBatch(c, 1, true, false, [&c](east::Generator& g, east::NP r) {
    auto intlit = [&g](const int v) {
      auto n = g.mk(east::K::Num);
      n->lit = std::to_string(v);
      n->num = v;
      n->val = v;
      return n;
    };
    const int kind = static_cast<int>(c.pick(3, "intlit"));
    const int a = static_cast<int>(c.integer(1, 9, "ia"));
    const int b = static_cast<int>(c.integer(2, 9, "ib"));
    c.tag("cxx_integer_literal");
    c.nontrivial(true);
    if (kind == 0) return g.binary(east::K::Mul, g.binary(east::K::Div, intlit(a), intlit(b == a ? b + 1 : b)), r);  // 1/2*x
    if (kind == 1) {  // 2**3 + x
      auto p = g.mk(east::K::IPow);
      p->id = static_cast<int>(c.integer(2, 4, "in"));
      p->a = intlit(b);
      return g.binary(east::K::Add, g.finish(p), r);
    }
    auto m = g.mk(east::K::Fun2);  // max(x,3)
    m->id = east::F2_MAX;
    m->a = r;
    m->b = intlit(a);
    return g.finish(m);
  });
}
// ----------------------- known finding: ln / H are not C++ functions
VERIF_SUB_W(cxx_names, 0.00015) {
  cxxBatch(c, 1, false, true, [&c](east::Generator& g, east::NP r) {
    auto f = g.mk(east::K::Fun1);
    f->id = c.boolean("lnH") ? 6 : 27;
    f->a = g.inRanges(r, east::funs1()[f->id]);
    c.tag("cxx_nonstandard_function");
    c.nontrivial(true);
    return g.finish(f);
  });
}

VERIF_MAIN("C13_ast")
