/*!
 * C04 - Requested eigenvalue ordering is honoured, ties included.
 *
 * Unit "sort" (-DC04_PART=1): the pure sorting entry points
 *   tfel::math::sortEigenValues, internals::SortEigenValues<N>,
 *   internals::SortEigenVectors<N>, fses::sort
 * enumerated over the 27 rank triples (r0,r1,r2) in {0,1,2}^3 (they realise
 * the 13 weak orders of three values on three labelled places, most of them
 * several times) x {ASCENDING, DESCENDING, UNSORTED}.  The item is drawn
 * (c.integer), one item per case, so that an excluded known failing item does
 * not hide the other items; the three values themselves are drawn (random,
 * or special: signed zeros, tiny, huge).
 *
 * Unit "public" (-DC04_PART=2): stensor::computeEigenValues<es>(o) and
 * computeEigenVectors<es>(o), 8 solvers, N = 1,2,3, on tensors with repeated
 * eigenvalues; oracle = the result is a permutation (columns included) of what
 * the same solver returns without ordering, and is ordered as requested.
 *
 * Oracle (validity predicate): output multiset == input multiset (exact
 * comparisons: sorting only moves values), non-strict order as requested, in
 * 2D only the places 0,1 may move (docs/web/tensors.md: "In 2D, the last
 * eigenvalue always corresponds to the out-of-plane direction"), in 1D nothing
 * moves ("In 1D, the sorting parameter has no effect"); eigenvector columns
 * follow their eigenvalue (columns are pairwise distinct, so the permutation
 * applied to the columns is observable).
 */
#include "gens.hxx"
#include "TFEL/Math/stensor.hxx"
#include "TFEL/Math/tmatrix.hxx"
#include "TFEL/Math/tvector.hxx"
#include "FSES/Utilities.hxx"

#ifndef C04_PART
#define C04_PART 1
#endif

using ref::M3;
using ref::R;
using namespace tfel::math;
using ES = stensor_common::EigenSolver;
using EO = stensor_common::EigenValuesOrdering;

namespace {

  const char* oname(int o) { return o == 0 ? "ASCENDING" : (o == 1 ? "DESCENDING" : "UNSORTED"); }
  EO ord(int o) { return o == 0 ? EO::ASCENDING : (o == 1 ? EO::DESCENDING : EO::UNSORTED); }
  fses::EigenValuesOrdering ford(int o) {
    return o == 0 ? fses::EigenValuesOrdering::ASCENDING
                  : (o == 1 ? fses::EigenValuesOrdering::DESCENDING
                            : fses::EigenValuesOrdering::UNSORTED);
  }

  template <typename T>
  std::string s3(const T& a, const T& b, const T& c) {
    std::ostringstream os;
    os.precision(17);
    os << "(" << a << "," << b << "," << c << ")";
    return os.str();
  }

  /*!
   * ordering predicate on the first n places + permutation test.
   * \param n: number of places that take part in the sort (3, 2 or 0)
   */
  template <typename T>
  void checkValues(verif::Case& c, const T in[3], const T out[3], int o, int n,
                   const std::string& key, const std::string& what) {
    const std::string w = what + " " + oname(o) + " " + s3(in[0], in[1], in[2]) + " -> " +
                          s3(out[0], out[1], out[2]);
    // places that must not move
    for (int k = n; k < 3; ++k) c.check(out[k] == in[k], key, w + ": place " + std::to_string(k) + " moved");
    if (o == 2 || n == 0) {
      for (int k = 0; k < 3; ++k) c.check(out[k] == in[k], key, w + ": modified although nothing is to be sorted");
      return;
    }
    // permutation of the first n places (exact)
    bool used[3] = {false, false, false};
    for (int k = 0; k < n; ++k) {
      bool found = false;
      for (int j = 0; j < n && !found; ++j)
        if (!used[j] && in[j] == out[k]) {
          used[j] = true;
          found = true;
        }
      c.check(found, key, w + ": not a permutation of the input");
    }
    for (int k = 0; k + 1 < n; ++k) {
      const bool ok = o == 0 ? out[k] <= out[k + 1] : out[k] >= out[k + 1];
      c.check(ok, key, w + ": not ordered");
    }
  }

  //! columns of `out` are the columns of `in` moved together with their values
  template <typename T, typename MI, typename MO>
  void checkColumns(verif::Case& c, const T in[3], const MI& min, const T out[3], const MO& mout,
                    const std::string& key, const std::string& what) {
    bool used[3] = {false, false, false};
    for (int k = 0; k < 3; ++k) {
      int src = -1;
      for (int j = 0; j < 3; ++j) {
        if (used[j]) continue;
        if (min(0, j) == mout(0, k) && min(1, j) == mout(1, k) && min(2, j) == mout(2, k)) {
          src = j;
          break;
        }
      }
      c.check(src >= 0, key, what + ": column " + std::to_string(k) + " of the output is not a column of the input");
      used[src] = true;
      c.check(in[src] == out[k], key,
              what + ": column " + std::to_string(k) + " does not go with its eigenvalue");
    }
  }

#if C04_PART == 1
  // ------------------------------------------------------------------ unit sort
  struct Item {
    int r[3];
    int o;
    bool ties;
  };
  //! item k of the enumeration: 27 rank triples x 3 orderings
  Item item(int k) {
    Item it;
    it.o = k / 27;
    int q = k % 27;
    it.r[0] = q / 9;
    it.r[1] = (q / 3) % 3;
    it.r[2] = q % 3;
    it.ties = it.r[0] == it.r[1] || it.r[0] == it.r[2] || it.r[1] == it.r[2];
    return it;
  }
  //! three values v[0] < v[1] < v[2]
  template <typename T>
  void values(verif::Case& c, T v[3]) {
    const auto cls = c.integer(0, 5, "values");
    switch (cls) {
      case 0:
        v[0] = -1; v[1] = 0; v[2] = 2;
        break;
      case 1:  // huge / tiny
        v[0] = -std::numeric_limits<T>::max(); v[1] = std::numeric_limits<T>::denorm_min();
        v[2] = std::numeric_limits<T>::max();
        break;
      case 2:  // neighbours
        v[1] = static_cast<T>(c.sreal(1., "x"));
        v[0] = std::nextafter(v[1], -std::numeric_limits<T>::infinity());
        v[2] = std::nextafter(v[1], std::numeric_limits<T>::infinity());
        break;
      default: {
        const double sc = gen::scale(c, std::is_same_v<T, float> ? 30 : 200);
        T a = static_cast<T>(c.sreal(sc, "a")), b = static_cast<T>(c.sreal(sc, "b")),
          d = static_cast<T>(c.sreal(sc, "c"));
        if (a > b) std::swap(a, b);
        if (b > d) std::swap(b, d);
        if (a > b) std::swap(a, b);
        if (!(a < b && b < d)) {  // keep them distinct (construct, don't filter)
          a = -1; b = 0; d = 2;
        }
        v[0] = a; v[1] = b; v[2] = d;
      }
    }
  }
  template <typename T>
  Item draw(verif::Case& c, T in[3]) {
    T v[3];
    values(c, v);
    const Item it = item(static_cast<int>(c.integer(0, 80, "item")));
    for (int k = 0; k < 3; ++k) in[k] = v[it.r[k]];
    // signed zeros compare equal: a tie the sort must survive as well
    if (c.chance(1, 8, "signed_zero")) {
      for (int k = 0; k < 3; ++k)
        if (it.r[k] == 1) in[k] = (k % 2) ? T(0) : -T(0);
      // ranks 0 and 2 must stay on each side of zero
      for (int k = 0; k < 3; ++k) {
        if (it.r[k] == 0) in[k] = -T(1);
        if (it.r[k] == 2) in[k] = T(2);
      }
    }
    c.nontrivial(it.ties);
    c.tag(it.ties ? "pattern.ties" : "pattern.strict");
    c.tag(std::string("order.") + oname(it.o));
    return it;
  }
  std::string kcls(const Item& it) { return it.ties ? ".ties" : ".strict"; }

  /*!
   * distinguishable columns.  N == 2: eigenvector matrix of a 2D tensor (third
   * vector = out-of-plane direction, in-plane vectors without z component):
   * SortEigenVectors<2> only swaps the in-plane block, as documented.
   */
  template <typename T>
  tmatrix<3u, 3u, T> columns(verif::Case& c, int N = 3) {
    tmatrix<3u, 3u, T> m;
    if (N == 2) {
      const auto q = gen::rot(c, 2);
      for (unsigned short i = 0; i < 3; ++i)
        for (unsigned short j = 0; j < 3; ++j) m(i, j) = static_cast<T>(q(i, j));
      if (m(0, 0) == m(0, 1) && m(1, 0) == m(1, 1)) {
        m(0, 0) = 1; m(1, 0) = 0; m(0, 1) = 0; m(1, 1) = 1;
      }
      return m;
    }
    if (c.boolean("rotation")) {
      const auto q = gen::rot(c, 3);
      for (unsigned short i = 0; i < 3; ++i)
        for (unsigned short j = 0; j < 3; ++j) m(i, j) = static_cast<T>(q(i, j));
      // make sure the columns are pairwise distinct (axis aligned rotations are)
    } else {
      for (unsigned short i = 0; i < 3; ++i)
        for (unsigned short j = 0; j < 3; ++j) m(i, j) = static_cast<T>(10 * (j + 1) + i);
    }
    for (unsigned short j = 0; j < 3; ++j)
      for (unsigned short k = j + 1; k < 3; ++k)
        if (m(0, j) == m(0, k) && m(1, j) == m(1, k) && m(2, j) == m(2, k)) {
          for (unsigned short i = 0; i < 3; ++i)
            for (unsigned short l = 0; l < 3; ++l) m(i, l) = static_cast<T>(10 * (l + 1) + i);
        }
    return m;
  }

  template <typename T>
  void free_sort(verif::Case& c) {
    T in[3];
    const Item it = draw(c, in);
    const tvector<3u, T> r = sortEigenValues(tvector<3u, T>{in[0], in[1], in[2]}, ord(it.o));
    const T out[3] = {r[0], r[1], r[2]};
    checkValues(c, in, out, it.o, 3, "C04.sortEigenValues" + kcls(it), "sortEigenValues");
  }
  template <unsigned short N, typename T>
  void sort_values(verif::Case& c) {
    T in[3];
    const Item it = draw(c, in);
    T out[3] = {in[0], in[1], in[2]};
    tfel::math::internals::SortEigenValues<N>::exe(out[0], out[1], out[2], ord(it.o));
    checkValues(c, in, out, it.o, N == 3 ? 3 : (N == 2 ? 2 : 0),
                "C04.SortEigenValues" + std::to_string(N) + kcls(it),
                "internals::SortEigenValues<" + std::to_string(N) + ">");
  }
  template <unsigned short N, typename T>
  void sort_vectors(verif::Case& c) {
    T in[3];
    const Item it = draw(c, in);
    const auto m0 = columns<T>(c, N);
    tvector<3u, T> vp{in[0], in[1], in[2]};
    auto m = m0;
    tfel::math::internals::SortEigenVectors<N>::exe(vp, m, ord(it.o));
    const T out[3] = {vp[0], vp[1], vp[2]};
    const std::string key = "C04.SortEigenVectors" + std::to_string(N) + kcls(it);
    const std::string what = "internals::SortEigenVectors<" + std::to_string(N) + ">";
    checkValues(c, in, out, it.o, N == 3 ? 3 : (N == 2 ? 2 : 0), key, what);
    checkColumns(c, in, m0, out, m, key,
                 what + " " + oname(it.o) + " " + s3(in[0], in[1], in[2]) + " -> " +
                     s3(out[0], out[1], out[2]));
  }
  template <typename T>
  void fses_sort(verif::Case& c) {
    T in[3];
    const Item it = draw(c, in);
    const auto m0 = columns<T>(c);
    const std::string key = "C04.fses_sort" + kcls(it);
    const bool arrays = c.boolean("c_arrays");
    if (arrays) {
      // the C array flavour of the FSES accessors
      T v[3] = {in[0], in[1], in[2]};
      tmatrix<3u, 3u, T> m = m0;
      fses::sort(m, v, ford(it.o));
      checkValues(c, in, v, it.o, 3, key, "fses::sort");
      checkColumns(c, in, m0, v, m, key,
                   std::string("fses::sort ") + oname(it.o) + " " + s3(in[0], in[1], in[2]) +
                       " -> " + s3(v[0], v[1], v[2]));
    } else {
      tvector<3u, T> v{in[0], in[1], in[2]};
      tmatrix<3u, 3u, T> m = m0;
      fses::sort(m, v, ford(it.o));
      const T out[3] = {v[0], v[1], v[2]};
      checkValues(c, in, out, it.o, 3, key, "fses::sort");
      checkColumns(c, in, m0, out, m, key,
                   std::string("fses::sort ") + oname(it.o) + " " + s3(in[0], in[1], in[2]) +
                       " -> " + s3(out[0], out[1], out[2]));
    }
  }
#else
  // ---------------------------------------------------------------- unit public
  template <ES es>
  constexpr const char* esName() {
    if constexpr (es == ES::TFELEIGENSOLVER) return "tfel";
    else if constexpr (es == ES::FSESANALYTICALEIGENSOLVER) return "fsesanalytical";
    else if constexpr (es == ES::FSESJACOBIEIGENSOLVER) return "fsesjacobi";
    else if constexpr (es == ES::FSESQLEIGENSOLVER) return "fsesql";
    else if constexpr (es == ES::FSESCUPPENEIGENSOLVER) return "fsescuppen";
    else if constexpr (es == ES::FSESHYBRIDEIGENSOLVER) return "fseshybrid";
    else if constexpr (es == ES::GTESYMMETRICQREIGENSOLVER) return "gteqr";
    else return "harari";
  }

  //! tensors whose spectrum has exact or near ties, plus generic ones
  M3 genTensor(verif::Case& c, int N) {
    M3 m;
    const auto cls = c.integer(0, 7, "class");
    auto val = [&](const char* n) -> R {
      return c.boolean("int") ? static_cast<R>(c.integer(-3, 3, n)) : R(c.sreal(1., n));
    };
    switch (cls) {
      case 0: {  // diag(a,a,b) in every placement
        c.tag("in.diag_two_equal");
        const R a = val("a"), b = val("b");
        const auto p = c.integer(0, 2, "single");
        for (int i = 0; i < 3; ++i) m(i, i) = i == p ? b : a;
        break;
      }
      case 1: {
        c.tag("in.isotropic");
        const R a = val("a");
        m(0, 0) = m(1, 1) = m(2, 2) = a;
        break;
      }
      case 2: {  // uniaxial
        c.tag("in.uniaxial");
        const auto p = c.integer(0, 2, "axis");
        m(p, p) = val("a");
        break;
      }
      case 3: {  // repeated eigenvalue, rotated
        c.tag("in.rotated_two_equal");
        const R a = val("a"), b = val("b");
        M3 D;
        D(0, 0) = a;
        D(1, 1) = c.boolean("pair_first") ? a : b;
        D(2, 2) = b;
        const M3 q = gen::rot(c, N);
        m = ref::sym(q * D * ref::transpose(q));
        break;
      }
      case 4:
        c.tag("in.zero");
        break;
      case 5: {  // diagonal, generic
        c.tag("in.diagonal");
        for (int i = 0; i < 3; ++i) m(i, i) = val("d");
        break;
      }
      default:
        m = gen::sym(c, N, 1.);
    }
    if (N == 1) {
      M3 d;
      for (int i = 0; i < 3; ++i) d(i, i) = m(i, i);
      return d;
    }
    return m;
  }

  template <ES es, unsigned short N>
  void public_api(verif::Case& c) {
    using T = double;
    using S = stensor<N, T>;
    const std::string sol = esName<es>();
    const double sc = gen::scale(c, 30);
    const S s = gen::toStensor<S>(R(sc) * genTensor(c, N));
    const bool refine = c.boolean("refine");
    const int o = static_cast<int>(c.integer(0, 2, "order"));
    c.tag(std::string("order.") + oname(o));
    const std::string dim = std::to_string(N) + "d";
    const int n = N == 3 ? 3 : (N == 2 ? 2 : 0);
    // unsorted reference from the same solver
    T u0, u1, u2;
    s.template computeEigenValues<es>(u0, u1, u2, refine);
    const T in[3] = {u0, u1, u2};
    if (!(std::isfinite(u0) && std::isfinite(u1) && std::isfinite(u2))) {
      // non-finite eigenvalues cannot be ordered: that is C03's business
      c.tag("solver_returned_nan");
      return;
    }
    bool ties = false;
    for (int i = 0; i < n; ++i)
      for (int j = i + 1; j < n; ++j) ties = ties || in[i] == in[j];
    c.nontrivial(ties);
    c.tag(ties ? "spectrum.exact_ties" : "spectrum.no_exact_tie");
    const std::string cls = ties ? ".ties" : ".strict";
    {
      T v0, v1, v2;
      s.template computeEigenValues<es>(v0, v1, v2, ord(o), refine);
      const T out[3] = {v0, v1, v2};
      checkValues(c, in, out, o, n, "C04.public.computeEigenValues." + dim + cls,
                  "computeEigenValues<" + sol + ">");
      // the overloads returning / filling a tvector
      const auto r = s.template computeEigenValues<es>(ord(o), refine);
      c.check(r[0] == v0 && r[1] == v1 && r[2] == v2, "C04.public.computeEigenValues." + dim + cls,
              "overloads of computeEigenValues disagree");
    }
    {
      tvector<3u, T> vu, vs;
      tmatrix<3u, 3u, T> mu, ms;
      s.template computeEigenVectors<es>(vu, mu, refine);
      s.template computeEigenVectors<es>(vs, ms, ord(o), refine);
      const T inv[3] = {vu[0], vu[1], vu[2]};
      const T out[3] = {vs[0], vs[1], vs[2]};
      bool fin = true, tiesv = false;
      for (int i = 0; i < 3; ++i) {
        fin = fin && std::isfinite(inv[i]);
        for (int j = 0; j < 3; ++j) fin = fin && std::isfinite(mu(i, j));
      }
      if (!fin) {
        c.tag("solver_returned_nan");
        return;
      }
      // distinct columns are needed to observe the permutation
      for (int j = 0; j < 3; ++j)
        for (int k = j + 1; k < 3; ++k)
          if (mu(0, j) == mu(0, k) && mu(1, j) == mu(1, k) && mu(2, j) == mu(2, k)) {
            c.tag("solver_returned_equal_columns");
            return;
          }
      for (int i = 0; i < n; ++i)
        for (int j = i + 1; j < n; ++j) tiesv = tiesv || inv[i] == inv[j];
      c.nontrivial(tiesv);
      const std::string key =
          "C04.public.computeEigenVectors." + dim + (tiesv ? ".ties" : ".strict");
      const std::string what = "computeEigenVectors<" + sol + ">";
      checkValues(c, inv, out, o, n, key, what);
      checkColumns(c, inv, mu, out, ms, key,
                   what + " " + oname(o) + " " + s3(inv[0], inv[1], inv[2]) + " -> " +
                       s3(out[0], out[1], out[2]));
      const auto [v2, m2] = s.template computeEigenVectors<es>(ord(o), refine);
      bool same = v2[0] == vs[0] && v2[1] == vs[1] && v2[2] == vs[2];
      for (int i = 0; i < 3; ++i)
        for (int j = 0; j < 3; ++j) same = same && m2(i, j) == ms(i, j);
      c.check(same, key, "overloads of computeEigenVectors disagree");
    }
  }
#endif

}  // namespace

#if C04_PART == 1
VERIF_SUB(sortEigenValues_d) { free_sort<double>(c); }
VERIF_SUB(sortEigenValues_f) { free_sort<float>(c); }
VERIF_SUB(SortEigenValues_1) { sort_values<1u, double>(c); }
VERIF_SUB(SortEigenValues_2) { sort_values<2u, double>(c); }
VERIF_SUB(SortEigenValues_3) { sort_values<3u, double>(c); }
VERIF_SUB(SortEigenValues_3f) { sort_values<3u, float>(c); }
VERIF_SUB(SortEigenVectors_1) { sort_vectors<1u, double>(c); }
VERIF_SUB(SortEigenVectors_2) { sort_vectors<2u, double>(c); }
VERIF_SUB(SortEigenVectors_3) { sort_vectors<3u, double>(c); }
VERIF_SUB(SortEigenVectors_3f) { sort_vectors<3u, float>(c); }
VERIF_SUB(fses_sort_d) { fses_sort<double>(c); }
VERIF_SUB(fses_sort_f) { fses_sort<float>(c); }
namespace {
  struct Note {
    Note() {
      verif::Global::get().notes.push_back(
          "exhaustive: every sub-check of unit sort draws its item in the full enumeration of the "
          "27 rank triples (13 weak orders of three values on three places) x "
          "{ASCENDING,DESCENDING,UNSORTED} = 81 items; class counters pattern.* / order.* give the hits");
    }
  } note_;
}
VERIF_MAIN("C04_sort")
#else
#define C04_SOLVER(NAME, SOLVER)                                   \
  VERIF_SUB_W(NAME##_1d, 0.2) { public_api<ES::SOLVER, 1u>(c); }   \
  VERIF_SUB(NAME##_2d) { public_api<ES::SOLVER, 2u>(c); }          \
  VERIF_SUB(NAME##_3d) { public_api<ES::SOLVER, 3u>(c); }
C04_SOLVER(tfel, TFELEIGENSOLVER)
C04_SOLVER(fsesanalytical, FSESANALYTICALEIGENSOLVER)
C04_SOLVER(fsesjacobi, FSESJACOBIEIGENSOLVER)
C04_SOLVER(fsesql, FSESQLEIGENSOLVER)
C04_SOLVER(fsescuppen, FSESCUPPENEIGENSOLVER)
C04_SOLVER(fseshybrid, FSESHYBRIDEIGENSOLVER)
C04_SOLVER(gteqr, GTESYMMETRICQREIGENSOLVER)
C04_SOLVER(harari, HARARIEIGENSOLVER)
VERIF_MAIN("C04_public")
#endif
