/*!
 * C22 - equivalent-stress criteria, unit "barlat": Barlat 2004 (Yld2004-18p).
 * Independent value from docs/web/tfel-material.md:
 *   Phi = (1/4 sum_ij |s'_i - s''_j|^a)^(1/a),  s' = C' : dev(sigma), s'' = C'' : dev(sigma)
 * with C built from the 9 coefficients exactly as printed in the documentation.
 * See C22_common.hxx for the oracle and the tolerances.
 */
#include "C22_common.hxx"
#include "TFEL/Material/Barlat2004YieldCriterion.hxx"
#include "TFEL/Material/Hosford1972YieldCriterion.hxx"

using namespace c22;

namespace {

  //! the nine coefficients c12,c21,c13,c31,c23,c32,c44,c55,c66
  struct Coefs {
    double c[9];
    //! s' = C : dev(sigma), documentation of the Barlat stress
    M3 apply(const M3& sig) const {
      const M3 d = ref::dev(sig);
      M3 r;
      r(0, 0) = -R(c[0]) * d(1, 1) - R(c[2]) * d(2, 2);
      r(1, 1) = -R(c[1]) * d(0, 0) - R(c[4]) * d(2, 2);
      r(2, 2) = -R(c[3]) * d(0, 0) - R(c[5]) * d(1, 1);
      r(0, 1) = r(1, 0) = R(c[6]) * d(0, 1);
      r(0, 2) = r(2, 0) = R(c[7]) * d(0, 2);
      r(1, 2) = r(2, 1) = R(c[8]) * d(1, 2);
      return r;
    }
    template <unsigned short N>
    S4<N> make() const {
      return tfel::material::makeBarlatLinearTransformation<N, double>(
          c[0], c[1], c[2], c[3], c[4], c[5], c[6], c[7], c[8]);
    }
  };

  template <typename Exponent>
  struct Barlat {
    Coefs c1, c2;
    Exponent a;
    template <unsigned short N>
    double value(const S2<N>& s, double seps) const {
      return tfel::material::computeBarlatStress(s, c1.make<N>(), c2.make<N>(), a, seps);
    }
    template <unsigned short N>
    std::pair<double, S2<N>> normal(const S2<N>& s, double seps) const {
      const auto r =
          tfel::material::computeBarlatStressNormal(s, c1.make<N>(), c2.make<N>(), a, seps);
      return {std::get<0>(r), S2<N>(std::get<1>(r))};
    }
    template <unsigned short N>
    std::tuple<double, S2<N>, S4<N>> second(const S2<N>& s, double seps) const {
      const auto r = tfel::material::computeBarlatStressSecondDerivative(s, c1.make<N>(),
                                                                        c2.make<N>(), a, seps);
      return {std::get<0>(r), S2<N>(std::get<1>(r)), S4<N>(std::get<2>(r))};
    }
    R ref(const M3& s) const {
      R v1[3], v2[3];
      M3 V;
      ref::jacobi(c1.apply(s), v1, V);
      ref::jacobi(c2.apply(s), v2, V);
      R m = 0;
      for (int i = 0; i < 3; ++i)
        for (int j = 0; j < 3; ++j) m = std::max(m, std::fabs(v1[i] - v2[j]));
      if (m == 0) return 0;
      const R e = static_cast<R>(a);
      R sum = 0;
      for (int i = 0; i < 3; ++i)
        for (int j = 0; j < 3; ++j) {
          const R x = std::fabs(v1[i] - v2[j]);
          if (x > 0) sum += std::pow(x / m, e);
        }
      return m * std::pow(sum / 4, 1 / e);
    }
  };

  //! error model: both transformed stresses go through the analytical eigen solver
  ErrModel barlatModel(const Coefs& c1, const Coefs& c2, const M3& sig) {
    const R nrm = ref::norm(sig);
    ErrModel r{0, 0, 1};
    for (const Coefs* c : {&c1, &c2}) {
      Stress t = analysed(c->apply(sig));
      // the transformed stress inherits u ||sigma|| from the product L * sigma
      t.tri = std::max(t.tri, t.vm > 0 ? nrm / t.vm : R(1));
      r.E = std::max(r.E, t.Eeig());
      r.En = std::max(r.En, t.En(true));
      r.gap = std::min(r.gap, t.gap);
    }
    return r;
  }

  Coefs genCoefs(verif::Case& c, bool identity) {
    Coefs r;
    for (auto& x : r.c) x = identity ? 1. : c.real(0.5, 1.5, "cij");
    return r;
  }

  template <unsigned short N>
  void barlat(verif::Case& c) {
    const auto k = c.integer(0, 9, "a_class");
    const bool integerType = (k == 0 || k == 1);
    double a = 2;
    if (k <= 5) {
      static const int A[6] = {8, 6, 2, 4, 8, 12};
      a = A[k];
    } else {
      // a < 2: |s'_i - s''_j|^(a-2) is singular wherever two transformed principal
      // stresses coincide (always the case for identical transformations)
      // 2 < a < 3: the second derivative is only Hoelder continuous (exponent a-2)
      // where s'_i = s''_j, which generic transformations can meet anywhere
      a = c.real(3., 20., "a");
    }
    // 0: both identity (== Hosford), 1: same random transformation twice, 2..: two random ones
    const auto tc = c.integer(0, 4, "transformation_class");
    const bool identity = tc == 0;
    const auto st = genStress<N>(c, /*allowTwoEqual=*/a == 2 || a >= 3);
    const Coefs c1 = genCoefs(c, identity);
    const Coefs c2 = tc <= 1 ? c1 : genCoefs(c, false);
    c.tag(identity ? "barlat.identity" : (tc == 1 ? "barlat.same" : "barlat.generic"));
    Options o;
    o.name = "barlat";
    o.amp = a;
    o.isotropic = identity;
    o.model = [&c1, &c2](const M3& x) { return barlatModel(c1, c2, x); };
    {
      // gaps of the transformed stresses as seen by the library (same test)
      const auto em = o.model(st.sig);
      (void)em;
      const bool rep = analysed(c1.apply(st.sig)).gmin == 0 || analysed(c2.apply(st.sig)).gmin == 0;
      c.tag(rep ? "barlat.transformed.repeated" : "barlat.transformed.distinct");
    }
    if (integerType) {
      checkAll<N>(c, Barlat<int>{c1, c2, static_cast<int>(a)}, st, o);
    } else {
      checkAll<N>(c, Barlat<double>{c1, c2, a}, st, o);
    }
    if (identity) {
      // Barlat with identity linear transformations == Hosford with the same exponent
      const auto s = toS<N>(st.sig);
      const double seps = static_cast<double>(st.seps);
      const auto b = Barlat<double>{c1, c2, a}.template second<N>(s, seps);
      const auto h = tfel::material::computeHosfordStressSecondDerivative(s, a, seps);
      const auto em = o.model(st.sig);
      const R E = 2 * a * em.E, En = 2 * a * em.En;
      c.close(std::get<0>(b), std::get<0>(h), 512 * E * std::fabs(std::get<0>(h)),
              "C22.barlat.identity_is_hosford", "Barlat(identity) vs Hosford: value");
      const M3 nh = toM<N>(S2<N>(std::get<1>(h)));
      closeM(c, toM<N>(std::get<1>(b)), nh, 512 * En * (1 + ref::norm(nh)),
             "C22.barlat.identity_is_hosford", "Barlat(identity) vs Hosford: normal", N);
      const S4<N> dh(std::get<2>(h));
      constexpr int n = N == 1 ? 3 : (N == 2 ? 4 : 6);
      const R t = 512 * En / std::min(R(1), em.gap) * (norm4<N>(dh) + 1 / st.vm);
      for (int i = 0; i < n; ++i)
        for (int j = 0; j < n; ++j)
          c.close(std::get<2>(b)(i, j), dh(i, j), t, "C22.barlat.identity_is_hosford_second",
                  "Barlat(identity) vs Hosford: second derivative");
    }
  }

}  // namespace

VERIF_SUB_W(barlat_1d, 0.25) { barlat<1u>(c); }
VERIF_SUB_W(barlat_2d, 0.5) { barlat<2u>(c); }
VERIF_SUB(barlat_3d) { barlat<3u>(c); }

VERIF_MAIN("C22_barlat")
