/*!
 * C34 - Glossary lookups are consistent and unambiguous
 * (include/TFEL/Glossary/Glossary.hxx, GlossaryEntry.hxx, lib TFELGlossary).
 *
 * Enumerated (exhaustive, sub-check `whole_glossary` sweeps everything in one
 * case; `keys`/`members` draw the index so that failures shrink to one item):
 *  - every key of Glossary::getKeys() and every name of every entry:
 *    contains(), getGlossaryEntry() resolves to exactly one entry (counted by
 *    the harness over all entries), the entry resolved from a key reports it;
 *  - every static member declared in Glossary.hxx.  The list is NOT hard-coded:
 *    it is extracted at run time from $VERIF_REPO/include/TFEL/Glossary/Glossary.hxx
 *    (`static const GlossaryEntry X;`) and each object is found through its
 *    Itanium-mangled symbol _ZN4tfel8glossary8Glossary<len>X E with dlsym; two
 *    members referenced at compile time validate the mangling scheme;
 *  - every physical bound, for every unit system met in any entry (+ "SI"):
 *    complete number (strtold), lower <= upper.
 * Generated: non-entries = edits of real keys / names (case flip, deletion,
 * insertion, substitution, padding) that are not themselves a key or a name.
 */
#include "verif.hxx"
#include <dlfcn.h>
#include "TFEL/Glossary/Glossary.hxx"
#include "TFEL/Glossary/GlossaryEntry.hxx"

using tfel::glossary::Glossary;
using tfel::glossary::GlossaryEntry;

namespace {

  struct World {
    const Glossary* g = nullptr;
    std::vector<std::string> keys;
    std::vector<std::string> members;      // from the header
    std::vector<std::string> all_names;    // keys + alternative names (with repetitions)
    std::set<std::string> name_set;
    std::vector<std::string> unit_systems;
    std::string error;  // set when the world could not be built
  };

  const World& world() {
    static const World w = [] {
      World r;
      r.g = &Glossary::getGlossary();
      r.keys = r.g->getKeys();
      std::set<std::string> us = {"SI"};
      for (const auto& k : r.keys) {
        r.all_names.push_back(k);
        if (!r.g->contains(k)) continue;  // reported by the key check
        const auto& e = r.g->getGlossaryEntry(k);
        for (const auto& n : e.getNames()) r.all_names.push_back(n);
        for (const auto& u : e.getUnits()) us.insert(u.first);
      }
      r.name_set.insert(r.all_names.begin(), r.all_names.end());
      r.unit_systems.assign(us.begin(), us.end());
      const char* repo = std::getenv("VERIF_REPO");
      const std::string h =
          std::string(repo != nullptr ? repo : "/repo") + "/include/TFEL/Glossary/Glossary.hxx";
      std::ifstream f(h);
      if (!f) {
        r.error = "can't read " + h;
        return r;
      }
      // lines of the form `static const GlossaryEntry <identifier>;`
      std::string line;
      while (std::getline(f, line)) {
        std::istringstream is(line);
        std::string t1, t2, t3, t4, t5;
        is >> t1 >> t2 >> t3 >> t4;
        if (t1 != "static" || t2 != "const" || t3 != "GlossaryEntry" || t4.size() < 2 ||
            t4.back() != ';' || (is >> t5))
          continue;
        t4.pop_back();
        const bool ident = std::all_of(t4.begin(), t4.end(), [](const unsigned char ch) {
          return std::isalnum(ch) || ch == '_';
        }) && !std::isdigit(static_cast<unsigned char>(t4[0]));
        if (ident) r.members.push_back(t4);
      }
      if (r.members.empty()) r.error = "no static member found in " + h;
      return r;
    }();
    return w;
  }

  const GlossaryEntry* memberObject(const std::string& name) {
    const auto sym = "_ZN4tfel8glossary8Glossary" + std::to_string(name.size()) + name + "E";
    return static_cast<const GlossaryEntry*>(::dlsym(RTLD_DEFAULT, sym.c_str()));
  }

  //! number of entries that a name designates (as key or as alternative name)
  std::size_t designated(const World& w, const std::string& n) {
    std::size_t count = 0;
    for (const auto& k : w.keys) {
      if (!w.g->contains(k)) continue;
      const auto& e = w.g->getGlossaryEntry(k);
      if (e.getKey() != k) continue;
      const auto& ns = e.getNames();
      if (k == n || std::find(ns.begin(), ns.end(), n) != ns.end()) ++count;
    }
    return count;
  }

  bool parseNumber(const std::string& s, long double& v) {
    if (s.empty() || std::isspace(static_cast<unsigned char>(s[0]))) return false;
    char* end = nullptr;
    v = std::strtold(s.c_str(), &end);
    return end == s.c_str() + s.size() && std::isfinite(static_cast<double>(v));
  }

  void checkBounds(verif::Case& c, const World& w, const GlossaryEntry& e) {
    for (const auto& us : w.unit_systems) {
      long double lo = 0, up = 0;
      const bool hl = e.hasLowerPhysicalBound(us), hu = e.hasUpperPhysicalBound(us);
      if (hl) {
        const auto s = e.getLowerPhysicalBound(us);
        c.check(parseNumber(s, lo), "C34.bounds.lower_not_a_number",
                "entry '" + e.getKey() + "' [" + us + "]: lower bound '" + s + "' is not a number");
        c.tag("bound.lower");
      }
      if (hu) {
        const auto s = e.getUpperPhysicalBound(us);
        c.check(parseNumber(s, up), "C34.bounds.upper_not_a_number",
                "entry '" + e.getKey() + "' [" + us + "]: upper bound '" + s + "' is not a number");
        c.tag("bound.upper");
      }
      if (hl && hu) {
        c.nontrivial(true);
        c.tag("bound.both");
        c.check(lo <= up, "C34.bounds.order",
                "entry '" + e.getKey() + "' [" + us + "]: lower bound " + e.getLowerPhysicalBound(us) +
                    " > upper bound " + e.getUpperPhysicalBound(us));
      }
    }
  }

  void checkKey(verif::Case& c, const World& w, const std::size_t i) {
    const auto& k = w.keys[i];
    c.check(w.g->contains(k), "C34.key.contains", "contains('" + k + "') is false for a key of getKeys()");
    const auto& e = w.g->getGlossaryEntry(k);
    c.check(e.getKey() == k, "C34.key.reports_key",
            "getGlossaryEntry('" + k + "').getKey() = '" + e.getKey() + "'");
    c.check(static_cast<const std::string&>(e) == k, "C34.key.reports_key", "cast to string != key for " + k);
    c.check(std::count(w.keys.begin(), w.keys.end(), k) == 1, "C34.key.unique",
            "key '" + k + "' appears several times in getKeys()");
    c.check(designated(w, k) == 1, "C34.key.unique",
            "key '" + k + "' designates " + std::to_string(designated(w, k)) + " entries");
    const auto& names = e.getNames();
    c.check(!names.empty(), "C34.names.empty", "entry '" + k + "' has no name");
    for (const auto& n : names) {
      c.check(w.g->contains(n), "C34.name.contains", "contains('" + n + "') is false (name of '" + k + "')");
      const auto& e2 = w.g->getGlossaryEntry(n);
      c.check(e2.getKey() == k, "C34.name.resolves_to_owner",
              "name '" + n + "' of entry '" + k + "' resolves to entry '" + e2.getKey() + "'");
      const auto& n2 = e2.getNames();
      c.check(n == e2.getKey() || std::find(n2.begin(), n2.end(), n) != n2.end(), "C34.name.listed",
              "entry '" + e2.getKey() + "' resolved from '" + n + "' does not list it");
      const auto d = designated(w, n);
      c.check(d == 1, "C34.name.unique", "name '" + n + "' designates " + std::to_string(d) + " entries");
      if (n != k) {
        c.nontrivial(true);
        c.tag("alternative_name");
      }
    }
    if (names.size() > 1) c.tag("several_names");
    checkBounds(c, w, e);
  }

  bool sameEntry(const World& w, const GlossaryEntry& a, const GlossaryEntry& b, std::string& why) {
    auto diff = [&why](const char* what) {
      why = what;
      return false;
    };
    if (a.getKey() != b.getKey()) return diff("key");
    if (a.getNames() != b.getNames()) return diff("names");
    if (a.getUnits() != b.getUnits()) return diff("units");
    if (a.getType() != b.getType()) return diff("type");
    if (a.getShortDescription() != b.getShortDescription()) return diff("short description");
    if (a.getDescription() != b.getDescription()) return diff("description");
    if (a.getNotes() != b.getNotes()) return diff("notes");
    for (const auto& us : w.unit_systems) {
      if (a.hasLowerPhysicalBound(us) != b.hasLowerPhysicalBound(us)) return diff("lower bound presence");
      if (a.hasUpperPhysicalBound(us) != b.hasUpperPhysicalBound(us)) return diff("upper bound presence");
      if (a.hasLowerPhysicalBound(us) && a.getLowerPhysicalBound(us) != b.getLowerPhysicalBound(us))
        return diff("lower bound");
      if (a.hasUpperPhysicalBound(us) && a.getUpperPhysicalBound(us) != b.getUpperPhysicalBound(us))
        return diff("upper bound");
    }
    return true;
  }

  void checkMember(verif::Case& c, const World& w, const std::size_t i) {
    const auto& m = w.members[i];
    const auto* const o = memberObject(m);
    c.check(o != nullptr, "C34.member.symbol", "no object for static member Glossary::" + m);
    c.check(o->getKey() == m, "C34.member.same_name",
            "Glossary::" + m + " is the entry of key '" + o->getKey() + "'");
    c.check(w.g->contains(m), "C34.member.in_glossary", "Glossary::" + m + " is not a key of the glossary");
    const auto& e = w.g->getGlossaryEntry(m);
    std::string why;
    c.check(e.getKey() == m && sameEntry(w, *o, e, why), "C34.member.same_entry",
            "Glossary::" + m + " differs from getGlossaryEntry(\"" + m + "\") (key '" + e.getKey() + "'): " + why);
    c.check(std::find(w.keys.begin(), w.keys.end(), m) != w.keys.end(), "C34.member.in_keys",
            "Glossary::" + m + " is not listed by getKeys()");
    c.nontrivial(true);
  }

  void checkWorld(verif::Case& c, const World& w) {
    c.check(w.error.empty(), "C34.harness.world", w.error);
    c.check(!w.keys.empty(), "C34.harness.world", "getKeys() is empty");
    // mangling scheme validated on two members referenced at compile time
    c.check(memberObject("YoungModulus") == &Glossary::YoungModulus &&
                memberObject("Temperature") == &Glossary::Temperature,
            "C34.harness.mangling", "dlsym does not find the static members");
  }

}  // namespace

VERIF_SUB_W(whole_glossary, 0.002) {
  const auto& w = world();
  checkWorld(c, w);
  for (std::size_t i = 0; i != w.keys.size(); ++i) checkKey(c, w, i);
  for (std::size_t i = 0; i != w.members.size(); ++i) checkMember(c, w, i);
  std::size_t without_member = 0;
  for (const auto& k : w.keys)
    if (std::find(w.members.begin(), w.members.end(), k) == w.members.end()) ++without_member;
  c.nontrivial(true);
  c.tag("exhaustive.sweep");
  if (without_member != 0) c.tag("keys_without_static_member");
  c.note("exhaustive: " + std::to_string(w.keys.size()) + " keys, " + std::to_string(w.all_names.size()) +
         " keys+names, " + std::to_string(w.members.size()) + " static members (header), " +
         std::to_string(w.unit_systems.size()) + " unit system(s), " + std::to_string(without_member) +
         " key(s) without static member");
}

VERIF_SUB(keys) {
  const auto& w = world();
  checkWorld(c, w);
  checkKey(c, w, c.pick(w.keys.size(), "key"));
}

VERIF_SUB(members) {
  const auto& w = world();
  checkWorld(c, w);
  checkMember(c, w, c.pick(w.members.size(), "member"));
}

VERIF_SUB(non_entries) {
  const auto& w = world();
  checkWorld(c, w);
  std::string s = w.all_names[c.pick(w.all_names.size(), "base")];
  static const char letters[] = "abcdefghijklmnopqrstuvwxyzABCDEFGHIJKLMNOPQRSTUVWXYZ0123456789_ ()%./-";
  const auto nedits = c.integer(1, 2, "edits");
  for (std::int64_t k = 0; k != nedits; ++k) {
    switch (c.integer(0, 7, "edit")) {
      case 0:  // case flip
        if (!s.empty()) {
          auto& ch = s[c.pick(s.size(), "pos")];
          if (std::isalpha(static_cast<unsigned char>(ch))) ch ^= 0x20;
          c.tag("edit.case_flip");
        }
        break;
      case 1:  // deletion
        if (!s.empty()) s.erase(c.pick(s.size(), "pos"), 1);
        c.tag("edit.deletion");
        break;
      case 2:  // insertion
        s.insert(c.pick(s.size() + 1, "pos"), 1, letters[c.pick(sizeof letters - 1, "letter")]);
        c.tag("edit.insertion");
        break;
      case 3:  // substitution
        if (!s.empty()) s[c.pick(s.size(), "pos")] = letters[c.pick(sizeof letters - 1, "letter")];
        c.tag("edit.substitution");
        break;
      case 4:  // truncation: proper prefix
        s = s.substr(0, c.pick(s.size() + 1, "len"));
        c.tag("edit.prefix");
        break;
      case 5:  // padding
        s = c.boolean("front") ? " " + s : s + " ";
        c.tag("edit.padding");
        break;
      case 6:  // concatenation of two names
        s += w.all_names[c.pick(w.all_names.size(), "other")];
        c.tag("edit.concatenation");
        break;
      default:  // all lower / upper case
        for (auto& ch : s)
          ch = static_cast<char>(k % 2 == 0 ? std::tolower(static_cast<unsigned char>(ch))
                                            : std::toupper(static_cast<unsigned char>(ch)));
        c.tag("edit.case_fold");
    }
  }
  if (w.name_set.count(s) != 0) {
    // the edit produced a real key / name: it must resolve (not a non-entry)
    c.tag("edit.hit_real_name");
    c.check(w.g->contains(s), "C34.name.contains", "contains('" + s + "') is false for a real name");
    return;
  }
  c.nontrivial(true);
  c.check(!w.g->contains(s), "C34.non_entry.contains", "contains('" + s + "') is true for a non-entry");
  bool thrown = false;
  try {
    const auto& e = w.g->getGlossaryEntry(s);
    (void)e;
  } catch (const std::runtime_error&) {
    thrown = true;
  }
  c.check(thrown, "C34.non_entry.get", "getGlossaryEntry('" + s + "') did not throw for a non-entry");
}

VERIF_MAIN("C34_glossary")
