/*!
 * C26 - Inverse Langevin approximations invert the Langevin function.
 *
 * Grounding: docs/web/tfel-material.md "Computation of the inverse of the
 * Langevin function" (formulas of Cohen, Jedynak, Taylor expansion,
 * Bergstrom-Boyce) and include/TFEL/Material/InverseLangevinFunction.hxx.
 *
 * Oracles (all in long double, no TFEL code):
 *  - L(x) = coth x - 1/x (series near 0), L^{-1} by bisection on L;
 *  - Cohen: the documented closed form y(3-y^2)/(1-y^2);
 *  - oddness f(-y) = -f(y) (the inverse Langevin function is odd);
 *  - strictly increasing;
 *  - AndDerivative: .first is the plain value, .second is the derivative of
 *    the returned approximation: compared with a Richardson-checked central
 *    difference of the library function instantiated in long double;
 *  - accuracy: relative error on L^{-1} and |L(f(y)) - y| <= delta |y|
 *    (L concave on x>0, so x L'(x) <= L(x): a relative error delta on L^{-1}
 *    gives at most ~delta |y| on y).
 *    delta: Cohen 5.5 % (published 4.94 %), Jedynak 2.5 % (the implemented
 *    coefficients tend to (c0+c1+c2)/(1+d1'...) = 0.97814 at the pole, -2.19 %),
 *    Bergstrom-Boyce 1 %, Taylor order 19 (Kuhn-Grun / Morch): truncation bound
 *    4 y^20 / (1-(y/0.9)^2) for |y| <= 0.7 ("away from the pole").
 *
 * Non-trivial: |y| >= 0.5 (negative and positive halves are separate
 * sub-checks: the rational forms contain odd powers of y).
 *
 * Candidate 19 (DESIGN 8): JEDYNAK_2015 is implemented with the signed y in
 * the odd-power terms; see key C26.jedynak_2015.negative_half.
 */
#include "verif.hxx"
#include <utility>
#include "TFEL/Config/TFELConfig.hxx"
#include "TFEL/Material/InverseLangevinFunction.hxx"

using R = long double;
using namespace tfel::material;
using A = InverseLangevinFunctionApproximations;

namespace {

  R Lang(const R x) {
    if (std::fabs(x) < 1e-2L) {
      const R x2 = x * x;
      // x/3 - x^3/45 + 2x^5/945 - x^7/4725 + 2 x^9/93555
      return x * (1 / 3.L - x2 * (1 / 45.L - x2 * (2 / 945.L - x2 * (1 / 4725.L - x2 * 2 / 93555.L))));
    }
    return 1 / std::tanh(x) - 1 / x;
  }
  //! inverse of L on [0,1) by bisection (monotone), odd extension
  R LangInv(const R y) {
    const R ay = std::fabs(y);
    if (ay == 0) return 0;
    if (ay < 1e-4L) {
      // Taylor expansion 3y + 9/5 y^3 + 297/175 y^5 (next term 1539/875 y^7 < 1e-28 y)
      const R y2 = y * y;
      return y * (3 + y2 * (1.8L + y2 * 297 / 175));
    }
    R lo = 0, hi = 2 / (1 - ay) + 10;
    for (int i = 0; i < 200; ++i) {
      const R m = (lo + hi) / 2;
      if (Lang(m) < ay) lo = m;
      else hi = m;
    }
    const R x = (lo + hi) / 2;
    return y < 0 ? -x : x;
  }

  std::string num(const long double v) {
    char b[64];
    std::snprintf(b, sizeof b, "%.12Lg", v);
    return b;
  }

  enum Kind { COHEN, JEDYNAK, KUHN_GRUN, MORCH, BB };

  template <Kind k, typename T>
  T F(const T y) {
    if constexpr (k == COHEN) return computeApproximateInverseLangevinFunction<A::COHEN_1991>(y);
    else if constexpr (k == JEDYNAK) return computeApproximateInverseLangevinFunction<A::JEDYNAK_2015>(y);
    else if constexpr (k == KUHN_GRUN) return computeApproximateInverseLangevinFunction<A::KUHN_GRUN_1942>(y);
    else if constexpr (k == MORCH) return computeApproximateInverseLangevinFunction<A::MORCH_2022>(y);
    else return computeBergstromBoyce1998ApproximateInverseLangevinFunction(y);
  }
  template <Kind k, typename T>
  std::pair<T, T> FD(const T y) {
    if constexpr (k == COHEN) return computeApproximateInverseLangevinFunctionAndDerivative<A::COHEN_1991>(y);
    else if constexpr (k == JEDYNAK) return computeApproximateInverseLangevinFunctionAndDerivative<A::JEDYNAK_2015>(y);
    else if constexpr (k == KUHN_GRUN) return computeApproximateInverseLangevinFunctionAndDerivative<A::KUHN_GRUN_1942>(y);
    else if constexpr (k == MORCH) return computeApproximateInverseLangevinFunctionAndDerivative<A::MORCH_2022>(y);
    else return computeBergstromBoyce1998ApproximateInverseLangevinFunctionAndDerivative(y);
  }
  template <Kind k>
  const char* name() {
    if constexpr (k == COHEN) return "cohen_1991";
    else if constexpr (k == JEDYNAK) return "jedynak_2015";
    else if constexpr (k == KUHN_GRUN) return "kuhn_grun_1942";
    else if constexpr (k == MORCH) return "morch_2022";
    else return "bergstrom_boyce_1998";
  }
  constexpr R bb_c0 = 0.84136L;

  //! distance to the pole allowed for the tested type ("away from the pole")
  template <typename T>
  constexpr double poleExp() {
    return std::is_same_v<T, float> ? -4. : -8.;
  }

  /*!
   * y > 0 on a stratified grid: uniform, geometric approach to 1, geometric
   * approach to 0.  The returned value is exactly representable in T.
   */
  template <typename T>
  T genY(verif::Case& c, const bool taylorDomain) {
    const auto cls = c.integer(0, 5, "y_class");
    double y;
    if (cls <= 1) {
      c.tag("y.uniform");
      y = c.real(0., 1., "y");
    } else if (cls <= 3) {
      c.tag("y.near_pole");
      y = 1 - c.log10real(poleExp<T>(), -1, "1-y");
    } else if (cls == 4) {
      c.tag("y.near_zero");
      y = c.log10real(-12, -0.3, "y");
    } else {
      c.tag("y.mid");
      y = c.real(0.5, 0.95, "y");
    }
    if (taylorDomain) {
      // order-19 Taylor expansion: only specified away from the pole
      y = 0.7 * y;
    }
    T t = static_cast<T>(y);
    const T ymax = static_cast<T>(1 - std::pow(10., poleExp<T>()));
    if (t > ymax) t = ymax;
    if (!(t > 0)) t = std::numeric_limits<T>::min() * 1024;
    return t;
  }

  template <Kind k>
  R delta(const R y) {
    if constexpr (k == COHEN) return 0.055L;
    else if constexpr (k == JEDYNAK) return 0.025L;
    else if constexpr (k == BB) return 0.01L;
    else {
      const R ay = std::fabs(y);
      return 4 * std::pow(ay, 20) / (1 - (ay / 0.9L) * (ay / 0.9L)) + 1e-15L;
    }
  }

  //! relative rounding amplification of the evaluation of f in type T at y
  template <Kind k>
  R cond(const R y) {
    const R ay = std::fabs(y);
    if constexpr (k == COHEN) return 8 + 4 / (1 - ay * ay);
    else if constexpr (k == JEDYNAK) return 16 + 8 / (1 - ay);
    else if constexpr (k == BB) {
      if (ay < bb_c0) {
        // tan(c2 y): derivative c2 / cos^2, relative amplification bounded by 2 c2 y / sin(2 c2 y)
        return 32;
      }
      return 4 + 2 / (1 - ay);
    } else return 64;
  }

  /*!
   * properties on one half line: sgn = +1 or -1.  `strong` selects whether
   * the accuracy / oddness claims are asserted (they are the known finding on
   * the negative half of JEDYNAK_2015).
   */
  template <Kind k, typename T>
  void consistency(verif::Case& c, const int sgn) {
    constexpr bool taylor = (k == MORCH) || (k == KUHN_GRUN);
    const R u = std::numeric_limits<T>::epsilon();
    const T y = static_cast<T>(sgn) * genY<T>(c, taylor);
    const R yl = y;
    c.nontrivial(std::fabs(yl) >= 0.5L);
    const std::string K = std::string("C26.") + name<k>();
    const T f = F<k, T>(y);
    const R fl = F<k, R>(yl);  // same formula evaluated in long double
    const R tiny = static_cast<R>(std::numeric_limits<T>::min()) * 64;
    // 1. evaluation in T agrees with the evaluation of the same template in long double
    c.close(f, fl, 16 * u * cond<k>(yl) * std::fabs(fl) + tiny, K + ".rounding",
            "f<T>(y) vs f<long double>(y)");
    // 2. AndDerivative: value
    const auto fd = FD<k, T>(y);
    c.close(fd.first, fl, 16 * u * cond<k>(yl) * std::fabs(fl) + tiny, K + ".and_derivative.value",
            "AndDerivative(y).first vs plain value");
    // 3. AndDerivative: derivative of the returned approximation.
    //    central differences of the long double instantiation, Richardson-checked
    const R dist_pole = 1 - std::fabs(yl);
    // long double evaluation near the pole is itself amplified by 1/(1-|y|):
    // FD noise ~ 1e-19/(1-|y|)/(h/(1-|y|)) relative, truncation (h/(1-|y|))^2 before Richardson
    R h = 1e-4L * std::min<R>(dist_pole, std::max<R>(std::fabs(yl), 1e-3L));
    bool fd_ok = true;
    if constexpr (k == BB) {
      // do not straddle the switch point
      if (std::fabs(std::fabs(yl) - bb_c0) < 4 * h) fd_ok = false;
    }
    if (fd_ok) {
      const R d1 = (F<k, R>(yl + h) - F<k, R>(yl - h)) / (2 * h);
      const R d2 = (F<k, R>(yl + h / 2) - F<k, R>(yl - h / 2)) / h;
      const R dr = (4 * d2 - d1) / 3;
      const R S = std::fabs(dr);
      // derivative conditioning in T: one more power of the pole distance
      // rounding of the derivative formula in T: the squared inverse
      // denominator doubles the 1/(1-|y|) amplification of the value
      const R tol = std::max<R>(1e-6L * S, 50 * std::fabs(d1 - d2)) +
                    32 * u * (8 + 4 / dist_pole) * S;
      c.close(fd.second, dr, tol, K + ".and_derivative.derivative",
              "AndDerivative(y).second vs finite difference of the returned value");
      c.check(fd.second > 0, K + ".and_derivative.derivative", "derivative not positive");
    }
    // 4. increasing: second point on the same half line
    {
      const T y2 = static_cast<T>(sgn) * genY<T>(c, taylor);
      const T a = std::min(y, y2), b = std::max(y, y2);
      const T fa = F<k, T>(a), fb = F<k, T>(b);
      c.check(fa <= fb, K + ".monotone", "f(a) > f(b) for a <= b: a=" + num(a) +
                                             " b=" + num(b));
      // strict when the two points are separated by more than the rounding noise of f
      const R sep = static_cast<R>(b) - static_cast<R>(a);
      if (sep > 64 * u * cond<k>(b) * std::max<R>(std::fabs(static_cast<R>(b)), std::fabs(static_cast<R>(a)))) {
        c.check(fa < fb, K + ".monotone", "f(a) >= f(b) for a < b: a=" + num(a) +
                                              " b=" + num(b));
      }
    }
  }

  template <Kind k, typename T>
  void inverse(verif::Case& c, const int sgn, const std::string& keysuffix) {
    constexpr bool taylor = (k == MORCH) || (k == KUHN_GRUN);
    const T y = static_cast<T>(sgn) * genY<T>(c, taylor);
    const R yl = y;
    c.nontrivial(std::fabs(yl) >= 0.5L);
    const std::string K = std::string("C26.") + name<k>() + keysuffix;
    const R u = std::numeric_limits<T>::epsilon();
    const T f = F<k, T>(y);
    // oddness: exact (every implemented formula is y times an even function,
    // or odd by construction): f(-y) == -f(y)
    const T fm = F<k, T>(-y);
    c.check(fm == -f, K + (keysuffix.empty() ? ".odd" : ""),
            "f(-y) != -f(y): y=" + num(y) + " f(y)=" +
                num(f) + " f(-y)=" + num(fm));
    // accuracy in the L^{-1} domain (the published measure)
    const R x = LangInv(yl);
    const R d = delta<k>(yl);
    const R round = 8 * u * cond<k>(yl);
    c.close(static_cast<R>(f) / x, 1, d + round, K + (keysuffix.empty() ? ".accuracy" : ""),
            "f(y)/L^-1(y) at y=" + num(y));
    // accuracy in the y domain: L(f(y)) ~ y
    const R back = Lang(static_cast<R>(f));
    // near the pole L(x) ~ 1 - 1/x: rounding of f in T moves L by u*(1-|y|)*cond
    c.close(back, yl, (1.05L * d + round) * std::fabs(yl) + 1e-18L, K + (keysuffix.empty() ? ".accuracy" : ""),
            "L(f(y)) vs y at y=" + num(y));
    if constexpr (k == COHEN) {
      // documented closed form
      const R ref = yl * (3 - yl * yl) / (1 - yl * yl);
      c.close(f, ref, 16 * u * cond<k>(yl) * std::fabs(ref), K + ".formula", "y(3-y^2)/(1-y^2)");
    }
    if constexpr (k == KUHN_GRUN) {
      // documented: KUHN_GRUN_1942 is equivalent to MORCH_2022
      c.check(f == F<MORCH, T>(y), K + ".equivalent_to_morch", "KUHN_GRUN_1942 != MORCH_2022");
    }
    if constexpr (k == BB) {
      // documented piecewise definition
      const R c1 = 1.31446L, c2 = 1.58986L, c3 = 0.91209L;
      const R ay = std::fabs(yl);
      if (std::fabs(ay - bb_c0) > 1e-6L) {
        const R ref = ay < bb_c0 ? c1 * std::tan(c2 * yl) + c3 * yl : 1 / ((yl > 0 ? 1 : -1) - yl);
        c.close(f, ref, 16 * u * cond<k>(yl) * std::fabs(ref) + 1e-30L, K + ".formula", "documented piecewise formula");
      }
    }
  }

}  // namespace

// ---- consistency (rounding, AndDerivative, monotone) on both half lines
#define C26_CONS(NAME, KIND)                                                  \
  VERIF_SUB(NAME##_cons_pos_d) { consistency<KIND, double>(c, 1); }          \
  VERIF_SUB(NAME##_cons_neg_d) { consistency<KIND, double>(c, -1); }         \
  VERIF_SUB_W(NAME##_cons_pos_f, 0.5) { consistency<KIND, float>(c, 1); }    \
  VERIF_SUB_W(NAME##_cons_neg_f, 0.5) { consistency<KIND, float>(c, -1); }
C26_CONS(cohen, COHEN)
C26_CONS(jedynak, JEDYNAK)
C26_CONS(kuhn_grun, KUHN_GRUN)
C26_CONS(morch, MORCH)
C26_CONS(bb, BB)

// ---- oddness + accuracy (+ documented formula); y > 0 drawn, -y evaluated too
#define C26_INV(NAME, KIND)                                                   \
  VERIF_SUB(NAME##_inverse_d) { inverse<KIND, double>(c, 1, ""); }           \
  VERIF_SUB_W(NAME##_inverse_f, 0.5) { inverse<KIND, float>(c, 1, ""); }
C26_INV(cohen, COHEN)
C26_INV(kuhn_grun, KUHN_GRUN)
C26_INV(morch, MORCH)
C26_INV(bb, BB)

/*
 * JEDYNAK_2015.  The positive half line is checked like the others but the
 * oddness claim is evaluated in its own sub-check with its own key, so that
 * the recorded finding (negative half line) does not hide a regression of
 * the positive half line.
 */
namespace {
  template <typename T>
  void jedynakPositive(verif::Case& c) {
    const T y = genY<T>(c, false);
    const R yl = y;
    c.nontrivial(yl >= 0.5L);
    const R u = std::numeric_limits<T>::epsilon();
    const T f = F<JEDYNAK, T>(y);
    const R x = LangInv(yl);
    const R d = delta<JEDYNAK>(yl);
    const R round = 8 * u * cond<JEDYNAK>(yl);
    c.close(static_cast<R>(f) / x, 1, d + round, "C26.jedynak_2015.accuracy", "f(y)/L^-1(y), y>0");
    c.close(Lang(static_cast<R>(f)), yl, (1.05L * d + round) * yl + 1e-18L, "C26.jedynak_2015.accuracy",
            "L(f(y)) vs y, y>0");
    // documented rational form with the header's constants
    const R c0 = 2.99942L, c1 = -2.57332L, c2 = 0.654805L, d1 = -0.894936L, d2 = -0.105064L;
    const R ref = yl * (c0 + c1 * yl + c2 * yl * yl) / (1 + d1 * yl + d2 * yl * yl);
    c.close(f, ref, 16 * u * cond<JEDYNAK>(yl) * std::fabs(ref), "C26.jedynak_2015.formula",
            "y (c0+c1 y+c2 y^2)/(1+d1 y+d2 y^2), y>0");
  }
  template <typename T>
  void jedynakNegative(verif::Case& c) {
    // same claims as inverse<> evaluated at -y, key = the recorded class
    inverse<JEDYNAK, T>(c, -1, ".negative_half");
  }
}  // namespace
VERIF_SUB(jedynak_inverse_pos_d) { jedynakPositive<double>(c); }
VERIF_SUB_W(jedynak_inverse_pos_f, 0.5) { jedynakPositive<float>(c); }
VERIF_SUB_W(jedynak_inverse_neg_d, 0.25) { jedynakNegative<double>(c); }
VERIF_SUB_W(jedynak_inverse_neg_f, 0.25) { jedynakNegative<float>(c); }

// Bergstrom-Boyce: continuity at the switch point (6.6e-4 relative by construction of the constants)
VERIF_SUB_W(bb_switch, 0.2) {
  const double e = c.log10real(-12, -6, "eps");
  const int sgn = c.boolean("negative") ? -1 : 1;
  c.nontrivial(true);
  const double yl = sgn * (static_cast<double>(bb_c0) - e), yr = sgn * (static_cast<double>(bb_c0) + e);
  const double fl = F<BB, double>(yl), fr = F<BB, double>(yr);
  c.close(fl / fr, 1, 1e-3, "C26.bergstrom_boyce_1998.switch_continuity", "f(c0-)/f(c0+)");
  c.check(std::fabs(fl) < std::fabs(fr), "C26.bergstrom_boyce_1998.monotone", "decreasing across the switch point");
}

VERIF_MAIN("C26_langevin")
