/*!
 * C30 - ProcessManager::execute reports the child's exit status faithfully
 * whatever the order of child exit, SIGCHLD handler and the waitpid of wait().
 *
 * One case = 1..16 concurrent managers (one thread each, a ProcessManager on
 * the thread's stack, `execute(directory, command, "", output_file, env)`
 * exactly as tfel-check's TestLauncher::execute does) + for each manager a
 * command with a status known by construction (this executable re-executed
 * with `--child exit K | kill S | sleepexit MS K | out N K`) and an *order
 * script* enforced through the THELFER_TFEL_VERIF hook points:
 *
 *   natural        no intervention
 *   handler_first  at pm.wait.before_waitpid the waiter is held until the child
 *                  has exited and a SIGCHLD handler has reaped it (event based:
 *                  waitid(WNOWAIT) says ECHILD), then calls waitpid
 *   waiter_first   handlers are held at pm.sigchld.entry, the waiter is held
 *                  until the child is a zombie (waitid(WNOWAIT) peek, which also
 *                  cross-checks the true status), then reaps it itself
 *   jitter         0.06/1.5 ms sleep at pm.wait.before_waitpid
 *
 * + which threads may receive SIGCHLD (all / main only / a dedicated thread /
 * the workers only / nobody until the end) + a byte pattern written over the
 * unused part of the thread's stack before execute() is called (what an
 * uninitialised local then reads).
 *
 * Sub-check `interrupted` (schedule class "interrupted waiter"): a victim manager whose child
 * lives until the harness releases it (`--child waitexit FILE K | waitkill FILE S`), run in
 * the only thread that takes SIGCHLD, + k in 2..5 helper managers whose children are
 * released one after the other while the victim is blocked in the waitpid of
 * ProcessManager::wait: that waitpid is interrupted (EINTR) k times while the victim's child
 * is still running.  Sequencing is event based: next helper only when the previous helper's
 * execute() is over, all SIGCHLD handlers have returned (pm.sigchld.exit count) and the
 * victim is back in wait4 (pm.wait.before_waitpid reached + /proc/self/task/<tid>/syscall).
 * Managers are built before and destroyed after the threads (the known use-after-free class
 * is excluded by construction).  Non-trivial: >= 2 interruptions achieved.
 *
 * Oracle (only what the statement says)
 *   C30.success_iff_zero.<order>   execute() returns normally <=> the child exited with 0
 *   C30.signal_reported.<order>    child killed by a signal => the error says so ("signal")
 *   C30.liveness.deadlock          every thread of the process sleeps for ever in a futex wait
 *                                  (state based; the 40 s time budget alone is inconclusive)
 *   C30.crash                      the process running the managers died
 *   C30.asan                       AddressSanitizer report (unit pm_asan: same harness, the
 *                                  sources of libTFELSystem compiled in with -fsanitize=address)
 *   crash/asan/deadlock keys get the suffix .concurrent_managers_destroyed_after_execute
 *   when >= 2 managers are each destroyed right after their execute() (tfel-check's pattern)
 * Observations that are counted but are not verdicts: wrong exit value in the
 * message, exit reported as signal death.
 *
 * Non-trivial: the order script was achieved and it is handler_first (the
 * handler ran before waitpid: the ordering the property is about) or
 * waiter_first with a zombie present; evidence lists the shares.
 */
#include "verif.hxx"
#include "forkcase.hxx"
#include <atomic>
#include <dlfcn.h>
#include <map>
#include <pthread.h>
#include <memory>
#include <sys/resource.h>
#include <sys/syscall.h>
#include <thread>
#include "TFEL/System/ProcessManager.hxx"
#include "TFEL/System/SystemError.hxx"
#include "TFEL/System/VerifHooks.hxx"

#ifndef THELFER_TFEL_VERIF
#error "this harness must be compiled with -DTHELFER_TFEL_VERIF"
#endif

#ifdef C30_ASAN
extern "C" const char* __asan_default_options() { return "detect_leaks=0:abort_on_error=0:exitcode=67"; }
#endif

namespace {

  // ------------------------------------------------------------ child side
  int childMain(int argc, char** argv) {
    // --child exit K | kill S | sleepexit MS K | out N K
    const std::string k = argc > 2 ? argv[2] : "";
    const auto arg = [&](int i) { return argc > i ? std::atoi(argv[i]) : 0; };
    if (k == "exit") return arg(3);
    if (k == "sleepexit") {
      timespec ts{arg(3) / 1000, (arg(3) % 1000) * 1000000L};
      ::nanosleep(&ts, nullptr);
      return arg(4);
    }
    if (k == "out") {
      std::string s(static_cast<std::size_t>(arg(3)), 'x');
      verif::fdWrite(STDOUT_FILENO, s);
      verif::fdWrite(STDERR_FILENO, "err\n");
      return arg(4);
    }
    if (k == "waitexit" || k == "waitkill") {
      // --child waitexit FILE K | waitkill FILE S: live until FILE exists (event
      // based life time, released by the harness), 120 s at most
      const char* const f = argc > 3 ? argv[3] : "";
      for (int i = 0; i != 600000 && ::access(f, F_OK) != 0; ++i) {
        timespec ts{0, 200000};
        ::nanosleep(&ts, nullptr);
      }
      if (::access(f, F_OK) != 0) return 98;
      if (k == "waitexit") return arg(4);
      rlimit rl{0, 0};
      ::setrlimit(RLIMIT_CORE, &rl);
      ::signal(arg(4), SIG_DFL);
      sigset_t s;
      sigemptyset(&s);
      sigaddset(&s, arg(4));
      ::sigprocmask(SIG_UNBLOCK, &s, nullptr);
      ::kill(::getpid(), arg(4));
      for (;;) ::pause();
    }
    if (k == "kill") {  // (not named "signal": the command text is part of the error message)
      rlimit rl{0, 0};
      ::setrlimit(RLIMIT_CORE, &rl);
      ::signal(arg(3), SIG_DFL);
      sigset_t s;
      sigemptyset(&s);
      sigaddset(&s, arg(3));
      ::sigprocmask(SIG_UNBLOCK, &s, nullptr);
      ::kill(::getpid(), arg(3));
      for (;;) ::pause();
    }
    return 99;
  }

  // ------------------------------------------------------------ script
  enum Order { NATURAL, HANDLER_FIRST, WAITER_FIRST, JITTER };
  const char* const orderNames[] = {"natural", "handler_first", "waiter_first", "jitter"};
  enum Policy { ALL, MAIN_ONLY, DEDICATED, WORKERS_ONLY, NOBODY };

  struct Cmd {
    int kind = 0;  // 0 exit, 1 signal, 2 sleepexit, 3 out, 4 waitexit (value = K), 5 waitkill (value = S)
    std::string file;  // kinds 4, 5: the file the child waits for
    int value = 0, aux = 0;
    int order = NATURAL;
    int jitter = 0;
    int poison = -1;  // -1: leave the stack alone
    bool toFile = false;
    bool expectExit() const { return kind != 1 && kind != 5; }
    //! exit code by construction (expectExit() only)
    int exitCode() const { return (kind == 0 || kind == 4) ? value : aux; }
  };
  struct Script {
    int policy = ALL;
    //! true: every manager lives until all execute() calls are over; false: a
    //! manager is destroyed as soon as its execute() returns (tfel-check)
    bool barrier = false;
    //! managers are constructed in index order and every sigChildHandler is
    //! held at its entry until one more manager has been destroyed
    bool holdUntilDestroyed = false;
    /*!
     * "interrupted waiter" class: cmds[0] is the victim (its child lives until
     * the harness releases it, its thread is the only one that takes SIGCHLD),
     * cmds[1..] are helpers whose children are released one after the other
     * while the victim is blocked in the waitpid of ProcessManager::wait: the
     * victim's waitpid is interrupted (EINTR) once per helper.  All managers
     * are built before and destroyed after the threads.
     */
    bool victim = false;
    std::vector<Cmd> cmds;
  };

  // ------------------------------------------------------------ fork interposition
  thread_local pid_t lastChild = -1;
  //! result of the last blocking waitpid (options == 0) of this thread
  thread_local pid_t lastWaitRet = 0;
  thread_local int lastWaitErrno = 0;

  // ------------------------------------------------------------ hook
  struct Ctx {
    Cmd cmd;
    bool achieved = false;     // the requested order was obtained
    bool truthChecked = false, truthOk = true;
    bool holding = false;
    long entriesBefore = 0;
    int waitErrno = 0;  // errno left by the waitpid of ProcessManager::wait (0: it returned a status)
    sigset_t saved;
    std::string truth;
  };
  thread_local Ctx* tctx = nullptr;
  thread_local int victimIndex = -1;  // >= 0: thread of manager i of an "interrupted waiter" script
  std::atomic<bool> atWait[8];
  std::atomic<bool> victimAtWait{false}, victimDone{false};
  std::atomic<long> victimTid{0};
  std::atomic<int> holdHandlers{0};
  std::atomic<int> constructed{0}, executed{0}, destroyed{0};
  int nManagers = 0;
  bool holdUntilDestroyedFlag = false;
  std::atomic<long> handlerEntries{0}, handlerExits{0};

  void sleepNs(const long ns) {
    timespec ts{0, ns};
    ::nanosleep(&ts, nullptr);
  }

  //! 1: zombie present (info filled), 0: still running, -1: no such child (reaped)
  int peek(const pid_t pid, siginfo_t& info) {
    std::memset(&info, 0, sizeof info);
    const int r = ::waitid(P_PID, static_cast<id_t>(pid), &info, WEXITED | WNOHANG | WNOWAIT);
    if (r == -1) return errno == ECHILD ? -1 : 0;
    return info.si_pid == pid ? 1 : 0;
  }

  void checkTruth(Ctx& ctx, const siginfo_t& info) {
    ctx.truthChecked = true;
    if (ctx.cmd.expectExit()) {
      const int k = ctx.cmd.exitCode();
      ctx.truthOk = info.si_code == CLD_EXITED && info.si_status == k;
    } else {
      ctx.truthOk = (info.si_code == CLD_KILLED || info.si_code == CLD_DUMPED) && info.si_status == ctx.cmd.value;
    }
    if (!ctx.truthOk)
      ctx.truth = "si_code=" + std::to_string(info.si_code) + " si_status=" + std::to_string(info.si_status);
  }

  extern "C" void c30Hook(const char* name) {
    // the two handler points are reached inside a signal handler: only
    // atomics and nanosleep there
    if (std::strcmp(name, "pm.sigchld.entry") == 0) {
      handlerEntries.fetch_add(1);
      for (int k = 0; k != 3000 && holdHandlers.load() > 0; ++k) sleepNs(100000);
      if (holdUntilDestroyedFlag) {
        const int seen = destroyed.load();
        for (int k = 0; k != 3000 && destroyed.load() == seen && seen < nManagers; ++k) sleepNs(100000);
      }
      return;
    }
    if (std::strcmp(name, "pm.sigchld.exit") == 0) {
      handlerExits.fetch_add(1);
      return;
    }
    if (victimIndex >= 0) {
      if (std::strcmp(name, "pm.wait.before_waitpid") == 0) {
        atWait[victimIndex].store(true);
        if (victimIndex == 0) victimAtWait.store(true);
      }
      return;
    }
    Ctx* const ctx = tctx;
    if (ctx == nullptr) return;
    const pid_t pid = lastChild;
    if (std::strcmp(name, "pm.wait.before_waitpid") == 0) {
      siginfo_t info;
      ctx->entriesBefore = handlerEntries.load();
      if (ctx->cmd.order == HANDLER_FIRST) {
        // hold the waiter until a handler has reaped the child (3 s at most)
        for (int k = 0; k != 30000; ++k) {
          const int r = peek(pid, info);
          if (r == 1 && !ctx->truthChecked) checkTruth(*ctx, info);
          if (r == -1) {
            ctx->achieved = true;
            break;
          }
          sleepNs(100000);
        }
      } else if (ctx->cmd.order == WAITER_FIRST) {
        // nobody else may reap: handlers are held at their entry, and this
        // thread does not take SIGCHLD while it waits for the zombie
        holdHandlers.fetch_add(1);
        ctx->holding = true;
        sigset_t s;
        sigemptyset(&s);
        sigaddset(&s, SIGCHLD);
        ::pthread_sigmask(SIG_BLOCK, &s, &ctx->saved);
        for (int k = 0; k != 30000; ++k) {
          const int r = peek(pid, info);
          if (r == 1) {
            checkTruth(*ctx, info);
            ctx->achieved = true;
            break;
          }
          if (r == -1) break;
          sleepNs(100000);
        }
      } else if (ctx->cmd.order == JITTER) {
        sleepNs(ctx->cmd.jitter == 0 ? 60000 : 1500000);
        ctx->achieved = true;
      } else {
        ctx->achieved = true;
      }
      return;
    }
    if (std::strcmp(name, "pm.wait.after_waitpid") == 0) {
      ctx->waitErrno = lastWaitRet == -1 ? lastWaitErrno : 0;  // see the waitpid interposer
      if (holdUntilDestroyedFlag) {
        // let a SIGCHLD handler start (it is then held at the entry of the
        // first manager's sigChildHandler) before this manager goes on and is destroyed
        for (int k = 0; k != 3000 && handlerEntries.load() == ctx->entriesBefore; ++k) sleepNs(100000);
      }
      if (ctx->holding) {
        ctx->holding = false;
        holdHandlers.fetch_sub(1);
        ::pthread_sigmask(SIG_SETMASK, &ctx->saved, nullptr);
      }
    }
  }

  // ------------------------------------------------------------ execution
  std::string selfExe;

  __attribute__((noinline)) void poisonStack(const int byte) {
    volatile char buf[48 * 1024];
    for (std::size_t i = 0; i != sizeof buf; ++i) buf[i] = static_cast<char>(byte);
    asm volatile("" ::: "memory");
  }

  struct Outcome {
    bool returned = false;  // execute returned normally
    std::string what;
    bool achieved = false, truthChecked = false, truthOk = true;
    int waitErrno = 0;
    bool victim = false;
    std::string truth;
  };

  std::string commandOf(const Cmd& c) {
    std::string s = selfExe + " --child ";
    switch (c.kind) {
      case 0:
        return s + "exit " + std::to_string(c.value);
      case 1:
        return s + "kill " + std::to_string(c.value);
      case 4:
        return s + "waitexit " + c.file + " " + std::to_string(c.value);
      case 5:
        return s + "waitkill " + c.file + " " + std::to_string(c.value);
      case 2:
        return s + "sleepexit " + std::to_string(c.value) + " " + std::to_string(c.aux);
      default:
        return s + "out " + std::to_string(c.value) + " " + std::to_string(c.aux);
    }
  }

  __attribute__((noinline)) void launch(const Script& s, const int i, const Cmd& cmd, const std::string& out,
                                        Outcome& o) {
    // as TestLauncher::execute
    try {
      if (s.holdUntilDestroyed) {
        for (int k = 0; k != 100000 && constructed.load() != i; ++k) sleepNs(100000);
      }
      tfel::system::ProcessManager manager;
      constructed.fetch_add(1);
      try {
        manager.execute("", commandOf(cmd), "", out, {{"C30_ENV", "1"}});
        o.returned = true;
      } catch (std::exception& e) {
        o.what = e.what();
      }
      executed.fetch_add(1);
      if (s.barrier) {
        while (executed.load() < nManagers) sleepNs(200000);
      }
    } catch (std::exception& e) {
      o.what = e.what();
    } catch (...) {
      o.what = "unknown exception";
    }
    destroyed.fetch_add(1);
  }

  void worker(const Script& s, const int i, const std::string& dir, Outcome& o) {
    sigset_t sc;
    sigemptyset(&sc);
    sigaddset(&sc, SIGCHLD);
    ::pthread_sigmask((s.policy == ALL || s.policy == WORKERS_ONLY) ? SIG_UNBLOCK : SIG_BLOCK, &sc, nullptr);
    Ctx ctx;
    ctx.cmd = s.cmds[static_cast<std::size_t>(i)];
    tctx = &ctx;
    const std::string out = ctx.cmd.toFile ? dir + "/out" + std::to_string(i) + ".txt" : std::string("/dev/null");
    if (ctx.cmd.poison >= 0) poisonStack(ctx.cmd.poison);
    launch(s, i, ctx.cmd, out, o);
    tctx = nullptr;
    if (ctx.holding) holdHandlers.fetch_sub(1);
    o.achieved = ctx.achieved;
    o.waitErrno = ctx.waitErrno;
    o.truthChecked = ctx.truthChecked;
    o.truthOk = ctx.truthOk;
    o.truth = ctx.truth;
  }

  bool victimScript = false;

  std::string orderKey(const Cmd& c, const Outcome& o) {
    if (victimScript) return o.victim ? "interrupted_waiter" : "helper_of_interrupted_waiter";
    // observed class, whatever the order asked for: the waitpid of
    // ProcessManager::wait did not return a status because a SIGCHLD handler
    // (any thread) had reaped the child first
    if (o.waitErrno == ECHILD || o.waitErrno == EINTR) return "handler_reaped_before_waitpid";
    if (c.order == HANDLER_FIRST || c.order == WAITER_FIRST)
      return o.achieved ? orderNames[c.order] : std::string(orderNames[c.order]) + "_not_achieved";
    return orderNames[c.order];
  }

  void verdict(const Script& s, const std::vector<Outcome>& outs, const int fd, const std::string& extra);
  void runVictimCase(const Script& s, const int fd);

  void runCase(const Script& s, const int fd) {
    if (s.victim) {
      runVictimCase(s, fd);
      return;
    }
    nManagers = static_cast<int>(s.cmds.size());
    holdUntilDestroyedFlag = s.holdUntilDestroyed;
    tfel_verif_point = &c30Hook;
    char tmpl[] = "c30.XXXXXX";
    std::string dir = ".";
    bool madeDir = false;
    for (const auto& c : s.cmds) {
      if (c.toFile && !madeDir) {
        if (::mkdtemp(tmpl) != nullptr) {
          dir = tmpl;
          madeDir = true;
        }
      }
    }
    sigset_t sc;
    sigemptyset(&sc);
    sigaddset(&sc, SIGCHLD);
    ::pthread_sigmask((s.policy == ALL || s.policy == MAIN_ONLY) ? SIG_UNBLOCK : SIG_BLOCK, &sc, nullptr);
    std::atomic<bool> stopDedicated{false};
    std::thread dedicated;
    if (s.policy == DEDICATED) {
      dedicated = std::thread([&stopDedicated] {
        sigset_t s2;
        sigemptyset(&s2);
        sigaddset(&s2, SIGCHLD);
        ::pthread_sigmask(SIG_UNBLOCK, &s2, nullptr);
        while (!stopDedicated.load()) sleepNs(200000);
      });
    }
    const auto n = s.cmds.size();
    std::vector<Outcome> outs(n);
    std::vector<std::thread> ths;
    for (std::size_t i = 0; i != n; ++i) {
      ths.emplace_back([&s, i, &dir, &outs] { worker(s, static_cast<int>(i), dir, outs[i]); });
    }
    for (auto& t : ths) t.join();
    verif::fdWrite(fd, "joined\n");
    if (s.policy == DEDICATED) {
      stopDedicated.store(true);
      dedicated.join();
    }
    tfel_verif_point = nullptr;
    if (madeDir) {
      for (std::size_t i = 0; i != n; ++i) ::unlink((dir + "/out" + std::to_string(i) + ".txt").c_str());
      ::rmdir(dir.c_str());
    }
    verdict(s, outs, fd, "");
  }

  void verdict(const Script& s, const std::vector<Outcome>& outs, const int fd, const std::string& extra) {
    const auto n = s.cmds.size();
    std::string key, msg, stats;
    int nAch[4] = {0, 0, 0, 0};
    int misValue = 0, misSignal = 0;
    for (std::size_t i = 0; i != n; ++i) {
      const auto& c = s.cmds[i];
      const auto& o = outs[i];
      const auto ok = orderKey(c, o);
      if (o.achieved) ++nAch[c.order];
      const bool zero = c.expectExit() && c.exitCode() == 0;
      const std::string id = "manager " + std::to_string(i) + " (" + commandOf(c).substr(selfExe.size() + 9) + ", order " +
                             ok + "): ";
      if (o.truthChecked && !o.truthOk && key.empty()) {
        key = "C30.harness.truth";
        msg = id + "the child did not die as constructed: " + o.truth;
      }
      if (o.returned != zero && key.empty()) {
        key = "C30.success_iff_zero." + ok;
        msg = id + (o.returned ? "execute() returned normally although the child did not exit with 0"
                               : "execute() threw although the child exited with 0: " + o.what);
      }
      if (!c.expectExit() && !o.returned && o.what.find("signal") == std::string::npos && key.empty()) {
        key = "C30.signal_reported." + ok;
        msg = id + "child killed by signal " + std::to_string(c.value) + " but the error is: " + o.what;
      }
      if (c.expectExit() && !zero && !o.returned) {
        const int k = c.exitCode();
        if (o.what.find("signal") != std::string::npos) {
          ++misSignal;
        } else if (o.what.find("exited abnormally with value " + std::to_string(k)) == std::string::npos ||
                   o.what.find("exited abnormally with value " + std::to_string(k) + "0") != std::string::npos) {
          ++misValue;
        }
      }
    }
    stats = "stats";
    for (int k = 0; k != 4; ++k) stats += std::string(" ") + orderNames[k] + "=" + std::to_string(nAch[k]);
    stats += " handler_entries=" + std::to_string(handlerEntries.load()) +
             " misreport_value=" + std::to_string(misValue) + " misreport_exit_as_signal=" + std::to_string(misSignal) + extra + "\n";
    for (auto& ch : msg)
      if (ch == '\n') ch = ' ';
    verif::fdWrite(fd, stats + (key.empty() ? std::string("PASS\n") : "FAIL " + key + " " + msg + "\n"));
  }

  //! true when thread `tid` of this process is inside the wait4 system call
  bool inWait4(const long tid) {
    char path[64], buf[64];
    std::snprintf(path, sizeof path, "/proc/self/task/%ld/syscall", tid);
    const int f = ::open(path, O_RDONLY | O_CLOEXEC);
    if (f == -1) return false;
    const auto n = ::read(f, buf, sizeof buf - 1);
    ::close(f);
    if (n <= 0) return false;
    buf[n] = 0;
    return std::strncmp(buf, "61 ", 3) == 0;
  }

  void runVictimCase(const Script& s0, const int fd) {
    Script s = s0;
    victimScript = true;
    nManagers = static_cast<int>(s.cmds.size());
    tfel_verif_point = &c30Hook;
    char tmpl[] = "c30v.XXXXXX";
    if (::mkdtemp(tmpl) == nullptr) {
      verif::fdWrite(fd, "SEQUENCING mkdtemp failed\n");
      return;
    }
    const std::string dir = tmpl;
    const auto n = s.cmds.size();
    for (std::size_t i = 0; i != n; ++i) s.cmds[i].file = dir + "/go" + std::to_string(i);
    // nobody but the victim's thread takes SIGCHLD
    sigset_t sc;
    sigemptyset(&sc);
    sigaddset(&sc, SIGCHLD);
    ::pthread_sigmask(SIG_BLOCK, &sc, nullptr);
    std::vector<Outcome> outs(n);
    std::atomic<int> finished{0};
    std::string problem;
    long interruptions = 0;
    {
      // the managers outlive the threads: the use-after-free class of
      // C30.*.concurrent_managers_destroyed_after_execute is out of this script
      std::vector<std::unique_ptr<tfel::system::ProcessManager>> managers;
      for (std::size_t i = 0; i != n; ++i) managers.push_back(std::make_unique<tfel::system::ProcessManager>());
      // every wait below is event based; the bounds (20 s) only make a case
      // inconclusive ("SEQUENCING ...")
      const auto until = [](auto&& cond) {
        for (int k = 0; k != 100000; ++k) {
          if (cond()) return true;
          sleepNs(200000);
        }
        return false;
      };
      std::vector<std::thread> ths;
      for (std::size_t i = 0; i != n; ++i) {
        // one process creation at a time.  (Concurrent createProcess calls leak
        // the write end of each other's exec-notification pipe into the
        // siblings' children: the creating thread then stays in read() until
        // those children exit.  Here the children live until released, so
        // concurrent creations would dead-lock the *script*; with ordinary
        // commands it only delays createProcess and does not concern C30.)
        if (i != 0 && !until([&] { return atWait[i - 1].load() || finished.load() >= static_cast<int>(i); })) {
          problem = "manager " + std::to_string(i - 1) + " never reached waitpid";
        }
        ths.emplace_back([&, i] {
          sigset_t s2;
          sigemptyset(&s2);
          sigaddset(&s2, SIGCHLD);
          ::pthread_sigmask(i == 0 ? SIG_UNBLOCK : SIG_BLOCK, &s2, nullptr);
          victimIndex = static_cast<int>(i);
          if (i == 0) victimTid.store(::syscall(SYS_gettid));
          auto& o = outs[i];
          o.victim = i == 0;
          o.achieved = true;
          if (s.cmds[i].poison >= 0) poisonStack(s.cmds[i].poison);
          try {
            managers[i]->execute("", commandOf(s.cmds[i]), "", "/dev/null", {{"C30_ENV", "1"}});
            o.returned = true;
          } catch (std::exception& e) {
            o.what = e.what();
          }
          o.waitErrno = lastWaitRet == -1 ? lastWaitErrno : 0;
          if (i == 0) victimDone.store(true);
          finished.fetch_add(1);
        });
      }
      if (problem.empty() && !until([&] { return atWait[n - 1].load() || finished.load() >= static_cast<int>(n); })) {
        problem = "the last manager never reached waitpid";
      }
      const auto release = [](const std::string& f) {
        const int h = ::open(f.c_str(), O_CREAT | O_WRONLY | O_CLOEXEC, 0644);
        if (h != -1) ::close(h);
      };
      const auto victimWaiting = [] {
        return victimDone.load() || (victimAtWait.load() && inWait4(victimTid.load()));
      };
      if (problem.empty() && !until(victimWaiting)) problem = "the victim never reached waitpid";
      for (std::size_t i = 1; i != n && problem.empty(); ++i) {
        // one helper at a time: its child exits, the SIGCHLD goes to the
        // victim's thread (EINTR), every manager's handler runs there; go on
        // when the helper's execute() is over, the handlers have returned and
        // the victim is back in waitpid (or has wrongly left wait())
        const long exits = handlerExits.load();
        const int fin = finished.load();
        release(s.cmds[i].file);
        if (!until([&] { return finished.load() > fin || victimDone.load(); })) {
          problem = "helper " + std::to_string(i) + " did not finish";
          break;
        }
        if (!until([&] { return victimDone.load() || handlerExits.load() >= exits + static_cast<long>(n); })) {
          problem = "no SIGCHLD handler ran for helper " + std::to_string(i);
          break;
        }
        if (!victimDone.load()) ++interruptions;
        if (!until(victimWaiting)) problem = "the victim did not go back to waitpid";
      }
      for (std::size_t i = 0; i != n; ++i) release(s.cmds[i].file);
      for (auto& t : ths) t.join();
      verif::fdWrite(fd, "joined\n");
    }
    tfel_verif_point = nullptr;
    for (std::size_t i = 0; i != n; ++i) ::unlink(s.cmds[i].file.c_str());
    ::rmdir(dir.c_str());
    if (!problem.empty()) {
      verif::fdWrite(fd, "SEQUENCING " + problem + "\n");
      return;
    }
    verdict(s, outs, fd, " interruptions=" + std::to_string(interruptions));
  }

  std::map<std::string, int> failuresSeen, shrinkExecutions;

  void executeOnce(verif::Case& c, const Script& s) {
    // 40 s is a time budget (inconclusive when hit); a dead-lock is recognised
    // from the state of the threads (forkcase.hxx), not from the clock
    const auto o = verif::runForked([&s](const int fd) { runCase(s, fd); }, 40., true);
    const auto tail = [&o] {
      std::string t = o.text.size() > 600 ? o.text.substr(o.text.size() - 600) : o.text;
      for (auto& ch : t)
        if (ch == '\n') ch = '|';
      return t;
    };
    if (std::getenv("VERIF_DUMP_CHILD") != nullptr) std::cerr << o.text << std::endl;
    if (o.how == verif::ForkOutcome::FORK_FAILED) c.discard();
    if (o.how == verif::ForkOutcome::TIMEOUT) {
      if (std::getenv("VERIF_DUMP_CHILD") != nullptr) std::cerr << "TIMEOUT " << o.states << std::endl;
      c.tag("time_budget_hit_inconclusive");
      c.discard();
    }
    // input class of the crash/dead-lock keys: several managers, each destroyed
    // as soon as its execute() returns while handlers may run in other threads
    const std::string cls = (!s.barrier && s.cmds.size() >= 2) ? ".concurrent_managers_destroyed_after_execute" : "";
    {
      // only in the unit built with -fsanitize=address (pm_asan)
      const auto pa = o.text.find("ERROR: AddressSanitizer: ");
      if (pa != std::string::npos) {
        auto kind = o.text.substr(pa + 25, 40);
        kind = kind.substr(0, kind.find_first_of(" \n"));
        auto rep = o.text.substr(pa, 1800);
        for (auto& ch : rep)
          if (ch == '\n') ch = '|';
        c.check(false, "C30.asan" + cls, kind + ": " + rep);
      }
    }
    c.check(o.how != verif::ForkOutcome::DEADLOCK, "C30.liveness.deadlock" + cls,
            "every thread of the process sleeps for ever in a futex wait " + o.states + "; output: " + tail());
    c.check(o.how != verif::ForkOutcome::SIGNALED, "C30.crash" + cls,
            "process killed by signal " + std::to_string(o.code) + "; output: " + tail());
    const auto pf = o.text.find("\nFAIL ");
    if (pf != std::string::npos) {
      const auto e = o.text.find('\n', pf + 1);
      const auto line = o.text.substr(pf + 6, e == std::string::npos ? std::string::npos : e - pf - 6);
      const auto sp = line.find(' ');
      c.check(false, line.substr(0, sp), sp == std::string::npos ? "" : line.substr(sp + 1));
    }
    if (o.text.find("\nSEQUENCING ") != std::string::npos || o.text.find("SEQUENCING ") == 0) {
      c.tag("sequencing_not_achieved_inconclusive");
      c.discard();
    }
    c.check(o.code == 0 && o.text.find("\nPASS\n") != std::string::npos, "C30.crash" + cls,
            "process exited with code " + std::to_string(o.code) + " without verdict; output: " + tail());
    const auto stat = [&o](const std::string& k) {
      const auto p = o.text.find(" " + k + "=");
      return p == std::string::npos ? 0L : std::atol(o.text.c_str() + p + k.size() + 2);
    };
    const long hf = stat("handler_first"), wf = stat("waiter_first");
    if (s.victim) {
      // the victim's waitpid was interrupted at least twice while its child ran
      c.nontrivial(stat("interruptions") >= 2);
      c.tag("interruptions." + std::to_string(stat("interruptions")));
    } else {
      c.nontrivial(hf + wf >= 1);
    }
    if (hf >= 1) c.tag("achieved.handler_first");
    if (wf >= 1) c.tag("achieved.waiter_first");
    if (stat("natural") >= 1) c.tag("achieved.natural");
    if (stat("jitter") >= 1) c.tag("achieved.jitter");
    if (stat("misreport_value") >= 1) c.tag("observed.misreport_value");
    if (stat("misreport_exit_as_signal") >= 1) c.tag("observed.misreport_exit_as_signal");
  }

  //! see C29_pool.cxx: a failing script must fail 4/4 to be reported and shrunk
  void execute(verif::Case& c, const Script& s) {
    if (c.mode() != verif::Case::GENERATE) {
      executeOnce(c, s);
      return;
    }
    if (failuresSeen[c.sub()] != 0 && ++shrinkExecutions[c.sub()] > 50) return;
    // shrinking selects among many candidates: a stricter confirmation keeps
    // it from drifting to scripts that fail only often
    const int needed = failuresSeen[c.sub()] != 0 ? 6 : 4;
    for (int attempt = 0;; ++attempt) {
      try {
        executeOnce(c, s);
        if (attempt != 0) c.tag("flaky_observation");
        return;
      } catch (const verif::Failure&) {
        if (attempt == needed - 1) {
          ++failuresSeen[c.sub()];
          throw;
        }
      }
    }
  }

  const int managersTable[] = {1, 1, 1, 2, 2, 3, 4, 8, 16};
  const int signalsTable[] = {SIGTERM, SIGKILL, SIGSEGV, SIGABRT, SIGUSR1, SIGINT};
  const int poisonTable[] = {-1, 0x00, 0xff, 0x7f, 0x0b, 0x01, 0x80};

  Cmd drawCmd(verif::Case& c, const int policy) {
    Cmd m;
    m.kind = static_cast<int>(c.integer(0, 3, "kind"));
    const auto drawExit = [&c] {
      // 0 is half of the cases: "succeeds exactly when" needs both sides
      if (c.boolean("zero")) return 0;
      const int t = static_cast<int>(c.integer(0, 5, "code_class"));
      const int fixed[] = {1, 2, 127, 128, 255};
      return t < 5 ? fixed[t] : static_cast<int>(c.integer(1, 255, "code"));
    };
    if (m.kind == 0) {
      m.value = drawExit();
    } else if (m.kind == 1) {
      m.value = signalsTable[c.pick(sizeof(signalsTable) / sizeof(int), "sig")];
    } else if (m.kind == 2) {
      m.value = static_cast<int>(c.integer(1, 30, "ms"));
      m.aux = drawExit();
    } else {
      m.value = static_cast<int>(c.integer(0, 70000, "bytes"));
      m.aux = drawExit();
    }
    m.order = static_cast<int>(c.integer(0, 3, "order"));
    if (policy == NOBODY && m.order == HANDLER_FIRST) m.order = NATURAL;  // no handler can run
    m.jitter = static_cast<int>(c.integer(0, 1, "jitter"));
    m.poison = poisonTable[c.pick(sizeof(poisonTable) / sizeof(int), "poison")];
    m.toFile = c.chance(1, 4, "to_file");
    return m;
  }

}  // namespace

VERIF_SUB(orders) {
  Script s;
  const int n = managersTable[c.pick(sizeof(managersTable) / sizeof(int), "managers_idx")];
  s.policy = static_cast<int>(c.integer(0, 4, "sigchld_policy"));
  s.barrier = c.boolean("barrier");
  s.holdUntilDestroyed = !s.barrier && n >= 2 && s.policy != NOBODY && c.chance(1, 3, "hold_until_destroyed");
  for (int i = 0; i != n; ++i) s.cmds.push_back(drawCmd(c, s.policy));
  c.tag("managers." + std::to_string(n));
  c.tag("policy." + std::to_string(s.policy));
  c.tag(s.barrier ? "lifetime.barrier" : "lifetime.destroyed_after_execute");
  if (s.holdUntilDestroyed) c.tag("handlers_held_until_a_manager_is_destroyed");
  execute(c, s);
}

/*!
 * the waiter is interrupted k >= 2 times by the SIGCHLD of other managers'
 * children while its own child is still running (schedule class of the seeded
 * change C30-1: EINTR retried only once)
 */
VERIF_SUB_W(interrupted, 0.35) {
  Script s;
  s.victim = true;
  s.barrier = true;  // managers are destroyed after the threads: no class suffix
  s.policy = WORKERS_ONLY;
  const int k = static_cast<int>(c.integer(2, 5, "helpers"));
  Cmd v;
  if (c.chance(1, 4, "victim_killed")) {
    v.kind = 5;
    v.value = signalsTable[c.pick(sizeof(signalsTable) / sizeof(int), "sig")];
  } else {
    v.kind = 4;
    v.value = c.boolean("zero") ? 0 : static_cast<int>(c.integer(1, 255, "code"));
  }
  v.poison = poisonTable[c.pick(sizeof(poisonTable) / sizeof(int), "poison")];
  s.cmds.push_back(v);
  for (int i = 0; i != k; ++i) {
    Cmd h;
    h.kind = 4;
    h.value = c.boolean("zero") ? 0 : static_cast<int>(c.integer(1, 255, "code"));
    s.cmds.push_back(h);
  }
  c.tag("helpers." + std::to_string(k));
  execute(c, s);
}

extern "C" pid_t fork(void) noexcept {
  using fork_t = pid_t (*)(void);
  static fork_t real = reinterpret_cast<fork_t>(::dlsym(RTLD_NEXT, "fork"));
  const pid_t p = real();
  if (p > 0) lastChild = p;
  return p;
}

//! records what the blocking waitpid of ProcessManager::wait returned
extern "C" pid_t waitpid(pid_t pid, int* status, int options) {
  using waitpid_t = pid_t (*)(pid_t, int*, int);
  static waitpid_t real = reinterpret_cast<waitpid_t>(::dlsym(RTLD_NEXT, "waitpid"));
  const pid_t r = real(pid, status, options);
  if (options == 0) {  // never the WNOHANG calls of the signal handler
    const int e = errno;
    lastWaitRet = r;
    lastWaitErrno = e;
    errno = e;
  }
  return r;
}

int main(int argc, char** argv) {
  if (argc >= 2 && std::string(argv[1]) == "--child") return childMain(argc, argv);
  char buf[4096];
  const auto n = ::readlink("/proc/self/exe", buf, sizeof buf - 1);
  selfExe = n > 0 ? std::string(buf, static_cast<std::size_t>(n)) : std::string(argv[0]);
#ifdef C30_ASAN
  return verif::main(argc, argv, "C30_pm_asan");
#else
  return verif::main(argc, argv, "C30_pm");
#endif
}
