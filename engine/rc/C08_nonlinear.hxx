/*!
 * C08 - fixed size non linear solvers never claim false convergence.
 *
 * A `Child` class (CRTP, as MFront generates) evaluates a run-time described
 * system, applies a *fault script* (at chosen evaluation numbers: return false,
 * put NaN / Inf in the residual, return false with a null residual, make the
 * jacobian null / NaN) and records every evaluation (x, f, returned flag).
 * Oracle = invariants over this history when solveNonLinearSystem() returns:
 *   - iter <= iterMax, number of evaluations <= iterMax (each evaluation is made
 *     with iter < iterMax and followed by exactly one ++iter, see
 *     TinyNonLinearSolverBase.ixx); a hard guard (4 iterMax + 16 evaluations)
 *     turns a non terminating solver into a failure instead of a hang;
 *   - success => the last evaluation was made at exactly the returned `zeros`,
 *     returned true with no fault injected, `fzeros` is that residual bit for
 *     bit, finite, and its norm recomputed by the harness is < epsilon;
 *   - affine family (unique root x*): |x - x*| <= |A^-1|_F |f(x)| (bound computed by
 *     the harness in long double);
 *   - Newton-Raphson, no fault, iterMax >= 20, epsilon above the rounding floor:
 *     success on affine systems and on the contractive family started inside
 *     the Kantorovich ball (h = beta^2 |f(x0)| L <= 1/4).
 * Included by C08_*.cxx which define C08_SOLVERS(X) (solver kinds of the TU).
 * Non trivial: a scripted fault was reached, or >= 3 evaluations, or a restart.
 */
#include "gens.hxx"
#include "TFEL/Math/tvector.hxx"
#include "TFEL/Math/tmatrix.hxx"
// NonLinearSolvers/TinyPowellDogLegNewtonRaphsonSolver.ixx reuses the include guard of
// TinyNewtonRaphsonSolver.ixx (and ...DogLegBroydenSolver.ixx the one of TinyBroydenSolver.ixx):
// the dog leg solvers can not share a translation unit with their plain counterparts
// (undefined computeNewCorrection at link time), hence C08_WITH_PDL.
#ifdef C08_WITH_PDL
#include "TFEL/Math/TinyPowellDogLegNewtonRaphsonSolver.hxx"
#include "TFEL/Math/TinyPowellDogLegBroydenSolver.hxx"
#else
#include "TFEL/Math/TinyNewtonRaphsonSolver.hxx"
#include "TFEL/Math/TinyBroydenSolver.hxx"
#include "TFEL/Math/TinyBroyden2Solver.hxx"
#include "TFEL/Math/TinyLevenbergMarquardtSolver.hxx"
#endif

namespace c08 {

  using ref::R;
  using ref::Vec;
  constexpr double NaN = std::numeric_limits<double>::quiet_NaN();
  constexpr double Inf = std::numeric_limits<double>::infinity();

  struct Problem {
    int family = 0;
    int n = 1;
    std::vector<double> A, b, cc;  // matrix (row major), vectors
    double alpha = 0;
    //! f and jacobian (row major, may be null) at x
    void eval(const double* x, double* f, double* J) const {
      const int N = n;
      if (J != nullptr) std::fill(J, J + N * N, 0.);
      switch (family) {
        case 0:  // affine A x - b
          for (int i = 0; i < N; ++i) {
            double s = -b[i];
            for (int j = 0; j < N; ++j) {
              s += A[i * N + j] * x[j];
              if (J != nullptr) J[i * N + j] = A[i * N + j];
            }
            f[i] = s;
          }
          break;
        case 1:  // x + alpha tanh(B x) - c, alpha |B|_F < 1: contractive, unique root
          for (int i = 0; i < N; ++i) {
            double s = 0;
            for (int j = 0; j < N; ++j) s += A[i * N + j] * x[j];
            const double t = std::tanh(s);
            f[i] = x[i] + alpha * t - cc[i];
            if (J != nullptr) {
              for (int j = 0; j < N; ++j) J[i * N + j] = alpha * (1 - t * t) * A[i * N + j];
              J[i * N + i] += 1;
            }
          }
          break;
        case 2:  // componentwise cubic x^3 + a x - c
          for (int i = 0; i < N; ++i) {
            f[i] = x[i] * x[i] * x[i] + b[i] * x[i] - cc[i];
            if (J != nullptr) J[i * N + i] = 3 * x[i] * x[i] + b[i];
          }
          break;
        case 3:  // Rosenbrock like chain
          f[0] = 1 - x[0];
          if (J != nullptr) J[0] = -1;
          for (int i = 1; i < N; ++i) {
            f[i] = alpha * (x[i] - x[i - 1] * x[i - 1]);
            if (J != nullptr) {
              J[i * N + i] = alpha;
              J[i * N + i - 1] = -2 * alpha * x[i - 1];
            }
          }
          break;
        case 4:  // x^2 - c (jacobian null at the origin)
          for (int i = 0; i < N; ++i) {
            f[i] = x[i] * x[i] - cc[i];
            if (J != nullptr) J[i * N + i] = 2 * x[i];
          }
          break;
        default:  // no root: x_i^2 + 1 + coupling
          for (int i = 0; i < N; ++i) {
            const double y = x[(i + 1) % N];
            f[i] = x[i] * x[i] + 1 + alpha * y * y;
            if (J != nullptr) {
              J[i * N + i] += 2 * x[i];
              J[i * N + (i + 1) % N] += 2 * alpha * y;
            }
          }
      }
    }
  };

  enum Fault { NONE = 0, RET_FALSE, NAN_COMPONENT, INF_COMPONENT, ALL_NAN, FALSE_WITH_NULL_RESIDUAL, NULL_JACOBIAN, NAN_JACOBIAN };

  struct Script {
    std::map<int, int> faults;  // evaluation number (1 based) -> Fault
    int component = 0;
  };

  struct Record {
    std::vector<double> x, f;
    bool ret = true;
    int fault = NONE;
  };

  struct TooManyEvaluations {};

  struct Context {
    const Problem* pb = nullptr;
    const Script* sc = nullptr;
    std::vector<Record> log;
    std::size_t guard = 0;
  };

  // ---------------------------------------------------------------- solver kinds
#ifndef C08_WITH_PDL
  struct PDLNR {};
  struct PDLBR {};
  struct NR {
    template <unsigned short N, typename C>
    using type = tfel::math::TinyNewtonRaphsonSolver<N, double, C>;
    static constexpr const char* name = "newton_raphson";
    static constexpr int jac = 1;  // 1: computed by computeResidual, 2: broyden estimate, 3: inverse estimate
  };
  struct LM {
    template <unsigned short N, typename C>
    using type = tfel::math::TinyLevenbergMarquardtSolver<N, double, C>;
    static constexpr const char* name = "levenberg_marquardt";
    static constexpr int jac = 1;
  };
  struct BR {
    template <unsigned short N, typename C>
    using type = tfel::math::TinyBroydenSolver<N, double, C>;
    static constexpr const char* name = "broyden";
    static constexpr int jac = 2;
  };
  struct BR2 {
    template <unsigned short N, typename C>
    using type = tfel::math::TinyBroyden2Solver<N, double, C>;
    static constexpr const char* name = "broyden2";
    static constexpr int jac = 3;
  };
#else
  struct NR {};
  struct LM {};
  struct PDLNR {
    template <unsigned short N, typename C>
    using type = tfel::math::TinyPowellDogLegNewtonRaphsonSolver<N, double, C>;
    static constexpr const char* name = "powell_dogleg_newton_raphson";
    static constexpr int jac = 1;
  };
  struct PDLBR {
    template <unsigned short N, typename C>
    using type = tfel::math::TinyPowellDogLegBroydenSolver<N, double, C>;
    static constexpr const char* name = "powell_dogleg_broyden";
    static constexpr int jac = 2;
  };
#endif

  template <unsigned short N, typename K>
  struct Child : K::template type<N, Child<N, K>> {
    Context* ctx = nullptr;
    bool computeResidual() {
      auto& cx = *ctx;
      if (cx.log.size() >= cx.guard) throw TooManyEvaluations{};
      Record r;
      r.x.assign(this->zeros.begin(), this->zeros.end());
      double f[N], J[N * N];
      cx.pb->eval(r.x.data(), f, J);
      const int k = static_cast<int>(cx.log.size()) + 1;
      const auto pf = cx.sc->faults.find(k);
      r.fault = pf == cx.sc->faults.end() ? NONE : pf->second;
      const int comp = cx.sc->component % N;
      switch (r.fault) {
        case RET_FALSE: r.ret = false; break;
        case NAN_COMPONENT: f[comp] = NaN; break;
        case INF_COMPONENT: f[comp] = (k % 2) ? Inf : -Inf; break;
        case ALL_NAN:
          for (auto& v : f) v = NaN;
          break;
        case FALSE_WITH_NULL_RESIDUAL:
          for (auto& v : f) v = 0;
          r.ret = false;
          break;
        case NULL_JACOBIAN:
          for (auto& v : J) v = 0;
          break;
        case NAN_JACOBIAN: J[comp * N + comp] = NaN; break;
        default: break;
      }
      for (unsigned short i = 0; i < N; ++i) this->fzeros(i) = f[i];
      if constexpr (K::jac == 1) {
        for (unsigned short i = 0; i < N; ++i)
          for (unsigned short j = 0; j < N; ++j) this->jacobian(i, j) = J[i * N + j];
      }
      r.f.assign(f, f + N);
      cx.log.push_back(r);
      return r.ret;
    }
    //! set up as the code generated by MFront does and solve
    bool run(Context& cx, const std::vector<double>& x0, const double eps, const unsigned short imax,
             const bool exactJacobianEstimate, const double radius) {
      ctx = &cx;
      for (unsigned short i = 0; i < N; ++i) this->zeros(i) = x0[i];
      this->epsilon = eps;
      this->iterMax = imax;
      if constexpr (K::jac == 2 || K::jac == 3) {
        tfel::math::tmatrix<N, N, double> Jm(0.);
        for (unsigned short i = 0; i < N; ++i) Jm(i, i) = 1;
        if (exactJacobianEstimate) {
          double f[N], J[N * N];
          cx.pb->eval(x0.data(), f, J);
          bool finite = true;
          for (auto v : J) finite = finite && std::isfinite(v);
          if (finite)
            for (unsigned short i = 0; i < N; ++i)
              for (unsigned short j = 0; j < N; ++j) Jm(i, j) = J[i * N + j];
        }
        if constexpr (K::jac == 2) {
          this->jacobian = Jm;
        } else {
          auto inv = tfel::math::tmatrix<N, N, double>::Id();
          auto tmp = Jm;
          if (!tfel::math::TinyMatrixSolve<N, double, false>::exe(tmp, inv)) inv = tfel::math::tmatrix<N, N, double>::Id();
          this->inv_jacobian = inv;
        }
      }
      if constexpr (std::is_same_v<K, PDLNR> || std::is_same_v<K, PDLBR>) {
        this->powell_dogleg_trust_region_size = radius;
      }
      if constexpr (std::is_same_v<K, LM>) {  // MFront's default parameters
        this->levmar_mu0 = 1.e-6;
        this->levmar_p0 = 1.e-4;
        this->levmar_p1 = 0.25;
        this->levmar_p2 = 0.75;
        this->levmar_m = 1.e-8;
      }
      return this->solveNonLinearSystem();
    }
    unsigned short getIter() const { return this->iter; }
    std::vector<double> getZeros() const { return std::vector<double>(this->zeros.begin(), this->zeros.end()); }
    std::vector<double> getFzeros() const { return std::vector<double>(this->fzeros.begin(), this->fzeros.end()); }
  };

  inline bool sameBits(const double a, const double b) { return std::memcmp(&a, &b, sizeof a) == 0; }

  template <unsigned short N, typename K>
  void body(verif::Case& c) {
    Problem pb;
    pb.n = N;
    // a quarter of the Newton-Raphson cases are drawn inside the domain of the basin claim
    bool basinScenario = false;
    if constexpr (std::is_same_v<K, NR>) basinScenario = c.chance(1, 4, "basin_scenario");
    pb.family = static_cast<int>(basinScenario ? c.integer(0, 1, "family") : c.integer(0, 5, "family"));
    static const char* fam[] = {"affine", "contractive", "cubic", "rosenbrock", "singular_start", "no_root"};
    c.tag(std::string("family.") + fam[pb.family]);
    c.tag(std::string("solver.") + K::name);
    c.tag("n." + std::to_string(N));
    pb.A.assign(N * N, 0.);
    pb.b.assign(N, 0.);
    pb.cc.assign(N, 0.);
    std::vector<double> x0(N, 0.);
    // ---- problem data
    double normB = 0;  // Frobenius norm of the matrix
    if (pb.family == 0) {
      // diagonally dominant, optional row scaling
      const double rs = c.chance(1, 3, "row_scaled") ? 1 : 0;
      for (int i = 0; i < N; ++i) {
        const double f = rs != 0 ? c.log10real(-3, 3, "row_scale") : 1.;
        for (int j = 0; j < N; ++j) pb.A[i * N + j] = f * (c.sreal(1., "a") / N + (i == j ? (c.boolean("sg") ? 2. : -2.) : 0.));
        pb.b[i] = f * c.sreal(3., "b");
      }
    } else if (pb.family == 1) {
      for (auto& v : pb.A) {
        v = c.sreal(1., "B");
        normB += v * v;
      }
      normB = std::sqrt(normB);
      pb.alpha = (normB > 0 ? c.real(0., 0.9, "q") / normB : 0.);
      for (auto& v : pb.cc) v = c.sreal(3., "c");
    } else if (pb.family == 2) {
      for (int i = 0; i < N; ++i) {
        pb.b[i] = c.chance(1, 4, "nonmonotone") ? -c.real(0.1, 2., "a") : c.real(0.1, 2., "a");
        pb.cc[i] = c.sreal(5., "c");
      }
    } else if (pb.family == 3) {
      pb.alpha = c.chance(1, 2, "alpha10") ? 10. : c.real(1., 100., "alpha");
    } else if (pb.family == 4) {
      for (auto& v : pb.cc) v = c.real(0.1, 4., "c");
    } else {
      pb.alpha = c.real(0., 1., "coupling");
    }
    // ---- start
    const auto scls = basinScenario ? c.integer(0, 1, "start_class") : c.integer(0, 3, "start_class");
    for (auto& v : x0) v = scls == 0 ? 0. : (scls == 1 ? c.sreal(1., "x0") : (scls == 2 ? c.sreal(10., "x0") : c.sreal(1e3, "x0")));
    if (pb.family == 4 && c.chance(3, 4, "origin")) std::fill(x0.begin(), x0.end(), 0.);
    const double eps = c.log10real(-14, -4, "epsilon");
    const unsigned short imax = static_cast<unsigned short>(
        basinScenario ? c.integer(20, 60, "iterMax")
                      : (c.chance(1, 6, "small_imax") ? c.integer(0, 3, "iterMax") : c.integer(1, 60, "iterMax")));
    const bool exactJ = c.boolean("exact_jacobian_estimate");
    const double radius = c.log10real(-4, 3, "trust_region");
    // ---- fault script
    Script sc;
    const auto nf = basinScenario ? 0 : c.integer(0, 3, "nfaults");
    for (int k = 0; k < nf; ++k) {
      const int at = static_cast<int>(c.integer(1, 12, "fault_at"));
      const int kind = static_cast<int>(c.integer(1, 7, "fault_kind"));
      sc.faults[at] = kind;
    }
    sc.component = static_cast<int>(c.integer(0, 7, "fault_component"));
    if (!basinScenario && c.chance(1, 20, "always_fail")) {
      const int kind = c.boolean("af_kind") ? RET_FALSE : ALL_NAN;
      for (int k = static_cast<int>(c.integer(1, 6, "af_from")); k <= 4 * 60 + 20; ++k) sc.faults[k] = kind;
    }

    Context cx;
    cx.pb = &pb;
    cx.sc = &sc;
    cx.guard = 4u * imax + 16u;
    Child<N, K> solver;
    bool ok = false;
    bool runaway = false;
    try {
      ok = solver.run(cx, x0, eps, imax, exactJ, radius);
    } catch (const TooManyEvaluations&) {
      runaway = true;
    }
    const auto& log = cx.log;
    auto hist = [&]() {
      std::ostringstream os;
      os.precision(17);
      os << K::name << " N=" << N << " family " << fam[pb.family] << " eps=" << eps << " iterMax=" << imax
         << " -> " << (ok ? "success" : "failure") << " iter=" << solver.getIter() << " after " << log.size()
         << " evaluations;";
      std::size_t k = 0;
      for (const auto& r : log) {
        if (++k > 8) {
          os << " ...";
          break;
        }
        os << " #" << k << "(fault " << r.fault << ", ret " << r.ret << ", |f|~" << (r.f.empty() ? 0. : r.f[0]) << ")";
      }
      return os.str();
    };
    // ---- budget
    c.check(!runaway, "C08.budget.runaway",
            "more than 4 iterMax + 16 residual evaluations: the solver does not terminate; " + hist());
    c.check(solver.getIter() <= imax, "C08.budget.iter", "iter > iterMax at return; " + hist());
    c.check(log.size() <= imax, "C08.budget.evaluations",
            std::to_string(log.size()) + " evaluations for iterMax=" + std::to_string(imax) + "; " + hist());
    // ---- soundness of success
    bool faultHit = false, restart = false;
    for (std::size_t k = 0; k < log.size(); ++k) {
      if (log[k].fault != NONE) faultHit = true;
      bool bad = !log[k].ret;
      for (auto v : log[k].f) bad = bad || !std::isfinite(v);
      if (bad && k + 1 < log.size()) restart = true;
    }
    if (faultHit) c.tag("fault.reached");
    if (restart) c.tag("restart.observed");
    c.nontrivial(faultHit || restart || log.size() >= 3);
    if (ok) {
      c.tag("success");
      c.check(!log.empty(), "C08.success.no_evaluation", "success without any residual evaluation; " + hist());
      const auto& last = log.back();
      const auto z = solver.getZeros();
      const auto fz = solver.getFzeros();
      bool sameX = true, sameF = true, finite = true;
      R nrm = 0;
      for (unsigned short i = 0; i < N; ++i) {
        sameX = sameX && sameBits(z[i], last.x[i]);
        sameF = sameF && sameBits(fz[i], last.f[i]);
        finite = finite && std::isfinite(fz[i]) && std::isfinite(z[i]);
        nrm += static_cast<R>(last.f[i]) * static_cast<R>(last.f[i]);
      }
      nrm = std::sqrt(nrm);
      c.check(last.ret && last.fault != RET_FALSE && last.fault != FALSE_WITH_NULL_RESIDUAL,
              "C08.success.failed_evaluation", "success although the last residual evaluation returned false; " + hist());
      c.check(finite, "C08.success.non_finite", "success with non finite unknowns or residual; " + hist());
      c.check(sameX, "C08.success.stale_residual",
              "success but the last residual evaluation was not made at the returned unknowns; " + hist());
      c.check(sameF, "C08.success.fzeros_mismatch", "success but fzeros is not the last evaluated residual; " + hist());
      c.check(nrm < static_cast<R>(eps) * (1 + 64 * std::numeric_limits<double>::epsilon()),
              "C08.success.criterion", "success with |fzeros| = " + std::to_string(static_cast<double>(nrm)) +
                                           " >= epsilon; " + hist());
      // distance to the unique root
      if (pb.family == 0) {
        Vec A(pb.A.begin(), pb.A.end()), b(pb.b.begin(), pb.b.end()), xs, inv;
        if (ref::solve(N, A, b, xs) && ref::inverseN(N, A, inv)) {
          R d = 0, ni = 0;
          for (int i = 0; i < N; ++i) d += (xs[i] - z[i]) * (xs[i] - z[i]);
          for (auto v : inv) ni += v * v;
          const R tol = std::sqrt(ni) * nrm * (1 + R(1e-6)) + R(1e-12) * (1 + ref::normInf(xs));
          c.check(std::sqrt(d) <= tol, "C08.success.root_distance",
                  "affine system: returned point farther from the root than |A^-1|_F |f|; " + hist());
        }
      }
    } else {
      c.tag("failure");
    }
    // ---- Newton converges inside its basin
    if constexpr (std::is_same_v<K, NR>) {
      const bool nofault = sc.faults.empty();
      if (nofault && imax >= 20 && (pb.family == 0 || pb.family == 1)) {
        // rounding floor of the residual near the root
        R scale = 0;
        bool inBasin = false;
        if (pb.family == 0) {
          Vec A(pb.A.begin(), pb.A.end()), b(pb.b.begin(), pb.b.end()), xs;
          if (ref::solve(N, A, b, xs)) {
            scale = ref::matNormInf(N, A) * (ref::normInf(xs) + ref::normInf(Vec(x0.begin(), x0.end()))) + ref::normInf(b);
            inBasin = true;  // one step from anywhere
          }
        } else {
          const R q = pb.alpha * normB;  // |J - I| <= q < 0.9
          const R beta = 1 / (1 - q);
          const R L = R(0.7698) * pb.alpha * normB * normB;  // max |d/ds sech^2| = 4/(3 sqrt 3)
          double f[N];
          pb.eval(x0.data(), f, nullptr);
          R nf0 = 0, nx = 0, ncc = 0;
          for (int i = 0; i < N; ++i) {
            nf0 += static_cast<R>(f[i]) * f[i];
            nx = std::max<R>(nx, std::fabs(x0[i]));
            ncc = std::max<R>(ncc, std::fabs(pb.cc[i]));
          }
          nf0 = std::sqrt(nf0);
          inBasin = beta * beta * nf0 * L <= R(0.25);
          scale = nx + ncc + 1 + beta * nf0;
        }
        const R floor_ = R(1e4) * N * std::numeric_limits<double>::epsilon() * scale;
        if (inBasin && static_cast<R>(eps) > floor_) {
          c.tag("newton.basin_claim");
          c.check(ok, "C08.newton.basin",
                  "Newton-Raphson failed inside its basin of quadratic convergence; " + hist());
        }
      }
    }
  }

}  // namespace c08

#define C08_CASE(N, K) \
  case N: c08::body<N, c08::K>(c); break;
#define C08_SUB(K)                                         \
  VERIF_SUB(K) {                                           \
    switch (c.integer(1, 8, "N")) {                        \
      C08_CASE(1, K) C08_CASE(2, K) C08_CASE(3, K) C08_CASE(4, K) \
      C08_CASE(5, K) C08_CASE(6, K) C08_CASE(7, K) C08_CASE(8, K) \
    }                                                      \
  }
C08_SOLVERS(C08_SUB)
