/*!
 * C56 - Crystal slip-system descriptions are crystallographically valid.
 *
 * Grounding: docs/web/singlecrystal.md, include/TFEL/Material/
 * SlipSystemsDescription.hxx, src/Material/SlipSystemsDescription.cxx,
 * src/NUMODIS/{Cubic,HCP,Hardening}.cxx.
 *
 * Enumerated (exhaustive): every primitive plane / Burgers pair with Miller
 * indices in [-3,3] (Miller-Bravais (h k i l), i = -(h+k), all four indices
 * in [-3,3] for HCP), plane . Burgers = 0, modulo the sign of each vector:
 * 1092 pairs for Cubic/FCC/BCC, the HCP list is built the same way.
 *
 * Oracle: the orbit of (n,b) under the point group written in the harness
 * (48 signed permutation matrices; 6/mmm = permutations of (h,k,i) x
 * inversion of (h,k,i) x inversion of l, 24 operations), modulo the
 * (+-n, +-b) identification.  Geometry: unit vectors, orthogonality, dyadic
 * products in the documented tensor storage (xx yy zz xy yx xz zx yz zy),
 * Schmid factor (d.n)(d.b), Cartesian images of the indices (HCP: a1,a2,a3
 * at 120 degrees, c/a = sqrt(8/3) as documented in NUMODIS/HCP.cxx).
 *
 * Interaction matrix: docs/web/singlecrystal.md documents that the ranks are
 * the classes of ORDERED pairs equivalent by symmetry and that the FCC
 * matrix "is non symmetric" (Madec 2017).  getRank(g1,g2) == getRank(g2,g1)
 * is therefore not asserted (it is false by documented design, e.g.
 * <1-10>{111}: rank(0,5) = 4, rank(5,0) = 6); asserted instead: every
 * ordered pair has a rank < rank(), the rank is invariant under a
 * simultaneous symmetry operation, the number of ranks is the number of
 * orbits of ordered pairs, and the classes are closed under transposition
 * (rank(a,b) = rank(c,d) => rank(b,a) = rank(d,c)).  Asymmetric pairs are
 * counted in the class counters.
 *
 * Non-trivial: families whose orbit has >= 12 systems.
 */
#include "verif.hxx"
#include <array>
#include <numeric>
#include "TFEL/Material/SlipSystemsDescription.hxx"

using namespace tfel::material;
using SSD = SlipSystemsDescription;
using R = long double;

namespace {

  using IV = std::vector<int>;  // 3 or 4 indices
  struct Sys {
    IV b, n;
    bool operator<(const Sys& o) const { return std::tie(n, b) < std::tie(o.n, o.b); }
    bool operator==(const Sys& o) const { return n == o.n && b == o.b; }
  };
  IV canon(IV v) {
    for (auto x : v) {
      if (x > 0) return v;
      if (x < 0) {
        for (auto& y : v) y = -y;
        return v;
      }
    }
    return v;
  }
  Sys canon(const Sys& s) { return {canon(s.b), canon(s.n)}; }
  int dot(const IV& a, const IV& b) {
    int s = 0;
    for (std::size_t i = 0; i < a.size(); ++i) s += a[i] * b[i];
    return s;
  }
  std::string str(const IV& v) {
    std::string r = "(";
    for (std::size_t i = 0; i < v.size(); ++i) r += (i ? "," : "") + std::to_string(v[i]);
    return r + ")";
  }
  std::string str(const Sys& s) { return "<" + str(s.b) + ">{" + str(s.n) + "}"; }

  // ---------------------------------------------------------------- point groups
  struct Op {
    int perm[3];
    int sgn[3];
    int sl;  // sign of the 4th index (HCP)
    IV apply(const IV& v) const {
      IV r(v.size());
      for (int i = 0; i < 3; ++i) r[i] = sgn[i] * v[perm[i]];
      if (v.size() == 4) r[3] = sl * v[3];
      return r;
    }
    Sys apply(const Sys& s) const { return {apply(s.b), apply(s.n)}; }
  };
  const std::vector<Op>& cubicGroup() {
    static const std::vector<Op> g = [] {
      std::vector<Op> r;
      int p[3] = {0, 1, 2};
      do {
        for (int s = 0; s < 8; ++s) {
          Op o;
          for (int i = 0; i < 3; ++i) {
            o.perm[i] = p[i];
            o.sgn[i] = (s >> i) & 1 ? -1 : 1;
          }
          o.sl = 1;
          r.push_back(o);
        }
      } while (std::next_permutation(p, p + 3));
      return r;
    }();
    return g;
  }
  const std::vector<Op>& hexagonalGroup() {
    static const std::vector<Op> g = [] {
      std::vector<Op> r;
      int p[3] = {0, 1, 2};
      do {
        for (int s = 0; s < 2; ++s)
          for (int l = 0; l < 2; ++l) {
            Op o;
            for (int i = 0; i < 3; ++i) {
              o.perm[i] = p[i];
              o.sgn[i] = s ? -1 : 1;
            }
            o.sl = l ? -1 : 1;
            r.push_back(o);
          }
      } while (std::next_permutation(p, p + 3));
      return r;
    }();
    return g;
  }
  std::set<Sys> orbit(const std::vector<Op>& G, const Sys& s) {
    std::set<Sys> r;
    for (const auto& o : G) r.insert(canon(o.apply(s)));
    return r;
  }

  // ---------------------------------------------------------------- enumeration
  int gcdv(const IV& v) {
    int g = 0;
    for (auto x : v) g = std::gcd(g, std::abs(x));
    return g;
  }
  const std::vector<IV>& vectors3() {
    static const std::vector<IV> r = [] {
      std::set<IV> s;
      for (int a = -3; a <= 3; ++a)
        for (int b = -3; b <= 3; ++b)
          for (int c2 = -3; c2 <= 3; ++c2) {
            IV v{a, b, c2};
            if (gcdv(v) != 1) continue;
            s.insert(canon(v));
          }
      return std::vector<IV>(s.begin(), s.end());
    }();
    return r;
  }
  const std::vector<IV>& vectors4() {
    static const std::vector<IV> r = [] {
      std::set<IV> s;
      for (int a = -3; a <= 3; ++a)
        for (int b = -3; b <= 3; ++b)
          for (int l = -3; l <= 3; ++l) {
            const int i = -(a + b);
            if (std::abs(i) > 3) continue;
            IV v{a, b, i, l};
            if (gcdv(v) != 1) continue;
            s.insert(canon(v));
          }
      return std::vector<IV>(s.begin(), s.end());
    }();
    return r;
  }
  //! all (b,n), n.b = 0, both canonical
  std::vector<Sys> families(const std::vector<IV>& vs) {
    std::vector<Sys> r;
    for (const auto& n : vs)
      for (const auto& b : vs)
        if (dot(n, b) == 0) r.push_back({b, n});
    return r;
  }
  const std::vector<Sys>& families3() {
    static const std::vector<Sys> r = families(vectors3());
    return r;
  }
  const std::vector<Sys>& families4() {
    static const std::vector<Sys> r = families(vectors4());
    return r;
  }

  // ---------------------------------------------------------------- library glue
  const char* csname(const CrystalStructure cs) {
    switch (cs) {
      case CrystalStructure::Cubic: return "cubic";
      case CrystalStructure::BCC: return "bcc";
      case CrystalStructure::FCC: return "fcc";
      default: return "hcp";
    }
  }
  void addFamily(SSD& d, const Sys& s) {
    if (s.b.size() == 3) {
      d.addSlipSystemsFamily(SSD::vec3d{s.b[0], s.b[1], s.b[2]}, SSD::vec3d{s.n[0], s.n[1], s.n[2]});
    } else {
      d.addSlipSystemsFamily(SSD::vec4d{s.b[0], s.b[1], s.b[2], s.b[3]}, SSD::vec4d{s.n[0], s.n[1], s.n[2], s.n[3]});
    }
  }
  Sys fromSystem(const SSD::system& g) {
    Sys s;
    if (g.is<SSD::system3d>()) {
      const auto& x = g.get<SSD::system3d>();
      s.b.assign(x.burgers.begin(), x.burgers.end());
      s.n.assign(x.plane.begin(), x.plane.end());
    } else {
      const auto& x = g.get<SSD::system4d>();
      s.b.assign(x.burgers.begin(), x.burgers.end());
      s.n.assign(x.plane.begin(), x.plane.end());
    }
    return s;
  }
  SSD::system toSystem(const Sys& s) {
    if (s.b.size() == 3) return SSD::system3d{{s.b[0], s.b[1], s.b[2]}, {s.n[0], s.n[1], s.n[2]}};
    return SSD::system4d{{s.b[0], s.b[1], s.b[2], s.b[3]}, {s.n[0], s.n[1], s.n[2], s.n[3]}};
  }

  //! Cartesian image of a direction / Burgers vector (not normalised)
  std::array<R, 3> cartDirection(const IV& v) {
    if (v.size() == 3) return {R(v[0]), R(v[1]), R(v[2])};
    const R s3 = std::sqrt(3.L) / 2, ca = std::sqrt(8.L / 3);
    // a1 = (s3, 1/2), a2 = (-s3, 1/2), a3 = (0,-1), c = (0,0,c/a)
    return {s3 * (v[0] - v[1]), R(0.5L) * (v[0] + v[1]) - v[2], ca * v[3]};
  }
  //! Cartesian normal of a plane (not normalised): h a1 + k a2 + i a3 + (3/(2 (c/a))) l z
  std::array<R, 3> cartNormal(const IV& v) {
    if (v.size() == 3) return {R(v[0]), R(v[1]), R(v[2])};
    const R s3 = std::sqrt(3.L) / 2, ca = std::sqrt(8.L / 3);
    return {s3 * (v[0] - v[1]), R(0.5L) * (v[0] + v[1]) - v[2], 3 * v[3] / (2 * ca)};
  }
  std::array<R, 3> unit(std::array<R, 3> a) {
    const R n = std::sqrt(a[0] * a[0] + a[1] * a[1] + a[2] * a[2]);
    for (auto& x : a) x /= n;
    return a;
  }
  R dot3(const std::array<R, 3>& a, const std::array<R, 3>& b) { return a[0] * b[0] + a[1] * b[1] + a[2] * b[2]; }

  /*!
   * soft assertion used by the exhaustive sweep: a failing assertion whose key
   * is a recorded finding is counted and the sweep continues behind it.
   */
  struct Checker {
    verif::Case& c;
    bool soft;
    bool known_seen = false;
    void check(bool ok, const std::string& key, const std::string& msg) {
      if (ok) return;
      if (soft && verif::Global::get().known_keys.count(key)) {
        c.tag("sweep.known." + key);
        known_seen = true;
        return;
      }
      c.check(false, key, msg);
    }
    void close(R a, R b, R tol, const std::string& key, const std::string& what) {
      if (soft && verif::Global::get().known_keys.count(key)) {
        if (!(std::fabs(a - b) <= tol)) {
          c.tag("sweep.known." + key);
          known_seen = true;
        }
        return;
      }
      c.close(a, b, tol, key, what);
    }
  };

  // ---------------------------------------------------------------- one family
  /*!
   * all the claims about one family of one structure.  `dir`: loading
   * direction indices for the Schmid factors.
   */
  void checkFamily(Checker& k, const CrystalStructure cs, const Sys& fam, const IV& dir, const bool withMatrix) {
    const std::string P = std::string("C56.") + (cs == CrystalStructure::HCP ? "hcp" : "cubic");
    const auto& G = cs == CrystalStructure::HCP ? hexagonalGroup() : cubicGroup();
    SSD d(cs);
    addFamily(d, fam);
    k.check(d.getNumberOfSlipSystemsFamilies() == 1, P + ".families", "family not registered");
    const auto gs = d.getSlipSystems(0);
    const auto orb = orbit(G, fam);
    k.c.nontrivial(orb.size() >= 12);
    // --- orbit == returned set (modulo signs), no duplicates
    std::string missing_key, missing_msg;
    std::set<Sys> got;
    std::vector<Sys> list;
    for (const auto& g : gs) {
      const Sys s = fromSystem(g);
      list.push_back(s);
      k.check(dot(s.n, s.b) == 0, P + ".orbit", "returned system with n.b != 0: " + str(s));
      const bool fresh = got.insert(canon(s)).second;
      k.check(fresh, P + ".orbit.duplicate", "family " + str(fam) + ": " + str(s) + " returned twice (up to sign)");
    }
    k.check(d.getNumberOfSlipSystems(0) == gs.size() && d.getNumberOfSlipSystems() == gs.size(), P + ".count",
            "getNumberOfSlipSystems inconsistent");
    {
      std::string extra, missing;
      for (const auto& s : got)
        if (!orb.count(s)) extra += " " + str(s);
      for (const auto& s : orb)
        if (!got.count(s)) missing += " " + str(s);
      k.check(extra.empty(), P + ".orbit.not_equivalent",
              "family " + str(fam) + ": returned systems that are not symmetry-equivalent to it:" + extra);
      if (!missing.empty()) {
        // asserted at the end of the function (the geometry claims are evaluated first).
        // HCP planes (h k i l) with l != 0 and h k i != 0 are a recorded class
        const bool cls = fam.n.size() == 4 && fam.n[3] != 0 && fam.n[0] * fam.n[1] * fam.n[2] != 0;
        missing_key = P + (cls ? ".orbit.missing.plane_l_nonzero_hki_nonzero" : ".orbit.missing");
        missing_msg = "family " + str(fam) + ": " + std::to_string(got.size()) + " systems returned, orbit has " +
                      std::to_string(orb.size()) + "; missing:" + missing;
      }
    }
    // --- geometry
    const auto nn = d.getSlipPlaneNormals(0);
    const auto bb = d.getSlipDirections(0);
    const auto mu = d.getOrientationTensors(0);
    const auto cl = d.getClimbTensors(0);
    k.check(nn.size() == gs.size() && bb.size() == gs.size() && mu.size() == gs.size() && cl.size() == gs.size(),
            P + ".geometry.sizes", "array sizes differ from the number of systems");
    const R tol = 2.5e-14L;  // NUMODIS computes in double: 4*tol = 450 u(double), 100x the observed 1.5 u
    for (std::size_t i = 0; i < gs.size(); ++i) {
      const std::array<R, 3> n{nn[i][0], nn[i][1], nn[i][2]}, b{bb[i][0], bb[i][1], bb[i][2]};
      k.close(dot3(n, n), 1, 4 * tol, P + ".normal.unit", "|n|^2");
      k.close(dot3(b, b), 1, 4 * tol, P + ".direction.unit", "|b|^2");
      k.close(dot3(n, b), 0, (cs == CrystalStructure::HCP ? 1e-9L : 4 * tol), P + ".orthogonal", "n.b for " + str(list[i]));
      // Cartesian images of the indices (HCP: c/a truncated to 1.632993162 in NUMODIS)
      const auto ne = unit(cartNormal(list[i].n)), be = unit(cartDirection(list[i].b));
      const R ctol = cs == CrystalStructure::HCP ? 5e-9L : 4 * tol;  // c/a truncation: 3.4e-11 observed
      for (int j = 0; j < 3; ++j) {
        k.close(n[j], ne[j], ctol, P + ".normal.cartesian", "normal of " + str(list[i].n));
        k.close(b[j], be[j], ctol, P + ".direction.cartesian", "direction of " + str(list[i].b));
      }
      // orientation tensor = b (x) n, storage xx yy zz xy yx xz zx yz zy (docs/web/tensors.md)
      static const int I[9] = {0, 1, 2, 0, 1, 0, 2, 1, 2}, J[9] = {0, 1, 2, 1, 0, 2, 0, 2, 1};
      for (int q = 0; q < 9; ++q) {
        k.close(mu[i][q], b[I[q]] * n[J[q]], 4 * tol, P + ".orientation_tensor", "mu = b (x) n, component " + std::to_string(q));
        k.close(cl[i][q], n[I[q]] * n[J[q]], 4 * tol, P + ".climb_tensor", "n (x) n, component " + std::to_string(q));
      }
    }
    // --- Schmid factors
    {
      SSD::vec dv;
      if (dir.size() == 3) dv = SSD::vec3d{dir[0], dir[1], dir[2]};
      else dv = SSD::vec4d{dir[0], dir[1], dir[2], dir[3]};
      const auto sf = d.getSchmidFactors(dv, 0);
      const auto sfa = d.getSchmidFactors(dv);
      k.check(sf.size() == gs.size() && sfa.size() == 1 && sfa[0].size() == gs.size(), P + ".schmid.sizes", "sizes");
      const auto de = unit(cartDirection(dir));
      for (std::size_t i = 0; i < sf.size(); ++i) {
        k.check(sf[i] >= -0.5L - 1e-12L && sf[i] <= 0.5L + 1e-12L, P + ".schmid.range",
                "Schmid factor " + std::to_string(static_cast<double>(sf[i])) + " outside [-1/2,1/2]");
        k.check(sf[i] == sfa[0][i], P + ".schmid.overloads", "getSchmidFactors(d) differs from getSchmidFactors(d,0)");
      }
      // the values themselves ((d.n)(d.b) per system) are checked in the schmid_value sub-checks
      (void)de;
    }
    // --- registering a generated system again must be rejected (documented error message)
    if (!list.empty()) {
      const Sys& again = list[list.size() / 2];
      bool thrown = false;
      try {
        addFamily(d, again);
      } catch (const std::runtime_error&) {
        thrown = true;
      }
      k.check(thrown, P + ".duplicate_family", "adding " + str(again) + " to the family " + str(fam) + " that generates it did not throw");
    }
    // --- interaction matrix structure
    if (withMatrix) {
      SSD d2(cs);
      addFamily(d2, fam);
      const auto ims = d2.getInteractionMatrixStructure();
      const auto nr = ims.rank();
      const std::size_t N = list.size();
      std::vector<std::size_t> rk(N * N);
      for (std::size_t i = 0; i < N; ++i)
        for (std::size_t j = 0; j < N; ++j) {
          std::size_t r = nr;
          try {
            r = ims.getRank(gs[i], gs[j]);
          } catch (const std::runtime_error& e) {
            k.check(false, P + ".rank.found", std::string("getRank threw: ") + e.what());
          }
          k.check(r < nr, P + ".rank.found", "rank out of range");
          rk[i * N + j] = r;
        }
      // position of a (canonical) system in the list
      std::map<Sys, std::size_t> pos;
      for (std::size_t i = 0; i < N; ++i) pos[canon(list[i])] = i;
      bool closed = true;
      // invariance under a simultaneous symmetry operation + number of orbits of ordered pairs
      std::set<std::set<std::pair<std::size_t, std::size_t>>> pairOrbits;
      for (std::size_t i = 0; i < N && closed; ++i)
        for (std::size_t j = 0; j < N && closed; ++j) {
          std::set<std::pair<std::size_t, std::size_t>> po;
          for (const auto& o : G) {
            const auto pi = pos.find(canon(o.apply(list[i]))), pj = pos.find(canon(o.apply(list[j])));
            if (pi == pos.end() || pj == pos.end()) {
              closed = false;  // returned set not closed under the group: reported by the orbit claim
              break;
            }
            po.insert({pi->second, pj->second});
            k.check(rk[pi->second * N + pj->second] == rk[i * N + j], P + ".rank.symmetry_invariant",
                    "rank(" + str(list[i]) + "," + str(list[j]) + ") changes under a simultaneous symmetry operation");
          }
          pairOrbits.insert(po);
        }
      if (closed) {
        k.check(pairOrbits.size() == nr, P + ".rank.count",
                "rank() = " + std::to_string(nr) + " but the ordered pairs form " + std::to_string(pairOrbits.size()) +
                    " classes under the point group, family " + str(fam));
      }
      // classes closed under transposition; asymmetry counted (documented for FCC)
      std::map<std::size_t, std::size_t> sigma;
      bool asym = false;
      for (std::size_t i = 0; i < N; ++i)
        for (std::size_t j = 0; j < N; ++j) {
          const auto r = rk[i * N + j], rt = rk[j * N + i];
          if (r != rt) asym = true;
          const auto p = sigma.find(r);
          if (p == sigma.end()) sigma[r] = rt;
          else
            k.check(p->second == rt, P + ".rank.transpose_consistent",
                    "rank(a,b) = rank(c,d) but rank(b,a) != rank(d,c), family " + str(fam));
        }
      k.c.tag(std::string(asym ? "rank.asymmetric." : "rank.symmetric.") + csname(cs));
    }
    k.check(missing_key.empty(), missing_key, missing_msg);
  }

  //! Schmid factors are (d.n)(d.b) for each system, for family `fi` of a description
  void checkSchmidValues(verif::Case& c, const SSD& d, const std::size_t fi, const IV& dir) {
    SSD::vec dv;
    if (dir.size() == 3) dv = SSD::vec3d{dir[0], dir[1], dir[2]};
    else dv = SSD::vec4d{dir[0], dir[1], dir[2], dir[3]};
    const auto sf = d.getSchmidFactors(dv, fi);
    const auto nn = d.getSlipPlaneNormals(fi);
    const auto bb = d.getSlipDirections(fi);
    const auto gs = d.getSlipSystems(fi);
    const auto de = unit(cartDirection(dir));
    c.check(sf.size() == gs.size(), "C56.schmid.sizes", "size");
    bool nonzero = false;
    for (std::size_t j = 0; j < sf.size(); ++j) {
      const std::array<R, 3> n{nn[j][0], nn[j][1], nn[j][2]}, b{bb[j][0], bb[j][1], bb[j][2]};
      const R e = dot3(de, n) * dot3(de, b);
      nonzero = nonzero || std::fabs(e) > 1e-6L;
      c.check(sf[j] >= -0.5L - 1e-12L && sf[j] <= 0.5L + 1e-12L, "C56.schmid.range", "outside [-1/2,1/2]");
      c.close(sf[j], e, 1e-9L, "C56.schmid.value_per_system",
              "Schmid factor of system " + std::to_string(j) + " " + str(fromSystem(gs[j])) + " of family " +
                  std::to_string(fi) + " for direction " + str(dir));
    }
    c.nontrivial(nonzero);
  }

  IV genDir(verif::Case& c, const bool hcp) {
    IV d;
    for (;;) {
      d.clear();
      if (!hcp) {
        for (int i = 0; i < 3; ++i) d.push_back(static_cast<int>(c.integer(-5, 5, "d")));
      } else {
        const int u = static_cast<int>(c.integer(-3, 3, "du")), v = static_cast<int>(c.integer(-3, 3, "dv"));
        d = {u, v, -(u + v), static_cast<int>(c.integer(-3, 3, "dw"))};
      }
      bool nz = false;
      for (auto x : d) nz = nz || x != 0;
      if (nz) return d;
      // shrinks to (0,0,1)
      if (!hcp) return {0, 0, 1};
      return {0, 0, 0, 1};
    }
  }
  CrystalStructure cubicStructure(const std::int64_t k) {
    return k == 0 ? CrystalStructure::Cubic : (k == 1 ? CrystalStructure::FCC : CrystalStructure::BCC);
  }

}  // namespace

// one enumerated cubic family per case
VERIF_SUB_W(cubic_family, 0.5) {
  const auto cs = cubicStructure(c.integer(0, 2, "structure"));
  const auto& F = families3();
  const auto idx = c.pick(F.size(), "family");
  const IV dir = genDir(c, false);
  Checker k{c, false};
  c.tag(std::string("structure.") + csname(cs));
  // the interaction matrix costs O(N^2 x 48 x ranks): small families always, large ones 1/8
  const bool big = orbit(cubicGroup(), F[idx]).size() > 12;
  checkFamily(k, cs, F[idx], dir, !big || c.chance(1, 16, "matrix"));
}
VERIF_SUB_W(hcp_family, 0.5) {
  const auto& F = families4();
  const auto idx = c.pick(F.size(), "family");
  const IV dir = genDir(c, true);
  Checker k{c, false};
  checkFamily(k, CrystalStructure::HCP, F[idx], dir, true);
}

// exhaustive sweeps: every enumerated family in one body (recorded findings are counted, not fatal)
VERIF_SUB_W(cubic_sweep, 0.0002) {
  const IV dir = genDir(c, false);
  Checker k{c, true};
  c.nontrivial(true);
  for (int st = 0; st < 3; ++st)
    for (const auto& f : families3()) checkFamily(k, cubicStructure(st), f, dir, false);
  c.tag("sweep.families." + std::to_string(3 * families3().size()));
}
VERIF_SUB_W(hcp_sweep, 0.0002) {
  const IV dir = genDir(c, true);
  Checker k{c, true};
  c.nontrivial(true);
  for (const auto& f : families4()) checkFamily(k, CrystalStructure::HCP, f, dir, false);
  c.tag("sweep.families." + std::to_string(families4().size()));
}

// Schmid factor values (single family, and the 2nd/3rd family of a larger description)
VERIF_SUB_W(schmid_value, 0.2) {
  const bool hcp = c.chance(1, 3, "hcp");
  const auto cs = hcp ? CrystalStructure::HCP : cubicStructure(c.integer(0, 2, "structure"));
  const auto& F = hcp ? families4() : families3();
  const Sys f = F[c.pick(F.size(), "family")];
  const IV dir = genDir(c, hcp);
  SSD d(cs);
  if (c.boolean("as_second_family")) {
    // family index 1 (every family has >= 3 systems: the index the library uses stays in bounds)
    const Sys f0 = F[c.pick(F.size(), "first_family")];
    try {
      addFamily(d, f0);
      addFamily(d, f);
      (void)d.getSlipSystems();
    } catch (const std::runtime_error&) {
      c.discard();  // overlapping families
    }
    c.tag("schmid.second_family");
    checkSchmidValues(c, d, 1, dir);
  } else {
    addFamily(d, f);
    c.tag("schmid.single_family");
    checkSchmidValues(c, d, 0, dir);
  }
  // family index >= number of systems of that family (HCP basal family, 3 systems, registered as
  // 4th family): with the recorded defect C56.schmid.value_per_system this is an out-of-bounds
  // write, so the class is only generated once that key is no longer a known finding
  if (verif::Global::get().known_keys.count("C56.schmid.value_per_system") == 0 &&
      c.chance(1, 3, "late_small_family")) {
    const IV d4 = genDir(c, true);
    SSD h(CrystalStructure::HCP);
    addFamily(h, Sys{{1, 1, -2, 0}, {1, -1, 0, 0}});
    addFamily(h, Sys{{1, 1, -2, 0}, {1, -1, 0, 1}});
    addFamily(h, Sys{{-2, 1, 1, 3}, {1, -1, 0, 1}});
    addFamily(h, Sys{{-2, 1, 1, 0}, {0, 0, 0, 1}});
    c.tag("schmid.late_small_family");
    for (std::size_t fi = 0; fi < 4; ++fi) checkSchmidValues(c, h, fi, d4);
  }
}

// must-throw class: plane . Burgers != 0
VERIF_SUB_W(ill_defined, 0.2) {
  const bool hcp = c.chance(1, 3, "hcp");
  const auto& V = hcp ? vectors4() : vectors3();
  const IV n = V[c.pick(V.size(), "n")], b = V[c.pick(V.size(), "b")];
  if (dot(n, b) == 0) c.discard();
  c.nontrivial(true);
  const auto cs = hcp ? CrystalStructure::HCP : cubicStructure(c.integer(0, 2, "structure"));
  bool thrown = false;
  try {
    SSD d(cs);
    addFamily(d, Sys{b, n});
    const auto gs = d.getSlipSystems(0);
    (void)gs;
  } catch (const std::runtime_error&) {
    thrown = true;
  }
  c.check(thrown, "C56.ill_defined_accepted", "<" + str(b) + ">{" + str(n) + "} with n.b != 0 produced slip systems");
}

// several families in one description: per-family results equal the single-family ones
VERIF_SUB_W(multi_family, 0.05) {
  const bool hcp = c.chance(1, 3, "hcp");
  const auto cs = hcp ? CrystalStructure::HCP : cubicStructure(c.integer(0, 2, "structure"));
  const auto& F = hcp ? families4() : families3();
  const auto& G = hcp ? hexagonalGroup() : cubicGroup();
  const int nf = static_cast<int>(c.integer(2, 3, "nfamilies"));
  std::vector<Sys> fams;
  std::set<Sys> all;
  for (int i = 0; i < nf; ++i) {
    const Sys f = F[c.pick(F.size(), "family")];
    // families must be distinct: skip one whose library-generated systems overlap the previous ones
    SSD tmp(cs);
    addFamily(tmp, f);
    bool overlap = false;
    for (const auto& g : tmp.getSlipSystems(0)) overlap = overlap || all.count(canon(fromSystem(g)));
    for (const auto& s : orbit(G, f)) overlap = overlap || all.count(s);
    if (overlap) c.discard();
    for (const auto& g : tmp.getSlipSystems(0)) all.insert(canon(fromSystem(g)));
    for (const auto& s : orbit(G, f)) all.insert(s);
    fams.push_back(f);
  }
  c.nontrivial(true);
  SSD d(cs);
  for (const auto& f : fams) addFamily(d, f);
  c.check(d.getNumberOfSlipSystemsFamilies() == fams.size(), "C56.multi.families", "number of families");
  const auto allgs = d.getSlipSystems();
  std::size_t total = 0;
  const IV dir = genDir(c, hcp);
  SSD::vec dv;
  if (!hcp) dv = SSD::vec3d{dir[0], dir[1], dir[2]};
  else dv = SSD::vec4d{dir[0], dir[1], dir[2], dir[3]};
  for (std::size_t i = 0; i < fams.size(); ++i) {
    SSD one(cs);
    addFamily(one, fams[i]);
    const auto ref1 = one.getSlipSystems(0);
    const auto gi = d.getSlipSystems(i);
    c.check(gi.size() == ref1.size() && allgs[i].size() == ref1.size(), "C56.multi.systems", "family sizes differ");
    for (std::size_t j = 0; j < gi.size(); ++j)
      c.check(fromSystem(gi[j]) == fromSystem(ref1[j]) && fromSystem(allgs[i][j]) == fromSystem(ref1[j]),
              "C56.multi.systems", "systems of family " + std::to_string(i) + " differ from the single-family description");
    total += gi.size();
    // Schmid factors of family i: in range, and equal to the single-family values
    // (all families have >= 3 systems, so the index used by the library stays in bounds)
    const auto sf = d.getSchmidFactors(dv, i);
    const auto sf1 = one.getSchmidFactors(dv, 0);
    c.check(sf.size() == gi.size(), "C56.multi.schmid", "size");
    for (auto v : sf) c.check(v >= -0.5L - 1e-12L && v <= 0.5L + 1e-12L, "C56.schmid.range", "outside [-1/2,1/2]");
  }
  c.check(d.getNumberOfSlipSystems() == total, "C56.multi.count", "total number of systems");
  // interaction matrix over several families: every ordered pair has a rank
  if (total <= 24) {
    const auto ims = d.getInteractionMatrixStructure();
    std::vector<SSD::system> flat;
    for (const auto& v : allgs) flat.insert(flat.end(), v.begin(), v.end());
    std::size_t seen = 0;
    for (const auto& g1 : flat)
      for (const auto& g2 : flat) {
        const auto r = ims.getRank(g1, g2);
        c.check(r < ims.rank(), "C56.multi.rank", "rank out of range");
        ++seen;
      }
    std::size_t listed = 0;
    for (const auto& v : ims.getSlidingSystemsInteraction()) {
      c.check(!v.empty(), "C56.multi.rank", "empty rank class");
      listed += v.size();
    }
    c.check(listed == seen, "C56.multi.rank", "classes do not partition the ordered pairs");
    // setInteractionMatrix wants exactly rank() values
    bool thrown = false;
    try {
      SSD e(d);
      e.setInteractionMatrix(std::vector<long double>(ims.rank() + 1, 1.L));
    } catch (const std::runtime_error&) {
      thrown = true;
    }
    c.check(thrown, "C56.multi.interaction_matrix_size", "wrong number of coefficients accepted");
    SSD e(d);
    e.setInteractionMatrix(std::vector<long double>(ims.rank(), 1.L));
    c.check(e.hasInteractionMatrix() && e.getInteractionMatrix().size() == ims.rank(), "C56.multi.interaction_matrix_size",
            "interaction matrix not stored");
  }
}

VERIF_MAIN("C56_slipsystems")
