//! C08 - Powell dog leg variants (Newton-Raphson and Broyden)
#define C08_WITH_PDL
#define C08_SOLVERS(X) X(PDLNR) X(PDLBR)
#include "C08_nonlinear.hxx"
VERIF_MAIN("C08_pdl")
