/*!
 * C05 - Isotropic tensor functions and their derivatives are consistent.
 *
 * Reference (refmath.hxx, long double, no TFEL code):
 *   value       F(s) = sum f(l_i) n_i (x) n_i       from ref::jacobi
 *   derivative  D = sum_a f'(l_a) N_a (x) N_a + sum_{a<b} theta_ab M_ab (x) M_ab
 *               N_a = n_a (x) n_a, M_ab = (n_a (x) n_b + n_b (x) n_a)/sqrt2,
 *               theta_ab = (f(l_a)-f(l_b))/(l_a-l_b), = f' (limit) when equal;
 *               small gaps use the Taylor form f'(mid) + f'''(mid) gap^2/24.
 *   The closed form itself is cross-checked in every case against a central
 *   finite difference (h and h/2) of the reference F (key C05.oracle_selfcheck:
 *   a failure there is a harness bug, not a TFEL one).
 *
 * Sub-checks
 *   static_*  : the static overloads taking (vp, m): the eigen decomposition is
 *               given exactly, only the assembly and the eps branches are tested
 *   member_*  : s.computeIsotropicFunction<es>, ...Derivative<es>,
 *               ...AndDerivative<es> and the free functions, es in {TFEL
 *               default, FSES Jacobi, GTE QR}
 *   decomposition_* : computeStensorPositivePartAndDerivative and
 *               computeStensorDecompositionInPositiveAndNegativeParts (pp, np,
 *               pp+np=s, dpp, dnp)
 *   named_*   : logarithm, absolute_value, positive_part, negative_part,
 *               square_root (default solver), positive_part + negative_part = s
 *
 * Tolerances are built from u (epsilon of double), the norm of s, bounds of
 * |f|, |f'|, |f''| on the spectrum interval and the gaps, see gapInfo() and
 * solverTol().
 */
#include "gens.hxx"
#include "TFEL/Math/stensor.hxx"
#include "TFEL/Math/st2tost2.hxx"
#include "TFEL/Math/Stensor/DecompositionInPositiveAndNegativeParts.hxx"
#include "TFEL/Math/tmatrix.hxx"
#include "TFEL/Math/tvector.hxx"

using ref::M3;
using ref::R;
using namespace tfel::math;
using ES = stensor_common::EigenSolver;

namespace {

  constexpr R U = static_cast<R>(std::numeric_limits<double>::epsilon());
  constexpr R K_U = 1024;     // x u x (scale of the quantity), assembly of ~100 flops
  constexpr R K_SOLVER = 32768;  // x u: backward error of the accurate eigen solvers (C03: <= 15 u) x conditioning
  constexpr R K_REG = 128;     // x eps x (|f''| + |f'|/gap3): regularised branches
  constexpr R K_AN = 256;     // x sqrt(u): default (analytical) solver, as in C03
  constexpr R K_NEAR = 256;   // x u/gap: default solver, near-degenerate spectra

  // ------------------------------------------------------------ scalar functions
  struct Fct {
    const char* name;
    R (*f)(R);
    R (*df)(R);
    R (*d3f)(R);  // third derivative (Taylor form of the divided difference)
    R (*d2f)(R);
    bool positive;   // needs a positive definite argument
    bool away0;      // not differentiable at 0
    bool homogeneous;  // may be used at any scale
  };
  R sgn(R x) { return x > 0 ? 1 : (x < 0 ? -1 : 0); }
  const Fct FCTS[] = {
      {"exp", [](R x) { return std::exp(x); }, [](R x) { return std::exp(x); },
       [](R x) { return std::exp(x); }, [](R x) { return std::exp(x); }, false, false, false},
      {"cube", [](R x) { return x * x * x; }, [](R x) { return 3 * x * x; }, [](R) { return R(6); },
       [](R x) { return 6 * x; }, false, false, true},
      {"square", [](R x) { return x * x; }, [](R x) { return 2 * x; }, [](R) { return R(0); },
       [](R) { return R(2); }, false, false, true},
      {"sin", [](R x) { return std::sin(x); }, [](R x) { return std::cos(x); },
       [](R x) { return -std::cos(x); }, [](R x) { return -std::sin(x); }, false, false, false},
      {"lorentz", [](R x) { return 1 / (1 + x * x); },
       [](R x) { return -2 * x / ((1 + x * x) * (1 + x * x)); },
       [](R x) { const R q = 1 + x * x; return 24 * x * (1 - x * x) / (q * q * q * q); },
       [](R x) { const R q = 1 + x * x; return (6 * x * x - 2) / (q * q * q); }, false, false, false},
      {"log", [](R x) { return std::log(x); }, [](R x) { return 1 / x; },
       [](R x) { return 2 / (x * x * x); }, [](R x) { return -1 / (x * x); }, true, false, false},
      {"sqrt", [](R x) { return std::sqrt(x); }, [](R x) { return 1 / (2 * std::sqrt(x)); },
       [](R x) { return 3 / (8 * x * x * std::sqrt(x)); },
       [](R x) { return -1 / (4 * x * std::sqrt(x)); }, true, false, false},
      {"abs", [](R x) { return std::fabs(x); }, [](R x) { return sgn(x); }, [](R) { return R(0); },
       [](R) { return R(0); }, false, true, true},
      {"ppos", [](R x) { return std::max(x, R(0)); }, [](R x) { return x > 0 ? R(1) : R(0); },
       [](R) { return R(0); }, [](R) { return R(0); }, false, true, true}};
  constexpr int NFCT = 9;

  //! double precision versions handed to TFEL
  double tf(int k, double x) {
    switch (k) {
      case 0: return std::exp(x);
      case 1: return x * x * x;
      case 2: return x * x;
      case 3: return std::sin(x);
      case 4: return 1 / (1 + x * x);
      case 5: return std::log(x);
      case 6: return std::sqrt(x);
      case 7: return std::fabs(x);
      default: return std::max(x, 0.);
    }
  }
  double tdf(int k, double x) {
    switch (k) {
      case 0: return std::exp(x);
      case 1: return 3 * x * x;
      case 2: return 2 * x;
      case 3: return std::cos(x);
      case 4: return -2 * x / ((1 + x * x) * (1 + x * x));
      case 5: return 1 / x;
      case 6: return 1 / (2 * std::sqrt(x));
      case 7: return x > 0 ? 1. : (x < 0 ? -1. : 0.);
      default: return x > 0 ? 1. : 0.;
    }
  }

  //! bounds of |f|, |f'|, |f''| on [lo,hi] (sampling: the functions are smooth
  //! with few extrema on the generated intervals; safety is in the K factors)
  struct Bounds {
    R f = 0, df = 0, d2f = 0;
  };
  Bounds bounds(const Fct& F, R lo, R hi) {
    Bounds b;
    for (int i = 0; i <= 64; ++i) {
      const R x = lo + (hi - lo) * i / 64;
      if (F.away0 && x == 0) continue;
      b.f = std::max(b.f, std::fabs(F.f(x)));
      b.df = std::max(b.df, std::fabs(F.df(x)));
      b.d2f = std::max(b.d2f, std::fabs(F.d2f(x)));
    }
    return b;
  }

  // ------------------------------------------------------------ reference
  using M66 = std::array<std::array<R, 6>, 6>;
  //! exact divided difference
  R theta(const Fct& F, R a, R b) {
    const R g = a - b;
    const R sc = std::max(std::fabs(a), std::fabs(b));
    if (F.away0 && a * b < 0) return (F.f(a) - F.f(b)) / g;
    if (std::fabs(g) <= 1e-4L * std::max(sc, R(1e-300))) {
      const R m = (a + b) / 2;
      return F.df(m) + F.d3f(m) * g * g / 24;
    }
    return (F.f(a) - F.f(b)) / g;
  }
  //! closed form of dF/ds in the Mandel basis from an eigen decomposition
  M66 refDerivative(const Fct& F, const R l[3], const M3& V) {
    M66 D{};
    std::array<R, 6> Nm[3], Mm[3];
    R n[3][3];
    for (int a = 0; a < 3; ++a)
      for (int i = 0; i < 3; ++i) n[a][i] = V(i, a);
    for (int a = 0; a < 3; ++a) Nm[a] = ref::toStensor(ref::dyad(n[a], n[a]));
    const int P[3][2] = {{0, 1}, {0, 2}, {1, 2}};
    for (int p = 0; p < 3; ++p) {
      const M3 m = ref::dyad(n[P[p][0]], n[P[p][1]]) + ref::dyad(n[P[p][1]], n[P[p][0]]);
      Mm[p] = ref::toStensor((1 / ref::sqrt2) * m);
    }
    for (int I = 0; I < 6; ++I)
      for (int J = 0; J < 6; ++J) {
        R s = 0;
        for (int a = 0; a < 3; ++a) s += F.df(l[a]) * Nm[a][I] * Nm[a][J];
        for (int p = 0; p < 3; ++p)
          s += theta(F, l[P[p][0]], l[P[p][1]]) * Mm[p][I] * Mm[p][J];
        D[I][J] = s;
      }
    return D;
  }
  M3 refValue(const Fct& F, const R l[3], const M3& V) {
    M3 D;
    for (int i = 0; i < 3; ++i) D(i, i) = F.f(l[i]);
    return V * D * ref::transpose(V);
  }
  //! D : dS for a symmetric direction
  M3 apply(const M66& D, const M3& dS) {
    const auto v = ref::toStensor(dS);
    std::array<R, 6> r{};
    for (int I = 0; I < 6; ++I)
      for (int J = 0; J < 6; ++J) r[I] += D[I][J] * v[J];
    return ref::fromStensor(r, 3);
  }
  /*!
   * cross-check of the closed form by central finite differences of the
   * reference function (Richardson pair h, h/2)
   */
  void selfCheck(verif::Case& c, const Fct& F, const M3& S, const M66& D, const M3& dS,
                 const Bounds& b, R nS, R minAbs) {
    // keep the perturbed spectrum inside the domain of f
    R h = 1e-5L * std::max(nS, R(1e-300));
    if (F.positive || F.away0) h = std::min(h, minAbs / 8);
    const std::function<R(R)> f = F.f;
    auto fd = [&](R hh) {
      const M3 Fp = ref::isoFunction(S + hh * dS, f), Fm = ref::isoFunction(S - hh * dS, f);
      return (1 / (2 * hh)) * (Fp - Fm);
    };
    const M3 d1 = fd(h), d2 = fd(h / 2), ex = apply(D, dS);
    const R rich = ref::norm(d1 - d2);
    const R tol = std::max(50 * rich, 1e-8L * (b.df + b.f / std::max(nS, R(1e-300))));
    c.close(ref::norm(d2 - ex), 0, tol, "C05.oracle_selfcheck",
            std::string("closed form vs finite difference of the reference, f=") + F.name);
  }

  // ------------------------------------------------------------ generator
  struct Input {
    int fct;
    R l[3];      // eigenvalues (exact doubles)
    M3 Q;        // rotation, entries exact doubles
    double eps;  // absolute
    std::string gapClass;
    R scale;
  };
  double rd(R x) { return static_cast<double>(x); }

  Input genInput(verif::Case& c, int N, bool namedOnly = false, int forcedFct = -1) {
    Input in;
    in.fct = forcedFct >= 0 ? forcedFct : static_cast<int>(c.integer(0, NFCT - 1, "fct"));
    const Fct& F = FCTS[in.fct];
    (void)namedOnly;
    in.scale = 1;
    if (F.homogeneous && c.boolean("scaled")) in.scale = c.log10real(-6, 9, "scale");
    const R epsRel[4] = {1e-14L, 1e-12L, 1e-10L, 1e-8L};
    const R er = epsRel[c.integer(0, 3, "eps")];
    // base eigenvalue
    auto base = [&](const char* n) -> R {
      if (F.positive) return c.real(0.05, 20., n);
      if (F.away0) return (c.boolean("neg") ? -1 : 1) * c.real(0.05, 2., n);
      return c.sreal(2., n);
    };
    const auto cls = c.integer(0, 6, "gap_class");
    R a = base("l0");
    R l0 = a, l1 = a, l2 = a;
    const R ref_ = std::max(std::fabs(a), R(0.05));  // size used for relative gaps
    const R e = er * ref_;
    auto far = [&](R x) {  // another eigenvalue at a relative distance >= 0.05
      R y = base("lfar");
      if (std::fabs(y - x) < 0.05L * std::max(std::fabs(x), R(1))) y = F.positive ? x * 1.5L : (F.away0 ? x * 1.5L : x + 0.3L);
      return y;
    };
    switch (cls) {
      case 0:
        in.gapClass = "distinct";
        l1 = far(l0);
        l2 = base("l2");
        if (std::fabs(l2 - l0) < 0.05L * std::max(std::fabs(l0), R(1)) ||
            std::fabs(l2 - l1) < 0.05L * std::max(std::fabs(l1), R(1)))
          l2 = F.positive || F.away0 ? std::max(std::fabs(l0), std::fabs(l1)) * 2 * sgn(l0) : std::max(l0, l1) + 0.5L;
        break;
      case 1:
        in.gapClass = "two_equal";
        l2 = far(l0);
        break;
      case 2:
        in.gapClass = "three_equal";
        break;
      case 3:
        in.gapClass = "gap_below_eps";
        l1 = l0 + c.real(0.01, 0.9, "t") * e;
        l2 = far(l0);
        break;
      case 4:
        in.gapClass = "gap_above_eps";
        l1 = l0 + c.real(1.1, 100., "t") * e;
        l2 = far(l0);
        break;
      case 5:
        in.gapClass = "three_within_eps";
        l1 = l0 + c.real(0.01, 0.45, "t1") * e;
        l2 = l0 - c.real(0.01, 0.45, "t2") * e;
        break;
      default:
        in.gapClass = "clustered3";  // a pair below eps, the third a few eps away
        l1 = l0 + c.real(0.01, 0.9, "t1") * e;
        l2 = l0 + c.real(1.5, 50., "t2") * e * (c.boolean("below") ? -1 : 1);
    }
    // placement of the three values on the three eigen directions
    R v[3] = {l0, l1, l2};
    static const int PERM[6][3] = {{0, 1, 2}, {1, 0, 2}, {0, 2, 1}, {2, 1, 0}, {1, 2, 0}, {2, 0, 1}};
    const auto p = c.integer(0, 5, "placement");
    for (int i = 0; i < 3; ++i) in.l[i] = R(rd(v[PERM[p][i]] * in.scale));
    in.eps = rd(e * in.scale);
    // rotation with entries exactly representable in double
    const M3 q = gen::rot(c, N);
    for (int i = 0; i < 3; ++i)
      for (int j = 0; j < 3; ++j) in.Q(i, j) = R(rd(q(i, j)));
    c.tag("fct." + std::string(F.name));
    c.tag("gap." + in.gapClass);
    return in;
  }

  template <unsigned short N>
  M66 toM66(const st2tost2<N, double>& d) {
    M66 r{};
    constexpr int n = N == 1 ? 3 : (N == 2 ? 4 : 6);
    for (unsigned short i = 0; i < n; ++i)
      for (unsigned short j = 0; j < n; ++j) r[i][j] = d(i, j);
    return r;
  }
  template <unsigned short N>
  R dist(const M66& a, const M66& b) {
    constexpr int n = N == 1 ? 3 : (N == 2 ? 4 : 6);
    R s = 0;
    for (int i = 0; i < n; ++i)
      for (int j = 0; j < n; ++j) s += (a[i][j] - b[i][j]) * (a[i][j] - b[i][j]);
    return std::sqrt(s);
  }

  /*!
   * gap structure seen by the documented eps criterion on the values passed
   * to the API, and the tolerance on the derivative that follows from it.
   */
  struct GapInfo {
    R gmin_gen = -1;  // smallest gap treated by the general formula (> eps)
    R reg = 0;        // eps-regularisation error bound (0 if no pair is merged)
    bool merged = false, clustered = false;
  };
  GapInfo gapInfo(const R l[3], R eps, const Bounds& b, int N) {
    GapInfo g;
    const int P[3][2] = {{0, 1}, {0, 2}, {1, 2}};
    bool eq[3];
    const int np = N == 3 ? 3 : (N == 2 ? 1 : 0);
    for (int p = 0; p < np; ++p) {
      const R d = std::fabs(l[P[p][0]] - l[P[p][1]]);
      eq[p] = d < eps;
      if (eq[p]) g.merged = true;
      else if (g.gmin_gen < 0 || d < g.gmin_gen) g.gmin_gen = d;
    }
    if (g.merged) {
      // merged pair(s): f' averaged (error <= eps |f''|), and in 3D the terms
      // that couple the pair to the third eigenvalue use the mean of the pair
      // for the denominator only (error <= eps |f'| / gap3)
      R reg = eps * b.d2f;
      if (N == 3 && !(eq[0] && eq[1] && eq[2]) && g.gmin_gen > 0) {
        // one coefficient replaces theta_02 and theta_12: they differ by up to
        // eps sup|d theta/d l| <= 2 eps max|f'| / gap3 (reached by |x| and
        // max(x,0) when the third eigenvalue has the other sign), whatever the
        // regularisation: this allowance does not depend on a known finding
        reg += eps * b.df / g.gmin_gen;
        if (g.gmin_gen < 100 * eps) g.clustered = true;
      }
      // a bound above 5% of |f'| is useless: gross errors are still reported
      g.reg = std::min(K_REG * reg, R(0.05) * b.df + K_REG * eps * b.d2f);
    }
    return g;
  }

  // ------------------------------------------------------------ static API
  template <unsigned short N>
  void static_api(verif::Case& c) {
    using S = stensor<N, double>;
    Input in = genInput(c, N);
    if (N == 1) in.Q = M3::Id();
    const Fct& F = FCTS[in.fct];
    const int k = in.fct;
    const R lo = std::min({in.l[0], in.l[1], in.l[2]}), hi = std::max({in.l[0], in.l[1], in.l[2]});
    const Bounds b = bounds(F, lo, hi);
    const M3 Sm = in.Q * [&] { M3 D; for (int i = 0; i < 3; ++i) D(i, i) = in.l[i]; return D; }() *
                  ref::transpose(in.Q);
    const R nS = std::sqrt(in.l[0] * in.l[0] + in.l[1] * in.l[1] + in.l[2] * in.l[2]);
    const R minAbs = std::min({std::fabs(in.l[0]), std::fabs(in.l[1]), std::fabs(in.l[2])});
    c.nontrivial(N >= 2 && gen::misalignment(in.Q) > 1e-3);
    if (in.gapClass != "distinct") c.tag("nontrivial.not_well_separated");
    // TFEL inputs
    tvector<3u, double> vp{rd(in.l[0]), rd(in.l[1]), rd(in.l[2])};
    const auto m = gen::toRotationMatrix<rotation_matrix<double>>(in.Q);
    auto f = [k](const double x) { return tf(k, x); };
    auto df = [k](const double x) { return tdf(k, x); };
    const tvector<3u, double> fv{f(vp[0]), f(vp[1]), f(vp[2])};
    const tvector<3u, double> dfv{df(vp[0]), df(vp[1]), df(vp[2])};
    // ---- value
    const M3 Fr = refValue(F, in.l, in.Q);
    const R tolF = K_U * U * b.f;
    {
      const S r1 = S::computeIsotropicFunction(f, vp, m);
      const S r2 = S::computeIsotropicFunction(fv, m);
      c.close(ref::norm(gen::stensorToM3(r1) - Fr), 0, tolF + 1e-300L, "C05.static.value",
              std::string("computeIsotropicFunction(f,vp,m), f=") + F.name);
      c.close(ref::norm(gen::stensorToM3(r2) - Fr), 0, tolF + 1e-300L, "C05.static.value",
              std::string("computeIsotropicFunction(fvalues,m), f=") + F.name);
    }
    // ---- derivative
    const M66 Dr = refDerivative(F, in.l, in.Q);
    // random symmetric direction for the oracle self check
    {
      M3 dS;
      for (int i = 0; i < 3; ++i) dS(i, i) = c.sreal(1., "ds");
      if (N >= 2) dS(0, 1) = dS(1, 0) = c.sreal(1., "ds");
      if (N == 3) {
        dS(0, 2) = dS(2, 0) = c.sreal(1., "ds");
        dS(1, 2) = dS(2, 1) = c.sreal(1., "ds");
      }
      selfCheck(c, F, Sm, Dr, dS, b, nS, minAbs);
    }
    const GapInfo g = gapInfo(in.l, R(in.eps), b, N);
    R tolD = K_U * U * (b.df + (g.gmin_gen > 0 ? b.f / g.gmin_gen : 0));
    std::string cls = g.merged ? ".regularised" : ".general";
    if (g.merged) tolD += g.reg;
    // pair merged while the third eigenvalue is less than 100 eps away
    if (g.clustered) cls = ".clustered3";
    tolD += 1e-300L;
    const std::string key = "C05.static.derivative" + cls;
    const std::string what = std::string(" f=") + F.name + " gap=" + in.gapClass;
    {
      const auto d1 = S::computeIsotropicFunctionDerivative(f, df, vp, m, in.eps);
      c.close(dist<N>(toM66<N>(d1), Dr), 0, tolD, key, "computeIsotropicFunctionDerivative(f,df,vp,m,eps)" + what);
      st2tost2<N, double> d2;
      S::computeIsotropicFunctionDerivative(d2, f, df, vp, m, in.eps);
      c.close(dist<N>(toM66<N>(d2), Dr), 0, tolD, key, "computeIsotropicFunctionDerivative(d,f,df,vp,m,eps)" + what);
      const auto d3 = S::computeIsotropicFunctionDerivative(fv, dfv, vp, m, in.eps);
      c.close(dist<N>(toM66<N>(d3), Dr), 0, tolD, key, "computeIsotropicFunctionDerivative(fv,dfv,vp,m,eps)" + what);
      st2tost2<N, double> d4;
      S::computeIsotropicFunctionDerivative(d4, fv, dfv, vp, m, in.eps);
      c.close(dist<N>(toM66<N>(d4), Dr), 0, tolD, key, "computeIsotropicFunctionDerivative(d,fv,dfv,vp,m,eps)" + what);
    }
  }

  // ------------------------------------------------------------ member API
  template <ES es>
  constexpr const char* esName() {
    if constexpr (es == ES::TFELEIGENSOLVER) return "tfel";
    else if constexpr (es == ES::FSESJACOBIEIGENSOLVER) return "fsesjacobi";
    else return "gteqr";
  }
  //! solver model shared with C03: relative accuracy of V f(L) V^T
  template <ES es, unsigned short N>
  R solverTol(const R rs[3], R nS) {
    if (N < 3 || es != ES::TFELEIGENSOLVER) return K_SOLVER * U;
    R gB = 0;
    bool degenerate = nS == 0;
    for (const R g : {rs[1] - rs[0], rs[2] - rs[1]}) {
      const R gr = nS > 0 ? g / nS : 0;
      if (gr <= 4 * U) degenerate = true;
      if (gr > 4 * U && gr < 1e-3L && (gB == 0 || gr < gB)) gB = gr;
    }
    R t = K_AN * std::sqrt(U);
    // degenerate class: the cross product eigenvectors are wrong by ~ u/sep,
    // sep >= 1000 u (merge threshold of StensorComputeEigenVectors<3>), i.e.
    // <= 1e-3 (C03: 3.3e-3 |s| observed on the reconstruction): 0.05
    if (degenerate) t = R(0.05);
    else if (gB > 0) t = std::max(t, K_NEAR * U / std::max(gB, 1000 * U));
    return std::min(t, R(0.5));
  }

  template <ES es, unsigned short N>
  void member_api(verif::Case& c) {
    using S = stensor<N, double>;
    Input in = genInput(c, N);
    if (N == 1) in.Q = M3::Id();
    const Fct& F = FCTS[in.fct];
    const int k = in.fct;
    const std::string sol = esName<es>();
    M3 D0;
    for (int i = 0; i < 3; ++i) D0(i, i) = in.l[i];
    const S s = gen::toStensor<S>(ref::sym(in.Q * D0 * ref::transpose(in.Q)));
    const M3 A = gen::stensorToM3(s);
    const bool refine = c.boolean("refine");
    R l[3];
    M3 V;
    ref::jacobi(A, l, V);
    R rs[3] = {l[0], l[1], l[2]};
    ref::sort3(rs);
    const R nS = ref::norm(A);
    const R minAbs = std::min({std::fabs(l[0]), std::fabs(l[1]), std::fabs(l[2])});
    if ((F.positive && rs[0] <= 0) || (F.away0 && minAbs < 0.01L * nS)) c.discard();
    const Bounds b = bounds(F, rs[0], rs[2]);
    c.nontrivial(N >= 2 && gen::misalignment(in.Q) > 1e-3);
    if (in.gapClass != "distinct") c.tag("nontrivial.not_well_separated");
    auto f = [k](const double x) { return tf(k, x); };
    auto df = [k](const double x) { return tdf(k, x); };
    // ---- value.  A backward stable solver returns the decomposition of s+E,
    // |E| <= k u |s|: the error is bounded by |E| max|theta| <= |E| max|f'|
    const R st = solverTol<es, N>(rs, nS);
    const R tolF = st * (b.f + b.df * nS) + 1e-300L;
    const M3 Fr = refValue(F, l, V);
    const std::string vkey = "C05.member.value." + sol;
    const S r1 = s.template computeIsotropicFunction<es>(f, refine);
    c.close(ref::norm(gen::stensorToM3(r1) - Fr), 0, tolF, vkey,
            "s.computeIsotropicFunction<" + sol + ">, f=" + F.name);
    const S r2 = computeIsotropicFunction<es>(f, s, refine);
    c.close(ref::norm(gen::stensorToM3(r2) - gen::stensorToM3(r1)), 0, 0, vkey,
            "free function computeIsotropicFunction differs from the method");
    // ---- derivative: only where the branch taken by the library is not
    // decided by rounding: exactly repeated eigenvalues (gap of the computed
    // eigenvalues << eps) and well separated ones, and with solvers whose
    // eigenvalues are accurate to a few u (the analytical default solver is
    // tested on separated spectra only)
    const bool sep = in.gapClass == "distinct";
    const bool rep = in.gapClass == "two_equal" || in.gapClass == "three_equal";
    if (!(sep || (rep && es != ES::TFELEIGENSOLVER))) {
      c.tag("derivative.not_checked");
      return;
    }
    const double eps = rd(std::max(R(in.eps), 1e-10L * nS));
    R lr[3] = {l[0], l[1], l[2]};
    if (rep) {
      // exact limit: collapse the eigenvalues that are equal up to rounding
      for (int i = 0; i < 3; ++i)
        for (int j = 0; j < i; ++j)
          if (std::fabs(lr[i] - lr[j]) <= 64 * U * nS) lr[i] = lr[j];
    }
    const M66 Dr = refDerivative(F, lr, V);
    const GapInfo g = gapInfo(lr, R(eps), b, N);
    // eigenvalues known to k u |s|: theta wrong by |f'| k u |s| / gap
    R tolD = st * (b.df + b.d2f * nS + (g.gmin_gen > 0 ? (b.f + b.df * nS) / g.gmin_gen : 0)) + g.reg + 1e-300L;
    const std::string dkey = "C05.member.derivative." + sol + (rep ? ".repeated" : ".separated");
    const std::string what = std::string(", f=") + F.name + " gap=" + in.gapClass;
    const auto d1 = s.template computeIsotropicFunctionDerivative<es>(f, df, eps, refine);
    c.close(dist<N>(toM66<N>(d1), Dr), 0, tolD, dkey, "s.computeIsotropicFunctionDerivative<" + sol + ">" + what);
    const auto d2 = computeIsotropicFunctionDerivative<es>(f, df, s, eps, refine);
    c.close(dist<N>(toM66<N>(d2), toM66<N>(d1)), 0, 0, dkey, "free function computeIsotropicFunctionDerivative differs from the method");
    const auto [r3, d3] = s.template computeIsotropicFunctionAndDerivative<es>(f, df, eps, refine);
    c.close(ref::norm(gen::stensorToM3(r3) - Fr), 0, tolF, vkey,
            "computeIsotropicFunctionAndDerivative<" + sol + ">.first, f=" + F.name);
    c.close(dist<N>(toM66<N>(d3), Dr), 0, tolD, dkey, "computeIsotropicFunctionAndDerivative<" + sol + ">.second" + what);
    const auto [r4, d4] = computeIsotropicFunctionAndDerivative<es>(f, df, s, eps, refine);
    c.close(ref::norm(gen::stensorToM3(r4) - gen::stensorToM3(r3)), 0, 0, vkey, "free function computeIsotropicFunctionAndDerivative differs from the method (value)");
    c.close(dist<N>(toM66<N>(d4), toM66<N>(d3)), 0, 0, dkey, "free function computeIsotropicFunctionAndDerivative differs from the method (derivative)");
  }

  // ------------------------------------------------------------ named functions
  template <unsigned short N>
  void named(verif::Case& c) {
    using S = stensor<N, double>;
    // 0 logarithm 1 absolute_value 2 positive_part 3 negative_part 4 square_root
    const int which = static_cast<int>(c.integer(0, 4, "named"));
    static const int FOF[5] = {5, 7, 8, 8, 6};
    Input in = genInput(c, N, true, FOF[which]);
    if (N == 1) in.Q = M3::Id();
    const Fct& F = FCTS[in.fct];
    static const char* NAMES[5] = {"logarithm", "absolute_value", "positive_part", "negative_part", "square_root"};
    c.tag(std::string("named.") + NAMES[which]);
    M3 D0;
    for (int i = 0; i < 3; ++i) D0(i, i) = in.l[i];
    const S s = gen::toStensor<S>(ref::sym(in.Q * D0 * ref::transpose(in.Q)));
    const M3 A = gen::stensorToM3(s);
    const bool refine = c.boolean("refine");
    R l[3];
    M3 V;
    ref::jacobi(A, l, V);
    R rs[3] = {l[0], l[1], l[2]};
    ref::sort3(rs);
    const R nS = ref::norm(A);
    const R minAbs = std::min({std::fabs(l[0]), std::fabs(l[1]), std::fabs(l[2])});
    if ((F.positive && rs[0] <= 0) || (F.away0 && minAbs < 0.01L * nS)) c.discard();
    const Bounds b = bounds(F, rs[0], rs[2]);
    c.nontrivial(N >= 2 && gen::misalignment(in.Q) > 1e-3);
    const R st = solverTol<ES::TFELEIGENSOLVER, N>(rs, nS);
    // positive / negative parts: |f| <= |s|, |f'| <= 1 whatever the signs
    const R tol = (which == 2 || which == 3 ? st * 2 * nS : st * (b.f + b.df * nS)) + 1e-300L;
    M3 expected;
    S got;
    switch (which) {
      case 0:
        got = logarithm(s, refine);
        expected = refValue(F, l, V);
        break;
      case 1:
        got = absolute_value(s, refine);
        expected = refValue(F, l, V);
        break;
      case 2:
        got = positive_part(s, refine);
        expected = refValue(F, l, V);
        break;
      case 3: {
        got = negative_part(s, refine);
        M3 Dn;
        for (int i = 0; i < 3; ++i) Dn(i, i) = std::min(l[i], R(0));
        expected = V * Dn * ref::transpose(V);
        break;
      }
      default:
        got = square_root(s);
        expected = refValue(F, l, V);
    }
    c.close(ref::norm(gen::stensorToM3(got) - expected), 0, tol, std::string("C05.named.") + NAMES[which],
            std::string(NAMES[which]) + " gap=" + in.gapClass);
    if (which == 2 || which == 3) {
      const S pp = positive_part(s, refine), np = negative_part(s, refine);
      c.close(ref::norm(gen::stensorToM3(S(pp + np)) - A), 0, st * nS + 1e-300L, "C05.named.pp_plus_np",
              "positive_part(s)+negative_part(s) != s, gap=" + in.gapClass);
    }
  }

  // ------------------------------------------------------------ decomposition
  /*!
   * computeStensorPositivePartAndDerivative and
   * computeStensorDecompositionInPositiveAndNegativeParts (N = 1,2,3): pp and
   * np against the reference positive / negative parts, pp + np = s, dpp and
   * dnp against the reference derivative of max(x,0) resp. min(x,0).
   * Eigenvalues away from 0 (>= 0.05 |l|, the regularisation of the kink at 0
   * is not part of the property), every sign pattern, eps = 1e-6 |s| (callers:
   * 1e-10 on strains of 1e-3), default eigen solver (the only one available
   * through these functions).
   */
  template <unsigned short N>
  void decomposition(verif::Case& c) {
    using S = stensor<N, double>;
    Input in = genInput(c, N, true, 8);
    if (N == 1) in.Q = M3::Id();
    const Fct& F = FCTS[8];
    M3 D0;
    for (int i = 0; i < 3; ++i) D0(i, i) = in.l[i];
    const S s = gen::toStensor<S>(ref::sym(in.Q * D0 * ref::transpose(in.Q)));
    const M3 A = gen::stensorToM3(s);
    R l[3];
    M3 V;
    ref::jacobi(A, l, V);
    R rs[3] = {l[0], l[1], l[2]};
    ref::sort3(rs);
    const R nS = ref::norm(A);
    const R minAbs = std::min({std::fabs(l[0]), std::fabs(l[1]), std::fabs(l[2])});
    if (minAbs < 0.01L * nS) c.discard();
    c.nontrivial(N >= 2 && gen::misalignment(in.Q) > 1e-3);
    const int npos = (l[0] > 0) + (l[1] > 0) + (l[2] > 0);
    c.tag("signs.positive" + std::to_string(npos));
    if (in.gapClass != "distinct") c.tag("nontrivial.not_well_separated");
    const double eps = rd(1e-6L * nS);
    const R st = solverTol<ES::TFELEIGENSOLVER, N>(rs, nS);
    // a pair closer than eps is merged (mean eigenvalue on both directions):
    // the values move by at most the gap
    R tolV = st * 2 * nS + 1e-300L;
    if (rs[1] - rs[0] < 2 * R(eps) || rs[2] - rs[1] < 2 * R(eps)) tolV += 8 * R(eps);
    // reference values
    M3 Dp, Dn;
    for (int i = 0; i < 3; ++i) {
      Dp(i, i) = std::max(l[i], R(0));
      Dn(i, i) = std::min(l[i], R(0));
    }
    const M3 PP = V * Dp * ref::transpose(V), NP = V * Dn * ref::transpose(V);
    // reference derivatives (exact limit at the eigenvalues equal up to rounding)
    R lr[3] = {l[0], l[1], l[2]};
    for (int i = 0; i < 3; ++i)
      for (int j = 0; j < i; ++j)
        if (std::fabs(lr[i] - lr[j]) <= 64 * U * nS) lr[i] = lr[j];
    const M66 DP = refDerivative(F, lr, V);
    M66 DN{};
    for (int i = 0; i < 6; ++i)
      for (int j = 0; j < 6; ++j) DN[i][j] = (i == j ? 1 : 0) - DP[i][j];
    const Bounds b = bounds(F, rs[0], rs[2]);
    const GapInfo g = gapInfo(lr, R(eps), b, N);
    // derivatives are asserted where the branch taken is not decided by
    // rounding: well separated or exactly repeated eigenvalues
    const bool sep = in.gapClass == "distinct";
    const bool rep = in.gapClass == "two_equal" || in.gapClass == "three_equal";
    const bool checkD = sep || rep;
    const R tolD = st * (1 + (g.gmin_gen > 0 ? 2 * nS / g.gmin_gen : 0)) + g.reg + 1e-300L;
    const std::string cls = rep ? ".repeated" : (sep ? ".separated" : ".near");
    const std::string what = " gap=" + in.gapClass + " positive eigenvalues=" + std::to_string(npos);
    {
      st2tost2<N, double> dpp;
      S pp;
      computeStensorPositivePartAndDerivative(dpp, pp, s, eps);
      c.close(ref::norm(gen::stensorToM3(pp) - PP), 0, tolV, "C05.decomposition.pp" + cls,
              "computeStensorPositivePartAndDerivative: pp" + what);
      if (checkD)
        c.close(dist<N>(toM66<N>(dpp), DP), 0, tolD, "C05.decomposition.dpp" + cls,
                "computeStensorPositivePartAndDerivative: dpp" + what);
    }
    {
      st2tost2<N, double> dpp, dnp;
      S pp, np;
      computeStensorDecompositionInPositiveAndNegativeParts(dpp, dnp, pp, np, s, eps);
      c.close(ref::norm(gen::stensorToM3(pp) - PP), 0, tolV, "C05.decomposition.pp" + cls,
              "computeStensorDecompositionInPositiveAndNegativeParts: pp" + what);
      c.close(ref::norm(gen::stensorToM3(np) - NP), 0, tolV, "C05.decomposition.np" + cls,
              "computeStensorDecompositionInPositiveAndNegativeParts: np" + what);
      c.close(ref::norm(gen::stensorToM3(S(pp + np)) - A), 0, tolV, "C05.decomposition.pp_plus_np" + cls,
              "computeStensorDecompositionInPositiveAndNegativeParts: pp+np != s" + what);
      if (checkD) {
        c.close(dist<N>(toM66<N>(dpp), DP), 0, tolD, "C05.decomposition.dpp" + cls,
                "computeStensorDecompositionInPositiveAndNegativeParts: dpp" + what);
        // input class of the dnp claim: 3D tensor with a negative eigenvalue
        c.close(dist<N>(toM66<N>(dnp), DN), 0, tolD,
                "C05.decomposition.dnp" + cls + (N == 3 && npos < 3 ? ".3d_negative" : ""),
                "computeStensorDecompositionInPositiveAndNegativeParts: dnp" + what);
      }
    }
  }

}  // namespace

VERIF_SUB_W(static_1d, 0.3) { static_api<1u>(c); }
VERIF_SUB(static_2d) { static_api<2u>(c); }
VERIF_SUB(static_3d) { static_api<3u>(c); }
VERIF_SUB_W(member_tfel_2d, 0.5) { member_api<ES::TFELEIGENSOLVER, 2u>(c); }
VERIF_SUB(member_tfel_3d) { member_api<ES::TFELEIGENSOLVER, 3u>(c); }
VERIF_SUB_W(member_jacobi_2d, 0.5) { member_api<ES::FSESJACOBIEIGENSOLVER, 2u>(c); }
VERIF_SUB(member_jacobi_3d) { member_api<ES::FSESJACOBIEIGENSOLVER, 3u>(c); }
VERIF_SUB_W(member_gte_3d, 0.5) { member_api<ES::GTESYMMETRICQREIGENSOLVER, 3u>(c); }
VERIF_SUB_W(member_tfel_1d, 0.2) { member_api<ES::TFELEIGENSOLVER, 1u>(c); }
VERIF_SUB_W(named_1d, 0.2) { named<1u>(c); }
VERIF_SUB_W(named_2d, 0.5) { named<2u>(c); }
VERIF_SUB(named_3d) { named<3u>(c); }
VERIF_SUB_W(decomposition_1d, 0.2) { decomposition<1u>(c); }
VERIF_SUB_W(decomposition_2d, 0.5) { decomposition<2u>(c); }
VERIF_SUB(decomposition_3d) { decomposition<3u>(c); }

VERIF_MAIN("C05_isotropic")
