/*!
 * \file C02_common.hxx
 * \brief helpers shared by the C02 / C06 harnesses (comparison of TFEL second
 * order objects with reference matrices, non-triviality rule).
 */
#ifndef VERIF_C02_COMMON_HXX
#define VERIF_C02_COMMON_HXX

#include "fourth.hxx"

namespace {

  using ref::M3;
  using ref::R;
  using ref::T4;


  template <typename T>
  constexpr R U() {
    return static_cast<R>(std::numeric_limits<T>::epsilon());
  }
  template <typename T>
  constexpr R tinyOf() {
    return static_cast<R>(std::numeric_limits<T>::min()) * 1e3L;
  }

  //! tolerance for operations that are exact in the tested type: only the
  //! rounding of the long double oracle itself (sqrt2 factors of the bases)
  inline R exactTol(R n) { return 1024 * static_cast<R>(std::numeric_limits<R>::epsilon()) * n; }

  //! the property's non-triviality rule for a matrix in dimension N
  bool nonsym(const M3& m, int N) {
    if (N == 3) return ref::norm(m) > 0;
    if (N == 2) return m(0, 1) != 0 && m(1, 0) != 0 && m(0, 1) != m(1, 0);
    return false;
  }

  template <typename TT>
  void cmpT(verif::Case& c, const TT& t, const M3& e, R tol, const std::string& key,
            const std::string& what) {
    const int N = t.size() == 3 ? 1 : (t.size() == 5 ? 2 : 3);
    const auto v = ref::toTensor(e);
    for (int k = 0; k < ref::tensorSize(N); ++k)
      c.close(static_cast<R>(t[k]), v[k], tol, key, what + " component " + std::to_string(k));
  }
  template <typename S>
  void cmpS(verif::Case& c, const S& s, const M3& e, R tol, const std::string& key,
            const std::string& what) {
    const int N = s.size() == 3 ? 1 : (s.size() == 4 ? 2 : 3);
    const auto v = ref::toStensor(e);
    for (int k = 0; k < ref::stensorSize(N); ++k)
      c.close(static_cast<R>(s[k]), v[k], tol, key, what + " component " + std::to_string(k));
  }


  /*!
   * does the LU decomposition used by det(st2tost2) / det(t2tot2) (LU/LUDecomp.ixx: the
   * rows are exchanged when |pivot| <= max|column|/10) exchange rows on this
   * matrix?  Only used to *label* the input class (key), never as an oracle.
   */
  inline bool luExchangesRows(int n, ref::Vec a, R u) {
    // the comparison is made by the library in the tested type on rounded entries:
    // ambiguous steps (ratio within 1e4 u of the threshold) are labelled as exchanges
    const R thr = 0.1L * (1 + 1e4L * u);
    for (int k = 0; k < n; ++k) {
      int piv = k;
      R cmax = std::fabs(a[static_cast<std::size_t>(k * n + k)]);
      for (int i = k + 1; i < n; ++i)
        if (std::fabs(a[static_cast<std::size_t>(i * n + k)]) > cmax) {
          cmax = std::fabs(a[static_cast<std::size_t>(i * n + k)]);
          piv = i;
        }
      if (cmax == 0) return false;  // singular: the decomposition stops
      if (piv != k && std::fabs(a[static_cast<std::size_t>(k * n + k)]) <= cmax * thr) {
        return true;
      }
      for (int i = k + 1; i < n; ++i) {
        const R f = a[static_cast<std::size_t>(i * n + k)] / a[static_cast<std::size_t>(k * n + k)];
        for (int j = k; j < n; ++j)
          a[static_cast<std::size_t>(i * n + j)] -= f * a[static_cast<std::size_t>(k * n + j)];
      }
    }
    return false;
  }


  /*!
   * n x n matrix from classes that force (or not) row exchanges in an LU
   * decomposition with threshold pivoting: tiny or zero diagonal entries,
   * row-permuted triangular, small integers, sparse integers, dense.
   */
  inline ref::Vec pivotMatrix(verif::Case& c, int n) {
    ref::Vec g(static_cast<std::size_t>(n * n), R(0));
    auto at = [&](int I, int J) -> R& { return g[static_cast<std::size_t>(I * n + J)]; };
    const auto cls = c.integer(0, 4, "pivot_class");
    switch (cls) {
      case 0: {
        c.tag("pivot.tiny_leading");
        // identity + bounded perturbation, some diagonal entries tiny or zero
        for (int I = 0; I < n; ++I)
          for (int J = 0; J < n; ++J) at(I, J) = (I == J ? R(1) : R(0)) + R(c.sreal(0.5, "p")) / n;
        const int k = static_cast<int>(c.integer(0, n - 1, "which"));
        at(k, k) = c.boolean("zero") ? R(0) : R(c.log10real(-12, -1.5, "tiny"));
        if (c.boolean("two")) at(0, 0) = c.boolean("zero0") ? R(0) : R(c.log10real(-12, -1.5, "tiny0"));
        break;
      }
      case 1: {
        c.tag("pivot.permuted_triangular");
        ref::Vec t(static_cast<std::size_t>(n * n), R(0));
        const bool upper = c.boolean("upper");
        for (int I = 0; I < n; ++I)
          for (int J = 0; J < n; ++J) {
            if (I == J) t[static_cast<std::size_t>(I * n + J)] = (c.boolean("neg") ? -1 : 1) * R(c.real(0.5, 2., "diag"));
            else if ((J > I) == upper) t[static_cast<std::size_t>(I * n + J)] = R(c.sreal(1., "off"));
          }
        std::vector<int> perm(static_cast<std::size_t>(n));
        for (int I = 0; I < n; ++I) perm[static_cast<std::size_t>(I)] = I;
        for (int I = n - 1; I > 0; --I)
          std::swap(perm[static_cast<std::size_t>(I)],
                    perm[static_cast<std::size_t>(c.integer(0, I, "perm"))]);
        for (int I = 0; I < n; ++I)
          for (int J = 0; J < n; ++J)
            at(I, J) = t[static_cast<std::size_t>(perm[static_cast<std::size_t>(I)] * n + J)];
        break;
      }
      case 2:
        c.tag("pivot.small_int");
        for (auto& x : g) x = R(c.integer(-3, 3, "c"));
        break;
      case 3:
        c.tag("pivot.sparse_int");
        for (auto& x : g) x = c.chance(1, 2, "nz") ? R(c.integer(-2, 2, "c")) : R(0);
        break;
      default:
        c.tag("pivot.dense");
        for (auto& x : g) x = R(c.sreal(1., "c"));
    }
    return g;
  }

}  // namespace

#endif /* VERIF_C02_COMMON_HXX */
