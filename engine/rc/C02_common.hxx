/*!
 * \file C02_common.hxx
 * \brief helpers shared by the C02 / C06 harnesses (comparison of TFEL second
 * order objects with reference matrices, non-triviality rule).
 */
#ifndef VERIF_C02_COMMON_HXX
#define VERIF_C02_COMMON_HXX

#include "fourth.hxx"

namespace {

  using ref::M3;
  using ref::R;
  using ref::T4;


  template <typename T>
  constexpr R U() {
    return static_cast<R>(std::numeric_limits<T>::epsilon());
  }
  template <typename T>
  constexpr R tinyOf() {
    return static_cast<R>(std::numeric_limits<T>::min()) * 1e3L;
  }

  //! tolerance for operations that are exact in the tested type: only the
  //! rounding of the long double oracle itself (sqrt2 factors of the bases)
  inline R exactTol(R n) { return 1024 * static_cast<R>(std::numeric_limits<R>::epsilon()) * n; }

  //! the property's non-triviality rule for a matrix in dimension N
  bool nonsym(const M3& m, int N) {
    if (N == 3) return ref::norm(m) > 0;
    if (N == 2) return m(0, 1) != 0 && m(1, 0) != 0 && m(0, 1) != m(1, 0);
    return false;
  }

  template <typename TT>
  void cmpT(verif::Case& c, const TT& t, const M3& e, R tol, const std::string& key,
            const std::string& what) {
    const int N = t.size() == 3 ? 1 : (t.size() == 5 ? 2 : 3);
    const auto v = ref::toTensor(e);
    for (int k = 0; k < ref::tensorSize(N); ++k)
      c.close(static_cast<R>(t[k]), v[k], tol, key, what + " component " + std::to_string(k));
  }
  template <typename S>
  void cmpS(verif::Case& c, const S& s, const M3& e, R tol, const std::string& key,
            const std::string& what) {
    const int N = s.size() == 3 ? 1 : (s.size() == 4 ? 2 : 3);
    const auto v = ref::toStensor(e);
    for (int k = 0; k < ref::stensorSize(N); ++k)
      c.close(static_cast<R>(s[k]), v[k], tol, key, what + " component " + std::to_string(k));
  }


}  // namespace

#endif /* VERIF_C02_COMMON_HXX */
