/*!
 * C10 - CubicRoots::exe returns genuine roots.
 *
 * Oracle: the real roots of the polynomial *actually passed* (rounded
 * coefficients) are recomputed in long double by an independent method
 * (critical points + sign changes + bisection, no Cardano formula), see
 * refCubic below.  Claims checked (only what the property states):
 *  - three well separated real roots  => exe returns 3 and the three values
 *    match the reference roots within K.u.S.cond,
 *  - one real root and a well separated complex pair => exe returns 1 and the
 *    real root is among the returned values,
 *  - every value presented as a root (all three if 3 is returned, the matching
 *    one if 1) makes |P| <= K.u.sum|a_k| S^k (S = largest root modulus): this is
 *    what a perturbation eps^(1/m).S of a root of multiplicity m gives, so the
 *    same bound serves the multiple root classes,
 *  - refinement (b=true) never increases |P| beyond the rounding noise of the
 *    double Horner evaluation used by CubicRoots::improve to compare.
 * In the nearly-multiple classes the returned count (3 or 1) is not constrained.
 * Non trivial: depressed p=0 or q=0 shapes, multiple root classes, or scale != 1.
 */
#include "gens.hxx"
#include "TFEL/Math/General/CubicRoots.hxx"

using ref::R;

namespace {

  R evalP(const R a3, const R a2, const R a1, const R a0, const R x) {
    return ((a3 * x + a2) * x + a1) * x + a0;
  }
  //! sum |a_k| s^k
  R magP(const R a3, const R a2, const R a1, const R a0, const R s) {
    return ((std::fabs(a3) * s + std::fabs(a2)) * s + std::fabs(a1)) * s + std::fabs(a0);
  }
  int sgn(const R v) { return (v > 0) - (v < 0); }

  struct RefCubic {
    int nreal = 0;
    R r[3] = {0, 0, 0};  // sorted real roots (nreal of them)
    R re = 0, im = 0;    // complex pair when nreal == 1
  };

  //! root of P in [lo,hi] knowing sign(P(lo)) != sign(P(hi))
  R bisect(const R a3, const R a2, const R a1, const R a0, R lo, R hi) {
    int slo = sgn(evalP(a3, a2, a1, a0, lo));
    if (slo == 0) return lo;
    if (sgn(evalP(a3, a2, a1, a0, hi)) == 0) return hi;
    for (int it = 0; it < 400; ++it) {
      const R mid = lo + (hi - lo) / 2;
      if (!(mid > lo && mid < hi)) break;
      const int sm = sgn(evalP(a3, a2, a1, a0, mid));
      if (sm == 0) return mid;
      if (sm == slo) lo = mid;
      else hi = mid;
    }
    return lo + (hi - lo) / 2;
  }

  /*!
   * real roots of a3 x^3+a2 x^2+a1 x+a0 (a3 != 0) in long double: the
   * derivative's roots split the line in monotone pieces; each piece with a sign
   * change holds exactly one root, found by bisection.
   */
  RefCubic refCubic(const R a3, const R a2, const R a1, const R a0) {
    RefCubic o;
    const R B = 1 + std::max({std::fabs(a2), std::fabs(a1), std::fabs(a0)}) / std::fabs(a3);
    const R disc = a2 * a2 - 3 * a3 * a1;
    std::vector<R> knots{-B};
    if (disc > 0) {
      const R sq = std::sqrt(disc);
      const R qq = -(a2 + (a2 >= 0 ? sq : -sq));
      R x1 = qq / (3 * a3);
      R x2 = qq != 0 ? a1 / qq : x1;
      if (x1 > x2) std::swap(x1, x2);
      if (x1 > -B && x1 < B) knots.push_back(x1);
      if (x2 > -B && x2 < B && x2 > x1) knots.push_back(x2);
    }
    knots.push_back(B);
    for (std::size_t k = 0; k + 1 < knots.size(); ++k) {
      const int s0 = sgn(evalP(a3, a2, a1, a0, knots[k]));
      const int s1 = sgn(evalP(a3, a2, a1, a0, knots[k + 1]));
      if (s0 == s1 && s0 != 0) continue;
      if (o.nreal < 3) o.r[o.nreal++] = bisect(a3, a2, a1, a0, knots[k], knots[k + 1]);
    }
    std::sort(o.r, o.r + o.nreal);
    if (o.nreal == 1) {
      const R A = a2 / a3, Bc = a1 / a3, r = o.r[0];
      const R s = A + r;           // x^2 + s x + t
      const R t = Bc + r * s;
      o.re = -s / 2;
      const R im2 = t - s * s / 4;
      o.im = im2 > 0 ? std::sqrt(im2) : 0;
    }
    return o;
  }

  template <typename T>
  struct Dom;
  template <>
  struct Dom<double> {
    static constexpr int ka = 10, kslo = -8, kshi = 8, kqlo = -6, kplo = -4;
  };
  template <>
  struct Dom<float> {
    // float: p^3 and q^2 underflow in the discriminant of clustered roots as
    // soon as the root scale is below ~1e-2 (p ~ u S^2, prec = 100 min): outside the domain
    static constexpr int ka = 3, kslo = 0, kshi = 3, kqlo = -2, kplo = -2;
  };

  //! a dyadic number k/8 * 2^e, exactly representable, products stay exact
  R dyadic(verif::Case& c, const char* n) {
    const auto k = c.integer(-24, 24, n);
    const auto e = c.integer(-3, 3, "dy_exp");
    return std::ldexp(static_cast<R>(k) / 8, static_cast<int>(e));
  }

  template <typename T>
  void cubic(verif::Case& c) {
    const R u = static_cast<R>(std::numeric_limits<T>::epsilon());
    const auto cls = c.integer(0, 9, "class");
    bool special = false;
    T a3, a2, a1, a0;
    auto fromRoots = [&](const R A3, const R r1, const R r2, const R r3) {
      a3 = static_cast<T>(A3);
      a2 = static_cast<T>(-A3 * (r1 + r2 + r3));
      a1 = static_cast<T>(A3 * (r1 * r2 + r1 * r3 + r2 * r3));
      a0 = static_cast<T>(-A3 * r1 * r2 * r3);
    };
    auto fromPair = [&](const R A3, const R r, const R re, const R im) {
      // (x-r)(x^2 - 2 re x + re^2+im^2)
      const R m2 = re * re + im * im;
      a3 = static_cast<T>(A3);
      a2 = static_cast<T>(-A3 * (r + 2 * re));
      a1 = static_cast<T>(A3 * (m2 + 2 * re * r));
      a0 = static_cast<T>(-A3 * r * m2);
    };
    auto lead = [&]() -> R {
      if (c.chance(1, 3, "unit_a3")) return c.boolean("neg_a3") ? -1 : 1;
      const R v = c.log10real(-Dom<T>::ka, Dom<T>::ka, "a3");
      return c.boolean("neg_a3") ? -v : v;
    };
    auto rscale = [&]() -> R {
      if (c.chance(1, 3, "unit_scale")) return 1;
      special = true;
      return c.log10real(Dom<T>::kslo, Dom<T>::kshi, "scale");
    };
    switch (cls) {
      case 0:
      case 1: {
        c.tag("cubic.three_real");
        const R s = rscale();
        fromRoots(lead(), s * c.sreal(1., "r1"), s * c.sreal(1., "r2"), s * c.sreal(1., "r3"));
        break;
      }
      case 2: {
        c.tag("cubic.double_root");
        special = true;
        const R s = rscale();
        const R r2 = s * c.sreal(1., "r2");
        fromRoots(lead(), s * c.sreal(1., "r1"), r2, r2);
        break;
      }
      case 3: {
        c.tag("cubic.triple_or_cluster");
        special = true;
        const R s = rscale();
        // centre of the cluster away from 0 (|r| >= 0.1 s): the cluster must not
        // drag the whole problem to the underflow scale
        const R r = (c.boolean("neg_r") ? -s : s) * c.real(0.1, 1., "r");
        if (c.boolean("exact_triple")) {
          fromRoots(lead(), r, r, r);
        } else {  // p and q both tiny
          const R g1 = s * c.log10real(-12, -4, "gap1"), g2 = s * c.log10real(-12, -4, "gap2");
          fromRoots(lead(), r, r + g1, r - g2);
        }
        break;
      }
      case 4:
      case 5: {
        c.tag("cubic.one_real_pair");
        const R s = rscale();
        fromPair(lead(), s * c.sreal(1., "r"), s * c.sreal(1., "re"), s * c.real(1e-3, 1., "im"));
        break;
      }
      case 6: {
        // depressed shape p = 0 : a3((x-s)^3 + q); s dyadic so that the
        // tested code's p is exactly 0, q of both signs
        c.tag("cubic.p_zero");
        special = true;
        const R s = c.chance(1, 2, "no_shift") ? R(0) : dyadic(c, "shift");
        const R A3 = c.boolean("pow2_a3") ? std::ldexp(R(1), static_cast<int>(c.integer(-6, 6, "a3exp")))
                                          : lead();
        R q = c.chance(1, 4, "int_q") ? static_cast<R>(c.integer(-27, 27, "q"))
                                      : c.sreal(1., "q") * c.log10real(Dom<T>::kqlo, 6, "qscale");
        a3 = static_cast<T>(A3);
        a2 = static_cast<T>(-3 * s * A3);
        a1 = static_cast<T>(3 * s * s * A3);
        a0 = static_cast<T>(A3 * (q - s * s * s));
        break;
      }
      case 7: {
        // depressed shape q = 0 : a3 (x-s)((x-s)^2 + p), both signs of p
        c.tag("cubic.q_zero");
        special = true;
        const R s = c.chance(1, 2, "no_shift") ? R(0) : dyadic(c, "shift");
        const R A3 = c.boolean("pow2_a3") ? std::ldexp(R(1), static_cast<int>(c.integer(-6, 6, "a3exp")))
                                          : lead();
        const R p = c.chance(1, 2, "dy_p") ? dyadic(c, "p") : c.sreal(1., "p") * c.log10real(Dom<T>::kplo, 4, "pscale");
        a3 = static_cast<T>(A3);
        a2 = static_cast<T>(-3 * s * A3);
        a1 = static_cast<T>((3 * s * s + p) * A3);
        a0 = static_cast<T>(-A3 * s * (s * s + p));
        break;
      }
      case 8: {
        // nearly x^3+q : a3((x-s)^3 + p (x-s) + q) with |p|^3 << q^2, the region
        // where sqrt(q^2+4p^3/27)-|q| cancels in Cardano's formula
        c.tag("cubic.near_p_zero");
        special = true;
        const R s = c.chance(1, 2, "no_shift") ? R(0) : dyadic(c, "shift");
        const R A3 = c.chance(1, 2, "unit_a3") ? R(1) : lead();
        const R q = c.chance(1, 4, "int_q") ? static_cast<R>(c.integer(-27, 27, "q"))
                                            : c.sreal(1., "q") * c.log10real(Dom<T>::kqlo, 6, "qscale");
        R p = std::pow(std::fabs(q), 2 / R(3)) * c.log10real(-12, -1, "prel");
        if (c.boolean("neg_p")) p = -p;
        a3 = static_cast<T>(A3);
        a2 = static_cast<T>(-3 * s * A3);
        a1 = static_cast<T>((3 * s * s + p) * A3);
        a0 = static_cast<T>(A3 * (q - s * (s * s + p)));
        break;
      }
      default: {
        c.tag("cubic.small_int_coefs");
        a3 = static_cast<T>(c.integer(1, 4, "a3"));
        if (c.boolean("neg_a3")) a3 = -a3;
        a2 = static_cast<T>(c.integer(-6, 6, "a2"));
        a1 = static_cast<T>(c.integer(-12, 12, "a1"));
        a0 = static_cast<T>(c.integer(-12, 12, "a0"));
      }
    }
    const R A3 = a3, A2 = a2, A1 = a1, A0 = a0;
    if (!(std::fabs(A3) > 0) || !std::isfinite(static_cast<double>(A2 + A1 + A0))) c.discard();
    const RefCubic rf = refCubic(A3, A2, A1, A0);
    if (rf.nreal != 1 && rf.nreal != 3) {
      // two sign changes only: a double root seen on one side; nearly multiple
      c.tag("ref.degenerate");
    }
    // largest root modulus, separations
    R S = 0;
    for (int i = 0; i < rf.nreal; ++i) S = std::max(S, std::fabs(rf.r[i]));
    if (rf.nreal == 1) S = std::max(S, std::sqrt(rf.re * rf.re + rf.im * rf.im));
    if (S == 0) S = static_cast<R>(std::numeric_limits<T>::min()) * 1e6L;
    // distance of real root i to the two other roots
    auto dist = [&](int i, R& d1, R& d2) {
      if (rf.nreal == 3) {
        d1 = std::fabs(rf.r[i] - rf.r[(i + 1) % 3]);
        d2 = std::fabs(rf.r[i] - rf.r[(i + 2) % 3]);
      } else {
        d1 = d2 = std::sqrt((rf.r[i] - rf.re) * (rf.r[i] - rf.re) + rf.im * rf.im);
      }
    };
    bool wellsep = rf.nreal == 1 || rf.nreal == 3;
    R mind = S;
    for (int i = 0; i < rf.nreal && wellsep; ++i) {
      R d1, d2;
      dist(i, d1, d2);
      mind = std::min({mind, d1, d2});
    }
    if (rf.nreal == 1) mind = std::min(mind, rf.im);  // the pair must not be a near double real root
    // "well separated": the first order conditioning u (S/d)^2 S of a root must
    // stay far below the separation itself, i.e. (d/S)^3 >> u
    const R sepmin = std::max<R>(1e-3L, 20 * std::cbrt(u));
    wellsep = wellsep && mind >= sepmin * S;
    // depressed-form class of the input (mathematical definition, long double)
    const R pa = A1 / A3, pb = A2 * A2 / (3 * A3 * A3);
    const bool pzero = std::fabs(pa - pb) <= 8 * u * (std::fabs(pa) + std::fabs(pb));
    // depressed q and the ratio rho = |4p^3/27| / q^2 (Cardano's sqrt(q^2+4p^3/27)-|q|
    // cancels when rho << 1)
    const R dp = pa - pb;
    const R dq = A0 / A3 - (A2 / (3 * A3)) * (A1 / A3) + 2 * (A2 / (3 * A3)) * (A2 / (3 * A3)) * (A2 / (3 * A3));
    const bool nearpzero = !pzero && rf.nreal == 1 && dq != 0 &&
                           std::fabs(4 * dp * dp * dp / 27) < 1e-2L * dq * dq;
    if (pzero) c.tag("shape.p_zero");
    if (nearpzero) c.tag("shape.near_p_zero");
    c.nontrivial(special || pzero);
    c.tag(wellsep ? (rf.nreal == 3 ? "ref.three_real_separated" : "ref.one_real_separated")
                  : "ref.nearly_multiple");

    T x[3] = {0, 0, 0}, y[3] = {0, 0, 0};
    const auto nb = tfel::math::CubicRoots::exe(x[0], x[1], x[2], a3, a2, a1, a0, false);
    const auto nbr = tfel::math::CubicRoots::exe(y[0], y[1], y[2], a3, a2, a1, a0, true);
    c.check(nb == 1 || nb == 3, "C10.count", "exe returned " + std::to_string(nb) +
                                                 " for a cubic with a non negligible leading coefficient");
    c.check(nb == nbr, "C10.count", "the refinement flag changed the returned count");

    const R tiny = static_cast<R>(std::numeric_limits<T>::min()) * 1e3L;
    constexpr R Kroot = 2000, Kres = 2000;
    auto rootTol = [&](int i) {
      R d1, d2;
      dist(i, d1, d2);
      const R cond = std::max<R>(1, (S / std::max(d1, tiny)) * (S / std::max(d2, tiny)));
      return Kroot * u * S * cond + tiny;
    };
    const std::string suffix = pzero ? ".p_zero" : (nearpzero ? ".near_p_zero" : "");
    auto describe = [&](const T* v, unsigned short n) {
      std::ostringstream os;
      os.precision(17);
      os << "coefficients (" << static_cast<double>(a3) << "," << static_cast<double>(a2) << ","
         << static_cast<double>(a1) << "," << static_cast<double>(a0) << ") returned " << n << " {"
         << static_cast<double>(v[0]) << "," << static_cast<double>(v[1]) << ","
         << static_cast<double>(v[2]) << "} reference real roots {";
      for (int i = 0; i < rf.nreal; ++i) os << (i ? "," : "") << static_cast<double>(rf.r[i]);
      os << "}";
      return os.str();
    };
    auto residualOK = [&](const T v, const char* what, const T* all, unsigned short n,
                          const std::string& key) {
      const R Sx = std::max(S, std::fabs(static_cast<R>(v)));
      const R tol = Kres * u * magP(A3, A2, A1, A0, Sx) + tiny;
      const R e = std::fabs(evalP(A3, A2, A1, A0, static_cast<R>(v)));
      c.err("C10.residual" + suffix, static_cast<double>(e / tol));
      c.check(std::isfinite(static_cast<double>(v)) && e <= tol, key + suffix,
              std::string(what) + ": |P(x)| too large for a value presented as a root; " +
                  describe(all, n));
    };
    auto checkSet = [&](const T* v, unsigned short n, const char* what) {
      if (wellsep && rf.nreal == 3) {
        c.check(n == 3, "C10.count_three_real" + suffix,
                std::string(what) + ": three well separated real roots but " + describe(v, n));
        T s[3] = {v[0], v[1], v[2]};
        std::sort(s, s + 3);
        for (int i = 0; i < 3; ++i) {
          const R tol = rootTol(i);
          c.err("C10.root3", static_cast<double>(std::fabs(static_cast<R>(s[i]) - rf.r[i]) / tol));
          c.check(std::fabs(static_cast<R>(s[i]) - rf.r[i]) <= tol, "C10.root3" + suffix,
                  std::string(what) + ": returned roots do not match; " + describe(v, n));
        }
        for (int i = 0; i < 3; ++i) residualOK(v[i], what, v, n, "C10.residual3");
      } else if (wellsep && rf.nreal == 1) {
        c.check(n == 1, "C10.count_one_real" + suffix,
                std::string(what) + ": a single real root but " + describe(v, n));
        const R tol = rootTol(0);
        int best = 0;
        for (int i = 1; i < 3; ++i)
          if (std::fabs(static_cast<R>(v[i]) - rf.r[0]) < std::fabs(static_cast<R>(v[best]) - rf.r[0]))
            best = i;
        const R e = std::fabs(static_cast<R>(v[best]) - rf.r[0]);
        if (nearpzero) {
          // behind the excluded accuracy-loss class a gross error is still reported:
          // eps^(1/3) S is the worst the cancellation can do
          c.err("C10.root1_gross", static_cast<double>(e / (100 * std::cbrt(u) * S + tol)));
          c.check(e <= 100 * std::cbrt(u) * S + tol, "C10.single_real_root_gross",
                  std::string(what) + ": the real root is not among the returned values; " + describe(v, n));
        } else if (!pzero) {
          c.err("C10.root1", static_cast<double>(e / tol));
        }
        c.check(e <= tol, "C10.single_real_root" + suffix,
                std::string(what) + ": the real root is not among the returned values; " + describe(v, n));
        residualOK(v[best], what, v, n, "C10.single_real_root");
      } else {
        // nearly multiple: the count is free; values presented as roots must be
        // roots to the accuracy reachable for their multiplicity
        if (n == 3) {
          for (int i = 0; i < 3; ++i) residualOK(v[i], what, v, n, "C10.residual3");
        } else {
          // documented: x1 holds the real root
          residualOK(v[0], what, v, n, "C10.single_real_root");
        }
      }
    };
    checkSet(x, nb, "b=false");
    checkSet(y, nbr, "b=true");
    // refinement never increases the residual (slots touched by improve)
    const int nref = nb == 3 ? 3 : 1;
    for (int i = 0; i < nref; ++i) {
      const R e0 = std::fabs(evalP(A3, A2, A1, A0, static_cast<R>(x[i])));
      const R e1 = std::fabs(evalP(A3, A2, A1, A0, static_cast<R>(y[i])));
      const R Sx = std::max(std::fabs(static_cast<R>(x[i])), std::fabs(static_cast<R>(y[i])));
      // improve() compares two Horner evaluations made in T: each carries an
      // error <= 6u sum|a_k||x|^k; factor 4 of safety
      const R noise = 48 * u * magP(A3, A2, A1, A0, Sx) + tiny;
      c.err("C10.refine", static_cast<double>((e1 - e0) / noise));
      c.check(std::isfinite(static_cast<double>(y[i])) && e1 <= e0 + noise, "C10.refine" + suffix,
              "refinement increased |P| from " + std::to_string(static_cast<double>(e0)) + " to " +
                  std::to_string(static_cast<double>(e1)) + "; " + describe(x, nb));
      if (y[i] != x[i]) c.tag("refine.moved");
    }
  }

}  // namespace

VERIF_SUB(cubic_double) { cubic<double>(c); }
VERIF_SUB(cubic_float) { cubic<float>(c); }

VERIF_MAIN("C10_cubic")
