/*!
 * C29 - ThreadPool: every task runs exactly once, futures yield the result or
 * the thrown exception, wait() is complete, the destructor drains the queue.
 *
 * One case = an *operation script* (number of workers, addTask / wait /
 * concurrent wait / burst operations, how the pool is destroyed) and a
 * *schedule script* (for each hook point of src/System/ThreadPool.cxx and each
 * of its first occurrences, an injected delay; optional pinning of the whole
 * process on one core).  The case is executed on the real ThreadPool in a
 * forked child (forkcase.hxx) and compared with the model (multiset of task
 * ids).  A case is not bit-reproducible: the replayable unit is the script
 * (DESIGN.md 2.4); the driver asks for 3/3 failing replays.
 *
 * Oracle
 *   C29.exactly_once            every accepted task has run once when the pool is destroyed
 *                               (and never more than once at any observation)
 *   C29.wait.complete           at the instant wait() returns, every task submitted
 *                               (happens-before) before the call has finished; tasks added
 *                               by tasks are exempt (property wording)
 *   C29.future.value/.exception future yields the value / rethrows the very exception
 *   C29.future.ready_after_dtor after the destructor every future is ready
 *   C29.dtor.drain              tasks still queued when the destructor starts have run
 *   C29.log.balance             hook log: as many tp.before_task as tp.after_task as tasks
 *   C29.liveness.hang           the script did not finish within the time limit
 *                               (sum of injected delays is < 0.2 s; limit 10 s)
 *   C29.crash / C29.tsan.report child killed by a signal / ThreadSanitizer report (tsan unit)
 *
 * Non-trivial: >= 2 workers, >= 2 tasks and at least one injected delay was hit.
 */
#include "verif.hxx"
#include "forkcase.hxx"
#include <atomic>
#include <deque>
#include <memory>
#include <sched.h>
#include <sys/syscall.h>
#include <thread>
#include "TFEL/System/ThreadPool.hxx"
#include "TFEL/System/VerifHooks.hxx"

#ifndef THELFER_TFEL_VERIF
#error "this harness must be compiled with -DTHELFER_TFEL_VERIF"
#endif

#ifdef C29_TSAN
extern "C" const char* __tsan_default_options() {
  return "halt_on_error=1:exitcode=66:die_after_fork=0:report_signal_unsafe=0";
}
#endif

namespace {

  using tfel::system::ThreadPool;
  using tfel::system::ThreadedTaskResult;

  // ------------------------------------------------------------ schedule
  constexpr int NPOINTS = 8;
  constexpr int MAXOCC = 4;
  const char* const pointNames[NPOINTS] = {
      "tp.after_wake", "tp.before_task",  "tp.after_task", "tp.after_idle",
      "tp.wait_entry", "tp.wait_locked",  "tp.dtor_entry", "tp.dtor_before_join"};
  int sched[NPOINTS][MAXOCC];
  std::atomic<int> occ[NPOINTS];
  std::atomic<long> delaysHit{0};

  void sleepNs(const long ns) {
    timespec ts{0, ns};
    ::nanosleep(&ts, nullptr);
  }

  //! number of wait() calls that have returned *and* been checked by the harness
  std::atomic<int> waitChecksDone{0};
  //! kernel id of the last thread that reached tp.wait_locked
  std::atomic<long> lastWaiterTid{0};

  //! true when thread `tid` of this process sleeps in a futex wait
  bool blockedInFutex(const long tid) {
    char path[64], buf[128];
    std::snprintf(path, sizeof path, "/proc/self/task/%ld/syscall", tid);
    const int fd = ::open(path, O_RDONLY | O_CLOEXEC);
    if (fd == -1) return false;
    const auto n = ::read(fd, buf, sizeof buf - 1);
    ::close(fd);
    if (n <= 0) return false;
    buf[n] = 0;
    return std::strncmp(buf, "202 ", 4) == 0;
  }

  /*!
   * delay codes.  They are ordered so that rapidcheck, which shrinks towards
   * small values, shrinks towards the *event based* delays, which are decisive
   * whatever the load of the machine (their caps only bound the cost on code
   * where the awaited event cannot happen):
   * 0 none,
   * 1: until the next wait() call has returned and has been checked by the
   *    harness (a correct pool cannot let this happen while the task is not
   *    finished: the cap, 25 ms, is then what elapses),
   * 2: until a thread is blocked inside wait() on the condition variable
   *    (tp.wait_locked reached since the delay started and that thread sleeps
   *    in a futex wait), 25 ms at most,
   * 3: until the destructor has set `stop` (tp.dtor_before_join), 20 ms at most,
   * 4: 1.5 ms, 5: 60 us, 6: yield
   */
  void doDelay(const int code) {
    switch (code) {
      case 1: {
        const int seen = waitChecksDone.load(std::memory_order_acquire);
        for (int k = 0; k != 250 && waitChecksDone.load(std::memory_order_acquire) == seen; ++k) sleepNs(100000);
        break;
      }
      case 2: {
        const int seen = occ[5].load(std::memory_order_acquire);
        for (int k = 0; k != 250; ++k) {
          if (occ[5].load(std::memory_order_acquire) > seen && blockedInFutex(lastWaiterTid.load())) break;
          sleepNs(100000);
        }
        break;
      }
      case 3:
        for (int k = 0; k != 200 && occ[7].load(std::memory_order_acquire) == 0; ++k) sleepNs(100000);
        sleepNs(300000);
        break;
      case 4:
        sleepNs(1500000);
        break;
      case 5:
        sleepNs(60000);
        break;
      case 6:
        ::sched_yield();
        break;
      default:
        break;
    }
  }

  extern "C" void c29Hook(const char* name) {
    for (int p = 0; p != NPOINTS; ++p) {
      if (std::strcmp(name, pointNames[p]) != 0) continue;
      if (p == 5) lastWaiterTid.store(::syscall(SYS_gettid));
      const int k = occ[p].fetch_add(1, std::memory_order_release);
      if (k < MAXOCC && sched[p][k] != 0) {
        delaysHit.fetch_add(1, std::memory_order_relaxed);
        doDelay(sched[p][k]);
      }
      return;
    }
  }

  // ------------------------------------------------------------ script
  enum OpKind { ADD, WAIT, ASYNC_WAIT, BURST };
  enum RType { R_INT, R_STRING, R_VOID, R_VOID_ARG };
  enum Throws { T_NONE, T_RUNTIME, T_CUSTOM, T_INT };

  struct MyError : std::exception {
    explicit MyError(std::string m) : msg(std::move(m)) {}
    const char* what() const noexcept override { return msg.c_str(); }
    std::string msg;
  };

  struct Op {
    OpKind kind;
    int rtype = R_INT, throws = T_NONE, dur = 0;
    bool nested = false;
    int ndur = 0;
    int count = 0;
  };

  struct Script {
    int nthreads = 1;
    bool pin = false;
    int cpu = 0;
    std::vector<Op> ops;
    bool finalWait = false;
    bool load = false;
  };

  struct TaskRec {
    std::atomic<int> runs{0};
    std::atomic<bool> finished{false};
    std::atomic<int> state{0};  // 0: not submitted, 1: accepted, 2: rejected (pool stopped)
    bool top = true;
    int rtype = R_INT, throws = T_NONE, dur = 0;
    int child = -1, cdur = 0;
    std::future<ThreadedTaskResult<int>> fi;
    std::future<ThreadedTaskResult<std::string>> fs;
    std::future<ThreadedTaskResult<void>> fv;
  };

  struct Verdict {
    std::string key, msg;
    bool failed() const { return !key.empty(); }
  };

  struct Runner {
    std::deque<TaskRec> recs;
    ThreadPool* pool = nullptr;  // raw: tasks running during the destruction still use it
    std::mutex vm;
    Verdict v;

    void fail(const std::string& k, const std::string& m) {
      std::lock_guard<std::mutex> l(vm);
      if (!v.failed()) {
        v.key = k;
        v.msg = m;
      }
    }

    static std::string text(const int id) { return "value of task " + std::to_string(id); }
    static std::string emsg(const int id) { return "exception of task " + std::to_string(id); }

    //! what every task does, whatever its signature
    void body(const int id) {
      auto& r = recs[static_cast<std::size_t>(id)];
      r.runs.fetch_add(1);
      doDelay(r.dur);
      if (r.child >= 0) {
        submit(r.child, true);
      }
      r.finished.store(true);
      switch (r.throws) {
        case T_RUNTIME:
          throw std::runtime_error(emsg(id));
        case T_CUSTOM:
          throw MyError(emsg(id));
        case T_INT:
          throw id;
        default:
          break;
      }
    }

    //! addTask with the signature selected by the record
    void submit(const int id, const bool from_task) {
      auto& r = recs[static_cast<std::size_t>(id)];
      try {
        switch (r.rtype) {
          case R_INT:
            r.fi = pool->addTask([this, id] {
              body(id);
              return 7 * id + 1;
            });
            break;
          case R_VOID_ARG:
            // (addTask(f, args...) only compiles for void-returning callables:
            //  Wrapper::Get<T> is instantiated without the argument pack)
            r.fv = pool->addTask(
                [this](const int i, const int k) {
                  if (k == 7) body(i);
                },
                id, 7);
            break;
          case R_STRING:
            r.fs = pool->addTask([this, id] {
              body(id);
              return text(id);
            });
            break;
          default:
            r.fv = pool->addTask([this, id] { body(id); });
            break;
        }
        r.state.store(1);
      } catch (std::runtime_error& e) {
        // documented: "enqueue on stopped ThreadPool"; only legal from a task
        // running while the pool is being destroyed
        r.state.store(2);
        if (!from_task) fail("C29.addtask.rejected", std::string("addTask threw on a live pool: ") + e.what());
      }
    }

    template <typename R, typename Check>
    void checkFuture(const int id, std::future<ThreadedTaskResult<R>>& f, const TaskRec& r, Check&& value_ok) {
      const auto sid = std::to_string(id);
      if (!f.valid()) {
        fail("C29.future.valid", "future of task " + sid + " is not valid");
        return;
      }
      if (f.wait_for(std::chrono::seconds(0)) != std::future_status::ready) {
        fail("C29.future.ready_after_dtor", "future of task " + sid + " not ready after the pool was destroyed");
        return;
      }
      try {
        auto res = f.get();
        if (r.throws == T_NONE) {
          if (!static_cast<bool>(res)) {
            fail("C29.future.value", "task " + sid + " returned normally but its result converts to false");
            return;
          }
          value_ok(res);
        } else {
          if (static_cast<bool>(res)) {
            fail("C29.future.exception", "task " + sid + " threw but its result converts to true");
            return;
          }
          try {
            res.rethrow();
          } catch (MyError& e) {
            if (r.throws != T_CUSTOM || e.msg != emsg(id))
              fail("C29.future.exception", "task " + sid + ": wrong exception (MyError " + e.msg + ")");
          } catch (std::runtime_error& e) {
            if (r.throws != T_RUNTIME || e.what() != emsg(id))
              fail("C29.future.exception", "task " + sid + ": wrong exception (runtime_error " + e.what() + ")");
          } catch (int i) {
            if (r.throws != T_INT || i != id) fail("C29.future.exception", "task " + sid + ": wrong int exception");
          } catch (...) {
            fail("C29.future.exception", "task " + sid + ": unknown exception rethrown");
          }
        }
      } catch (std::exception& e) {
        fail("C29.future.get", "future.get() of task " + sid + " threw " + e.what());
      }
    }

    //! tasks [0,n) that are top level must be finished, called right after wait()
    void checkWaited(const int n, const char* who) {
      for (int i = 0; i != n; ++i) {
        const auto& r = recs[static_cast<std::size_t>(i)];
        if (!r.top || r.state.load() != 1) continue;
        if (!r.finished.load()) {
          fail("C29.wait.complete", std::string(who) + " wait() returned although task " + std::to_string(i) +
                                        " submitted before the call has not finished (runs=" +
                                        std::to_string(r.runs.load()) + ")");
          return;
        }
        if (r.runs.load() != 1) {
          fail("C29.exactly_once", "task " + std::to_string(i) + " ran " + std::to_string(r.runs.load()) + " times");
          return;
        }
      }
    }

    void run(const Script& s, const int fd) {
      if (s.pin) {
        cpu_set_t set;
        CPU_ZERO(&set);
        CPU_SET(s.cpu, &set);
        ::sched_setaffinity(0, sizeof set, &set);
      }
      // lay the records out: ids are known before anything runs
      for (const auto& o : s.ops) {
        if (o.kind == ADD) {
          recs.emplace_back();
          auto& r = recs.back();
          r.rtype = o.rtype;
          r.throws = o.throws;
          r.dur = o.dur;
          if (o.nested) {
            const int me = static_cast<int>(recs.size()) - 1;
            recs.emplace_back();
            recs[static_cast<std::size_t>(me)].child = me + 1;
            auto& ch = recs.back();
            ch.top = false;
            ch.rtype = (me % 3 == 0) ? R_STRING : R_INT;
            ch.dur = o.ndur;
          }
        } else if (o.kind == BURST) {
          for (int k = 0; k != o.count; ++k) {
            recs.emplace_back();
            recs.back().rtype = (k % 4 == 3) ? R_VOID : R_INT;
          }
        }
      }
      tfel_verif_point = &c29Hook;
      pool = new ThreadPool(static_cast<ThreadPool::size_type>(s.nthreads));
      if (pool->getNumberOfThreads() != static_cast<ThreadPool::size_type>(s.nthreads))
        fail("C29.nthreads", "getNumberOfThreads() differs from the requested number");
      std::vector<std::thread> helpers;
      int next = 0;
      int opi = 0;
      for (const auto& o : s.ops) {
        verif::fdWrite(fd, "op " + std::to_string(opi++) + "\n");
        if (o.kind == ADD) {
          const int id = next;
          next += o.nested ? 2 : 1;
          submit(id, false);
        } else if (o.kind == BURST) {
          for (int k = 0; k != o.count; ++k) submit(next++, false);
        } else if (o.kind == WAIT) {
          pool->wait();
          checkWaited(next, "main:");
          waitChecksDone.fetch_add(1);
        } else {
          const int n0 = next;
          helpers.emplace_back([this, n0] {
            pool->wait();
            checkWaited(n0, "helper:");
            waitChecksDone.fetch_add(1);
          });
        }
      }
      if (s.finalWait) {
        verif::fdWrite(fd, "final wait\n");
        pool->wait();
        checkWaited(next, "main(final):");
        waitChecksDone.fetch_add(1);
      }
      verif::fdWrite(fd, "join helpers\n");
      for (auto& h : helpers) h.join();
      verif::fdWrite(fd, "destroy\n");
      delete pool;
      verif::fdWrite(fd, "destroyed\n");
      tfel_verif_point = nullptr;
      // final model comparison
      long accepted = 0;
      for (std::size_t i = 0; i != recs.size(); ++i) {
        auto& r = recs[i];
        const int id = static_cast<int>(i);
        const auto sid = std::to_string(i);
        const int st = r.state.load();
        if (st == 0) {
          // never submitted: the parent task did not run or a top task was lost
          if (r.top) {
            fail("C29.harness", "task " + sid + " not submitted");
          } else {
            fail("C29.dtor.drain", "nested task " + sid + " never submitted: its parent did not run");
          }
          continue;
        }
        if (st == 2) {
          if (r.runs.load() != 0) fail("C29.exactly_once", "rejected task " + sid + " ran");
          continue;
        }
        ++accepted;
        if (r.runs.load() != 1) {
          fail(r.runs.load() == 0 ? "C29.dtor.drain" : "C29.exactly_once",
               "task " + sid + " ran " + std::to_string(r.runs.load()) + " times (pool destroyed)");
          continue;
        }
        if (r.rtype == R_INT) {
          checkFuture(id, r.fi, r, [&](ThreadedTaskResult<int>& res) {
            if (*res != 7 * id + 1) fail("C29.future.value", "task " + sid + ": wrong int value " + std::to_string(*res));
          });
        } else if (r.rtype == R_STRING) {
          checkFuture(id, r.fs, r, [&](ThreadedTaskResult<std::string>& res) {
            if (*res != text(id) || res->size() != text(id).size())
              fail("C29.future.value", "task " + sid + ": wrong string value '" + *res + "'");
          });
        } else {
          checkFuture(id, r.fv, r, [](ThreadedTaskResult<void>&) {});
        }
      }
      const long nb = occ[1].load(), na = occ[2].load();
      if (nb != accepted || na != accepted) {
        fail("C29.log.balance", "hook log: " + std::to_string(nb) + " tp.before_task, " + std::to_string(na) +
                                    " tp.after_task for " + std::to_string(accepted) + " accepted tasks");
      }
      std::string out = "stats delays=" + std::to_string(delaysHit.load()) + " tasks=" + std::to_string(accepted) + "\n";
      if (v.failed()) {
        std::string m = v.msg;
        for (auto& ch : m)
          if (ch == '\n') ch = ' ';
        out += "FAIL " + v.key + " " + m + "\n";
      } else {
        out += "PASS\n";
      }
      verif::fdWrite(fd, out);
    }
  };

  // budget of hang detections spent in shrinking (each costs the time limit)
  int hangsSeen = 0;
  std::map<std::string, int> failuresSeen, shrinkExecutions;

  void executeOnce(verif::Case& c, const Script& s, const int ntasks);

  /*!
   * Schedule dependent failures are only worth reporting (and shrinking) when
   * the *script* fails decisively: in generation mode a failing script is
   * re-executed and must fail 4 times out of 4, otherwise it is counted as a
   * flaky observation and the case passes (flaky is not a violation).  This
   * also keeps rapidcheck from shrinking towards scripts that fail rarely.
   */
  void execute(verif::Case& c, const Script& s, const int ntasks, int) {
    if (c.mode() != verif::Case::GENERATE) {
      executeOnce(c, s, ntasks);
      return;
    }
    if (failuresSeen[c.sub()] != 0 && (++shrinkExecutions[c.sub()] > 50 || hangsSeen >= 12)) {
      // bounded shrinking (every execution forks and may wait for the time
      // limit): the last recorded failing script is kept
      return;
    }
    // shrinking selects among many candidates: a stricter confirmation keeps
    // it from drifting to scripts that fail only often
    const int needed = failuresSeen[c.sub()] != 0 ? 6 : 4;
    for (int attempt = 0;; ++attempt) {
      try {
        executeOnce(c, s, ntasks);
        if (attempt != 0) c.tag("flaky_observation");
        return;
      } catch (const verif::Failure&) {
        if (attempt == needed - 1) {
          ++failuresSeen[c.sub()];
          throw;
        }
      }
    }
  }

  void executeOnce(verif::Case& c, const Script& s, const int ntasks) {
    // time budget (inconclusive when hit, never a verdict); a dead-lock is
    // recognised from the state of the threads, not from the clock
    const double limit = s.load ? 300. : 60.;
    const auto o = verif::runForked(
        [&s](const int fd) {
          Runner r;
          r.run(s, fd);
        },
        limit, true);
    const auto tail = [&o] {
      std::string t = o.text.size() > 600 ? o.text.substr(o.text.size() - 600) : o.text;
      for (auto& ch : t)
        if (ch == '\n') ch = '|';
      return t;
    };
    if (o.how == verif::ForkOutcome::FORK_FAILED) {
      c.discard();
    }
    if (o.how == verif::ForkOutcome::TIMEOUT) {
      c.tag("time_budget_hit_inconclusive");
      c.discard();
    }
    if (o.how == verif::ForkOutcome::DEADLOCK) {
      ++hangsSeen;
      c.check(false, "C29.liveness.deadlock",
              "every thread sleeps for ever in a futex wait (4 identical samples); progress: " + tail());
    }
    if (o.how == verif::ForkOutcome::SIGNALED) {
      c.check(false, "C29.crash", "child killed by signal " + std::to_string(o.code) + "; progress: " + tail());
    }
#ifdef C29_TSAN
    if (o.code == 66 || o.text.find("WARNING: ThreadSanitizer") != std::string::npos) {
      std::string what = "ThreadSanitizer report";
      const auto p = o.text.find("WARNING: ThreadSanitizer");
      if (p != std::string::npos) {
        what = o.text.substr(p, 1500);
        for (auto& ch : what)
          if (ch == '\n') ch = '|';
      }
      c.check(false, "C29.tsan.report", what);
    }
#endif
    if (o.code != 0) {
      c.check(false, "C29.crash", "child exited with code " + std::to_string(o.code) + "; output: " + tail());
    }
    const auto pf = o.text.find("\nFAIL ");
    if (pf != std::string::npos) {
      const auto e = o.text.find('\n', pf + 1);
      const auto line = o.text.substr(pf + 6, e == std::string::npos ? std::string::npos : e - pf - 6);
      const auto sp = line.find(' ');
      c.check(false, line.substr(0, sp), sp == std::string::npos ? "" : line.substr(sp + 1));
    }
    c.check(o.text.find("\nPASS\n") != std::string::npos, "C29.harness", "child gave no verdict: " + tail());
    long hit = 0;
    const auto ps = o.text.find("stats delays=");
    if (ps != std::string::npos) hit = std::atol(o.text.c_str() + ps + 13);
    c.nontrivial(s.nthreads >= 2 && ntasks >= 2 && hit >= 1);
    if (hit >= 1) c.tag("delay_hit");
  }

  int drawSchedule(verif::Case& c) {
    int n = 0;
    for (int p = 0; p != NPOINTS; ++p) {
      for (int k = 0; k != MAXOCC; ++k) {
        // biased to "none"; see doDelay for the codes.  The event based codes
        // make no sense where the pool mutex is held or in wait()/~ThreadPool
        // themselves: plain 1.5 ms there
        const int v = static_cast<int>(c.integer(0, 20, "d"));
        int code = v >= 7 ? 0 : v;
        if (code >= 1 && code <= 3 && !(p >= 1 && p <= 3)) code = 4;
        sched[p][k] = code;
        if (sched[p][k] != 0) ++n;
      }
      occ[p].store(0);
    }
    delaysHit.store(0);
    return n;
  }

  const int threadTable[] = {1, 1, 2, 2, 2, 3, 3, 4, 4, 8, 16};

}  // namespace

VERIF_SUB(script) {
  Script s;
  s.nthreads = threadTable[c.pick(sizeof(threadTable) / sizeof(int), "nthreads_idx")];
  s.pin = c.chance(1, 4, "pin");
  const long ncpu = std::max(1L, ::sysconf(_SC_NPROCESSORS_ONLN));
  s.cpu = static_cast<int>(c.integer(0, 63, "cpu") % ncpu);
  const int nops = static_cast<int>(c.integer(1, 10, "nops"));
  int ntasks = 0;
  for (int i = 0; i != nops; ++i) {
    Op o{};
    const int k = static_cast<int>(c.integer(0, 9, "op"));
    if (k <= 5) {
      o.kind = ADD;
      o.rtype = static_cast<int>(c.integer(0, 3, "rtype"));
      o.throws = c.chance(1, 4, "throws") ? static_cast<int>(c.integer(1, 3, "exc")) : T_NONE;
      o.dur = static_cast<int>(c.integer(0, 12, "dur")) % 10;  // 7..9: none
      o.nested = c.chance(1, 5, "nested");
      o.ndur = o.nested ? static_cast<int>(c.integer(0, 12, "ndur")) % 10 : 0;
      ntasks += o.nested ? 2 : 1;
    } else if (k <= 7) {
      o.kind = WAIT;
    } else if (k == 8) {
      o.kind = ASYNC_WAIT;
    } else {
      o.kind = BURST;
      o.count = static_cast<int>(c.integer(2, 40, "burst"));
      ntasks += o.count;
    }
    s.ops.push_back(o);
  }
  s.finalWait = c.boolean("final_wait");
  const int nd = drawSchedule(c);
  c.tag("threads." + std::to_string(s.nthreads));
  if (s.pin) c.tag("pinned");
  c.tag(s.finalWait ? "end.wait_then_destroy" : "end.destroy_with_queue");
  execute(c, s, ntasks, nd);
}

//! thousands of tasks, up to 16 workers
VERIF_SUB_W(load, 0.01) {
  Script s;
  s.load = true;
  const int tt[] = {2, 4, 8, 16};
  s.nthreads = tt[c.pick(4, "nthreads_idx")];
  s.pin = c.chance(1, 6, "pin");
  const long ncpu = std::max(1L, ::sysconf(_SC_NPROCESSORS_ONLN));
  s.cpu = static_cast<int>(c.integer(0, 63, "cpu") % ncpu);
  const int nb = static_cast<int>(c.integer(2, 6, "nbursts"));
  int ntasks = 0;
  for (int i = 0; i != nb; ++i) {
    Op o{};
    o.kind = BURST;
    o.count = static_cast<int>(c.integer(200, 900, "burst"));
    ntasks += o.count;
    s.ops.push_back(o);
    if (c.chance(1, 2, "wait")) {
      Op w{};
      w.kind = c.chance(1, 3, "async") ? ASYNC_WAIT : WAIT;
      s.ops.push_back(w);
    }
  }
  s.finalWait = c.boolean("final_wait");
  const int nd = drawSchedule(c);
  c.tag("load.threads." + std::to_string(s.nthreads));
  execute(c, s, ntasks, nd);
}

#ifdef C29_TSAN
VERIF_MAIN("C29_tsan")
#else
VERIF_MAIN("C29_pool")
#endif
