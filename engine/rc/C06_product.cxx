/*!
 * C06 (unit "product") - closed-form derivative helpers whose argument is a
 * pair of tensors: derivatives of the product of two (non symmetric or
 * symmetric) tensors, t2tot2::tpld/tprd and st2tot2::tpld/tprd, with and
 * without chain rule (docs/web/tensors.md "Multiplication of second order
 * tensors").
 * Oracle: converged central finite differences (long double, three steps,
 * Richardson) of the reference primitive, see C06_fd.hxx.
 * Non-trivial: 3D non symmetric argument (or 2D with xy != yx, both non-zero)
 * and a direction with at least two non-zero components.
 */
#include "C06_fd.hxx"
#include "TFEL/Math/stensor.hxx"
#include "TFEL/Math/tensor.hxx"
#include "TFEL/Math/st2tost2.hxx"
#include "TFEL/Math/t2tot2.hxx"
#include "TFEL/Math/t2tost2.hxx"
#include "TFEL/Math/st2tot2.hxx"

using namespace tfel::math;

namespace {

  constexpr bool SYM = true, NS = false;

  template <unsigned short N, typename T>
  void product(verif::Case& c) {
    using TT = tensor<N, T>;
    using S = stensor<N, T>;
    using TTt = t2tot2<N, T>;
    using ST = st2tot2<N, T>;
    using SS = st2tost2<N, T>;
    const bool flt = std::is_same_v<T, float>;
    const double sc = gen::scale(c, flt ? 6 : 20);
    const TT a = gen::toTensor<TT>(gen::dense(c, N, sc));
    const TT b = gen::toTensor<TT>(gen::dense(c, N, sc));
    const S sa = gen::toStensor<S>(gen::sym(c, N, sc));
    const S sb = gen::toStensor<S>(gen::sym(c, N, sc));
    const TTt C = f4::fromT4<TTt>(f4::gen(c, N, NS, NS, 1.), N, NS, NS);
    const SS Cs = f4::fromT4<SS>(f4::gen(c, N, SYM, SYM, 1.), N, SYM, SYM);
    const M3 A = gen::tensorToM3(a), B = gen::tensorToM3(b);
    const M3 SA = gen::stensorToM3(sa), SB = gen::stensorToM3(sb);
    const T4 Cr = f4::toT4(C, N, NS, NS), Csr = f4::toT4(Cs, N, SYM, SYM);
    const M3 dir = fd::direction(c, N, NS), sdir = ref::sym(dir);
    c.nontrivial((nonsym(A, N) || nonsym(B, N)) && fd::support(dir, N, NS) >= 2);
    const R fl = R(sc) * 1e-3L;
    const R nA = std::max<R>(ref::norm(A), fl), nB = std::max<R>(ref::norm(B), fl);
    const R nSA = std::max<R>(ref::norm(SA), fl), nSB = std::max<R>(ref::norm(SB), fl);
    const R nC = std::max<R>(ref::norm(Cr), 1), nCs = std::max<R>(ref::norm(Csr), 1);
    const R rel = flt ? 1e-4L : 1e-9L;
    const M3 Z;
    // non symmetric tensors: c = a.b
    fd::check4(c, TTt(TTt::tpld(b)), N, NS, NS, [&](const M3& x) { return x * B; }, A, 1e-4L * nA,
               nB, rel, dir, "C06.tensor.tpld", "t2tot2::tpld(b) = d(a.b)/da");
    fd::check4(c, TTt(TTt::tprd(a)), N, NS, NS, [&](const M3& x) { return A * x; }, B, 1e-4L * nB,
               nA, rel, dir, "C06.tensor.tprd", "t2tot2::tprd(a) = d(a.b)/db");
    // chain rule versions: a = a0 + C:d  (resp. b = b0 + C:d), derivative with respect to d
    fd::check4(c, TTt(TTt::tpld(b, C)), N, NS, NS,
               [&](const M3& x) { return (A + ref::ddot(Cr, x)) * B; }, Z, 1e-4L * nA, nB * nC, rel,
               dir, "C06.tensor.tpld_chain", "t2tot2::tpld(b,C)");
    fd::check4(c, TTt(TTt::tprd(a, C)), N, NS, NS,
               [&](const M3& x) { return A * (B + ref::ddot(Cr, x)); }, Z, 1e-4L * nB, nA * nC, rel,
               dir, "C06.tensor.tprd_chain", "t2tot2::tprd(a,C)");
    // symmetric tensors: c = sa.sb is non symmetric, derivative with respect to a symmetric tensor
    fd::check4(c, ST(ST::tpld(sb)), N, NS, SYM, [&](const M3& x) { return x * SB; }, SA,
               1e-4L * nSA, nSB, rel, sdir, "C06.stensor.tpld", "st2tot2::tpld(b) = d(a.b)/da");
    fd::check4(c, ST(ST::tprd(sa)), N, NS, SYM, [&](const M3& x) { return SA * x; }, SB,
               1e-4L * nSB, nSA, rel, sdir, "C06.stensor.tprd", "st2tot2::tprd(a) = d(a.b)/db");
  }

  template <unsigned short N, typename T>
  void sym_chain(verif::Case& c) {
    using S = stensor<N, T>;
    using ST = st2tot2<N, T>;
    using SS = st2tost2<N, T>;
    const bool flt = std::is_same_v<T, float>;
    const double sc = gen::scale(c, flt ? 6 : 20);
    const S sa = gen::toStensor<S>(gen::sym(c, N, sc));
    const S sb = gen::toStensor<S>(gen::sym(c, N, sc));
    const SS Cs = f4::fromT4<SS>(f4::gen(c, N, SYM, SYM, 1.), N, SYM, SYM);
    const M3 SA = gen::stensorToM3(sa), SB = gen::stensorToM3(sb);
    const T4 Csr = f4::toT4(Cs, N, SYM, SYM);
    const M3 sdir = fd::direction(c, N, SYM);
    c.nontrivial(N >= 2 && ref::norm(Csr) > 0 && fd::support(sdir, N, SYM) >= 2);
    const R fl = R(sc) * 1e-3L;
    const R nSA = std::max<R>(ref::norm(SA), fl), nSB = std::max<R>(ref::norm(SB), fl);
    const R nCs = std::max<R>(ref::norm(Csr), 1);
    const R rel = flt ? 1e-4L : 1e-9L;
    const M3 Z;
    fd::check4(c, ST(ST::tprd(sa, Cs)), N, NS, SYM,
               [&](const M3& x) { return SA * (SB + ref::ddot(Csr, x)); }, Z, 1e-4L * nSB,
               nSA * nCs, rel, sdir, "C06.stensor.tprd_chain", "st2tot2::tprd(a,C)");
    // component (xy, xx) of the 3D expression has its own key (findings/pending/C06.json)
    const std::string kc = "C06.stensor.tpld_chain", k30 = "C06.stensor.tpld_chain.3d_component_3_0";
    fd::check4k(c, ST(ST::tpld(sb, Cs)), N, NS, SYM,
                [&](const M3& x) { return (SA + ref::ddot(Csr, x)) * SB; }, Z, 1e-4L * nSA,
                nSB * nCs, rel, sdir, kc, "st2tot2::tpld(b,C)", [&](int I, int J) {
                  return (N == 3 && I == 3 && (J == 0 || J == -1)) ? k30 : kc;
                });
  }

}  // namespace

#define C06_INST(NAME, FCT)                          \
  VERIF_SUB(NAME##_1d) { FCT<1u, double>(c); }       \
  VERIF_SUB(NAME##_2d) { FCT<2u, double>(c); }       \
  VERIF_SUB(NAME##_3d) { FCT<3u, double>(c); }       \
  VERIF_SUB_W(NAME##_3f, 0.3) { FCT<3u, float>(c); }

C06_INST(product, product)
C06_INST(sym_chain, sym_chain)

VERIF_MAIN("C06_product")
