/*!
 * C09 - scalarNewtonRaphson: sound convergence report, iteration budget,
 * bracket confinement.
 *
 * The function and the criterion handed to scalarNewtonRaphson record every
 * call.  Oracle = invariants over that history (nothing about *which* root or
 * how fast):
 *  - budget: returned iteration count i satisfies 0 <= i <= max(im,0); the
 *    criterion is consulted at most once per iteration (<= im calls) and the
 *    function at most 3 + 2 im times (x0, the two bounds, and per iteration one
 *    evaluation plus at most one "step back" evaluation, see ScalarNewtonRaphson.ixx);
 *  - soundness: converged => returned x finite, f(x) (recomputed) finite, the last
 *    call of the criterion was made with that x and that f(x) and returned true;
 *  - confinement: if both bounds are given, finite, and f is finite with strictly
 *    opposite signs on them, every evaluation point after the three initial ones and
 *    the returned estimate (when at least one further evaluation happened) lie in
 *    [min(bounds), max(bounds)], whatever the function returns (NaN, inf, df = 0).
 * Non trivial: a bisection fallback happened (evaluation point != Newton iterate
 * of the previous evaluation) or a non finite value / zero derivative was returned.
 */
#include "verif.hxx"
#include <tuple>
// ScalarNewtonRaphson.hxx is not self contained (uses TFEL_HOST_DEVICE)
#include "TFEL/Config/TFELConfig.hxx"
#include "TFEL/Math/ScalarNewtonRaphson.hxx"

namespace {

  constexpr double NaN = std::numeric_limits<double>::quiet_NaN();
  constexpr double Inf = std::numeric_limits<double>::infinity();

  struct Fun {
    int kind = 0;
    double r = 0, a = 1, b = 1, p = 1, n1 = 0, n2 = 0;
    int variant = 0;
    std::pair<double, double> eval(const double x) const {
      const double t = x - r;
      switch (kind) {
        case 0:  // monotone cubic (b may be 0: triple root, df(r) = 0)
          return {a * t * t * t + b * t, 3 * a * t * t + b};
        case 1:  // t exp(-t^2): non monotone, df = 0 at +-1/sqrt2, flat far away
          return {a * t * std::exp(-t * t), a * (1 - 2 * t * t) * std::exp(-t * t)};
        case 2:  // atan: Newton diverges from far away
          return {a * std::atan(b * t), a * b / (1 + b * b * t * t)};
        case 3: {  // sign(t)|t|^p
          const double at = std::fabs(t);
          const double f = (t > 0 ? 1 : (t < 0 ? -1 : 0)) * std::pow(at, p);
          const double df = at == 0 ? (p < 1 ? Inf : (p == 1 ? 1. : 0.)) : p * std::pow(at, p - 1);
          return {f, df};
        }
        case 4:  // a log(x-n1) - b: NaN on the left half line, -inf at n1
          if (x < n1) return {NaN, NaN};
          if (x == n1) return {-Inf, Inf};
          return {a * std::log(x - n1) - b, a / (x - n1)};
        case 5: {  // cubic with a forbidden interval [n1,n2]
          if (x >= n1 && x <= n2) {
            switch (variant) {
              case 0: return {NaN, NaN};
              case 1: return {Inf, 0.};
              case 2: return {NaN, 0.};
              case 3: return {-Inf, 1.};
              default: return {a * t * t * t + b * t, NaN};
            }
          }
          return {a * t * t * t + b * t, 3 * a * t * t + b};
        }
        case 6: {  // clamp: derivative exactly 0 with finite non zero value outside [-b,b]
          const double ct = t < -b ? -b : (t > b ? b : t);
          return {a * ct, (t > -b && t < b) ? a : 0.};
        }
        case 7:  // parabola a t^2 - b (b<0: no root); df(r) = 0
          return {a * t * t - b, 2 * a * t};
        case 8:  // sqrt(x-n1) - b
          if (x < n1) return {NaN, NaN};
          if (x == n1) return {-b, Inf};
          return {std::sqrt(x - n1) - b, 0.5 / std::sqrt(x - n1)};
        default:  // 1/(x-n1) - b : pole with a sign change that is no root
          if (x == n1) return {Inf, -Inf};
          return {1 / (x - n1) - b, -1 / ((x - n1) * (x - n1))};
      }
    }
  };

  struct FCall {
    double x, f, df;
  };
  struct CCall {
    double f, dx, x;
    long i;
    bool r;
  };

  bool sameBits(const double a, const double b) {
    return std::memcmp(&a, &b, sizeof a) == 0 || (a == b);
  }

  template <typename Index>
  void scalar(verif::Case& c) {
    Fun fn;
    fn.kind = static_cast<int>(c.integer(0, 9, "family"));
    static const char* names[] = {"cubic", "xexp", "atan", "power", "log", "hole", "clamp",
                                  "parabola", "sqrt", "pole"};
    c.tag(std::string("f.") + names[fn.kind]);
    fn.r = c.chance(1, 3, "r0") ? 0. : c.sreal(100., "r");
    fn.a = c.chance(1, 3, "a1") ? 1. : c.log10real(-3, 3, "a");
    if (c.chance(1, 5, "nega")) fn.a = -fn.a;
    fn.b = c.chance(1, 6, "b0") ? 0. : c.log10real(-3, 2, "b");
    if (fn.kind == 7 && c.chance(1, 4, "noroot")) fn.b = -fn.b;
    fn.p = c.real(0.2, 3., "p");
    fn.n1 = fn.r + c.sreal(5., "n1");
    fn.n2 = fn.n1 + (c.chance(1, 4, "point_hole") ? 0. : c.real(0., 3., "hole_width"));
    fn.variant = static_cast<int>(c.integer(0, 4, "variant"));
    // initial guess: generic, or a special abscissa of the family
    double x0;
    switch (c.integer(0, 5, "x0_class")) {
      case 0: x0 = fn.r; break;
      case 1: x0 = fn.n1; break;
      case 2: x0 = fn.r + (c.boolean("sg") ? 1 : -1) * fn.b; break;
      case 3: x0 = fn.r + c.sreal(1e3, "dx0_far"); break;
      default: x0 = fn.r + c.sreal(10., "dx0");
    }
    // bounds
    double lo = NaN, hi = NaN;
    const auto bcls = c.integer(0, 5, "bounds_class");
    if (bcls >= 1) {
      lo = fn.r - c.real(0., 20., "dlo");
      hi = fn.r + c.real(0., 20., "dhi");
      if (bcls == 2) lo = NaN;                      // only one bound
      if (bcls == 3) hi = fn.r - c.real(0., 30., "dhi2");  // maybe no sign change / reversed
      if (bcls == 4 && c.boolean("swap")) std::swap(lo, hi);
      if (bcls == 5 && c.chance(1, 4, "x0_outside")) {
        x0 = (c.boolean("left") ? std::min(lo, hi) - c.real(0., 10., "out") : std::max(lo, hi) + c.real(0., 10., "out"));
      } else if (bcls >= 4) {
        // initial guess inside the bounds, as a caller giving bounds would do
        const double l = std::min(lo, hi), h = std::max(lo, hi);
        x0 = l + (h - l) * c.real(0., 1., "x0_in");
      }
    }
    const Index im = static_cast<Index>(c.chance(1, 6, "small_im") ? c.integer(0, 3, "im") : c.integer(0, 100, "im"));
    const int ckind = static_cast<int>(c.integer(0, 5, "criterion"));
    const double eps = c.log10real(-14, -2, "eps");
    const long kconv = static_cast<long>(c.integer(0, 20, "kconv"));

    std::vector<FCall> fcalls;
    std::vector<CCall> ccalls;
    // a solver which ignores its iteration budget never returns: the function gives up far beyond the
    // documented budget (3 + 2 im evaluations) so that the loss of the budget is reported, not a hang
    struct BudgetIgnored {};
    const std::size_t fmax = 64 + 8 * static_cast<std::size_t>(std::max<long>(static_cast<long>(im), 0));
    const auto f = [&fn, &fcalls, fmax](const double x) {
      if (fcalls.size() >= fmax) throw BudgetIgnored{};
      const auto v = fn.eval(x);
      fcalls.push_back({x, v.first, v.second});
      return std::make_tuple(v.first, v.second);
    };
    const auto crit = [&](const double fv, const double dx, const double x, const Index i) {
      bool r = false;
      switch (ckind) {
        case 0: r = std::fabs(fv) < eps; break;
        case 1: r = std::fabs(dx) < eps; break;
        case 2: r = std::fabs(fv) < eps && std::fabs(dx) < eps; break;
        case 3: r = false; break;
        case 4: r = std::fabs(fv) < eps || static_cast<long>(i) >= kconv; break;
        default: r = std::fabs(fv) < eps || 10 * std::fabs(dx) < eps * std::fabs(x * x);
      }
      ccalls.push_back({fv, dx, x, static_cast<long>(i), r});
      return r;
    };
    tfel::math::ScalarNewtonRaphsonParameters<double, Index> prm;
    prm.x0 = x0;
    prm.im = im;
    prm.xmin0 = lo;
    prm.xmax0 = hi;
    std::tuple<bool, double, Index> res{false, x0, Index{}};
    bool runaway = false;
    try {
      res = tfel::math::scalarNewtonRaphson(f, crit, prm);
    } catch (BudgetIgnored&) {
      runaway = true;
    }
    const bool converged = std::get<0>(res);
    const double xr = std::get<1>(res);
    const long it = static_cast<long>(std::get<2>(res));
    const long imx = std::max<long>(static_cast<long>(im), 0);

    auto hist = [&]() {
      std::ostringstream os;
      os.precision(17);
      os << "family " << names[fn.kind] << " x0=" << x0 << " bounds=[" << lo << "," << hi << "] im=" << imx
         << " -> (" << converged << "," << xr << "," << it << "); evaluations:";
      std::size_t k = 0;
      for (const auto& e : fcalls) {
        if (++k > 12) {
          os << " ...";
          break;
        }
        os << " f(" << e.x << ")=(" << e.f << "," << e.df << ")";
      }
      return os.str();
    };
    // ---- budget
    c.check(!runaway, "C09.budget.function_calls",
            "the solver was still evaluating the function after " + std::to_string(fcalls.size()) +
                " calls for im=" + std::to_string(imx) + " (stopped by the harness); " + hist());
    c.check(it >= 0 && it <= imx, "C09.budget.iterations",
            "returned iteration count " + std::to_string(it) + " outside [0,im]; " + hist());
    c.check(static_cast<long>(ccalls.size()) <= imx, "C09.budget.criterion_calls",
            std::to_string(ccalls.size()) + " criterion calls for im=" + std::to_string(imx) + "; " + hist());
    c.check(static_cast<long>(fcalls.size()) <= 3 + 2 * imx, "C09.budget.function_calls",
            std::to_string(fcalls.size()) + " function calls for im=" + std::to_string(imx) + "; " + hist());
    if (imx == 0) {
      c.check(!converged, "C09.budget.zero", "convergence reported with a null iteration budget; " + hist());
    }
    // ---- soundness of the convergence report
    if (converged) {
      c.tag("converged");
      c.check(std::isfinite(xr), "C09.sound.finite_root", "converged with a non finite root; " + hist());
      const auto v = fn.eval(xr);
      c.check(std::isfinite(v.first), "C09.sound.finite_value",
              "converged but f(root) is not finite; " + hist());
      c.check(!ccalls.empty() && ccalls.back().r, "C09.sound.criterion",
              "converged although the last criterion call returned false (or none was made); " + hist());
      c.check(sameBits(ccalls.back().x, xr) && sameBits(ccalls.back().f, v.first), "C09.sound.criterion_args",
              "the criterion accepted (x,f)=(" + std::to_string(ccalls.back().x) + "," +
                  std::to_string(ccalls.back().f) + ") which is not the returned root and its value; " + hist());
    } else {
      c.tag("not_converged");
    }
    // ---- confinement
    const int nb = (std::isfinite(lo) ? 1 : 0) + (std::isfinite(hi) ? 1 : 0);
    bool valid = false;
    if (nb == 2 && lo != hi) {
      const auto vl = fn.eval(lo), vh = fn.eval(hi);
      valid = std::isfinite(vl.first) && std::isfinite(vh.first) &&
              ((vl.first < 0 && vh.first > 0) || (vl.first > 0 && vh.first < 0));
    }
    if (valid) {
      c.tag("bracket.valid");
      const double l = std::min(lo, hi), h = std::max(lo, hi);
      for (std::size_t k = 3; k < fcalls.size(); ++k) {
        c.check(fcalls[k].x >= l && fcalls[k].x <= h, "C09.confinement",
                "evaluation " + std::to_string(k) + " at " + std::to_string(fcalls[k].x) +
                    " outside the sign-changing bracket; " + hist());
      }
      if (fcalls.size() > 3) {
        c.check(xr >= l && xr <= h, "C09.confinement", "returned estimate outside the bracket; " + hist());
      }
    } else if (nb > 0) {
      c.tag("bracket.invalid");
    } else {
      c.tag("bracket.none");
    }
    // ---- non triviality
    bool nonfinite = false, fallback = false, zeroder = false;
    for (std::size_t k = 0; k < fcalls.size(); ++k) {
      if (!std::isfinite(fcalls[k].f) || !std::isfinite(fcalls[k].df)) nonfinite = true;
      if (fcalls[k].df == 0) {
        zeroder = true;
        // the two operands of the `isfinite(fv) || dfv == 0` test (DESIGN 8, candidate 6)
        if (k + 1 < fcalls.size() || k == 0)
          c.tag(std::isfinite(fcalls[k].f) ? "path.zero_df_finite_f" : "path.zero_df_nonfinite_f");
      }
      const std::size_t first = static_cast<std::size_t>(1 + nb);
      if (k >= first) {
        const auto& pv = fcalls[k == first ? 0 : k - 1];
        const double newton = pv.x - pv.f / pv.df;
        if (!sameBits(newton, fcalls[k].x)) fallback = true;
      }
    }
    if (nonfinite) c.tag("saw.nonfinite");
    if (zeroder) c.tag("saw.zero_derivative");
    if (fallback) c.tag("saw.fallback");
    c.nontrivial(fallback || nonfinite || zeroder);
  }

}  // namespace

VERIF_SUB(scalar_int) { scalar<int>(c); }
VERIF_SUB(scalar_ushort) { scalar<unsigned short>(c); }

VERIF_MAIN("C09_scalar_newton")
