/*!
 * \file evaluator_ast.hxx
 * \brief Shared by C13 / C14 (rc harnesses) and the C13 fuzz target.
 *
 *  - scalar types for the oracle:  R = long double (value),
 *    E = value + running first-order bound of the error a *double* evaluation
 *    of the same formula makes (condition-aware tolerance),
 *    Dual<T> = forward-mode automatic differentiation over T (nestable).
 *  - an expression AST for the formula language of tfel::math::Evaluator,
 *    its generic evaluator `eval<T>` and a printer emitting minimal
 *    parentheses for the *documented* precedence
 *    (`**` > unary minus > `* /` > `+ -`, left associative, ternary lowest).
 *  - (only when verif.hxx is included first) the random generator: values
 *    first, tree second; every function argument is put inside the function's
 *    safe domain *by construction* (affine fit with literals), never by
 *    rejection.
 *
 * No TFEL header is included here: the oracle is independent of the library.
 */
#ifndef VERIF_EVALUATOR_AST_HXX
#define VERIF_EVALUATOR_AST_HXX

#include <cmath>
#include <cstdint>
#include <cstdio>
#include <cstdlib>
#include <functional>
#include <map>
#include <memory>
#include <set>
#include <stdexcept>
#include <string>
#include <vector>

namespace east {

  using R = long double;
  //! unit round-off of double
  constexpr R U = 1.1102230246251565404e-16L;
  constexpr R LN2 = 0.693147180559945309417232121458176568L;
  constexpr R LN10 = 2.302585092994045684017991454684364208L;
  constexpr R PI = 3.141592653589793238462643383279502884L;
  constexpr R TWO_OVER_SQRTPI = 1.128379167095512573896158903121545172L;

  //! the evaluation point is too close to a discontinuity / not in the domain
  struct Ill {
    const char* why;
  };

  // ------------------------------------------------------------------ E
  struct E {
    R v = 0;
    R e = 0;
  };
  template <typename T>
  struct Dual {
    T v;
    T d;
  };

  inline R val(const R a) { return a; }
  inline R val(const E& a) { return a.v; }
  template <typename T>
  R val(const Dual<T>& a) {
    return val(a.v);
  }
  //! error bound carried by the value part (0 when the type carries none)
  inline R errOf(const R) { return 0; }
  inline R errOf(const E& a) { return a.e; }
  template <typename T>
  R errOf(const Dual<T>& a) {
    return errOf(a.v);
  }

  template <typename T>
  struct Cst;
  template <>
  struct Cst<R> {
    static R make(const R x) { return x; }
  };
  template <>
  struct Cst<E> {
    static E make(const R x) { return E{x, 0}; }
  };
  template <typename T>
  struct Cst<Dual<T>> {
    static Dual<T> make(const R x) { return Dual<T>{Cst<T>::make(x), Cst<T>::make(0)}; }
  };
  template <typename T>
  T cst(const R x) {
    return Cst<T>::make(x);
  }

  // arithmetic on E: running error analysis of a double evaluation
  // sums: u (|a|+|b|) instead of u |a+b|: the library associates chains differently from the
  // AST (`a+b-c` is reduced as a+(b-c), `-` before `+`), which is a legitimate evaluation of the
  // same formula; the bound must hold for every association of an unparenthesised chain
  inline E operator+(const E& a, const E& b) {
    const R v = a.v + b.v;
    return {v, a.e + b.e + U * (fabsl(a.v) + fabsl(b.v))};
  }
  inline E operator-(const E& a, const E& b) {
    const R v = a.v - b.v;
    return {v, a.e + b.e + U * (fabsl(a.v) + fabsl(b.v))};
  }
  inline E operator-(const E& a) { return {-a.v, a.e}; }
  inline E operator*(const E& a, const E& b) {
    const R v = a.v * b.v;
    return {v, fabsl(a.v) * b.e + fabsl(b.v) * a.e + a.e * b.e + U * fabsl(v)};
  }
  inline E operator/(const E& a, const E& b) {
    if (!(fabsl(b.v) > 4 * b.e) || b.v == 0) throw Ill{"division by ~0"};
    const R v = a.v / b.v;
    const R bm = fabsl(b.v) - b.e;
    return {v, a.e / bm + fabsl(a.v) * b.e / (bm * bm) + U * fabsl(v)};
  }
  // arithmetic on Dual
  template <typename T>
  Dual<T> operator+(const Dual<T>& a, const Dual<T>& b) {
    return {a.v + b.v, a.d + b.d};
  }
  template <typename T>
  Dual<T> operator-(const Dual<T>& a, const Dual<T>& b) {
    return {a.v - b.v, a.d - b.d};
  }
  template <typename T>
  Dual<T> operator-(const Dual<T>& a) {
    return {-a.v, -a.d};
  }
  template <typename T>
  Dual<T> operator*(const Dual<T>& a, const Dual<T>& b) {
    return {a.v * b.v, a.d * b.v + a.v * b.d};
  }
  template <typename T>
  Dual<T> operator/(const Dual<T>& a, const Dual<T>& b) {
    return {a.v / b.v, a.d / b.v - (a.v * b.d) / (b.v * b.v)};
  }

  // ------------------------------------------------------ unary functions
  inline R r_H(const R x) { return x < 0 ? 0 : 1; }
  inline R r_sign(const R x) { return x < 0 ? R(-1) : R(1); }
  inline R r_digamma(R x) {
    if (x < 0.5L) return r_digamma(1 - x) - PI / tanl(PI * x);
    R r = 0;
    while (x < 14) {
      r -= 1 / x;
      x += 1;
    }
    const R i2 = 1 / (x * x);
    return r + logl(x) - 0.5L / x -
           i2 * (1.L / 12 - i2 * (1.L / 120 - i2 * (1.L / 252 - i2 * (1.L / 240 - i2 * (1.L / 132 - i2 * (691.L / 32760 - i2 / 12))))));
  }
  inline R r_trigamma(R x) {
    // only used for error propagation: moderate accuracy is enough
    if (x < 0.5L) {
      const R s = sinl(PI * x);
      return -r_trigamma(1 - x) + PI * PI / (s * s);
    }
    R r = 0;
    while (x < 14) {
      r += 1 / (x * x);
      x += 1;
    }
    const R i = 1 / x, i2 = i * i;
    return r + i + 0.5L * i2 + i * i2 * (1.L / 6 - i2 * (1.L / 30 - i2 * (1.L / 42 - i2 / 30)));
  }

#define EAST_DECL(NAME)            \
  inline R f_##NAME(const R);       \
  inline E f_##NAME(const E&);      \
  template <typename T>             \
  Dual<T> f_##NAME(const Dual<T>&);
  EAST_DECL(exp)
  EAST_DECL(exp2)
  EAST_DECL(expm1)
  EAST_DECL(cbrt)
  EAST_DECL(sqrt)
  EAST_DECL(log)
  EAST_DECL(log10)
  EAST_DECL(log2)
  EAST_DECL(log1p)
  EAST_DECL(cosh)
  EAST_DECL(sinh)
  EAST_DECL(tanh)
  EAST_DECL(acosh)
  EAST_DECL(asinh)
  EAST_DECL(atanh)
  EAST_DECL(sin)
  EAST_DECL(cos)
  EAST_DECL(tan)
  EAST_DECL(acos)
  EAST_DECL(asin)
  EAST_DECL(atan)
  EAST_DECL(erf)
  EAST_DECL(erfc)
  EAST_DECL(digamma)
  EAST_DECL(tgamma)
  EAST_DECL(lgamma)
#undef EAST_DECL

/*!
 * NAME: f_<name>;  RFUN: long double implementation (expression in x);
 * DR: derivative as a long double expression in x (error propagation);
 * DT: derivative as an expression in `a` of the generic type T;
 * KK: accuracy of the double libm function in ulps (generous);
 * AF: absolute floor in units of u (functions with zeros that are not
 *     computed to full relative accuracy).
 */
#define EAST_FUN(NAME, RFUN, DR, DT, KK, AF)                                   \
  inline R f_##NAME(const R x) { return RFUN; }                                \
  inline E f_##NAME(const E& a_) {                                             \
    const R x = a_.v;                                                          \
    const R v = RFUN;                                                          \
    /* worst derivative over [x-e, x+e]: evaluate at both ends too */          \
    R dmax = 0;                                                                \
    for (const R xx : {a_.v - a_.e, a_.v, a_.v + a_.e}) {                      \
      const R x = xx;                                                          \
      const R d = fabsl(DR);                                                   \
      if (!(d <= dmax)) dmax = d;                                              \
    }                                                                          \
    if (!std::isfinite(static_cast<double>(v)) || !std::isfinite(static_cast<double>(dmax))) \
      throw Ill{"function " #NAME " not finite around the point"};             \
    return {v, dmax * a_.e + (KK)*U * (fabsl(v) + (AF))};                      \
  }                                                                            \
  template <typename T>                                                        \
  Dual<T> f_##NAME(const Dual<T>& A_) {                                        \
    const T& a = A_.v;                                                         \
    const T dv = DT;                                                           \
    return {f_##NAME(a), dv * A_.d};                                           \
  }

  EAST_FUN(exp, expl(x), expl(x), f_exp(a), 2, 0)
  EAST_FUN(exp2, exp2l(x), LN2* exp2l(x), cst<T>(LN2) * f_exp2(a), 2, 0)
  EAST_FUN(expm1, expm1l(x), expl(x), f_exp(a), 2, 0)
  EAST_FUN(cbrt, cbrtl(x), 1 / (3 * cbrtl(x) * cbrtl(x)), cst<T>(1) / (cst<T>(3) * f_cbrt(a) * f_cbrt(a)), 2, 0)
  EAST_FUN(sqrt, sqrtl(x), 0.5L / sqrtl(x), cst<T>(0.5L) / f_sqrt(a), 2, 0)
  EAST_FUN(log, logl(x), 1 / x, cst<T>(1) / a, 2, 0)
  EAST_FUN(log10, log10l(x), 1 / (LN10 * x), cst<T>(1 / LN10) / a, 3, 0)
  EAST_FUN(log2, log2l(x), 1 / (LN2 * x), cst<T>(1 / LN2) / a, 3, 0)
  EAST_FUN(log1p, log1pl(x), 1 / (1 + x), cst<T>(1) / (cst<T>(1) + a), 2, 0)
  EAST_FUN(cosh, coshl(x), sinhl(x), f_sinh(a), 3, 0)
  EAST_FUN(sinh, sinhl(x), coshl(x), f_cosh(a), 3, 0)
  EAST_FUN(tanh, tanhl(x), 1 / (coshl(x) * coshl(x)), cst<T>(1) / (f_cosh(a) * f_cosh(a)), 3, 0)
  EAST_FUN(acosh, acoshl(x), 1 / sqrtl(x * x - 1), cst<T>(1) / f_sqrt(a * a - cst<T>(1)), 3, 0)
  EAST_FUN(asinh, asinhl(x), 1 / sqrtl(x * x + 1), cst<T>(1) / f_sqrt(a * a + cst<T>(1)), 3, 0)
  EAST_FUN(atanh, atanhl(x), 1 / (1 - x * x), cst<T>(1) / (cst<T>(1) - a * a), 3, 0)
  EAST_FUN(sin, sinl(x), cosl(x), f_cos(a), 2, 0)
  EAST_FUN(cos, cosl(x), sinl(x), -f_sin(a), 2, 0)
  EAST_FUN(tan, tanl(x), 1 + tanl(x) * tanl(x), cst<T>(1) + f_tan(a) * f_tan(a), 3, 0)
  EAST_FUN(acos, acosl(x), 1 / sqrtl(1 - x * x), -(cst<T>(1) / f_sqrt(cst<T>(1) - a * a)), 2, 0)
  EAST_FUN(asin, asinl(x), 1 / sqrtl(1 - x * x), cst<T>(1) / f_sqrt(cst<T>(1) - a * a), 2, 0)
  EAST_FUN(atan, atanl(x), 1 / (1 + x * x), cst<T>(1) / (cst<T>(1) + a * a), 2, 0)
  EAST_FUN(erf, erfl(x), TWO_OVER_SQRTPI* expl(-x * x), cst<T>(TWO_OVER_SQRTPI) * f_exp(-(a * a)), 4, 0)
  EAST_FUN(erfc, erfcl(x), TWO_OVER_SQRTPI* expl(-x * x), -(cst<T>(TWO_OVER_SQRTPI) * f_exp(-(a * a))), 8, 0)
  // digamma is only needed as the derivative of (l/t)gamma
  EAST_FUN(digamma, r_digamma(x), r_trigamma(x), cst<T>(r_trigamma(val(a))), 64, 1)
  EAST_FUN(tgamma, tgammal(x), tgammal(x) * r_digamma(x), f_tgamma(a) * f_digamma(a), 32, 0)
  EAST_FUN(lgamma, lgammal(x), r_digamma(x), f_digamma(a), 32, 1)
#undef EAST_FUN

  // piecewise functions
  inline R f_abs(const R x) { return fabsl(x); }
  inline E f_abs(const E& a) { return {fabsl(a.v), a.e}; }
  template <typename T>
  Dual<T> f_abs(const Dual<T>& a) {
    if (!(fabsl(val(a)) > 1e4L * errOf(a) + 1e-12L)) throw Ill{"abs differentiated at ~0"};
    return val(a) < 0 ? -a : a;
  }
  inline R f_H(const R x) { return r_H(x); }
  inline E f_H(const E& a) {
    if (!(fabsl(a.v) > 1e4L * a.e + 1e-9L)) throw Ill{"H at ~0"};
    return {r_H(a.v), 0};
  }
  template <typename T>
  Dual<T> f_H(const Dual<T>& a) {
    return {f_H(a.v), cst<T>(0)};
  }

  // ------------------------------------------------------ binary functions
  template <typename T>
  void guardApart(const T& a, const T& b, const char* what) {
    const R ea = errOf(a), eb = errOf(b);
    if (!(fabsl(val(a) - val(b)) > 1e4L * (ea + eb) + 1e-9L * (1 + fabsl(val(a)) + fabsl(val(b))))) throw Ill{what};
  }
  template <typename T>
  T f_max(const T& a, const T& b) {
    if constexpr (!std::is_same_v<T, R> && !std::is_same_v<T, E>) guardApart(a, b, "max/min differentiated at a tie");
    return val(a) < val(b) ? b : a;
  }
  template <typename T>
  T f_min(const T& a, const T& b) {
    if constexpr (!std::is_same_v<T, R> && !std::is_same_v<T, E>) guardApart(a, b, "max/min differentiated at a tie");
    return val(b) < val(a) ? b : a;
  }
  inline R f_hypot(const R a, const R b) { return hypotl(a, b); }
  inline E f_hypot(const E& a, const E& b) {
    const R v = hypotl(a.v, b.v);
    if (!(v > 4 * (a.e + b.e))) return {v, a.e + b.e + 2 * U * v};
    return {v, (fabsl(a.v) * a.e + fabsl(b.v) * b.e) / (v - a.e - b.e) + 2 * U * v};
  }
  template <typename T>
  Dual<T> f_hypot(const Dual<T>& a, const Dual<T>& b) {
    const T h = f_hypot(a.v, b.v);
    if (!(val(h) > 0)) throw Ill{"hypot differentiated at the origin"};
    return {h, (a.v * a.d + b.v * b.d) / h};
  }
  inline R f_atan2(const R y, const R x) { return atan2l(y, x); }
  inline E f_atan2(const E& y, const E& x) {
    const R r2 = x.v * x.v + y.v * y.v;
    const R r = sqrtl(r2);
    if (!(r > 1e4L * (x.e + y.e) + 1e-9L)) throw Ill{"atan2 at the origin"};
    if (x.v < 0 && !(fabsl(y.v) > 1e4L * y.e + 1e-9L * r)) throw Ill{"atan2 on the branch cut"};
    const R v = atan2l(y.v, x.v);
    const R rm = r - x.e - y.e;
    return {v, (fabsl(x.v) * y.e + fabsl(y.v) * x.e) / (rm * rm) + 2 * U * fabsl(v)};
  }
  template <typename T>
  Dual<T> f_atan2(const Dual<T>& y, const Dual<T>& x) {
    const T r2 = x.v * x.v + y.v * y.v;
    return {f_atan2(y.v, x.v), (x.v * y.d - y.v * x.d) / r2};
  }
  //! a**b for a > 0
  inline R f_pow(const R a, const R b) { return powl(a, b); }
  inline E f_pow(const E& a, const E& b) {
    if (!(a.v > 4 * a.e) || !(a.v > 0)) throw Ill{"power of a non positive base"};
    const R v = powl(a.v, b.v);
    if (!std::isfinite(static_cast<double>(v))) throw Ill{"power overflows"};
    const R am = a.v - a.e;
    // d/da = b a^(b-1), d/db = ln(a) a^b; second order terms through a 1.01 factor
    const R e = 1.01L * fabsl(v) * (fabsl(b.v) / am * a.e + (fabsl(logl(a.v)) + a.e / am) * b.e) + 2 * U * fabsl(v);
    return {v, e};
  }
  template <typename T>
  Dual<T> f_pow(const Dual<T>& a, const Dual<T>& b) {
    const T v = f_pow(a.v, b.v);
    return {v, v * (b.d * f_log(a.v) + b.v * a.d / a.v)};
  }
  //! integer power by multiplications (any non zero base if n < 0)
  template <typename T>
  T ipow(const T& a, const int n) {
    if (n == 0) return cst<T>(1);
    if (n < 0) {
      if (val(a) == 0) throw Ill{"negative power of 0"};
      return cst<T>(1) / ipow(a, -n);
    }
    T r = a;
    bool first = true;
    T base = a;
    int k = n;
    T acc = cst<T>(1);
    while (k > 0) {
      if (k & 1) {
        acc = first ? base : acc * base;
        first = false;
      }
      k >>= 1;
      if (k > 0) base = base * base;
    }
    (void)r;
    return acc;
  }

  // ------------------------------------------------------------- the AST
  enum class K { Num, Var, Cst, Par, Neg, Add, Sub, Mul, Div, Pow, IPow, PowN, Fun1, Fun2, Cond, Call };

  struct FunInfo {
    const char* name;
    //! safe argument ranges [lo,hi] (one or two intervals), strictly inside the domain
    double lo1, hi1, lo2, hi2;
    bool differentiable;  // differentiate() implemented by the library
  };
  // index = Node::id of Fun1 nodes
  inline const std::vector<FunInfo>& funs1() {
    static const std::vector<FunInfo> f = {
        {"exp", -20, 20, 0, 0, true},        {"exp2", -30, 30, 0, 0, false},     {"expm1", -20, 20, 0, 0, false},
        {"cbrt", 1e-3, 1e3, -1e3, -1e-3, false}, {"abs", -1e3, 1e3, 0, 0, false},    {"sqrt", 1e-3, 1e4, 0, 0, true},
        {"ln", 1e-3, 1e4, 0, 0, true},       {"log", 1e-3, 1e4, 0, 0, true},     {"log10", 1e-3, 1e4, 0, 0, true},
        {"log2", 1e-3, 1e4, 0, 0, false},    {"log1p", -0.9, 1e3, 0, 0, false},  {"cosh", -15, 15, 0, 0, true},
        {"sinh", -15, 15, 0, 0, true},       {"tanh", -8, 8, 0, 0, true},        {"acosh", 1.05, 1e3, 0, 0, false},
        {"asinh", -1e3, 1e3, 0, 0, false},   {"atanh", -0.95, 0.95, 0, 0, false}, {"sin", -30, 30, 0, 0, true},
        {"cos", -30, 30, 0, 0, true},        {"tan", -1.45, 1.45, 0, 0, true},   {"acos", -0.95, 0.95, 0, 0, true},
        {"asin", -0.95, 0.95, 0, 0, true},   {"atan", -1e3, 1e3, 0, 0, true},    {"erf", -4, 4, 0, 0, false},
        {"erfc", -4, 4, 0, 0, false},        {"tgamma", 0.1, 12, 0, 0, false},   {"lgamma", 0.1, 30, 0, 0, false},
        {"H", 1e-3, 1e3, -1e3, -1e-3, false}};
    return f;
  }
  enum Fun2Id { F2_MAX, F2_MIN, F2_HYPOT, F2_ATAN2 };
  inline const char* fun2name(const int i) {
    static const char* n[] = {"max", "min", "hypot", "atan2"};
    return n[i];
  }
  struct CstInfo {
    const char* name;
    double value;  // filled by the harness from tfel::PhysicalConstants (the fuzz target too)
  };

  template <typename T>
  T applyFun1(const int id, const T& a) {
    switch (id) {
      case 0: return f_exp(a);
      case 1: return f_exp2(a);
      case 2: return f_expm1(a);
      case 3: return f_cbrt(a);
      case 4: return f_abs(a);
      case 5: return f_sqrt(a);
      case 6: return f_log(a);
      case 7: return f_log(a);
      case 8: return f_log10(a);
      case 9: return f_log2(a);
      case 10: return f_log1p(a);
      case 11: return f_cosh(a);
      case 12: return f_sinh(a);
      case 13: return f_tanh(a);
      case 14: return f_acosh(a);
      case 15: return f_asinh(a);
      case 16: return f_atanh(a);
      case 17: return f_sin(a);
      case 18: return f_cos(a);
      case 19: return f_tan(a);
      case 20: return f_acos(a);
      case 21: return f_asin(a);
      case 22: return f_atan(a);
      case 23: return f_erf(a);
      case 24: return f_erfc(a);
      case 25: return f_tgamma(a);
      case 26: return f_lgamma(a);
      case 27: return f_H(a);
    }
    throw std::logic_error("applyFun1: bad id");
  }
  //! true when x is inside the *mathematical* domain (used by the strict parser of the fuzz target)
  inline bool inDomain1(const int id, const R x) {
    switch (id) {
      case 5: return x >= 0;
      case 6:
      case 7:
      case 8:
      case 9: return x > 0;
      case 10: return x > -1;
      case 14: return x >= 1;
      case 16: return x > -1 && x < 1;
      case 20:
      case 21: return x >= -1 && x <= 1;
      case 25: return !(x <= 0 && x == floorl(x));
      case 26: return !(x <= 0 && x == floorl(x));
      default: return true;
    }
  }

  struct Node;
  struct Logic;
  using NP = std::shared_ptr<Node>;
  using LP = std::shared_ptr<Logic>;
  enum CmpOp { EQ, LT, LE, GT, GE };
  inline const char* cmpname(const int o) {
    static const char* n[] = {"==", "<", "<=", ">", ">="};
    return n[o];
  }
  struct Logic {
    enum LK { Cmp, Not, And, Or } k = Cmp;
    int op = 0;
    NP a, b;             // Cmp
    bool clones = false;  // Cmp: b is a structural copy of a (exactly equal values)
    std::vector<LP> ch;   // Not (1), And/Or (>=2)
  };
  struct Node {
    K k = K::Num;
    int id = 0;        // Var/Par: index, Cst: index, Fun1/Fun2: function, IPow/PowN: exponent, Call: function index
    std::string lit;   // Num: the spelling
    double num = 0;    // Num: strtod(lit)
    NP a, b;
    LP c;
    std::vector<NP> args;  // Call
    R val = 0;             // value at the generation point (generator only)
  };

  template <typename T>
  struct Env {
    std::vector<T> vars;
    std::vector<T> pars;
    //! user functions (Call): body + number of arguments; evaluated with vars = arguments
    std::vector<std::pair<NP, int>> calls;
    const std::vector<CstInfo>* csts = nullptr;
    //! when set: outcome of every comparison met, in evaluation order (branch signature)
    std::string* trace = nullptr;
  };

  template <typename T>
  T eval(const Node& n, const Env<T>& env);

  template <typename T>
  bool evalLogic(const Logic& l, const Env<T>& env) {
    switch (l.k) {
      case Logic::Cmp: {
        const T a = eval<T>(*l.a, env);
        const T b = eval<T>(*l.b, env);
        const R x = val(a), y = val(b);
        if (!(l.clones)) {
          const R ea = errOf(a), eb = errOf(b);
          // E carries the bound; with R (no bound) demand a plain relative margin
          const R margin = 1e4L * (ea + eb) + 1e-9L * (1 + fabsl(x) + fabsl(y));
          if (!std::is_same_v<T, R> && !(fabsl(x - y) > margin)) throw Ill{"comparison at the switching surface"};
        }
        bool r = false;
        switch (l.op) {
          case EQ: r = x == y; break;
          case LT: r = x < y; break;
          case LE: r = x <= y; break;
          case GT: r = x > y; break;
          case GE: r = x >= y; break;
        }
        if (env.trace != nullptr) env.trace->push_back(r ? '1' : '0');
        return r;
      }
      case Logic::Not: return !evalLogic<T>(*l.ch[0], env);
      case Logic::And: {
        bool r = true;
        for (const auto& c : l.ch) r = evalLogic<T>(*c, env) && r;  // no short circuit: every operand is evaluated
        return r;
      }
      case Logic::Or: {
        bool r = false;
        for (const auto& c : l.ch) r = evalLogic<T>(*c, env) || r;
        return r;
      }
    }
    return false;
  }

  template <typename T>
  T evalNode(const Node& n, const Env<T>& env);
  //! every intermediate value must be a normal double (the library turns range errors into exceptions)
  template <typename T>
  T eval(const Node& n, const Env<T>& env) {
    const T r = evalNode<T>(n, env);
    const R a = fabsl(val(r));
    if (!(a <= 1e290L)) throw Ill{"overflow / not a number"};
    if (a != 0 && a < 1e-290L) throw Ill{"underflow"};
    return r;
  }
  template <typename T>
  T evalNode(const Node& n, const Env<T>& env) {
    switch (n.k) {
      case K::Num: return cst<T>(static_cast<R>(n.num));
      case K::Var: return env.vars.at(n.id);
      case K::Par: return env.pars.at(n.id);
      case K::Cst: return cst<T>(static_cast<R>(env.csts->at(n.id).value));
      case K::Neg: return -eval<T>(*n.a, env);
      case K::Add: return eval<T>(*n.a, env) + eval<T>(*n.b, env);
      case K::Sub: return eval<T>(*n.a, env) - eval<T>(*n.b, env);
      case K::Mul: return eval<T>(*n.a, env) * eval<T>(*n.b, env);
      case K::Div: {
        const T b = eval<T>(*n.b, env);
        if (val(b) == 0) throw Ill{"division by zero"};
        return eval<T>(*n.a, env) / b;
      }
      case K::Pow: {
        const T a = eval<T>(*n.a, env);
        const T b = eval<T>(*n.b, env);
        if (!(val(a) > 0)) throw Ill{"general power of a non positive base"};
        return f_pow(a, b);
      }
      case K::IPow:
      case K::PowN: return ipow(eval<T>(*n.a, env), n.id);
      case K::Fun1: {
        const T a = eval<T>(*n.a, env);
        if (!inDomain1(n.id, val(a))) throw Ill{"outside the domain"};
        const T r = applyFun1<T>(n.id, a);
        if (!std::isfinite(static_cast<double>(val(r)))) throw Ill{"non finite function value"};
        return r;
      }
      case K::Fun2: {
        const T a = eval<T>(*n.a, env);
        const T b = eval<T>(*n.b, env);
        switch (n.id) {
          case F2_MAX: return f_max(a, b);
          case F2_MIN: return f_min(a, b);
          case F2_HYPOT: return f_hypot(a, b);
          case F2_ATAN2: return f_atan2(a, b);
        }
        throw std::logic_error("eval: bad Fun2 id");
      }
      case K::Cond: return evalLogic<T>(*n.c, env) ? eval<T>(*n.a, env) : eval<T>(*n.b, env);
      case K::Call: {
        Env<T> e2;
        e2.pars = env.pars;
        e2.calls = env.calls;
        e2.csts = env.csts;
        e2.trace = env.trace;
        for (const auto& a : n.args) e2.vars.push_back(eval<T>(*a, env));
        return eval<T>(*env.calls.at(n.id).first, e2);
      }
    }
    throw std::logic_error("eval: bad node");
  }

  // ----------------------------------------------------------- statistics
  struct Shape {
    int depth = 0, nodes = 0;
    std::set<int> opclasses;  // distinct operator classes (K as int; Fun1/Fun2 all in one class each)
    std::set<int> vars, pars, funs1;
    bool hasCond = false, hasLogicMix = false, hasCall = false;
  };
  inline void shapeOf(const Node& n, Shape& s, int d = 1);
  inline void shapeOfLogic(const Logic& l, Shape& s, const int d) {
    if (l.k == Logic::Cmp) {
      shapeOf(*l.a, s, d);
      shapeOf(*l.b, s, d);
    } else {
      if (l.k != Logic::Not) s.hasLogicMix = true;
      for (const auto& c : l.ch) shapeOfLogic(*c, s, d);
    }
  }
  inline void shapeOf(const Node& n, Shape& s, const int d) {
    ++s.nodes;
    if (d > s.depth) s.depth = d;
    switch (n.k) {
      case K::Num:
      case K::Cst: break;
      case K::Var: s.vars.insert(n.id); break;
      case K::Par: s.pars.insert(n.id); break;
      default: s.opclasses.insert(static_cast<int>(n.k));
    }
    if (n.k == K::Fun1) s.funs1.insert(n.id);
    if (n.k == K::Cond) {
      s.hasCond = true;
      shapeOfLogic(*n.c, s, d + 1);
    }
    if (n.k == K::Call) s.hasCall = true;
    if (n.a) shapeOf(*n.a, s, d + 1);
    if (n.b) shapeOf(*n.b, s, d + 1);
    for (const auto& a : n.args) shapeOf(*a, s, d + 1);
  }
  //! does the value of n depend on variable v (syntactically)?
  inline bool dependsOn(const Node& n, const int v);
  inline bool logicDependsOn(const Logic& l, const int v) {
    if (l.k == Logic::Cmp) return dependsOn(*l.a, v) || dependsOn(*l.b, v);
    for (const auto& c : l.ch)
      if (logicDependsOn(*c, v)) return true;
    return false;
  }
  inline bool dependsOn(const Node& n, const int v) {
    if (n.k == K::Var) return n.id == v;
    if (n.a && dependsOn(*n.a, v)) return true;
    if (n.b && dependsOn(*n.b, v)) return true;
    if (n.c && logicDependsOn(*n.c, v)) return true;
    for (const auto& a : n.args)
      if (dependsOn(*a, v)) return true;
    return false;
  }
  //! does the tree hold any variable / any external parameter or function
  inline void leavesOf(const Node& n, bool& anyVar, bool& anyExt) {
    if (n.k == K::Var) anyVar = true;
    if (n.k == K::Par || n.k == K::Call) anyExt = true;
    if (n.a) leavesOf(*n.a, anyVar, anyExt);
    if (n.b) leavesOf(*n.b, anyVar, anyExt);
    if (n.c) {
      std::function<void(const Logic&)> rec = [&](const Logic& l) {
        if (l.k == Logic::Cmp) {
          leavesOf(*l.a, anyVar, anyExt);
          leavesOf(*l.b, anyVar, anyExt);
        }
        for (const auto& c : l.ch) rec(*c);
      };
      rec(*n.c);
    }
    for (const auto& a : n.args) leavesOf(*a, anyVar, anyExt);
  }
  //! largest number of operator/function nodes above an occurrence of variable v
  inline int nestingOf(const Node& n, const int v, const int above = 0) {
    if (n.k == K::Var) return n.id == v ? above : -1;
    int r = -1;
    const int nx = above + 1;
    if (n.a) r = std::max(r, nestingOf(*n.a, v, nx));
    if (n.b) r = std::max(r, nestingOf(*n.b, v, nx));
    for (const auto& a : n.args) r = std::max(r, nestingOf(*a, v, nx));
    return r;
  }
  //! is there a Fun1 node with id in `ids` whose argument depends on v
  inline bool funOnPath(const Node& n, const int v, const std::set<int>& ids) {
    if (n.k == K::Fun1 && ids.count(n.id) && dependsOn(*n.a, v)) return true;
    if (n.a && funOnPath(*n.a, v, ids)) return true;
    if (n.b && funOnPath(*n.b, v, ids)) return true;
    if (n.c) {
      std::function<bool(const Logic&)> rec = [&](const Logic& l) {
        if (l.k == Logic::Cmp) return funOnPath(*l.a, v, ids) || funOnPath(*l.b, v, ids);
        for (const auto& c : l.ch)
          if (rec(*c)) return true;
        return false;
      };
      if (rec(*n.c)) return true;
    }
    for (const auto& a : n.args)
      if (funOnPath(*a, v, ids)) return true;
    return false;
  }

  // -------------------------------------------------------------- printer
  /*!
   * Token stream with minimal parentheses for the documented precedence.
   * Undocumented / known-defective forms are never emitted bare:
   *  - chained `**` (either operand being a power, or a negated power) is parenthesised,
   *  - a unary minus directly after a binary `-` is parenthesised (the library rejects `a - -b`),
   *  - a unary minus directly after a binary `+` (`a + -b`, accepted by design, see
   *    TGroup::reduce) makes the library free a live object (known finding
   *    C13.plus_unary_minus.crash): parenthesised unless `allowPlusNeg`, counted,
   *  - a comparison whose left operand starts with `(` is rejected by the library
   *    (known finding C13.cond.lhs_paren.rejected): the comparison is mirrored or the
   *    operand prefixed by `1*` unless `allowCondLhsParen`, counted,
   *  - a conditional expression that is not the whole formula must be parenthesised (or be a
   *    function argument); the library then looks for `?` and `:` only up to the first `)`
   *    (resp. `,`) token whatever the nesting (Evaluator::search) and rejects the formula when
   *    the condition or the first branch holds a parenthesis (known finding
   *    C13.cond.nested.rejected).  A `Cste::X` constant at parenthesis depth 0 of the first branch
   *    is rejected too (its colons are taken for the `:` of the conditional, known finding
   *    C13.cond.cste_first_branch.rejected): parenthesised unless `allowCondCste`, counted.  The printer only counts the class (`condNested`); the
   *    generator builds nested conditionals "flat" (no parenthesis needed before the `:`).
   */
  struct PrintOptions {
    std::vector<std::string> varnames, parnames, callnames;
    const std::vector<CstInfo>* csts = nullptr;
    bool allowPlusNeg = false;
    bool allowCondLhsParen = false;
    bool allowCondCste = false;
  };
  struct PrintInfo {
    int plusNeg = 0;        // occurrences of the `+ -` class
    int condLhsParen = 0;   // occurrences of the `(`-starting comparison class
    int condCste = 0;       // Cste:: constant at parenthesis depth 0 of the first branch of a conditional
    int condNested = 0;     // conditional inside ( ) / a function argument whose condition or first branch holds ( ) ,
    int unaryAfterMulDivPow = 0, unaryAtGroupStart = 0;
  };
  using Tokens = std::vector<std::string>;

  inline int prec(const Node& n) {
    switch (n.k) {
      case K::Cond: return 0;
      case K::Add:
      case K::Sub: return 1;
      case K::Mul:
      case K::Div: return 2;
      case K::Neg: return 3;
      case K::Pow:
      case K::IPow: return 4;
      default: return 5;
    }
  }
  inline bool isAtom(const Node& n) { return prec(n) == 5; }

  struct Printer {
    const PrintOptions& o;
    PrintInfo info;
    bool rootPending = true;
    explicit Printer(const PrintOptions& oo) : o(oo) {}

    static void append(Tokens& t, const Tokens& s) { t.insert(t.end(), s.begin(), s.end()); }
    static Tokens paren(const Tokens& s) {
      Tokens t{"("};
      append(t, s);
      t.push_back(")");
      return t;
    }
    Tokens expr(const Node& n) {
      Tokens t;
      const bool isRoot = rootPending;
      rootPending = false;
      switch (n.k) {
        case K::Num: t.push_back(n.lit); break;
        case K::Var: t.push_back(o.varnames.at(n.id)); break;
        case K::Par: t.push_back(o.parnames.at(n.id)); break;
        case K::Cst: t.push_back(std::string("Cste::") + o.csts->at(n.id).name); break;
        case K::Neg: {
          ++info.unaryAtGroupStart;  // corrected by the callers that put it elsewhere
          t.push_back("-");
          auto s = expr(*n.a);
          // operand: anything binding tighter than unary minus, or a power (standard: -a**b = -(a**b))
          if (prec(*n.a) >= 4) {
            append(t, s);
          } else {
            append(t, paren(s));
          }
          break;
        }
        case K::Add:
        case K::Sub:
        case K::Mul:
        case K::Div: {
          const int p = prec(n);
          auto l = expr(*n.a);
          if (prec(*n.a) < p) l = paren(l);
          auto r = expr(*n.b);
          if (prec(*n.b) <= p) {
            r = paren(r);
          } else if (r.front() == "-") {
            if (n.k == K::Sub) {
              r = paren(r);
            } else if (n.k == K::Add) {
              ++info.plusNeg;
              if (!o.allowPlusNeg) r = paren(r);
            } else {
              ++info.unaryAfterMulDivPow;
              --info.unaryAtGroupStart;
            }
          }
          append(t, l);
          t.push_back(n.k == K::Add ? "+" : n.k == K::Sub ? "-" : n.k == K::Mul ? "*" : "/");
          append(t, r);
          break;
        }
        case K::Pow:
        case K::IPow: {
          auto l = expr(*n.a);
          if (!isAtom(*n.a)) l = paren(l);
          Tokens r;
          if (n.k == K::IPow) {
            if (n.id < 0) {
              r = {"-", std::to_string(-n.id)};
              ++info.unaryAfterMulDivPow;
            } else {
              r = {std::to_string(n.id)};
            }
          } else {
            r = expr(*n.b);
            const bool negAtom = n.b->k == K::Neg && isAtom(*n.b->a);
            if (negAtom) {
              ++info.unaryAfterMulDivPow;
              --info.unaryAtGroupStart;
            } else if (!isAtom(*n.b)) {
              r = paren(r);
            }
          }
          append(t, l);
          t.push_back("**");
          append(t, r);
          break;
        }
        case K::PowN: {
          t = {"power", "<"};
          if (n.id < 0) t.push_back("-");
          t.push_back(std::to_string(std::abs(n.id)));
          t.push_back(">");
          t.push_back("(");
          append(t, expr(*n.a));
          t.push_back(")");
          break;
        }
        case K::Fun1: {
          t = {funs1().at(n.id).name, "("};
          append(t, expr(*n.a));
          t.push_back(")");
          break;
        }
        case K::Fun2: {
          t = {fun2name(n.id), "("};
          append(t, expr(*n.a));
          t.push_back(",");
          append(t, expr(*n.b));
          t.push_back(")");
          break;
        }
        case K::Call: {
          t = {o.callnames.at(n.id), "("};
          for (std::size_t i = 0; i != n.args.size(); ++i) {
            if (i) t.push_back(",");
            append(t, expr(*n.args[i]));
          }
          t.push_back(")");
          break;
        }
        case K::Cond: {
          append(t, logic(*n.c, 0));
          t.push_back("?");
          auto a = expr(*n.a);
          if (n.a->k == K::Cond) a = paren(a);
          {
            // `Cste::X` is lexed as `Cste : : X`: its colons are taken for the ':' of the conditional
            int depth = 0;
            Tokens a2;
            for (const auto& tk : a) {
              if (tk == "(") ++depth;
              if (tk == ")") --depth;
              if (depth == 0 && tk.rfind("Cste::", 0) == 0) {
                ++info.condCste;
                if (!o.allowCondCste) {
                  a2.push_back("(");
                  a2.push_back(tk);
                  a2.push_back(")");
                  continue;
                }
              }
              a2.push_back(tk);
            }
            a = a2;
          }
          append(t, a);
          if (!isRoot) {
            for (const auto& tk : t)
              if (tk == "(" || tk == ")" || tk == ",") {
                ++info.condNested;
                break;
              }
          }
          t.push_back(":");
          auto b = expr(*n.b);
          if (n.b->k == K::Cond) b = paren(b);
          append(t, b);
          break;
        }
      }
      return t;
    }
    //! level: 0 top / inside parentheses, 1 operand of && or ||
    Tokens logic(const Logic& l, const int parentKind /*0 none, 1 And, 2 Or, 3 Not*/) {
      Tokens t;
      switch (l.k) {
        case Logic::Cmp: {
          auto a = expr(*l.a);
          if (l.a->k == K::Cond) a = paren(a);
          auto b = expr(*l.b);
          if (l.b->k == K::Cond) b = paren(b);
          int op = l.op;
          if (a.front() == "(") {
            ++info.condLhsParen;
            if (!o.allowCondLhsParen) {
              if (b.front() != "(") {
                std::swap(a, b);
                op = op == LT ? GT : op == GT ? LT : op == LE ? GE : op == GE ? LE : EQ;
              } else {
                Tokens a2{"1", "*"};
                append(a2, a);
                a = a2;
              }
            }
          }
          append(t, a);
          t.push_back(cmpname(op));
          append(t, b);
          if (parentKind == 3) t = paren(t);
          break;
        }
        case Logic::Not: {
          t.push_back("!");
          auto s = logic(*l.ch[0], 3);
          if (s.front() != "(") s = paren(s);
          append(t, s);
          break;
        }
        case Logic::And:
        case Logic::Or: {
          const int me = l.k == Logic::And ? 1 : 2;
          for (std::size_t i = 0; i != l.ch.size(); ++i) {
            if (i) t.push_back(me == 1 ? "&&" : "||");
            auto s = logic(*l.ch[i], me);
            // relative precedence of && and || is undocumented: any nested And/Or is parenthesised
            if ((l.ch[i]->k == Logic::And || l.ch[i]->k == Logic::Or)) s = paren(s);
            append(t, s);
          }
          if (parentKind == 3) t = paren(t);
          break;
        }
      }
      return t;
    }
  };

  //! join tokens; `ws` in 0..3 selects how much white space, `seed` drives a small LCG
  inline std::string join(const Tokens& t, const int ws, std::uint64_t seed) {
    std::string s;
    auto next = [&seed]() {
      seed = seed * 6364136223846793005ull + 1442695040888963407ull;
      return static_cast<unsigned>(seed >> 33);
    };
    for (std::size_t i = 0; i != t.size(); ++i) {
      if (i || ws == 3) {
        const unsigned r = next() % 16;
        if (ws == 1) {
          // conventional: spaces around + - ? : comparison and logical operators
          const auto& a = t[i - 1];
          const auto& b = t[i];
          auto spaced = [](const std::string& x) {
            return x == "+" || x == "?" || x == ":" || x == "&&" || x == "||" || x == "==" || x == "<=" || x == ">=";
          };
          if (spaced(a) || spaced(b)) s += ' ';
        } else if (ws >= 2) {
          if (r < 6) s += ' ';
          if (r == 6) s += "  ";
          if (r == 7) s += '\t';
          if (r == 8 && ws == 3) s += '\n';
        }
      }
      s += t[i];
    }
    if (ws == 3 && next() % 2) s += ' ';
    return s;
  }

  // ---------------------------------------------------- C++ int-typedness
  /*!
   * getCxxFormula copies integer spelled literals verbatim (known finding
   * C13.cxx.integer_literal).  `cxxIntClass` tells whether the C++ text of the
   * formula can be affected: an int typed sub-expression feeds a division by an
   * int typed sub-expression, a tfel::math::power<N>, a max/min with a floating
   * point partner, `abs`, or can overflow int.  `isIntTyped` mirrors the C++
   * typing of what Expr::getCxxFormula emits.
   */
  inline bool isIntSpelling(const std::string& lit) { return lit.find_first_of(".eE") == std::string::npos; }
  inline bool isIntTyped(const Node& n) {
    switch (n.k) {
      case K::Num: return isIntSpelling(n.lit);
      case K::Neg: return isIntTyped(*n.a);
      case K::Add:
      case K::Sub:
      case K::Mul:
      case K::Div: return isIntTyped(*n.a) && isIntTyped(*n.b);
      case K::Cond: return isIntTyped(*n.a) && isIntTyped(*n.b);
      case K::IPow:
      case K::PowN:
        if (n.id == 0) return true;  // emitted as `1`
        if (n.id == 1) return isIntTyped(*n.a);
        return false;  // does not compile with an int argument: handled by cxxIntClass
      case K::Fun1: return n.id == 4 /*abs*/ && isIntTyped(*n.a);
      case K::Fun2: return (n.id == F2_MAX || n.id == F2_MIN) && isIntTyped(*n.a) && isIntTyped(*n.b);
      default: return false;
    }
  }
  inline bool cxxIntClass(const Node& n);
  inline bool cxxIntClassLogic(const Logic& l) {
    if (l.k == Logic::Cmp) return cxxIntClass(*l.a) || cxxIntClass(*l.b);
    for (const auto& c : l.ch)
      if (cxxIntClassLogic(*c)) return true;
    return false;
  }
  inline bool cxxIntClass(const Node& n) {
    if (n.a && cxxIntClass(*n.a)) return true;
    if (n.b && cxxIntClass(*n.b)) return true;
    if (n.c && cxxIntClassLogic(*n.c)) return true;
    for (const auto& a : n.args)
      if (cxxIntClass(*a)) return true;
    switch (n.k) {
      case K::Div: return isIntTyped(*n.a) && isIntTyped(*n.b);
      case K::Add:
      case K::Sub:
      case K::Mul:  // int overflow
        return isIntTyped(*n.a) && isIntTyped(*n.b) && fabsl(n.val) > 2.0e9L;
      case K::Num: return isIntSpelling(n.lit) && n.num > 2.0e9;
      case K::IPow:
      case K::PowN: return n.id != 0 && n.id != 1 && isIntTyped(*n.a);
      case K::Pow: {
        // a ** (constant integral value in -16..16) is emitted as power<N>(a)
        return isIntTyped(*n.a);
      }
      case K::Fun2:
        if (n.id == F2_MAX || n.id == F2_MIN) return isIntTyped(*n.a) != isIntTyped(*n.b);
        return false;
      default: return false;
    }
  }

#ifdef VERIF_HXX
  // ------------------------------------------------------------ generator
  struct GenOptions {
    int nvars = 2;
    int npars = 0;    // external parameters (C13 deps)
    int ncalls = 0;   // external user functions (C13 deps), all binary
    int maxDepth = 8;
    int maxNodes = 70;
    bool differentiableOnly = false;   // C14: only nodes the library can differentiate
    bool allowCond = true;
    bool allowCst = true;
    const std::vector<CstInfo>* csts = nullptr;
  };

  struct Generator {
    verif::Case& c;
    GenOptions o;
    std::vector<double> x;  // values of the variables
    std::vector<double> p;  // values of the parameters
    std::vector<std::pair<NP, int>> calls;
    int nodes = 0;
    int fitted = 0, fallbacks = 0;
    int noCst = 0;  // > 0: no Cste:: leaf (first branch of a nested conditional)
    //! user functions whose argument list is being generated: f(a, f(b,c)) is a known finding
    //! (C13.deps.nested_same_function), never generated unless allowed
    std::set<int> activeCalls;
    bool allowNestedSameCall = false;
    bool allowIntegerParameterExponent = false;
    //! nested conditionals are general ones (only when C13.cond.nested.rejected is not a known finding)
    bool nestedFullCond = false;
    int avoidedIntegerExponents = 0;
    int avoidedNestedCalls = 0;

    Generator(verif::Case& cc, const GenOptions& oo) : c(cc), o(oo) {}

    Env<R> env() const {
      Env<R> e;
      for (const auto v : x) e.vars.push_back(v);
      for (const auto v : p) e.pars.push_back(v);
      e.calls = calls;
      e.csts = o.csts;
      return e;
    }
    //! value of a variable: short binary fractions half of the time (exact `==`, readable replays)
    double drawValue(const char* nm) {
      if (c.chance(1, 2, "short")) return static_cast<double>(c.integer(-80, 80, nm)) / 8.;
      return c.sreal(10., nm);
    }
    void drawPoint() {
      x.clear();
      p.clear();
      for (int i = 0; i != o.nvars; ++i) x.push_back(drawValue("x"));
      for (int i = 0; i != o.npars; ++i) p.push_back(drawValue("p"));
    }
    NP mk(const K k) {
      auto n = std::make_shared<Node>();
      n->k = k;
      ++nodes;
      return n;
    }
    R value(const Node& n) const {
      try {
        return eval<R>(n, env());
      } catch (const Ill&) {
        return NAN;
      }
    }
    NP finish(NP n) {
      n->val = value(*n);
      return n;
    }
    //! non negative number literal in one of the accepted spellings, value ~ v (v >= 0)
    NP number(const double v) {
      auto n = mk(K::Num);
      char b[64];
      const int style = static_cast<int>(c.pick(7, "numstyle"));
      const double a = std::fabs(v);
      if (a == 0) {
        n->lit = style < 3 ? "0" : (style < 5 ? "0." : "0.0");
      } else if (style == 0 && a >= 1 && a < 1e6 && a == std::floor(a)) {
        std::snprintf(b, sizeof b, "%d", static_cast<int>(a));  // 12
        n->lit = b;
      } else if (style == 1 && a >= 1 && a < 1e6 && a == std::floor(a)) {
        std::snprintf(b, sizeof b, "%d.", static_cast<int>(a));  // 2.
        n->lit = b;
      } else if (style == 2 && a < 1 && a >= 1e-4) {
        std::snprintf(b, sizeof b, "%.4g", a);  // .5
        std::string s = b;
        if (s.size() > 1 && s[0] == '0' && s[1] == '.') s = s.substr(1);
        n->lit = s.find('e') == std::string::npos ? s : std::string(b);
      } else if (style == 3) {
        std::snprintf(b, sizeof b, "%.3e", a);  // 1.500e-03
        n->lit = b;
      } else if (style == 4) {
        std::snprintf(b, sizeof b, "%.2E", a);  // 1.50E+04
        std::string s = b;
        // 1.E+4 style: drop the fraction when it is zero
        const auto pe = s.find('E');
        if (s.substr(1, pe - 1) == ".00") s = s.substr(0, 1) + "." + s.substr(pe);
        n->lit = s;
      } else if (style == 5 && a >= 1e-3 && a < 1e7) {
        std::snprintf(b, sizeof b, "%.6f", a);
        n->lit = b;
      } else {
        std::snprintf(b, sizeof b, "%.5g", a);
        n->lit = b;
        // %g may print an integer: fine, it is an accepted spelling
      }
      n->num = std::strtod(n->lit.c_str(), nullptr);
      n->val = n->num;
      return n;
    }
    //! literal close to v with sign handled by a Neg node when needed
    NP signedNumber(const double v) {
      auto n = number(std::fabs(v));
      if (v < 0) {
        auto m = mk(K::Neg);
        m->a = n;
        return finish(m);
      }
      return n;
    }
    NP leaf() {
      const int w = static_cast<int>(c.pick(20, "leaf"));
      if (w < 11 && o.nvars > 0) {
        auto n = mk(K::Var);
        n->id = static_cast<int>(c.pick(o.nvars, "var"));
        return finish(n);
      }
      if (w < 13 && o.npars > 0) {
        auto n = mk(K::Par);
        n->id = static_cast<int>(c.pick(o.npars, "par"));
        return finish(n);
      }
      if (w < 14 && o.allowCst && noCst == 0 && o.csts != nullptr) {
        auto n = mk(K::Cst);
        n->id = static_cast<int>(c.pick(o.csts->size(), "cst"));
        return finish(n);
      }
      // numbers: small integers, short decimals, wide range
      const int s = static_cast<int>(c.pick(4, "numkind"));
      double v;
      if (s == 0) {
        v = static_cast<double>(c.integer(0, 12, "int"));
      } else if (s == 1) {
        v = static_cast<double>(c.integer(1, 999, "dec")) / 100.;
      } else if (s == 2) {
        v = c.real(0., 10., "num");
      } else {
        v = c.log10real(-4, 5, "numlog");
      }
      return number(v);
    }
    NP binary(const K k, NP a, NP b) {
      auto n = mk(k);
      n->a = a;
      n->b = b;
      return finish(n);
    }
    /*!
     * returns a node built on `n` whose value at the point lies in [lo,hi]
     * (construction: n*s + t with literals s, t derived from the value of n)
     */
    NP fit(NP n, const double lo, const double hi) {
      ++fitted;
      const double w = hi - lo;
      const R v = n->val;
      const double t = lo + w * c.real(0.15, 0.85, "fit");
      NP r = n;
      if (std::isfinite(static_cast<double>(v))) {
        R cur = v;
        if (fabsl(cur) > w / 4) {
          // scale down first (3 significant digits)
          const double s = static_cast<double>((w / 4) / fabsl(cur));
          char b[32];
          std::snprintf(b, sizeof b, "%.2e", s);
          auto lit = mk(K::Num);
          lit->lit = b;
          lit->num = std::strtod(b, nullptr);
          lit->val = lit->num;
          r = c.boolean("fitside") ? binary(K::Mul, r, lit) : binary(K::Mul, lit, r);
          cur = r->val;
        }
        const double d = t - static_cast<double>(cur);
        if (std::fabs(d) > 1e-3 * w) {
          char b[48];
          int digits = 4;
          if (std::fabs(d) > 0.1 * w) digits = std::min(15, 4 + static_cast<int>(std::ceil(std::log10(std::fabs(d) / (0.1 * w)))));
          std::snprintf(b, sizeof b, "%.*g", digits, std::fabs(d));
          auto lit = mk(K::Num);
          lit->lit = b;
          lit->num = std::strtod(b, nullptr);
          lit->val = lit->num;
          if (d > 0) {
            r = c.boolean("fitside") ? binary(K::Add, r, lit) : binary(K::Add, lit, r);
          } else {
            r = binary(K::Sub, r, lit);
          }
        }
      }
      if (!(r->val >= lo && r->val <= hi)) {
        ++fallbacks;
        r = signedNumber(t);
        if (!(r->val >= lo && r->val <= hi)) r = signedNumber((lo + hi) / 2);
      }
      return r;
    }
    //! keep magnitudes moderate so that nothing overflows further up
    static bool wild(const R v) { return !std::isfinite(static_cast<double>(v)) || fabsl(v) > 1e6L || (v != 0 && fabsl(v) < 1e-60L); }
    NP tame(NP n) {
      if (wild(n->val)) return fit(n, -100, 100);
      return n;
    }
    NP inRanges(NP a, const FunInfo& f) {
      const bool two = f.lo2 != f.hi2;
      const bool in1 = a->val >= f.lo1 && a->val <= f.hi1;
      const bool in2 = two && a->val >= f.lo2 && a->val <= f.hi2;
      if (in1 || in2) return a;
      if (two && c.boolean("range2")) return fit(a, f.lo2, f.hi2);
      // log-like ranges: fit inside a moderate sub-interval
      double lo = f.lo1, hi = f.hi1;
      if (hi / (std::fabs(lo) + 1e-300) > 1e4 && lo > 0) hi = std::min(hi, 50.);
      if (hi - lo > 200) {
        lo = std::max(lo, -50.);
        hi = std::min(hi, 50.);
      }
      return fit(a, lo, hi);
    }
    bool differentiableFun(const int id) const { return funs1().at(id).differentiable; }

    LP comparison(const int depth) {
      auto l = std::make_shared<Logic>();
      l->k = Logic::Cmp;
      l->op = static_cast<int>(c.pick(5, "cmp"));
      l->a = gen(depth - 1);
      if ((l->op == EQ || l->op == LE || l->op == GE) && c.chance(1, 3, "equal")) {
        // exactly equal operands: a structural copy (same operations, same rounding)
        l->b = l->a;
        l->clones = true;
        return l;
      }
      l->b = gen(depth - 1);
      const R m = 1e-3L * (1 + fabsl(l->a->val) + fabsl(l->b->val));
      if (!(fabsl(l->a->val - l->b->val) > m)) {
        const double lo = static_cast<double>(l->a->val + 2 * m + 0.5L);
        l->b = c.boolean("above") ? fit(l->b, lo, lo + 10) : fit(l->b, static_cast<double>(l->a->val - 2 * m - 10.5L), static_cast<double>(l->a->val - 2 * m - 0.5L));
      }
      return l;
    }
    LP logic(const int depth, const int level = 0) {
      const int w = static_cast<int>(c.pick(10, "logic"));
      if (level >= 2 || w < 5 || depth <= 1) return comparison(depth);
      auto l = std::make_shared<Logic>();
      if (w < 6) {
        l->k = Logic::Not;
        l->ch.push_back(logic(depth - 1, level + 1));
        return l;
      }
      l->k = w < 8 ? Logic::And : Logic::Or;
      const int n = static_cast<int>(c.integer(2, 3, "nlogic"));
      for (int i = 0; i != n; ++i) l->ch.push_back(logic(depth - 1, level + 1));
      return l;
    }

    // ---- "flat" expressions: printed without any parenthesis or comma
    NP flatAtom() {
      auto a = leaf();
      if (c.chance(1, 5, "flatpow") && fabsl(a->val) <= 30) {
        auto n = mk(K::IPow);
        n->id = static_cast<int>(c.integer(2, 3, "n"));
        n->a = a;
        return finish(n);
      }
      return a;
    }
    NP flatTerm() {
      auto t = flatAtom();
      const int nf = static_cast<int>(c.integer(0, 2, "nfactors"));
      for (int i = 0; i != nf; ++i) {
        auto a = flatAtom();
        if (c.boolean("flatdiv")) {
          if (!(fabsl(a->val) >= 1e-3L)) a = number(c.real(0.5, 4., "den"));
          t = binary(K::Div, t, a);
        } else {
          t = binary(K::Mul, t, a);
        }
      }
      return t;
    }
    NP flatExpr() {
      auto e = flatTerm();
      if (c.chance(1, 4, "flatneg")) {
        auto n = mk(K::Neg);
        n->a = e;
        e = finish(n);
        // -(a*b) would need parentheses: the negation goes to the first factor instead
        if (e->a->k == K::Mul || e->a->k == K::Div) {
          // rebuild: Neg(first atom) * rest  (same value)
          std::vector<std::pair<K, NP>> chain;
          NP cur = e->a;
          while (cur->k == K::Mul || cur->k == K::Div) {
            chain.push_back({cur->k, cur->b});
            cur = cur->a;
          }
          auto m = mk(K::Neg);
          m->a = cur;
          NP r = finish(m);
          for (auto it = chain.rbegin(); it != chain.rend(); ++it) r = binary(it->first, r, it->second);
          e = r;
        }
      }
      const int nt = static_cast<int>(c.integer(0, 2, "nterms"));
      for (int i = 0; i != nt; ++i) e = binary(c.boolean("flatsub") ? K::Sub : K::Add, e, flatTerm());
      return e;
    }
    LP flatComparison() {
      auto l = std::make_shared<Logic>();
      l->k = Logic::Cmp;
      l->op = static_cast<int>(c.pick(5, "cmp"));
      l->a = flatExpr();
      if ((l->op == EQ || l->op == LE || l->op == GE) && c.chance(1, 3, "equal")) {
        l->b = l->a;
        l->clones = true;
        return l;
      }
      l->b = flatExpr();
      const R m = 1e-3L * (1 + fabsl(l->a->val) + fabsl(l->b->val));
      if (!(fabsl(l->a->val - l->b->val) > m)) {
        // additive shift only: stays flat
        const double d = static_cast<double>(4 * m + 1);
        l->b = binary(c.boolean("above") ? K::Add : K::Sub, l->b, number(d));
      }
      return l;
    }
    LP flatLogic() {
      const int n = static_cast<int>(c.integer(1, 3, "nflat"));
      if (n == 1) return flatComparison();
      auto l = std::make_shared<Logic>();
      l->k = c.boolean("flatand") ? Logic::And : Logic::Or;
      for (int i = 0; i != n; ++i) l->ch.push_back(flatComparison());
      return l;
    }
    //! conditional that can sit inside parentheses / be a function argument
    NP flatCond(const int depth) {
      auto n = mk(K::Cond);
      n->c = flatLogic();
      ++noCst;
      n->a = flatExpr();
      --noCst;
      n->b = gen(depth - 1);
      return finish(n);
    }
    //! whole formula: the only place where a general conditional expression is accepted
    NP fullCond(const int depth) {
      auto n = mk(K::Cond);
      n->c = logic(depth - 1);
      n->a = gen(depth - 1);
      n->b = gen(depth - 1);
      return finish(n);
    }
    NP genRoot(const int depth) {
      if (o.allowCond && depth >= 2 && c.chance(1, 4, "rootcond")) return fullCond(depth);
      return gen(depth);
    }

    NP gen(const int depth) {
      if (depth <= 1 || nodes >= o.maxNodes || c.chance(1, 6, "stop")) return leaf();
      // weights
      static const int W_ALL[] = {14, 12, 14, 12, 7, 7, 9, 5, 14, 6, 6, 4};
      //                          Add Sub Mul Div Neg Pow IPow PowN Fun1 Fun2 Cond Call
      int w[12];
      int tot = 0;
      for (int i = 0; i != 12; ++i) {
        w[i] = W_ALL[i];
        if (i == 9 && o.differentiableOnly) w[i] = 0;
        if (i == 10 && !o.allowCond) w[i] = 0;
        if (i == 11 && o.ncalls == 0) w[i] = 0;
        tot += w[i];
      }
      int r = static_cast<int>(c.pick(tot, "kind"));
      int kind = 0;
      while (r >= w[kind]) {
        r -= w[kind];
        ++kind;
      }
      switch (kind) {
        case 0: return tame(binary(K::Add, gen(depth - 1), gen(depth - 1)));
        case 1: return tame(binary(K::Sub, gen(depth - 1), gen(depth - 1)));
        case 2: return tame(binary(K::Mul, gen(depth - 1), gen(depth - 1)));
        case 3: {
          auto a = gen(depth - 1);
          auto b = gen(depth - 1);
          if (!(fabsl(b->val) >= 1e-3L && fabsl(b->val) <= 1e6L)) b = c.boolean("divsign") ? fit(b, 0.05, 20) : fit(b, -20, -0.05);
          return tame(binary(K::Div, a, b));
        }
        case 4: {
          auto n = mk(K::Neg);
          n->a = gen(depth - 1);
          return finish(n);
        }
        case 5: {  // general power, positive base
          auto a = gen(depth - 1);
          if (!(a->val >= 0.05L && a->val <= 20)) a = fit(a, 0.1, 10);
          auto b = gen(depth - 1);
          if (!(fabsl(b->val) <= 6)) b = fit(b, -4, 4);
          {
            // known finding C13.deps.integer_exponent_parameter: an exponent without variable holding an
            // external parameter / function whose current value is an integer is frozen into power<N>
            bool anyVar = false, anyExt = false;
            leavesOf(*b, anyVar, anyExt);
            if (!anyVar && anyExt && b->val == floorl(b->val) && !allowIntegerParameterExponent) {
              ++avoidedIntegerExponents;
              b = binary(K::Add, b, number(0.25));
            }
          }
          // an exponent that is *exactly* a small integer takes the power<N> path: fine, same value
          return tame(binary(K::Pow, a, b));
        }
        case 6: {  // integer literal exponent, any base (non zero when negative)
          auto n = mk(K::IPow);
          n->id = static_cast<int>(c.integer(-20, 20, "n"));
          auto a = gen(depth - 1);
          const int an = std::abs(n->id);
          const double hi = an <= 2 ? 1e3 : an <= 6 ? 20 : 3.5;
          const double lo = n->id < 0 ? (an <= 2 ? 1e-3 : an <= 6 ? 0.05 : 0.3) : 0.;
          if (!(fabsl(a->val) <= hi && fabsl(a->val) >= lo)) a = c.boolean("ipowsign") ? fit(a, std::max(lo, 0.5), std::min(hi, 3.)) : fit(a, -std::min(hi, 3.), -std::max(lo, 0.5));
          n->a = a;
          finish(n);
          if (wild(n->val) && n->val != 0) {  // tiny / huge base (physical constants)
            n->a = fit(a, 0.5, 3.);
            finish(n);
          }
          return tame(n);
        }
        case 7: {  // power<N>(x), documented for 1 <= N <= 16
          auto n = mk(K::PowN);
          n->id = static_cast<int>(c.integer(1, 16, "N"));
          auto a = gen(depth - 1);
          const double hi = n->id <= 2 ? 1e3 : n->id <= 6 ? 20 : 3.5;
          if (!(fabsl(a->val) <= hi)) a = c.boolean("ipowsign") ? fit(a, 0.5, std::min(hi, 3.)) : fit(a, -std::min(hi, 3.), -0.5);
          n->a = a;
          finish(n);
          if (wild(n->val) && n->val != 0) {
            n->a = fit(a, 0.5, 3.);
            finish(n);
          }
          return tame(n);
        }
        case 8: {
          auto n = mk(K::Fun1);
          const auto& fs = funs1();
          if (o.differentiableOnly) {
            static const int d[] = {0, 5, 6, 7, 8, 11, 12, 13, 17, 18, 19, 20, 21, 22};
            n->id = d[c.pick(14, "dfun")];
          } else {
            n->id = static_cast<int>(c.pick(fs.size(), "fun"));
          }
          n->a = inRanges(gen(depth - 1), fs[n->id]);
          return tame(finish(n));
        }
        case 9: {
          auto n = mk(K::Fun2);
          n->id = static_cast<int>(c.pick(4, "fun2"));
          n->a = gen(depth - 1);
          n->b = gen(depth - 1);
          if (n->id == F2_ATAN2) {
            // away from the origin and from the branch cut (x < 0, y = 0)
            if (!(fabsl(n->a->val) >= 1e-2L)) n->a = c.boolean("ysign") ? fit(n->a, 0.1, 10) : fit(n->a, -10, -0.1);
          }
          if ((n->id == F2_MAX || n->id == F2_MIN)) {
            const R m = 1e-3L * (1 + fabsl(n->a->val) + fabsl(n->b->val));
            if (!(fabsl(n->a->val - n->b->val) > m)) {
              const double lo = static_cast<double>(n->a->val + 2 * m + 0.5L);
              n->b = fit(n->b, lo, lo + 10);
            }
          }
          return tame(finish(n));
        }
        case 10: return nestedFullCond ? fullCond(depth) : flatCond(depth);
        case 11: {
          auto n = mk(K::Call);
          n->id = static_cast<int>(c.pick(o.ncalls, "call"));
          if (activeCalls.count(n->id) && !allowNestedSameCall) {
            ++avoidedNestedCalls;
            --nodes;
            return leaf();
          }
          const bool inserted = activeCalls.insert(n->id).second;
          for (int i = 0; i != calls.at(n->id).second; ++i) n->args.push_back(gen(depth - 1));
          if (inserted) activeCalls.erase(n->id);
          // the body of the user function was generated for arguments in [0.5, 2]
          for (auto& a : n->args)
            if (!(a->val >= 0.5L && a->val <= 2)) a = fit(a, 0.5, 2);
          return tame(finish(n));
        }
      }
      return leaf();
    }
  };

  //! pool of variable names (documented identifier forms, including x[0] and unicode)
  inline const std::vector<std::string>& namePool() {
    static const std::vector<std::string> n = {"x",  "y",   "z",     "t",    "T",        "p",         "x0",     "x_1",
                                               "u2", "_u",  "$v",    "x[0]", "x[1]",     "v[12]",     "sig_eq", "Temperature",
                                               "e",  "E",   "σ", "α", "ε_p", "ΔT", "a1b2",   "X"};
    return n;
  }
  //! draws `n` distinct names
  inline std::vector<std::string> drawNames(verif::Case& c, const int n, const std::set<std::string>& reserved = {}) {
    std::vector<std::string> r;
    const auto& pool = namePool();
    std::set<std::string> used = reserved;
    std::size_t k = c.pick(pool.size(), "name");
    while (static_cast<int>(r.size()) < n) {
      while (used.count(pool[k % pool.size()])) ++k;
      r.push_back(pool[k % pool.size()]);
      used.insert(r.back());
      k += 1 + c.pick(5, "namestep");
    }
    return r;
  }
#endif /* VERIF_HXX */

}  // namespace east

#endif /* VERIF_EVALUATOR_AST_HXX */
