/*!
 * C02 (unit "tensor") - non symmetric second order tensor algebra matches its
 * 3x3 matrix (index notation) meaning.
 * Oracle: ref:: long double dense algebra (refmath.hxx), differential.
 * Storage (docs/web/tensors.md): (11 22 33 12 21 13 31 23 32).
 * Non-trivial: N=3, or N=2 with non-zero (1,2) != (2,1) components; polar
 * decomposition: rotation angle > 0.1 rad and stretch ratio > 1.1.
 */
#include "C02_common.hxx"
#include "TFEL/Math/stensor.hxx"
#include "TFEL/Math/tensor.hxx"
#include "TFEL/Math/tmatrix.hxx"

using ref::M3;
using ref::R;
using namespace tfel::math;

namespace {

  template <unsigned short N, typename T>
  void algebra(verif::Case& c) {
    using TT = tensor<N, T>;
    using S = stensor<N, T>;
    const int kmax = std::is_same_v<T, float> ? 10 : 30;
    const double sc = gen::scale(c, kmax);
    const TT a = gen::toTensor<TT>(gen::dense(c, N, sc));
    const TT b = gen::toTensor<TT>(gen::dense(c, N, sc));
    const S s = gen::toStensor<S>(gen::sym(c, N, sc));
    const S s2 = gen::toStensor<S>(gen::sym(c, N, sc));
    const M3 A = gen::tensorToM3(a), B = gen::tensorToM3(b);
    const M3 Sm = gen::stensorToM3(s), S2 = gen::stensorToM3(s2);
    c.nontrivial(nonsym(A, N) || nonsym(B, N));
    const R u = U<T>(), tiny = tinyOf<T>();
    const R nA = ref::norm(A), nB = ref::norm(B), nS = ref::norm(Sm), nS2 = ref::norm(S2);
    // matrix-like accessor agrees with the documented storage
    for (unsigned short i = 0; i < 3; ++i)
      for (unsigned short j = 0; j < 3; ++j) {
        c.close(a(i, j), A(i, j), 0, "C02.tensor.access", "operator()(i,j)");
        const auto mv = matrix_view(a);
        c.close(mv(i, j), A(i, j), 0, "C02.tensor.matrix_view", "matrix_view(i,j)");
      }
    // products  T_ij = A_ik B_kj
    cmpT(c, TT(a * b), A * B, 256 * u * nA * nB + tiny, "C02.tensor.product", "a*b");
    cmpT(c, TT(s * a), Sm * A, 256 * u * nS * nA + tiny, "C02.tensor.product_sa", "s*a");
    cmpT(c, TT(a * s), A * Sm, 256 * u * nS * nA + tiny, "C02.tensor.product_as", "a*s");
    cmpT(c, TT(s * s2), Sm * S2, 256 * u * nS * nS2 + tiny, "C02.tensor.product_ss", "s1*s2");
    cmpT(c, TT(a * b * s), A * B * Sm, 512 * u * nA * nB * nS + tiny, "C02.tensor.product3",
         "a*b*s");
    // transpose
    cmpT(c, TT(transpose(a)), ref::transpose(A), 0, "C02.tensor.transpose", "transpose(a)");
    cmpT(c, TT(transpose(a) * b), ref::transpose(A) * B, 256 * u * nA * nB + tiny,
         "C02.tensor.transpose", "transpose(a)*b");
    // scalar functions
    c.close(trace(a), ref::trace(A), 256 * u * nA + tiny, "C02.tensor.trace", "trace");
    c.close(det(a), ref::det(A), 256 * u * nA * nA * nA + tiny, "C02.tensor.det", "det");
    c.close(a | b, ref::ddot(A, B), 256 * u * nA * nB + tiny, "C02.tensor.contraction", "a|b");
    // syme / unsyme
    cmpS(c, S(syme(a)), ref::sym(A), 256 * u * nA + tiny, "C02.tensor.syme", "syme(a)");
    cmpT(c, TT(unsyme(s)), Sm, 128 * u * nS + tiny, "C02.tensor.unsyme", "unsyme(s)");
    cmpS(c, S(syme(unsyme(s))), Sm, 256 * u * nS + tiny, "C02.tensor.syme_unsyme",
         "syme(unsyme(s))");
    // linear combinations (expression templates), mixed with symmetric tensors
    cmpT(c, TT(a + b), A + B, 128 * u * (nA + nB) + tiny, "C02.tensor.lincomb", "a+b");
    cmpT(c, TT(2 * a - b), R(2) * A - B, 128 * u * (2 * nA + nB) + tiny, "C02.tensor.lincomb",
         "2a-b");
    cmpT(c, TT(-a), R(-1) * A, 0, "C02.tensor.lincomb", "-a");
    cmpT(c, TT(a + s), A + Sm, 128 * u * (nA + nS) + tiny, "C02.tensor.lincomb_sym", "a+s");
    cmpT(c, TT(s - a), Sm - A, 128 * u * (nA + nS) + tiny, "C02.tensor.lincomb_sym", "s-a");
    // identity
    cmpT(c, TT(TT::Id()), M3::Id(), 0, "C02.tensor.Id", "Id");
    cmpT(c, TT(TT::Id() * a), A, 128 * u * nA + tiny, "C02.tensor.Id", "Id*a");
    // Fortran (column major) 3x3 matrix
    T f[9];
    for (int i = 0; i < 3; ++i)
      for (int j = 0; j < 3; ++j) f[i + 3 * j] = static_cast<T>(A(i, j));
    cmpT(c, TT(TT::buildFromFortranMatrix(f)), A, 0, "C02.tensor.buildFromFortranMatrix",
         "buildFromFortranMatrix");
  }

  template <unsigned short N, typename T>
  void inverse(verif::Case& c) {
    using TT = tensor<N, T>;
    const double sc = gen::scale(c, std::is_same_v<T, float> ? 8 : 30);
    // A = Q1 diag(sv) Q2 : known singular values, general (non symmetric, any
    // sign of the determinant)
    M3 D;
    const double kc = c.real(0., std::is_same_v<T, float> ? 3. : 6., "log10_cond");
    const R smin = std::pow(10.L, -static_cast<R>(kc));
    D(0, 0) = 1;
    D(1, 1) = c.boolean("mid_low") ? smin : R(c.real(static_cast<double>(smin), 1., "s1"));
    D(2, 2) = smin;
    if (c.boolean("negate")) D(2, 2) = -D(2, 2);
    if (N == 1) {
      D(1, 1) = R(c.real(static_cast<double>(smin), 1., "s1"));
      if (c.boolean("neg1")) D(1, 1) = -D(1, 1);
    }
    const M3 Q1 = gen::rot(c, N), Q2 = gen::rot(c, N);
    const TT a = gen::toTensor<TT>(R(sc) * (Q1 * D * Q2));
    const M3 A = gen::tensorToM3(a);
    const R dA = ref::det(A);
    if (dA == 0) c.discard();
    c.nontrivial(nonsym(A, N));
    const M3 IA = ref::inverse(A);
    const R u = U<T>();
    const R nA = ref::norm(A), nI = ref::norm(IA);
    // cofactor formula: error of the adjugate ~ u |A|^2, of det ~ u |A|^3
    const R tol = 256 * u * (nA * nA / std::fabs(dA)) * (1 + nA * nI);
    const TT ia = invert(a);
    cmpT(c, ia, IA, tol, "C02.tensor.invert", "invert");
    const M3 P = A * gen::tensorToM3(ia) - M3::Id();
    c.check(ref::norm(P) <= tol * nA, "C02.tensor.invert",
            "||A inv(A) - I|| = " + std::to_string(static_cast<double>(ref::norm(P))));
    c.err("C02.tensor.invert.residual", static_cast<double>(ref::norm(P) / (tol * nA)));
    c.close(det(a), dA, 256 * u * nA * nA * nA, "C02.tensor.det", "det (graded singular values)");
  }

  template <unsigned short N, typename T>
  void basis(verif::Case& c) {
    using TT = tensor<N, T>;
    const double sc = gen::scale(c, std::is_same_v<T, float> ? 10 : 30);
    const TT a = gen::toTensor<TT>(gen::dense(c, N, sc));
    const M3 A = gen::tensorToM3(a);
    const auto r = gen::toRotationMatrix<rotation_matrix<T>>(gen::rot(c, N));
    const M3 Rm = gen::rotationMatrixToM3(r);
    c.nontrivial(nonsym(A, N) && gen::misalignment(Rm) > 1e-3);
    const R u = U<T>(), tiny = tinyOf<T>();
    const R tol = 512 * u * ref::norm(A) + tiny;
    // same convention as for symmetric tensors (C01): change_basis(t,r) = r^T t r
    const M3 E = ref::transpose(Rm) * A * Rm;
    cmpT(c, TT(change_basis(a, r)), E, tol, "C02.tensor.change_basis", "change_basis");
    TT a2 = a;
    a2.changeBasis(r);
    cmpT(c, a2, E, tol, "C02.tensor.change_basis", "changeBasis (in place)");
    // consistency with the symmetric case: syme(change_basis(a)) = change_basis(syme(a))
    using S = stensor<N, T>;
    const S sa = syme(a);
    const S l = syme(change_basis(a, r));
    const S rr = change_basis(sa, r);
    for (unsigned short k = 0; k < l.size(); ++k)
      c.close(l[k], rr[k], 2 * tol, "C02.tensor.change_basis_syme",
              "syme(change_basis(a,r)) vs change_basis(syme(a),r)");
    c.close(det(TT(change_basis(a, r))), ref::det(A),
            256 * u * std::pow(ref::norm(A), 3) + tiny, "C02.tensor.change_basis",
            "det invariance");
  }

  template <unsigned short N, typename T>
  void kinematics(verif::Case& c) {
    using TT = tensor<N, T>;
    using S = stensor<N, T>;
    const bool isF = c.chance(2, 3, "use_genF");
    const double sc = isF ? 1. : gen::scale(c, std::is_same_v<T, float> ? 6 : 20);
    const TT F = gen::toTensor<TT>(isF ? gen::F(c, N, 0.2, 5.) : gen::dense(c, N, sc));
    const double ss = gen::scale(c, std::is_same_v<T, float> ? 6 : 20, "sscale");
    const S s = gen::toStensor<S>(gen::sym(c, N, ss));
    const M3 Fm = gen::tensorToM3(F), Sm = gen::stensorToM3(s);
    c.nontrivial(nonsym(Fm, N));
    const R u = U<T>(), tiny = tinyOf<T>();
    const R nF = ref::norm(Fm), nS = ref::norm(Sm);
    const M3 Ft = ref::transpose(Fm);
    // Cauchy-Green tensors (docs/web/tensors.md)
    cmpS(c, S(computeRightCauchyGreenTensor(F)), Ft * Fm, 256 * u * nF * nF + tiny,
         "C02.tensor.rightCauchyGreen", "C = F^T F");
    cmpS(c, S(computeLeftCauchyGreenTensor(F)), Fm * Ft, 256 * u * nF * nF + tiny,
         "C02.tensor.leftCauchyGreen", "B = F F^T");
    cmpS(c, S(computeGreenLagrangeTensor(F)), R(0.5) * (Ft * Fm - M3::Id()),
         256 * u * (nF * nF + 1) + tiny, "C02.tensor.greenLagrange", "E = (F^T F - I)/2");
    // push forward of a symmetric tensor: F s F^T
    const R tpf = 512 * u * nF * nF * nS + tiny;
    cmpS(c, S(push_forward(s, F)), Fm * Sm * Ft, tpf, "C02.tensor.push_forward",
         "push_forward(s,F)");
    cmpS(c, S(pushForward(s, F)), Fm * Sm * Ft, tpf, "C02.tensor.push_forward",
         "pushForward(s,F)");
    if (!isF) return;
    // stress conversions, F a deformation gradient (det > 0, stretches in [0.2,5])
    const R J = ref::det(Fm);
    const M3 iF = ref::inverse(Fm), iFt = ref::transpose(iF);
    const R nI = ref::norm(iF);
    const R k2 = nF * nI;  // conditioning of F
    // S = J F^-1 s F^-T
    cmpS(c, S(convertCauchyStressToSecondPiolaKirchhoffStress(s, F)), J * (iF * Sm * iFt),
         256 * u * k2 * k2 * J * nI * nI * nS + tiny, "C02.tensor.cauchy_to_pk2",
         "J F^-1 s F^-T");
    // s = F S F^T / J
    cmpS(c, S(convertSecondPiolaKirchhoffStressToCauchyStress(s, F)), (1 / J) * (Fm * Sm * Ft),
         256 * u * k2 * nF * nF * nS / J + tiny, "C02.tensor.pk2_to_cauchy", "F S F^T / J");
    // P = J s F^-T
    const M3 P = J * (Sm * iFt);
    cmpT(c, TT(convertCauchyStressToFirstPiolaKirchhoffStress(s, F)), P,
         256 * u * nF * nF * nS + tiny, "C02.tensor.cauchy_to_pk1", "J s F^-T");
    // s = P F^T / J for an arbitrary P such that the result is symmetric
    const TT p = gen::toTensor<TT>(P);
    const M3 Pm = gen::tensorToM3(p);
    cmpS(c, S(convertFirstPiolaKirchhoffStressToCauchyStress(p, F)),
         ref::sym((1 / J) * (Pm * Ft)), 256 * u * k2 * ref::norm(Pm) * nF / J + tiny,
         "C02.tensor.pk1_to_cauchy", "P F^T / J");
  }

  template <unsigned short N>
  void polar(verif::Case& c) {
    using T = double;
    using TT = tensor<N, T>;
    using S = stensor<N, T>;
    const double sc = c.chance(1, 2, "unit") ? 1. : c.log10real(-3, 3, "scale");
    const M3 U0 = gen::spd(c, N, 0.2, 5.);
    const M3 R0 = gen::rot(c, N);
    const TT F = gen::toTensor<TT>(R(sc) * (R0 * U0));
    const M3 Fm = gen::tensorToM3(F);
    if (!(ref::det(Fm) > 0)) c.discard();
    // reference decomposition of the tensor actually passed
    M3 Rr, Ur;
    ref::polar(Fm, Rr, Ur);
    R vp[3];
    M3 V;
    ref::jacobi(Ur, vp, V);
    ref::sort3(vp);
    const R angle = std::acos(std::max<R>(-1, std::min<R>(1, (ref::trace(Rr) - 1) / 2)));
    c.nontrivial(N >= 2 && angle > 0.1 && vp[2] / vp[0] > 1.1);
    TT Rt;
    S Ut;
    polar_decomposition(Rt, Ut, F);
    const M3 Rm = gen::tensorToM3(Rt), Um = gen::stensorToM3(Ut);
    const R nF = ref::norm(Fm);
    // tolerance: relies on the default (analytical) eigenvalues, see DESIGN C02
    const R rel = 1e-7L;
    cmpS(c, Ut, Ur, rel * nF, "C02.polar.U", "U vs reference sqrt(F^T F)");
    cmpT(c, Rt, Rr, rel * 30, "C02.polar.R", "R vs reference F U^-1");
    const M3 O = ref::transpose(Rm) * Rm - M3::Id();
    c.close(ref::norm(O), 0, rel * 30, "C02.polar.orthogonal", "||R^T R - I||");
    c.close(ref::det(Rm), 1, rel * 30, "C02.polar.detR", "det R");
    c.close(ref::norm(Rm * Um - Fm), 0, rel * 30 * nF, "C02.polar.product", "||R U - F||");
    R vpu[3];
    ref::jacobi(Um, vpu, V);
    ref::sort3(vpu);
    c.check(vpu[0] > 0, "C02.polar.positive", "U has a non positive eigenvalue");
  }

}  // namespace

#define C02_INST(NAME, FCT)                          \
  VERIF_SUB(NAME##_1d) { FCT<1u, double>(c); }       \
  VERIF_SUB(NAME##_2d) { FCT<2u, double>(c); }       \
  VERIF_SUB(NAME##_3d) { FCT<3u, double>(c); }       \
  VERIF_SUB_W(NAME##_2f, 0.5) { FCT<2u, float>(c); } \
  VERIF_SUB_W(NAME##_3f, 0.5) { FCT<3u, float>(c); }

C02_INST(algebra, algebra)
C02_INST(inverse, inverse)
C02_INST(basis, basis)
C02_INST(kinematics, kinematics)
VERIF_SUB_W(polar_1d, 0.2) { polar<1u>(c); }
VERIF_SUB(polar_2d) { polar<2u>(c); }
VERIF_SUB(polar_3d) { polar<3u>(c); }

VERIF_MAIN("C02_tensor")
