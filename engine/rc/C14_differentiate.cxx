/*!
 * C14 - Evaluator::differentiate(variable) evaluates to the partial derivative.
 *
 * Generated: the ASTs of C13 (engine/rc/evaluator_ast.hxx) restricted to the nodes the
 * library can differentiate (operators, ** with constant / variable exponent on a positive
 * base, integer powers, power<N>, exp sin cos tan sqrt ln log log10 asin acos atan sinh cosh
 * tanh, conditionals away from the switching surface); variable chosen at random, including
 * variables the formula does not depend on.
 * Oracle: forward mode automatic differentiation on the harness AST, east::Dual<east::E>
 * (long double value + running first order bound of a double evaluation), cross-checked in
 * every case by central differences (Richardson, long double) on the harness's own evaluator.
 *
 * Sub-checks
 *   first        d/dx_k, by name or by position
 *   second       d2/dx_k dx_l by differentiating twice (Dual<Dual<E>>)
 *   unsupported  exactly one function without differentiate() on the path to the variable:
 *                std::exception, or a function whose value agrees with the AD oracle
 *   log10        dedicated sub-check of the known finding (candidate 5); the other sub-checks
 *                skip exactly the formulas with log10 on the path to the variable
 */
#include "verif.hxx"
#include "evaluator_ast.hxx"

#include "TFEL/PhysicalConstants.hxx"
#include "TFEL/Math/Evaluator.hxx"

using east::Dual;
using east::E;
using east::R;
using tfel::math::Evaluator;
using tfel::math::parser::ExternalFunction;

namespace {

  //! tolerance = TOLK * (first order bound of the oracle's own derivative formula) + floor
  constexpr R TOLK = 4096;
  constexpr R TINY = 1e-280L;

  const std::vector<east::CstInfo>& constants() {
    using PC = tfel::PhysicalConstants<double>;
    static const std::vector<east::CstInfo> c = {{"AtomicMassConstant", PC::AtomicMassConstant},
                                                 {"mu", PC::mu},
                                                 {"AvogadroConstant", PC::AvogadroConstant},
                                                 {"Na", PC::Na},
                                                 {"BoltzmannConstant", PC::BoltzmannConstant},
                                                 {"kb", PC::kb},
                                                 {"ConductanceQuantum", PC::ConductanceQuantum},
                                                 {"G0", PC::G0},
                                                 {"ElectricConstant", PC::ElectricConstant},
                                                 {"e0", PC::e0},
                                                 {"ElectronMass", PC::ElectronMass},
                                                 {"me", PC::me},
                                                 {"ElectronVolt", PC::ElectronVolt},
                                                 {"eV", PC::eV},
                                                 {"ElementaryCharge", PC::ElementaryCharge},
                                                 {"e", PC::e},
                                                 {"FaradayConstant", PC::FaradayConstant},
                                                 {"F", PC::F},
                                                 {"FineStructureConstant", PC::FineStructureConstant},
                                                 {"a", PC::a},
                                                 {"MolarGasConstant", PC::MolarGasConstant},
                                                 {"R", PC::R},
                                                 {"StefanBoltzmannConstant", PC::StefanBoltzmannConstant},
                                                 {"s", PC::s}};
    return c;
  }

  std::string dbl(const long double v) {
    char b[64];
    std::snprintf(b, sizeof b, "%.17g", static_cast<double>(v));
    return b;
  }

  struct Formula {
    east::NP root;
    std::vector<std::string> names;
    std::vector<double> x;
    std::string text;
    east::Shape shape;
  };

  std::string describe(const Formula& f) {
    std::string s = "'" + f.text + "' at";
    for (std::size_t i = 0; i != f.names.size(); ++i) s += " " + f.names[i] + "=" + dbl(f.x[i]);
    return s;
  }

  void finishFormula(verif::Case& c, east::Generator& g, Formula& f) {
    f.x = g.x;
    east::shapeOf(*f.root, f.shape);
    east::PrintOptions po;
    po.varnames = east::drawNames(c, g.o.nvars);
    po.csts = g.o.csts;
    f.names = po.varnames;
    east::Printer pr(po);
    const auto toks = pr.expr(*f.root);
    f.text = east::join(toks, static_cast<int>(c.pick(3, "ws")), c.bits64("wsseed"));
    for (const auto id : f.shape.funs1) c.tag(std::string("f.") + east::funs1()[id].name);
    if (f.shape.hasCond) c.tag("cond");
    if (f.shape.opclasses.count(static_cast<int>(east::K::Pow))) c.tag("op.pow");
    if (f.shape.opclasses.count(static_cast<int>(east::K::IPow))) c.tag("op.ipow");
    if (f.shape.opclasses.count(static_cast<int>(east::K::PowN))) c.tag("op.powN");
    if (f.shape.opclasses.count(static_cast<int>(east::K::Div))) c.tag("op.div");
    if (f.shape.opclasses.count(static_cast<int>(east::K::Mul))) c.tag("op.mul");
  }

  template <typename T>
  east::Env<T> envOf(const std::vector<T>& vars) {
    east::Env<T> e;
    e.vars = vars;
    e.csts = &constants();
    return e;
  }

  //! first derivative with respect to variable k: value and bound
  E firstDerivative(const east::Node& root, const std::vector<double>& x, const int k) {
    std::vector<Dual<E>> v;
    for (std::size_t i = 0; i != x.size(); ++i) v.push_back({E{static_cast<R>(x[i]), 0}, E{static_cast<int>(i) == k ? R(1) : R(0), 0}});
    return east::eval<Dual<E>>(root, envOf(v)).d;
  }
  E secondDerivative(const east::Node& root, const std::vector<double>& x, const int k, const int l) {
    using D2 = Dual<Dual<E>>;
    std::vector<D2> v;
    for (std::size_t i = 0; i != x.size(); ++i) {
      const E xi{static_cast<R>(x[i]), 0};
      const E one{1, 0}, zero{0, 0};
      const bool ik = static_cast<int>(i) == k, il = static_cast<int>(i) == l;
      // outer dual: d/dx_l, inner dual: d/dx_k
      v.push_back(D2{Dual<E>{xi, ik ? one : zero}, Dual<E>{il ? one : zero, zero}});
    }
    return east::eval<D2>(root, envOf(v)).d.d;
  }
  //! plain long double value, with the branch signature
  R plainValue(const east::Node& root, std::vector<R> x, std::string& trace) {
    auto e = envOf(x);
    e.trace = &trace;
    return east::eval<R>(root, e);
  }
  //! first derivative in long double (for differences of first derivatives)
  R plainFirst(const east::Node& root, const std::vector<R>& x, const int k, std::string& trace) {
    std::vector<Dual<R>> v;
    for (std::size_t i = 0; i != x.size(); ++i) v.push_back({x[i], static_cast<int>(i) == k ? R(1) : R(0)});
    auto e = envOf(v);
    e.trace = &trace;
    return east::eval<Dual<R>>(root, e).d;
  }
  /*!
   * central differences of `f` along variable k, Richardson extrapolated, two step sizes;
   * returns false when the check cannot be made (domain edge / switching surface between the points)
   */
  bool centralDifference(const std::function<R(const std::vector<R>&, std::string&)>& f, const std::vector<double>& x, const int k,
                         R& fd, R& spread) {
    std::vector<R> x0(x.begin(), x.end());
    std::string t0;
    R f0 = 0;
    try {
      f0 = f(x0, t0);
    } catch (const east::Ill&) {
      return false;
    }
    auto cd = [&](const R h, R& out) {
      auto xp = x0, xm = x0;
      xp[k] += h;
      xm[k] -= h;
      std::string tp, tm;
      try {
        const R fp = f(xp, tp), fm = f(xm, tm);
        if (tp != t0 || tm != t0) return false;
        out = (fp - fm) / (2 * h);
      } catch (const east::Ill&) {
        return false;
      }
      return std::isfinite(static_cast<double>(out));
    };
    const R h = 1e-5L * (1 + fabsl(x0[k]));
    R d1, d2, d4;
    if (!cd(h, d1) || !cd(h / 2, d2) || !cd(h / 4, d4)) return false;
    const R r1 = (4 * d2 - d1) / 3, r2 = (4 * d4 - d2) / 3;
    fd = r2;
    // + rounding noise of the long double differences (u_ld = 5.4e-20, intermediate values may be
    // much larger than f itself: generous factor)
    spread = fabsl(r2 - r1) + fabsl(d4 - d2) * 1e-3L + 1e-15L * (fabsl(f0) + 1) / h;
    return true;
  }

  //! AD oracle vs finite differences: a failure here is a bug of the *harness*
  void selfCheck(verif::Case& c, const Formula& f, const R ad, const R fd, const R spread, const R scale, const std::string& what) {
    const R tol = std::max<R>(1e-6L * scale, 50 * spread) + 1e-12L;
    c.err("selfcheck.ad_vs_fd", static_cast<double>(fabsl(ad - fd) / tol));
    c.check(fabsl(ad - fd) <= tol, "C14.oracle.ad_vs_fd",
            "HARNESS: AD oracle and central differences disagree (" + what + ") for " + describe(f) + ": AD " + dbl(ad) + " FD " + dbl(fd));
  }

  std::shared_ptr<Evaluator> build(verif::Case& c, const Formula& f) {
    try {
      return std::make_shared<Evaluator>(f.names, f.text);
    } catch (const std::exception& e) {
      c.check(false, "C14.parse.rejected", "well formed formula '" + f.text + "' rejected: " + e.what());
    }
    return {};
  }

  double evalDerivative(verif::Case& c, ExternalFunction& d, const Formula& f, const std::string& key, const std::string& what) {
    try {
      for (std::size_t i = 0; i != f.x.size(); ++i) d.setVariableValue(i, f.x[i]);
      return d.getValue();
    } catch (const std::exception& e) {
      c.check(false, key, what + " of " + describe(f) + ": evaluation throws: " + e.what());
    }
    return 0;
  }

  const std::set<int> LOG10 = {8};
  /*!
   * log10 on the path is only skipped while C14.log10.derivative is a known finding; the state is
   * recorded as a draw so that a replay (which never sees the known list) behaves identically
   */
  bool skipLog10(verif::Case& c) {
    if (c.mode() == verif::Case::GENERATE) {
      const int v = verif::Global::get().known_keys.count("C14.log10.derivative") ? 1 : 0;
      return c.integer(v, v, "C14.log10.derivative") == 1;
    }
    return c.integer(0, 1, "C14.log10.derivative") == 1;
  }

}  // namespace

VERIF_SUB(first) {
  east::GenOptions o;
  o.nvars = static_cast<int>(c.integer(1, 3, "nvars"));
  o.csts = &constants();
  o.differentiableOnly = true;
  o.maxNodes = 50;
  east::Generator g(c, o);
  g.drawPoint();
  Formula f;
  f.root = g.genRoot(static_cast<int>(c.integer(2, o.maxDepth, "depth")));
  finishFormula(c, g, f);
  int k = static_cast<int>(c.pick(o.nvars, "k"));
  if (!f.shape.vars.empty() && !c.chance(1, 8, "anyvar")) {
    // mostly a variable the formula depends on
    auto it = f.shape.vars.begin();
    std::advance(it, k % f.shape.vars.size());
    k = *it;
  }
  const int nest = east::nestingOf(*f.root, k);
  c.nontrivial(nest >= 2);
  if (nest < 0) c.tag("independent_variable");
  if (nest >= 4) c.tag("nesting>=4");
  c.note(f.text + "  d/d" + f.names[k]);
  const bool skip10 = skipLog10(c);
  if (east::funOnPath(*f.root, k, LOG10)) {
    if (skip10) {
      // known finding C14.log10.derivative: exactly this class is skipped (and counted)
      c.tag("excluded_known.log10_on_path");
      return;
    }
    c.tag("class.log10_on_path");
  }
  E ref;
  try {
    ref = firstDerivative(*f.root, f.x, k);
  } catch (const east::Ill& i) {
    c.tag(std::string("discard.") + i.why);
    c.discard();
  }
  // cross-check of the oracle
  {
    R fd, spread;
    if (centralDifference([&](const std::vector<R>& x, std::string& t) { return plainValue(*f.root, x, t); }, f.x, k, fd, spread)) {
      c.tag("selfcheck.done");
      selfCheck(c, f, ref.v, fd, spread, fabsl(ref.v) + ref.e / east::U * 1e-3L, "first derivative");
    } else {
      c.tag("selfcheck.skipped");
    }
  }
  auto ev = build(c, f);
  std::shared_ptr<ExternalFunction> d;
  const bool byName = c.boolean("byname");
  try {
    d = byName ? ev->differentiate(f.names[k]) : ev->differentiate(static_cast<std::size_t>(k));
  } catch (const std::exception& e) {
    c.check(false, "C14.differentiate.exception", "d/d" + f.names[k] + " of " + describe(f) + " throws although every function is differentiable: " + e.what());
  }
  c.check(d != nullptr, "C14.differentiate.null", describe(f));
  c.check(d->getNumberOfVariables() == f.names.size(), "C14.derivative.arity", describe(f));
  const double got = evalDerivative(c, *d, f, "C14.derivative.exception", "d/d" + f.names[k]);
  c.close(got, ref.v, TOLK * ref.e + TINY, "C14.first", "d/d" + f.names[k] + " of " + describe(f));
  // the original is unchanged by differentiate
  try {
    for (std::size_t i = 0; i != f.x.size(); ++i) ev->setVariableValue(f.names[i], f.x[i]);
    const E v = east::eval<E>(*f.root, envOf(std::vector<E>([&] {
                                std::vector<E> r;
                                for (const auto xi : f.x) r.push_back(E{static_cast<R>(xi), 0});
                                return r;
                              }())));
    c.close(ev->getValue(), v.v, 1024 * v.e + TINY, "C14.original_unchanged", describe(f));
  } catch (const east::Ill&) {
  } catch (const std::exception& e) {
    c.check(false, "C14.derivative.exception", describe(f) + ": " + e.what());
  }
}

VERIF_SUB_W(second, 0.5) {
  east::GenOptions o;
  o.nvars = static_cast<int>(c.integer(1, 2, "nvars"));
  o.csts = &constants();
  o.differentiableOnly = true;
  o.maxDepth = 6;
  o.maxNodes = 30;
  east::Generator g(c, o);
  g.drawPoint();
  Formula f;
  f.root = g.genRoot(static_cast<int>(c.integer(2, o.maxDepth, "depth")));
  finishFormula(c, g, f);
  int k = static_cast<int>(c.pick(o.nvars, "k"));
  int l = static_cast<int>(c.pick(o.nvars, "l"));
  if (!f.shape.vars.empty() && !c.chance(1, 8, "anyvar")) {
    auto it = f.shape.vars.begin();
    std::advance(it, k % f.shape.vars.size());
    k = *it;
    it = f.shape.vars.begin();
    std::advance(it, l % f.shape.vars.size());
    l = *it;
  }
  c.nontrivial(east::nestingOf(*f.root, k) >= 2 && east::nestingOf(*f.root, l) >= 2);
  if (k != l) c.tag("mixed");
  c.note(f.text + "  d2/d" + f.names[k] + "d" + f.names[l]);
  const bool skip10 = skipLog10(c);
  if (east::funOnPath(*f.root, k, LOG10) || east::funOnPath(*f.root, l, LOG10)) {
    if (skip10) {
      c.tag("excluded_known.log10_on_path");
      return;
    }
    c.tag("class.log10_on_path");
  }
  E ref;
  try {
    ref = secondDerivative(*f.root, f.x, k, l);
  } catch (const east::Ill& i) {
    c.tag(std::string("discard.") + i.why);
    c.discard();
  }
  {
    R fd, spread;
    if (centralDifference([&](const std::vector<R>& x, std::string& t) { return plainFirst(*f.root, x, k, t); }, f.x, l, fd, spread)) {
      c.tag("selfcheck.done");
      selfCheck(c, f, ref.v, fd, spread, fabsl(ref.v) + ref.e / east::U * 1e-3L, "second derivative");
    } else {
      c.tag("selfcheck.skipped");
    }
  }
  auto ev = build(c, f);
  std::shared_ptr<ExternalFunction> d2;
  try {
    auto d1 = ev->differentiate(f.names[k]);
    d2 = d1->differentiate(f.names[l]);
  } catch (const std::exception& e) {
    c.check(false, "C14.differentiate.exception", "second derivative of " + describe(f) + " throws although every function is differentiable: " + e.what());
  }
  const double got = evalDerivative(c, *d2, f, "C14.derivative.exception", "d2/d" + f.names[k] + "d" + f.names[l]);
  c.close(got, ref.v, TOLK * ref.e + TINY, "C14.second", "d2/d" + f.names[k] + "d" + f.names[l] + " of " + describe(f));
}

VERIF_SUB_W(unsupported, 0.3) {
  east::GenOptions o;
  o.nvars = static_cast<int>(c.integer(1, 2, "nvars"));
  o.csts = &constants();
  o.differentiableOnly = true;
  o.maxDepth = 5;
  o.maxNodes = 24;
  o.allowCond = false;
  east::Generator g(c, o);
  g.drawPoint();
  const int k = static_cast<int>(c.pick(o.nvars, "k"));
  // inner(x_k ...) -> unsupported function -> outer context
  auto vk = g.mk(east::K::Var);
  vk->id = k;
  auto inner = g.binary(c.boolean("iop") ? east::K::Add : east::K::Mul, g.finish(vk), g.gen(static_cast<int>(c.integer(1, 3, "idepth"))));
  static const int unsupported1[] = {1, 2, 3, 4, 9, 10, 14, 15, 16, 23, 24, 25, 26, 27};  // exp2 expm1 cbrt abs log2 log1p acosh asinh atanh erf erfc tgamma lgamma H
  const int which = static_cast<int>(c.pick(18, "which"));
  east::NP u;
  if (which < 14) {
    auto n = g.mk(east::K::Fun1);
    n->id = unsupported1[which];
    n->a = g.inRanges(inner, east::funs1()[n->id]);
    u = g.finish(n);
    c.tag(std::string("unsupported.") + east::funs1()[n->id].name);
  } else {
    auto n = g.mk(east::K::Fun2);
    n->id = which - 14;
    auto other = g.gen(2);
    const bool first = c.boolean("argpos");
    n->a = first ? inner : other;
    n->b = first ? other : inner;
    if (n->id == east::F2_ATAN2 && !(fabsl(n->a->val) >= 1e-2L)) n->a = g.fit(n->a, 0.1, 10);
    if (n->id == east::F2_MAX || n->id == east::F2_MIN) {
      if (!(fabsl(n->a->val - n->b->val) > 1e-3L * (1 + fabsl(n->a->val)))) n->b = g.fit(n->b, static_cast<double>(n->a->val) + 1, static_cast<double>(n->a->val) + 5);
    }
    u = g.finish(n);
    c.tag(std::string("unsupported.") + east::fun2name(n->id));
  }
  u = g.tame(u);
  Formula f;
  const int ctx = static_cast<int>(c.pick(4, "ctx"));
  if (ctx == 0) {
    f.root = u;
  } else if (ctx == 1) {
    f.root = g.binary(east::K::Mul, g.gen(2), u);
  } else if (ctx == 2) {
    auto n = g.mk(east::K::Fun1);
    n->id = 17;  // sin
    n->a = u;
    f.root = g.finish(n);
  } else {
    f.root = g.binary(east::K::Sub, u, g.gen(3));
  }
  finishFormula(c, g, f);
  c.nontrivial(true);
  c.note(f.text + "  d/d" + f.names[k]);
  auto ev = build(c, f);
  std::shared_ptr<ExternalFunction> d;
  try {
    d = ev->differentiate(f.names[k]);
  } catch (const std::exception&) {
    c.tag("unsupported.threw");
    return;
  }
  // a function is returned: it must be the derivative
  c.tag("unsupported.returned_a_function");
  E ref;
  try {
    ref = firstDerivative(*f.root, f.x, k);
  } catch (const east::Ill&) {
    c.discard();
  }
  double got = 0;
  try {
    for (std::size_t i = 0; i != f.x.size(); ++i) d->setVariableValue(i, f.x[i]);
    got = d->getValue();
  } catch (const std::exception&) {
    c.tag("unsupported.threw_at_evaluation");
    return;
  }
  c.close(got, ref.v, TOLK * ref.e + TINY, "C14.unsupported.wrong_derivative", "d/d" + f.names[k] + " of " + describe(f));
}

// ---------------------------------- known finding: derivative of log10
VERIF_SUB_W(log10, 0.05) {
  east::GenOptions o;
  o.nvars = 2;
  o.csts = &constants();
  o.differentiableOnly = true;
  o.maxDepth = 3;
  o.maxNodes = 10;
  o.allowCond = false;
  east::Generator g(c, o);
  g.drawPoint();
  const int k = static_cast<int>(c.pick(2, "k"));
  auto vk = g.mk(east::K::Var);
  vk->id = k;
  east::NP inner = g.finish(vk);
  if (c.boolean("compound")) inner = g.binary(c.boolean("iop") ? east::K::Add : east::K::Mul, inner, g.gen(2));
  auto n = g.mk(east::K::Fun1);
  n->id = 8;
  n->a = g.inRanges(inner, east::funs1()[8]);
  Formula f;
  f.root = g.finish(n);
  if (c.boolean("ctx")) f.root = g.binary(east::K::Add, f.root, g.gen(2));
  finishFormula(c, g, f);
  c.nontrivial(true);
  c.tag("log10_on_path");
  E ref;
  try {
    ref = firstDerivative(*f.root, f.x, k);
  } catch (const east::Ill&) {
    c.discard();
  }
  auto ev = build(c, f);
  std::shared_ptr<ExternalFunction> d;
  try {
    d = ev->differentiate(f.names[k]);
  } catch (const std::exception& e) {
    c.check(false, "C14.differentiate.exception", describe(f) + ": " + e.what());
  }
  const double got = evalDerivative(c, *d, f, "C14.derivative.exception", "d/d" + f.names[k]);
  c.close(got, ref.v, TOLK * ref.e + TINY, "C14.log10.derivative", "d/d" + f.names[k] + " of " + describe(f));
}

VERIF_MAIN("C14_diff")
