/*!
 * C12 - Quadrature and Runge-Kutta schemes achieve their stated order.
 *
 * Oracles: exact antiderivatives in long double.
 *  - polynomials are drawn in a basis that is well conditioned on the
 *    interval (Legendre P_k(s), or monomials s^k, s in [-1,1] the reduced
 *    abscissa), so that max|p| <= sum|c_k| =: C and the exact integral is known
 *    in closed form (Legendre: c_0*(b-a); monomials: (b-a)/2 * sum_{k even} 2c_k/(k+1)).
 *    The integrand handed to the tested code evaluates p in long double and
 *    rounds the value to double (error u*C per evaluation).
 *  - analytic family with known integrals on finite, half-infinite and
 *    infinite intervals (exp, erfc, atan ...), features kept resolved by the
 *    first Kronrod level (the statement only speaks of integrands whose Kronrod
 *    error estimate is reliable).
 *  - Runge-Kutta: y' = p(t), deg p < order, plus the *same* ODE written in
 *    autonomous form (tau' = 1, y' = p(t0+tau)): a Runge-Kutta method of order q
 *    with consistent row sums integrates both exactly (all elementary
 *    differentials other than the bushy trees vanish), and the autonomous
 *    copy exercises the a_ij coefficients that y'=p(t) alone cannot see.
 *    The tau component is a clock: it gives the time really reached.
 *
 * Tolerances, u = 2^-52:
 *  GK: S = |b-a|*C.  Rounding of the 15 abscissae u*X (X = max|a|,|b|) moves
 *  p by |p'| u X <= d^2 C (2/|b-a|) u X (Markov); the tabulated nodes/weights
 *  carry 15 significant digits (5e-16 ~ 2.3u): nodes move p by 2.3 u d^2 C,
 *  weights by 2.3u each.   bound = u*S*(20 + d^2*(3 + 4X/|b-a|)); threshold = KQ x bound.
 *  RK: each step adds O(u)(|y| + dt*C); the value of p carries u*C and the
 *  rounding of t moves p by d^2 C 2/T u max|t|.
 *  bound = u*nsteps*(|y0| + T*C*(1 + d^2*tmax/T)); threshold = KR x bound.
 *
 * Domain notes (from the callers/tests): RungeKutta2/4::exe loops
 * `while(t<end)` with a fixed h, so only dyadic h with (end-begin)/h integral
 * and begin a multiple of h are generated (t advances without rounding).
 * RungeKutta54 does not compile for N=1 (eval() of a scalar), N=3 is used.
 */
#include "verif.hxx"
#include "refmath.hxx"
#include <optional>
#include <tuple>
#include "TFEL/Math/tvector.hxx"
#include "TFEL/Math/NumericalIntegration/GaussKronrodQuadrature.hxx"
#include "TFEL/Math/RungeKutta2.hxx"
#include "TFEL/Math/RungeKutta4.hxx"
#include "TFEL/Math/RungeKutta42.hxx"
#include "TFEL/Math/RungeKutta54.hxx"

using ref::R;
using ref::Vec;

namespace {

  constexpr R u = 2.220446049250313e-16L;
  constexpr R KQ = 256;
  constexpr R KR = 256;

  // ---------------------------------------------------------------- polynomials
  struct Poly {
    bool legendre = true;
    Vec c;          // coefficients
    R lo = -1, hi = 1;  // interval mapped on s in [-1,1]
    int degree() const { return static_cast<int>(c.size()) - 1; }
    R C() const {
      R s = 0;
      for (auto v : c) s += std::fabs(v);
      return s;
    }
    R reduced(const R x) const { return (2 * x - lo - hi) / (hi - lo); }
    //! value at the reduced abscissa s
    R atS(const R s) const {
      R r = 0;
      if (legendre) {
        R p0 = 1, p1 = s;
        for (std::size_t k = 0; k < c.size(); ++k) {
          const R pk = k == 0 ? p0 : (k == 1 ? p1 : ((2 * R(k) - 1) * s * p1 - (R(k) - 1) * p0) / R(k));
          if (k >= 2) {
            p0 = p1;
            p1 = pk;
          }
          r += c[k] * pk;
        }
      } else {
        R sk = 1;
        for (std::size_t k = 0; k < c.size(); ++k) {
          r += c[k] * sk;
          sk *= s;
        }
      }
      return r;
    }
    R operator()(const R x) const { return atS(reduced(x)); }
    //! exact integral of p between lo and x
    R primitive(const R x) const {
      const R s = reduced(x);
      const R hw = (hi - lo) / 2;
      R r = 0;
      if (legendre) {
        // int_{-1}^{s} P_k = (P_{k+1}(s) - P_{k-1}(s))/(2k+1), k >= 1
        std::vector<R> P(c.size() + 1);
        P[0] = 1;
        if (P.size() > 1) P[1] = s;
        for (std::size_t k = 2; k < P.size(); ++k)
          P[k] = ((2 * R(k) - 1) * s * P[k - 1] - (R(k) - 1) * P[k - 2]) / R(k);
        for (std::size_t k = 0; k < c.size(); ++k)
          r += c[k] * (k == 0 ? s + 1 : (P[k + 1] - P[k - 1]) / (2 * R(k) + 1));
      } else {
        R sk = s, mk = -1;  // s^{k+1}, (-1)^{k+1}
        for (std::size_t k = 0; k < c.size(); ++k) {
          r += c[k] * (sk - mk) / (R(k) + 1);
          sk *= s;
          mk = -mk;
        }
      }
      return hw * r;
    }
  };

  Poly genPoly(verif::Case& c, const int dmax, const R lo, const R hi, const bool allow_monomial = true) {
    Poly p;
    p.lo = lo;
    p.hi = hi;
    p.legendre = allow_monomial ? !c.chance(1, 3, "monomial") : true;
    int d = 0;
    switch (c.pick(4, "deg_class")) {
      case 0: d = dmax; break;
      case 1: d = static_cast<int>(c.integer(0, std::min(dmax, 3), "deg")); break;
      default: d = static_cast<int>(c.integer(0, dmax, "deg")); break;
    }
    const double sc = c.chance(1, 3, "unit_scale") ? 1. : c.log10real(-3, 3, "scale");
    p.c.resize(d + 1);
    for (auto& v : p.c) v = c.chance(1, 5, "zero") ? 0. : c.sreal(sc, "c");
    if (p.c[d] == 0) p.c[d] = sc;  // true degree d
    return p;
  }

  void genInterval(verif::Case& c, double& a, double& b) {
    const double w = c.chance(1, 4, "unit_width") ? 1. : c.log10real(-3, 3, "width");
    double mid = 0;
    switch (c.pick(4, "centre_class")) {
      case 0: mid = 0; c.tag("interval.centred"); break;
      case 1: mid = w / 2; c.tag("interval.[0,w]"); break;
      case 2: mid = c.sreal(2 * w, "mid"); c.tag("interval.near"); break;
      default: mid = c.sreal(20 * w, "mid"); c.tag("interval.far"); break;
    }
    a = mid - w / 2;
    b = mid + w / 2;
    if (!(a < b)) c.discard();
  }

  // ---------------------------------------------------------------- Gauss-Kronrod: polynomials
  void gkPoly(verif::Case& c) {
    using tfel::math::gauss_kronrod_integrate;
    double a, b;
    genInterval(c, a, b);
    const Poly p = genPoly(c, 22, a, b);
    const int d = p.degree();
    const bool swapped = c.chance(1, 4, "swapped");
    c.tag(d <= 13 ? "deg.0-13" : "deg.14-22");
    c.tag(p.legendre ? "basis.legendre" : "basis.monomial");
    c.nontrivial(d >= 2 && !(a == 0 && b == 1));
    const R X = std::max(std::fabs(R(a)), std::fabs(R(b)));
    const R S = (R(b) - R(a)) * p.C();
    const R bound = u * S * (20 + R(d) * d * (3 + 4 * X / (R(b) - R(a)))) + 1e-300L;
    const R exact = (swapped ? -1 : 1) * p.primitive(b);
    const double qa = swapped ? b : a, qb = swapped ? a : b;
    auto f = [&p](const double x) noexcept { return static_cast<double>(p(static_cast<R>(x))); };
    // (value, error estimate) overload: no refinement
    const auto ot = gauss_kronrod_integrate(f, qa, qb);
    c.check(ot.has_value(), "C12.gk.poly.no_value", "tuple overload returned no value on a finite interval");
    const auto [I, e] = *ot;
    c.close(I, exact, KQ * bound, "C12.gk.poly.exact", "15 point Kronrod value, degree " + std::to_string(d));
    c.check(e >= 0, "C12.gk.poly.estimate", "negative error estimate");
    if (d <= 13) c.close(e, 0, KQ * bound, "C12.gk.poly.estimate", "error estimate, degree " + std::to_string(d));
    // adaptive overload
    const double atol = static_cast<double>(S) * c.log10real(-12, -4, "atol");
    const std::size_t nref = static_cast<std::size_t>(c.integer(1, 12, "nref"));
    const auto o = gauss_kronrod_integrate(f, qa, qb, {.absolute_tolerance = atol, .maximum_number_of_refinements = nref});
    if (o.has_value()) {
      c.tag("adaptive.value");
      c.close(*o, exact, 2 * KQ * bound + atol, "C12.gk.poly.adaptive", "adaptive value, degree " + std::to_string(d));
      if (nref == 1) c.check(*o == I, "C12.gk.poly.adaptive", "single level adaptive value differs from the Kronrod value");
    } else {
      c.tag("adaptive.no_value");
      // the estimate of an exactly integrated polynomial is below the tolerance: a value is due
      c.check(!(d <= 13 && atol >= 4 * static_cast<double>(KQ * bound)), "C12.gk.poly.adaptive_no_value",
              "no value although the error estimate vanishes (degree " + std::to_string(d) + ")");
    }
  }

  // ---------------------------------------------------------------- sign swap and NaN bounds
  void gkSwapNaN(verif::Case& c) {
    using tfel::math::gauss_kronrod_integrate;
    double a, b;
    genInterval(c, a, b);
    const Poly p = genPoly(c, 8, a, b);
    const auto kind = c.pick(3, "integrand");
    const R w = R(b) - R(a);
    auto f = [&](const double x) noexcept {
      const R s = p.reduced(x);
      switch (kind) {
        case 0: return static_cast<double>(p.atS(s));
        case 1: return static_cast<double>(std::exp(s) * p.C());
        default: return static_cast<double>(p.atS(s) / (1 + s * s));
      }
    };
    (void)w;
    c.nontrivial(true);
    const double atol = static_cast<double>(w * p.C()) * c.log10real(-12, -4, "atol");
    const tfel::math::GaussKronrodQuadrature::NumericalParameters<double> prm{
        .absolute_tolerance = atol, .maximum_number_of_refinements = static_cast<std::size_t>(c.integer(1, 10, "nref"))};
    // swap
    const auto t1 = gauss_kronrod_integrate(f, a, b), t2 = gauss_kronrod_integrate(f, b, a);
    c.check(t1.has_value() && t2.has_value(), "C12.gk.swap", "no value on a finite interval");
    c.check(std::get<0>(*t2) == -std::get<0>(*t1), "C12.gk.swap", "I(b,a) != -I(a,b) (tuple overload)");
    c.check(std::get<1>(*t2) == std::get<1>(*t1), "C12.gk.swap", "error estimates differ when bounds are swapped");
    const auto o1 = gauss_kronrod_integrate(f, a, b, prm), o2 = gauss_kronrod_integrate(f, b, a, prm);
    c.check(o1.has_value() == o2.has_value(), "C12.gk.swap", "value present for one order of the bounds only");
    if (o1.has_value()) c.check(*o2 == -*o1, "C12.gk.swap", "I(b,a) != -I(a,b) (adaptive overload)");
    // NaN
    const double nan = c.boolean("negative_nan") ? -std::numeric_limits<double>::quiet_NaN()
                                                 : std::numeric_limits<double>::quiet_NaN();
    const double inf = std::numeric_limits<double>::infinity();
    double other = a;
    switch (c.pick(4, "other_bound")) {
      case 0: other = a; break;
      case 1: other = inf; break;
      case 2: other = -inf; break;
      default: other = nan; break;
    }
    const bool first = c.boolean("nan_first");
    const double na = first ? nan : other, nb = first ? other : nan;
    c.check(!gauss_kronrod_integrate(f, na, nb).has_value(), "C12.gk.nan", "value returned for a NaN bound (tuple overload)");
    c.check(!gauss_kronrod_integrate(f, na, nb, prm).has_value(), "C12.gk.nan",
            "value returned for a NaN bound (adaptive overload)");
  }

  // ---------------------------------------------------------------- analytic integrands
  /*
   * "integrands whose Kronrod error estimate is reliable" is made operational:
   * the harness runs its own copy of the documented scheme (docs/web/
   * tfel-math-numerical-integration.md: 15 point Kronrod value, |K15-G7| as
   * estimate, bisection with the tolerance halved on each side, bounded depth)
   * in long double with 33-digit QUADPACK constants on the documented change
   * of variable, and compares on every accepted leaf the estimate with the
   * TRUE leaf error (exact antiderivative).  The estimate is called reliable
   * on a run when every accepted leaf has true error <= estimate.  Only then
   * is |I - I*| <= requested tolerance demanded.  Runs in which a refinement
   * decision is within rounding of the threshold are skipped (the tree of the
   * double precision code may legitimately differ).
   */
  struct Leaf {
    R c, d, k15, est;
  };
  struct RefGK {
    std::function<R(R)> ut;  // mapped integrand u(t)
    R margin = 0;            // rounding scale of an estimate
    std::vector<Leaf> leaves;
    bool exhausted = false, borderline = false;
    void rule(const R c, const R d, R& k15, R& e) const {
      static const R xgk[8] = {0.991455371120812639206854697526329L, 0.949107912342758524526189684047851L,
                               0.864864423359769072789712788640926L, 0.741531185599394439863864773280788L,
                               0.586087235467691130294144838258730L, 0.405845151377397166906606412076961L,
                               0.207784955007898467600689403773245L, 0.L};
      static const R wgk[8] = {0.022935322010529224963732008058970L, 0.063092092629978553290700663189204L,
                               0.104790010322250183839876322541518L, 0.140653259715525918745189590510238L,
                               0.169004726639267902826583426598550L, 0.190350578064785409913256402421014L,
                               0.204432940075298892414161999234649L, 0.209482141084727828012999174891714L};
      static const R wg[4] = {0.129484966168869693270611432679082L, 0.279705391489276667901467771423780L,
                              0.381830050505118944950369775488975L, 0.417959183673469387755102040816327L};
      const R mid = (c + d) / 2, hw = (d - c) / 2;
      R k = wgk[7] * ut(mid), g = wg[3] * ut(mid);
      for (int i = 0; i < 7; ++i) {
        const R s = ut(mid - hw * xgk[i]) + ut(mid + hw * xgk[i]);
        k += wgk[i] * s;
        if (i % 2 == 1) g += wg[i / 2] * s;
      }
      k15 = k * hw;
      e = std::fabs(k15 - g * hw);
    }
    void run(const R c, const R d, const R tol, const std::size_t n) {
      if (n == 0) {
        exhausted = true;
        return;
      }
      R k15, e;
      rule(c, d, k15, e);
      if (std::fabs(e - tol) <= margin) borderline = true;
      if (e > tol) {
        run(c, (c + d) / 2, tol / 2, n - 1);
        run((c + d) / 2, d, tol / 2, n - 1);
      } else {
        leaves.push_back({c, d, k15, e});
      }
    }
  };

  void gkAnalytic(verif::Case& c) {
    using tfel::math::gauss_kronrod_integrate;
    const double inf = std::numeric_limits<double>::infinity();
    const double A = c.chance(1, 3, "unit_amp") ? 1. : c.log10real(-3, 3, "amp") * (c.boolean("neg") ? -1 : 1);
    const double s = c.real(0.4, 2.5, "s");
    const double atolr = c.log10real(-11, -1, "atol");
    const std::size_t nref = static_cast<std::size_t>(c.integer(1, 14, "nref"));
    const auto shape = c.pick(4, "interval_kind");
    R exact = 0, scale = 0, lipx = 0, factor = 1;
    double a = 0, b = 0;
    std::function<R(R)> fl;      // integrand, long double
    std::function<R(R)> xoft;    // documented change of variable x(t) (identity on finite intervals)
    std::function<R(R)> woft;    // dx/dt up to `factor`
    std::function<R(R, R)> part; // exact integral of the integrand over x(t) for t in [c,d]
    R tlo = -1, thi = 1;
    if (shape == 0 || shape == 1) {
      // half infinite: [x0,inf) or (-inf,x0], integrand A g(|x-x0|/s+y0)/s
      static const int kinds = 6;
      const int kind = static_cast<int>(c.pick(kinds, "g"));
      const double y0 = c.chance(1, 2, "y0_zero") ? 0. : c.real(0, 2, "y0");
      const double x0 = c.chance(1, 2, "x0_zero") ? 0. : c.sreal(50, "x0");
      const bool use_max = c.chance(1, 3, "max_as_infinity");
      const double big = use_max ? std::numeric_limits<double>::max() : inf;
      auto g = [kind](const R y) -> R {
        switch (kind) {
          case 0: return std::exp(-y);
          case 1: return y * std::exp(-y);
          case 2: return 1 / ((1 + y) * (1 + y));
          case 3: return 1 / (1 + y * y);
          case 4: return std::exp(-y * y);
          default: return 1 / ((1 + y) * (1 + y) * (1 + y));
        }
      };
      auto tail = [kind](const R y) -> R {  // int_y^inf g
        if (std::isinf(static_cast<double>(y))) return 0;
        switch (kind) {
          case 0: return std::exp(-y);
          case 1: return (y + 1) * std::exp(-y);
          case 2: return 1 / (1 + y);
          case 3: return ref::pi / 2 - std::atan(y);
          case 4: return std::sqrt(ref::pi) / 2 * std::erfc(y);
          default: return 1 / (2 * (1 + y) * (1 + y));
        }
      };
      const R lip = kind == 5 ? 3 : (kind == 2 ? 2 : 1);
      const R sgn = shape == 0 ? 1 : -1;
      if (shape == 0) {
        c.tag("interval.right_unbounded");
        a = x0;
        b = big;
      } else {
        c.tag("interval.left_unbounded");
        a = -big;
        b = x0;
      }
      fl = [=](const R x) { return A * g(sgn * (x - R(x0)) / s + y0) / s; };
      // documented: u(x) = a + (2/(1+t) - 1)   resp.  b - (2/(1+t) - 1);  the code integrates f z^2 and doubles
      xoft = [=](const R t) { return R(x0) + sgn * (2 / (t + 1) - 1); };
      woft = [=](const R t) { return 1 / ((t + 1) * (t + 1)); };
      factor = 2;
      part = [=](const R tc, const R td) {
        // distance to x0 decreases with t
        auto yy = [&](const R t) { return t <= -1 ? R(INFINITY) : (2 / (t + 1) - 1) / s + y0; };
        return A * (tail(yy(td)) - tail(yy(tc)));
      };
      exact = A * tail(y0);
      scale = std::fabs(R(A)) * tail(0);
      lipx = std::fabs(R(A)) * lip * std::fabs(R(x0)) / s;
    } else if (shape == 2) {
      c.tag("interval.unbounded");
      const int k = static_cast<int>(c.pick(4, "g2"));
      const double m = c.sreal(1, "m");
      const bool use_max = c.chance(1, 3, "max_as_infinity");
      a = use_max ? -std::numeric_limits<double>::max() : -inf;
      b = use_max ? std::numeric_limits<double>::max() : inf;
      fl = [=](const R x) {
        const R y = (x - m) / s;
        R v = 0;
        switch (k) {
          case 0: v = 1 / (1 + y * y); break;
          case 1: v = std::exp(-y * y); break;
          case 2: v = 1 / ((1 + y * y) * (1 + y * y)); break;
          default: {
            const R ch = std::cosh(y);
            v = std::isfinite(static_cast<double>(ch)) ? 1 / (ch * ch) : 0;
          }
        }
        return A * v / s;
      };
      auto prim = [=](const R x) -> R {
        const bool isinf = std::isinf(static_cast<double>(x));
        const R y = isinf ? x : (x - m) / s;
        switch (k) {
          case 0: return std::atan(y);
          case 1: return std::sqrt(ref::pi) / 2 * std::erf(y);
          case 2: return ((isinf ? 0 : y / (1 + y * y)) + std::atan(y)) / 2;
          default: return std::tanh(y);
        }
      };
      xoft = [](const R t) { return std::fabs(t) >= 1 ? (t > 0 ? R(INFINITY) : -R(INFINITY)) : t / (1 - t * t); };
      woft = [](const R t) { return (1 + t * t) / ((1 - t * t) * (1 - t * t)); };
      part = [=](const R tc, const R td) { return A * (prim(xoft(td)) - prim(xoft(tc))); };
      exact = A * (prim(INFINITY) - prim(-INFINITY));
      scale = std::fabs(exact);
      lipx = 0;
    } else {
      c.tag("interval.finite");
      const int k = static_cast<int>(c.pick(4, "g3"));
      const double m = c.sreal(2, "m");
      a = m + s * c.sreal(4, "ya");
      b = m + s * c.sreal(4, "yb");
      if (a > b) std::swap(a, b);
      if (!(a < b)) c.discard();
      fl = [=](const R x) -> R {
        const R y = (x - m) / s;
        switch (k) {
          case 0: return A * std::exp(y) / s;
          case 1: return A * std::cos(y) / s;
          case 2: return A / (1 + y * y) / s;
          default: return A * std::exp(-y * y) / s;
        }
      };
      auto F = [=](const R x) -> R {
        const R y = (x - m) / s;
        switch (k) {
          case 0: return std::exp(y);
          case 1: return std::sin(y);
          case 2: return std::atan(y);
          default: return std::sqrt(ref::pi) / 2 * std::erf(y);
        }
      };
      xoft = [](const R t) { return t; };
      woft = [](const R) { return R(1); };
      tlo = a;
      thi = b;
      part = [=](const R tc, const R td) { return A * (F(td) - F(tc)); };
      exact = A * (F(b) - F(a));
      R mx = 0;
      for (int i = 0; i <= 16; ++i) mx = std::max(mx, std::fabs(fl(R(a) + (R(b) - R(a)) * i / 16)));
      scale = mx * std::fabs(R(b) - R(a)) + std::fabs(exact);
      lipx = mx * 4 * std::max(std::fabs(R(a)), std::fabs(R(b))) / s;
    }
    auto f = [&fl](const double x) { return static_cast<double>(fl(static_cast<R>(x))); };
    c.nontrivial(true);
    const double atol = static_cast<double>(scale) * atolr;
    const R rounding = KQ * u * (20 * scale + lipx);
    // ---- reference run of the documented scheme: is the estimate reliable here?
    RefGK rg;
    rg.ut = [&](const R t) {
      const R x = xoft(t);
      const R v = fl(x) * woft(t);
      return std::isfinite(static_cast<double>(v)) ? v : R(0);
    };
    rg.margin = rounding / factor;
    rg.run(tlo, thi, atol, nref);
    bool reliable = !rg.exhausted;
    R worst = 0;
    for (const auto& l : rg.leaves) {
      const R truth = part(l.c, l.d) / factor;
      const R err = std::fabs(l.k15 - truth);
      if (l.est > 0) worst = std::max(worst, err / l.est);
      if (err > l.est + 1e-17L * scale + 1e-300L) reliable = false;
    }
    c.tag(rg.exhausted ? "ref.refinements_exhausted" : (reliable ? "ref.estimate_reliable" : "ref.estimate_unreliable"));
    if (rg.borderline) c.tag("ref.borderline_decision");
    if (rg.leaves.size() > 1) c.tag("ref.refined");
    const bool swapped = c.chance(1, 5, "swapped");
    if (swapped) {
      std::swap(a, b);
      exact = -exact;
    }
    const auto o = gauss_kronrod_integrate(f, a, b, {.absolute_tolerance = atol, .maximum_number_of_refinements = nref});
    if (o.has_value()) {
      c.tag("adaptive.value");
      if (reliable && !rg.borderline) {
        const std::string cls = shape <= 1 ? ".half_infinite" : (shape == 2 ? ".infinite" : ".finite");
        std::ostringstream os;
        os.precision(17);
        os << "adaptive integral, estimate reliable on all " << rg.leaves.size() << " leaves (worst true error/estimate "
           << static_cast<double>(worst) << "), requested tolerance " << atol;
        // half-infinite intervals: an error in (tol, 2 tol] is the signature of the tolerance being applied
        // to half of the integral (known finding); anything larger is another defect and keeps its own key
        const R err = std::fabs(R(*o) - exact);
        const bool doubled = shape <= 1 && err > atol + rounding && err <= 2 * (atol + rounding);
        c.close(*o, exact, atol + rounding,
                "C12.gk.analytic.within_tolerance" + cls + (doubled ? ".doubled_tolerance" : ""), os.str());
      }
    } else {
      c.tag("adaptive.no_value");
    }
    // sign swap holds on (half-)infinite intervals too
    const auto o2 = gauss_kronrod_integrate(f, b, a, {.absolute_tolerance = atol, .maximum_number_of_refinements = nref});
    c.check(o.has_value() == o2.has_value(), "C12.gk.swap", "value present for one order of the bounds only");
    if (o.has_value()) c.check(*o2 == -*o, "C12.gk.swap", "I(b,a) != -I(a,b) on " + std::to_string(shape));
  }

  // ---------------------------------------------------------------- every ordered pair of bound kinds
  /*
   * (a,b) in {finite, +inf, -inf, numeric_limits::max(), numeric_limits::lowest()}^2, both overloads.
   * Integrand integrable on the whole line with a known antiderivative.  Claims:
   *  - I(b,a) = -I(a,b) bitwise (value present for both orders or for none), both overloads;
   *  - adaptive overload (max()/lowest() documented as infinities): value within the requested tolerance of
   *    the oriented exact integral when the estimate is reliable (same replay as gk_analytic);
   *  - (value, error) overload with finite or true infinite bounds: the value is the 15 point Kronrod value of
   *    the documented change of variable, oriented by the order of the bounds (compared with the long double
   *    replay), and within the replayed estimate of the exact integral when that estimate is reliable.
   *    max()/lowest() are finite numbers for this overload (only FP_INFINITE is tested): sign swap only.
   */
  void gkBounds(verif::Case& c) {
    using tfel::math::gauss_kronrod_integrate;
    static const char* const names[5] = {"finite", "+inf", "-inf", "max", "lowest"};
    const int ka = static_cast<int>(c.pick(5, "kind_a")), kb = static_cast<int>(c.pick(5, "kind_b"));
    const double A = c.chance(1, 3, "unit_amp") ? 1. : c.log10real(-3, 3, "amp") * (c.boolean("neg") ? -1 : 1);
    const double s = c.real(0.4, 2.5, "s");
    const double m = c.sreal(1, "m");
    const int k = static_cast<int>(c.pick(4, "g2"));
    const double atolr = c.log10real(-11, -2, "atol");
    const std::size_t nref = static_cast<std::size_t>(c.integer(1, 14, "nref"));
    const double inf = std::numeric_limits<double>::infinity();
    const double dmax = std::numeric_limits<double>::max();
    auto bound = [&](const int kind, const char* nm) {
      switch (kind) {
        case 0: return m + s * c.sreal(4, nm);
        case 1: return inf;
        case 2: return -inf;
        case 3: return dmax;
        default: return std::numeric_limits<double>::lowest();
      }
    };
    const double a = bound(ka, "ya"), b = bound(kb, "yb");
    c.tag(std::string("bounds.") + names[ka] + "," + names[kb]);
    c.nontrivial(ka != 0 || kb != 0);
    auto fl = [=](const R x) -> R {
      const R y = (x - m) / s;
      if (std::isinf(static_cast<double>(y))) return 0;
      R v = 0;
      switch (k) {
        case 0: v = 1 / (1 + y * y); break;
        case 1: v = std::exp(-y * y); break;
        case 2: v = 1 / ((1 + y * y) * (1 + y * y)); break;
        default: {
          const R ch = std::cosh(y);
          v = std::isfinite(static_cast<double>(ch)) ? 1 / (ch * ch) : 0;
        }
      }
      return A * v / s;
    };
    auto prim = [=](const R x) -> R {
      const bool isinf = std::isinf(static_cast<double>(x));
      const R y = isinf ? x : (x - m) / s;
      switch (k) {
        case 0: return A * std::atan(y);
        case 1: return A * std::sqrt(ref::pi) / 2 * std::erf(y);
        case 2: return A * ((isinf ? 0 : y / (1 + y * y)) + std::atan(y)) / 2;
        default: return A * std::tanh(y);
      }
    };
    auto f = [&fl](const double x) { return static_cast<double>(fl(static_cast<R>(x))); };
    auto same = [](const double x, const double y) { return x == y || (std::isnan(x) && std::isnan(y)); };
    const R scale = std::fabs(prim(INFINITY) - prim(-INFINITY));
    const double atol = static_cast<double>(scale) * atolr;
    const tfel::math::GaussKronrodQuadrature::NumericalParameters<double> prm{.absolute_tolerance = atol,
                                                                               .maximum_number_of_refinements = nref};
    const std::string pair = std::string(names[ka]) + "_" + names[kb];
    // ---- sign swap, both overloads, every combination
    const auto t1 = gauss_kronrod_integrate(f, a, b), t2 = gauss_kronrod_integrate(f, b, a);
    c.check(t1.has_value() == t2.has_value(), "C12.gk.bounds.swap.tuple", "value for one order only: " + pair);
    if (t1.has_value()) {
      c.check(same(std::get<0>(*t2), -std::get<0>(*t1)), "C12.gk.bounds.swap.tuple",
              "I(b,a) != -I(a,b), (value,error) overload, bounds " + pair + ": " + std::to_string(std::get<0>(*t1)) +
                  " and " + std::to_string(std::get<0>(*t2)));
      c.check(same(std::get<1>(*t2), std::get<1>(*t1)), "C12.gk.bounds.swap.tuple",
              "error estimates differ when the bounds are swapped: " + pair);
    }
    const auto o1 = gauss_kronrod_integrate(f, a, b, prm), o2 = gauss_kronrod_integrate(f, b, a, prm);
    c.check(o1.has_value() == o2.has_value(), "C12.gk.bounds.swap.adaptive", "value for one order only: " + pair);
    if (o1.has_value())
      c.check(same(*o2, -*o1), "C12.gk.bounds.swap.adaptive",
              "I(b,a) != -I(a,b), adaptive overload, bounds " + pair + ": " + std::to_string(*o1) + " and " +
                  std::to_string(*o2));
    // ---- values.  Extended bounds as each overload documents them
    auto ext = [&](const int kind, const double v, const bool max_is_inf) -> R {
      if (kind == 1 || (kind == 3 && max_is_inf)) return R(INFINITY);
      if (kind == 2 || (kind == 4 && max_is_inf)) return -R(INFINITY);
      return R(v);
    };
    for (const bool adaptive : {false, true}) {
      if (!adaptive && (ka >= 3 || kb >= 3)) continue;  // max()/lowest() are plain numbers for the tuple overload
      const R ea = ext(ka, a, adaptive), eb = ext(kb, b, adaptive);
      const bool ia = std::isinf(static_cast<double>(ea)), ib = std::isinf(static_cast<double>(eb));
      if (ia && ib && (ea > 0) == (eb > 0)) {
        c.tag("bounds.same_sign_infinities");
        continue;  // nothing is stated about an empty interval at infinity
      }
      if (ea == eb) continue;
      const R lo = std::min(ea, eb), hi = std::max(ea, eb);
      const R sign = ea < eb ? 1 : -1;
      const R exact = sign * (prim(hi) - prim(lo));
      const bool lo_inf = std::isinf(static_cast<double>(lo)), hi_inf = std::isinf(static_cast<double>(hi));
      // documented changes of variable
      RefGK rg;
      R factor = 1, tlo = -1, thi = 1, lipx = 0;
      std::function<R(R, R)> part;
      std::string cls;
      if (lo_inf && hi_inf) {
        cls = ".infinite";
        auto xoft = [](const R t) { return std::fabs(t) >= 1 ? (t > 0 ? R(INFINITY) : -R(INFINITY)) : t / (1 - t * t); };
        rg.ut = [=](const R t) {
          const R v = fl(xoft(t)) * (1 + t * t) / ((1 - t * t) * (1 - t * t));
          return std::isfinite(static_cast<double>(v)) ? v : R(0);
        };
        part = [=](const R tc, const R td) { return prim(xoft(td)) - prim(xoft(tc)); };
      } else if (lo_inf || hi_inf) {
        cls = ".half_infinite";
        const R x0 = hi_inf ? lo : hi, sg = hi_inf ? 1 : -1;
        factor = 2;
        auto xoft = [=](const R t) { return t <= -1 ? sg * R(INFINITY) : x0 + sg * (2 / (t + 1) - 1); };
        rg.ut = [=](const R t) {
          const R v = fl(xoft(t)) / ((t + 1) * (t + 1));
          return std::isfinite(static_cast<double>(v)) ? v : R(0);
        };
        // |x - x0| decreases with t
        part = [=](const R tc, const R td) { return sg * (prim(xoft(tc)) - prim(xoft(td))); };
        lipx = std::fabs(R(A)) * 2 * std::fabs(x0) / (R(s) * s);
      } else {
        cls = ".finite";
        tlo = lo;
        thi = hi;
        rg.ut = [=](const R t) { return fl(t); };
        part = [=](const R tc, const R td) { return prim(td) - prim(tc); };
        lipx = std::fabs(R(A)) * 2 * std::max(std::fabs(lo), std::fabs(hi)) / (R(s) * s);
      }
      const R rounding = KQ * u * (20 * scale + lipx);
      rg.margin = rounding / factor;
      if (adaptive) {
        rg.run(tlo, thi, atol, nref);
        bool reliable = !rg.exhausted;
        for (const auto& l : rg.leaves)
          if (std::fabs(l.k15 - part(l.c, l.d) / factor) > l.est + 1e-17L * scale + 1e-300L) reliable = false;
        if (!o1.has_value()) {
          c.tag("bounds.adaptive.no_value");
          continue;
        }
        if (!reliable || rg.borderline) {
          c.tag("bounds.adaptive.unreliable_or_borderline");
          continue;
        }
        const R err = std::fabs(R(*o1) - exact);
        const bool doubled = factor == 2 && err > atol + rounding && err <= 2 * (atol + rounding);
        c.close(*o1, exact, atol + rounding,
                doubled ? "C12.gk.analytic.within_tolerance.half_infinite.doubled_tolerance"
                        : "C12.gk.bounds.adaptive.value" + cls,
                "adaptive overload, bounds (" + pair + "), reliable estimate, requested tolerance " +
                    std::to_string(atol));
      } else {
        R k15, est;
        rg.rule(tlo, thi, k15, est);
        c.check(t1.has_value(), "C12.gk.bounds.tuple.no_value", "no value for bounds " + pair);
        const R got = std::get<0>(*t1);
        c.close(got, sign * factor * k15, (factor == 2 ? 4 : 1) * rounding, "C12.gk.bounds.tuple.kronrod_value" + cls,
                "(value,error) overload vs the 15 point rule on the documented change of variable, bounds (" + pair + ")");
        const R truth = part(tlo, thi) / factor;
        if (std::fabs(k15 - truth) <= est + 1e-17L * scale)
          c.close(got, exact, factor * est + rounding, "C12.gk.bounds.tuple.value" + cls,
                  "(value,error) overload vs the exact oriented integral, bounds (" + pair + ")");
      }
    }
  }

  // ---------------------------------------------------------------- Runge-Kutta, fixed step
  struct TooManyEvaluations : std::runtime_error {
    TooManyEvaluations() : std::runtime_error("more than 2e6 evaluations of the right-hand side: no termination") {}
  };

  template <template <unsigned int, typename, typename> class RK>
  struct FixedOde : RK<3u, double, FixedOde<RK>> {
    const Poly* p = nullptr;
    double t0 = 0;
    std::size_t evals = 0;
    void computeF(const double t, const tfel::math::tvector<3u, double>& y) {
      if (++evals > 2000000) throw TooManyEvaluations();
      this->f(0) = 1;
      this->f(1) = static_cast<double>((*p)(static_cast<R>(t)));
      this->f(2) = static_cast<double>((*p)(static_cast<R>(t0) + static_cast<R>(y(0))));
    }
  };

  template <template <unsigned int, typename, typename> class RK>
  void rkFixed(verif::Case& c, const int order, const std::string& name) {
    const int k = static_cast<int>(c.integer(0, 7, "log2_inv_h"));
    const double h = std::ldexp(1., -k);
    const double begin = h * static_cast<double>(c.integer(-1024, 1024, "begin_over_h"));
    const int n = static_cast<int>(c.chance(1, 4, "one_step") ? 1 : c.integer(2, 64, "steps"));
    const double end = begin + n * h;  // exact
    const Poly p = genPoly(c, order - 1, begin, end, false);
    const int d = p.degree();
    const double y0 = c.chance(1, 2, "y0_zero") ? 0. : c.sreal(10, "y0");
    c.nontrivial(d >= 1 && n >= 2);
    c.tag("deg." + std::to_string(d));
    FixedOde<RK> o;
    o.p = &p;
    o.t0 = begin;
    o.set_h(h);
    o.set_y({0., y0, y0});
    o.exe(begin, end);
    c.check(o.get_t() == end, "C12." + name + ".final_time",
            "stops at t=" + std::to_string(o.get_t()) + " instead of " + std::to_string(end));
    const R T = R(end) - R(begin);
    const R tmax = std::max(std::fabs(R(begin)), std::fabs(R(end)));
    const R bound = u * n * (std::fabs(R(y0)) + T * p.C() * (1 + R(d) * d * tmax / T)) + 1e-300L;
    const auto& y = o.get_y();
    c.close(y(0), T, KR * u * n * T, "C12." + name + ".clock", "clock component");
    c.close(y(1), R(y0) + p.primitive(end), KR * bound, "C12." + name + ".exact",
            "y'=p(t), degree " + std::to_string(d));
    c.close(y(2), R(y0) + p.primitive(end), KR * bound, "C12." + name + ".exact_autonomous",
            "tau'=1, y'=p(t0+tau), degree " + std::to_string(d));
  }

  // ---------------------------------------------------------------- Runge-Kutta, adaptive
  template <template <unsigned short, typename, typename> class RK>
  struct AdaptiveOde : RK<3, AdaptiveOde<RK>, double> {
    const Poly* p = nullptr;
    double t0 = 0;
    mutable std::size_t evals = 0;
    mutable double tmax = -std::numeric_limits<double>::infinity();
    tfel::math::tvector<3u, double> computeF(const double t, const tfel::math::tvector<3u, double>& y) const {
      if (++evals > 2000000) throw TooManyEvaluations();
      tmax = std::max(tmax, t);
      return {1., static_cast<double>((*p)(static_cast<R>(t))),
              static_cast<double>((*p)(static_cast<R>(t0) + static_cast<R>(y(0))))};
    }
  };

  template <template <unsigned short, typename, typename> class RK>
  void rkAdaptive(verif::Case& c, const int order, const int stages, const std::string& name) {
    const double T = c.chance(1, 3, "unit_T") ? 1. : c.log10real(-2, 2, "T");
    double ti = 0;
    switch (c.pick(3, "ti_class")) {
      case 0: ti = 0; break;
      case 1: ti = c.sreal(3 * T, "ti"); break;
      default: ti = c.sreal(30 * T, "ti"); break;
    }
    const double tf = ti + T;
    if (!(tf > ti)) c.discard();
    const Poly p = genPoly(c, order - 1, ti, tf, false);
    const int d = p.degree();
    const double y0 = c.chance(1, 2, "y0_zero") ? 0. : c.sreal(10, "y0");
    // initial increment: from tiny to larger than the interval (it is clamped)
    const double dt0 = T * c.log10real(-3, 0.5, "dt0_over_T");
    // criterion relative to the size of one increment of the solution
    const double eps = static_cast<double>(R(T) * p.C()) * c.log10real(-9, -1, "eps");
    if (!(eps > 0)) c.discard();
    c.nontrivial(d >= 2 && !(ti == 0 && tf == 1));
    c.tag("deg." + std::to_string(d));
    AdaptiveOde<RK> o;
    o.p = &p;
    o.t0 = ti;
    o.setInitialValue({0., y0, y0});
    o.setInitialTime(ti);
    o.setFinalTime(tf);
    o.setInitialTimeIncrement(dt0);
    o.setCriterionValue(eps);
    o.iterate();
    const auto& y = o.getValue();
    const R Te = R(tf) - R(ti);
    const R nsteps = R(o.evals) / stages + 1;
    const R tm = std::max(std::fabs(R(ti)), std::fabs(R(tf)));
    const R bound = u * nsteps * (std::fabs(R(y0)) + Te * p.C() * (1 + R(d) * d * tm / Te)) + 1e-300L;
    // 1. exactness at the time really reached (clock component)
    const R reached = R(ti) + R(y(0));
    c.close(y(1), R(y0) + p.primitive(reached), KR * bound, "C12." + name + ".exact",
            "y'=p(t), degree " + std::to_string(d) + ", at the time reached");
    c.close(y(2), R(y0) + p.primitive(reached), KR * bound, "C12." + name + ".exact_autonomous",
            "tau'=1, y'=p(t0+tau), degree " + std::to_string(d) + ", at the time reached");
    // 2. no evaluation beyond the final time (t+dt with dt=tf-t may round one ulp up)
    c.check(R(o.tmax) <= R(tf) + 4 * u * tm, "C12." + name + ".beyond_final_time",
            "right-hand side evaluated at t=" + std::to_string(o.tmax) + " > tf=" + std::to_string(tf));
    // 3. the final time is reached
    const R gap = Te - R(y(0));
    const R ttol = KR * u * nsteps * (Te + tm);
    c.err("C12." + name + ".final_time", static_cast<double>(std::fabs(gap) / ttol));
    if (gap > ttol) {
      std::ostringstream os;
      os.precision(17);
      os << "iterate() stopped at t-ti=" << static_cast<double>(y(0)) << " instead of tf-ti=" << static_cast<double>(Te)
         << " (ti=" << ti << ", dt0=" << dt0 << ", eps=" << eps << ", degree " << d << ", last dt=" << o.getTimeIncrement()
         << ")";
      c.check(false, "C12." + name + ".final_time.stops_short", os.str());
    }
    c.check(!(gap < -ttol), "C12." + name + ".final_time.overshoot", "iterate() integrated beyond the final time");
  }

  // ---------------------------------------------------------------- observed order on a linear system
  template <template <unsigned int, typename, typename> class RK>
  struct LinearOde : RK<2u, double, LinearOde<RK>> {
    double al = 0, be = 0;
    void computeF(const double, const tfel::math::tvector<2u, double>& y) {
      this->f(0) = al * y(0) - be * y(1);
      this->f(1) = be * y(0) + al * y(1);
    }
  };

  template <template <unsigned int, typename, typename> class RK>
  void rkOrder(verif::Case& c, const int order, const std::string& name) {
    // |lambda| h in [2^-6, 2^-3]: asymptotic regime, errors well above rounding
    const int k = static_cast<int>(c.integer(3, order == 2 ? 8 : 6, "log2_inv_lh"));
    const double ang = c.real(0, 6.283185307179586, "arg_lambda");
    const double lam = c.log10real(-2, 2, "abs_lambda");
    const int n = static_cast<int>(c.integer(4, 64, "steps"));
    const double h = std::ldexp(1., -k - static_cast<int>(std::ceil(std::log2(lam))));
    const R lh = R(lam) * h;
    if (!(lh <= 0.126 && lh >= 0.0019)) c.discard();
    c.nontrivial(true);
    const double al = lam * std::cos(ang), be = lam * std::sin(ang);
    auto run = [&](const double hh, const int nn) {
      LinearOde<RK> o;
      o.al = al;
      o.be = be;
      o.set_h(hh);
      o.set_y({1., 0.});
      o.exe(0., hh * nn);
      const R T = R(hh) * nn;
      const R ex = std::exp(R(al) * T) * std::cos(R(be) * T), ey = std::exp(R(al) * T) * std::sin(R(be) * T);
      return std::hypot(R(o.get_y()(0)) - ex, R(o.get_y()(1)) - ey);
    };
    const R e1 = run(h, n), e2 = run(h / 2, 2 * n);
    if (!(e2 > 0)) c.discard();
    const R ratio = e1 / e2;
    const R lo = std::pow(R(2), order - 0.5L), hi = std::pow(R(2), order + 1.5L);
    c.err("C12." + name + ".order", static_cast<double>(std::fabs(std::log2(ratio) - order)));
    std::ostringstream os;
    os << "error ratio h -> h/2 is " << static_cast<double>(ratio) << ", expected about 2^" << order;
    c.check(ratio >= lo && ratio <= hi, "C12." + name + ".order", os.str());
  }

}  // namespace

VERIF_SUB(gk_polynomials) { gkPoly(c); }
VERIF_SUB_W(gk_swap_nan, 0.5) { gkSwapNaN(c); }
VERIF_SUB_W(gk_analytic, 0.5) { gkAnalytic(c); }
VERIF_SUB_W(gk_bounds, 0.5) { gkBounds(c); }
VERIF_SUB_W(rk2_fixed, 0.5) { rkFixed<tfel::math::RungeKutta2>(c, 2, "rk2"); }
VERIF_SUB_W(rk4_fixed, 0.5) { rkFixed<tfel::math::RungeKutta4>(c, 4, "rk4"); }
VERIF_SUB(rk42_adaptive) { rkAdaptive<tfel::math::RungeKutta42>(c, 4, 4, "rk42"); }
VERIF_SUB(rk54_adaptive) { rkAdaptive<tfel::math::RungeKutta54>(c, 5, 6, "rk54"); }
VERIF_SUB_W(rk2_order, 0.2) { rkOrder<tfel::math::RungeKutta2>(c, 2, "rk2"); }
VERIF_SUB_W(rk4_order, 0.2) { rkOrder<tfel::math::RungeKutta4>(c, 4, "rk4"); }

VERIF_MAIN("C12_integrators")
