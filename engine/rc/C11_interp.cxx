/*!
 * C11 - Linear and cubic-spline interpolation reproduce and extend data.
 *
 * Oracles
 *  - spline: an independent NATURAL cubic spline in long double, written in
 *    the *moment* form (unknowns = second derivatives M_i, M_0 = M_n = 0, dense
 *    system solved by ref::solve).  The tested code uses the *slope* form
 *    (unknowns = first derivatives) and a Thomas solver, so nothing is shared.
 *  - integral: closed-form antiderivative of the reference piecewise cubic and
 *    of its linear tails (CubicSpline::computeIntegral extrapolates linearly).
 *  - linear: the two-line definition in long double.
 *
 * Tolerances (u = epsilon of the tested type; all derived, then calibrated)
 *  The tested slopes d solve A d = b with A tridiagonal, strictly diagonally
 *  dominant (rows: hn_{i-1}, 2(hn_{i-1}+hn_i), hn_i with hn = 1/h).  Thomas
 *  elimination on such a matrix is componentwise backward stable:
 *  (A+dA) d^ = b+db, |dA| <= 12u|A|, |db| <= 8u*beta (beta_i = sum of the
 *  absolute values of the right-hand-side terms).  With the comparison
 *  matrix C(A) (an M-matrix, |A^-1| <= C^-1):
 *       |d^-d| <= u*w,   w = C^-1 (12|A||d| + 8 beta)            (slope error)
 *  On [x_i,x_i+1] (length h, S1 = |Dy|+|d_i|+|d_i+1|+w_i+w_i+1) the Hermite
 *  form gives  |df| <= k u (|y_i|+|y_i+1| + 5 h S1), |df'| <= k u 12 S1,
 *  |df''| <= k u 18 S1/h (sums of the magnitudes of the intermediate terms); k = KS below.  Integrals: sum over the touched pieces
 *  of h * (value bound), (32+pieces) u for the accumulation.
 *
 * Non-trivial: n >= 3 and a query strictly inside a non-first interval, or an
 * integral spanning >= 2 knots plus a tail.
 */
#include "verif.hxx"
#include "refmath.hxx"
#include <array>
#include <vector>
#include "TFEL/Math/CubicSpline.hxx"
#include "TFEL/Math/LinearInterpolation.hxx"

using ref::R;
using ref::Vec;

namespace {

  constexpr R KS = 1024;   // spline: factor on the derived first-order bound
  constexpr R KL = 1024;   // linear interpolation
  //! absolute floor (denormals of the tested type)
  template <typename T>
  constexpr R tinyOf() {
    return 1024 * static_cast<R>(std::numeric_limits<T>::min());
  }

  template <typename T>
  struct Table {
    std::vector<T> x, y;
    std::string xcls, ycls;
  };

  template <typename T>
  Table<T> genTable(verif::Case& c, const int nmin, const int nmax) {
    Table<T> t;
    int n = 1;
    switch (c.pick(6, "n_class")) {
      case 0: n = 1; break;
      case 1: n = 2; break;
      case 2: n = 3; break;
      case 3: n = static_cast<int>(c.integer(4, 10, "n")); break;
      case 4: n = static_cast<int>(c.integer(11, 50, "n")); break;
      default: n = static_cast<int>(c.integer(3, 8, "n")); break;
    }
    n = std::max(nmin, std::min(nmax, n));
    const bool isfloat = std::is_same_v<T, float>;
    const double xs = c.chance(1, 3, "unit_xscale") ? 1. : c.log10real(-3, 3, "xscale");
    double x0 = 0;
    switch (c.pick(4, "x0_class")) {
      case 0: x0 = 0; break;
      case 1: x0 = -xs * c.real(0, 3, "x0"); break;
      case 2: x0 = xs * c.real(0, isfloat ? 2 : 30, "x0"); break;
      default: x0 = -xs * c.real(0, isfloat ? 2 : 30, "x0"); break;
    }
    const auto xc = c.pick(4, "x_class");
    std::vector<double> h(n > 1 ? n - 1 : 0);
    switch (xc) {
      case 0:
        t.xcls = "x.uniform";
        for (auto& e : h) e = 1;
        break;
      case 1: {
        t.xcls = "x.geometric";
        // total spread of the interval lengths <= 1e4 (1e3 in float)
        const double smax = isfloat ? 3. : 4.;
        const double r = std::pow(10., c.real(-smax, smax, "logspread") / std::max(1, n - 2));
        double e = 1;
        for (auto& v : h) {
          v = e;
          e *= r;
        }
        break;
      }
      case 2:
        t.xcls = "x.clustered";
        for (auto& e : h) e = c.log10real(0, isfloat ? 3 : 4, "h");
        break;
      default:
        t.xcls = "x.integer_grid";
        for (auto& e : h) e = static_cast<double>(c.integer(1, 5, "h"));
        break;
    }
    // normalise so that the table length is ~ xs (integer grids keep integers)
    double L = 0;
    for (auto e : h) L += e;
    const double f = (xc == 3 || L == 0) ? 1. : xs / L;
    t.x.resize(n);
    R acc = static_cast<R>(xc == 3 ? std::floor(x0) : x0);
    t.x[0] = static_cast<T>(acc);
    for (int i = 1; i < n; ++i) {
      acc += static_cast<R>(h[i - 1] * f);
      t.x[i] = static_cast<T>(acc);
      if (!(t.x[i] > t.x[i - 1])) c.discard();
    }
    // values
    const double ys = c.chance(1, 3, "unit_yscale") ? 1. : c.log10real(-3, 3, "yscale");
    t.y.resize(n);
    switch (c.pick(4, "y_class")) {
      case 0:
        t.ycls = "y.random";
        for (auto& v : t.y) v = static_cast<T>(c.sreal(ys, "y"));
        break;
      case 1: {
        t.ycls = "y.cubic";
        const double a0 = c.sreal(ys, "a0"), a1 = c.sreal(ys, "a1"), a2 = c.sreal(ys, "a2"),
                     a3 = c.sreal(ys, "a3");
        const double xm = static_cast<double>(t.x[0]);
        const double len = n > 1 ? static_cast<double>(t.x[n - 1]) - xm : 1.;
        for (int i = 0; i < n; ++i) {
          const double s = (static_cast<double>(t.x[i]) - xm) / len;
          t.y[i] = static_cast<T>(a0 + s * (a1 + s * (a2 + s * a3)));
        }
        break;
      }
      case 2: {
        t.ycls = "y.constant";
        const T v = static_cast<T>(c.sreal(ys, "y"));
        for (auto& e : t.y) e = v;
        break;
      }
      default:
        t.ycls = "y.small_integers";
        for (auto& v : t.y) v = static_cast<T>(c.integer(-3, 3, "y"));
        break;
    }
    c.tag(t.xcls);
    c.tag(t.ycls);
    c.tag(n == 1 ? "n.1" : (n == 2 ? "n.2" : (n <= 10 ? "n.3-10" : "n.11-50")));
    return t;
  }

  //! solve a tridiagonal system (lo, di, up) z = r by Thomas elimination in long double
  Vec thomas(const Vec& lo, Vec di, const Vec& up, Vec r) {
    const auto n = di.size();
    for (std::size_t i = 1; i < n; ++i) {
      const R m = lo[i] / di[i - 1];
      di[i] -= m * up[i - 1];
      r[i] -= m * r[i - 1];
    }
    Vec z(n);
    z[n - 1] = r[n - 1] / di[n - 1];
    for (std::size_t i = n - 1; i-- > 0;) z[i] = (r[i] - up[i] * z[i + 1]) / di[i];
    return z;
  }

  //! independent natural cubic spline (moment form) + error weights of the tested slope form
  struct RefSpline {
    int n = 0;
    Vec x, y, M, d, w;
    template <typename T>
    RefSpline(verif::Case& c, const Table<T>& t) {
      n = static_cast<int>(t.x.size());
      x.assign(t.x.begin(), t.x.end());
      y.assign(t.y.begin(), t.y.end());
      M.assign(n, 0);
      d.assign(n, 0);
      w.assign(n, 0);
      if (n == 1) return;
      if (n > 2) {
        Vec A(static_cast<std::size_t>(n) * n, 0), b(n, 0), sol;
        A[0] = 1;
        A[static_cast<std::size_t>(n) * n - 1] = 1;
        for (int i = 1; i + 1 < n; ++i) {
          const R h0 = x[i] - x[i - 1], h1 = x[i + 1] - x[i];
          A[i * n + i - 1] = h0;
          A[i * n + i] = 2 * (h0 + h1);
          A[i * n + i + 1] = h1;
          b[i] = 6 * ((y[i + 1] - y[i]) / h1 - (y[i] - y[i - 1]) / h0);
        }
        if (!ref::solve(n, A, b, sol)) c.discard();
        M = sol;
        M[0] = 0;
        M[n - 1] = 0;
      }
      for (int i = 0; i + 1 < n; ++i) {
        R f, df, d2f;
        local(i, x[i], f, df, d2f);
        d[i] = df;
      }
      {
        R f, df, d2f;
        local(n - 2, x[n - 1], f, df, d2f);
        d[n - 1] = df;
      }
      // error weights of the slope system
      Vec lo(n, 0), di(n, 0), up(n, 0), rhs(n, 0);
      for (int i = 0; i < n; ++i) {
        const R hp = i > 0 ? 1 / (x[i] - x[i - 1]) : 0;
        const R hn = i + 1 < n ? 1 / (x[i + 1] - x[i]) : 0;
        lo[i] = -hp;
        up[i] = -hn;
        di[i] = 2 * (hp + hn);
        R ad = 2 * (hp + hn) * std::fabs(d[i]);
        if (i > 0) ad += hp * std::fabs(d[i - 1]);
        if (i + 1 < n) ad += hn * std::fabs(d[i + 1]);
        R beta = 0;
        if (i > 0) beta += 3 * hp * hp * std::fabs(y[i] - y[i - 1]);
        if (i + 1 < n) beta += 3 * hn * hn * std::fabs(y[i + 1] - y[i]);
        rhs[i] = 12 * ad + 8 * beta;
      }
      w = thomas(lo, di, up, rhs);
    }
    //! value and derivatives of the cubic of interval i at xx (no range check)
    void local(const int i, const R xx, R& f, R& df, R& d2f) const {
      const R h = x[i + 1] - x[i];
      const R a = x[i + 1] - xx, b = xx - x[i];
      const R ca = y[i] / h - M[i] * h / 6, cb = y[i + 1] / h - M[i + 1] * h / 6;
      f = M[i] * a * a * a / (6 * h) + M[i + 1] * b * b * b / (6 * h) + ca * a + cb * b;
      // (cb - ca) written without the cancellation y[i+1]/h - y[i]/h
      df = -M[i] * a * a / (2 * h) + M[i + 1] * b * b / (2 * h) + (y[i + 1] - y[i]) / h -
           (M[i + 1] - M[i]) * h / 6;
      d2f = M[i] * a / h + M[i + 1] * b / h;
    }
    //! integral of the cubic of interval i between p and q
    R localIntegral(const int i, const R p, const R q) const {
      const R h = x[i + 1] - x[i];
      const R ca = y[i] / h - M[i] * h / 6, cb = y[i + 1] / h - M[i + 1] * h / 6;
      auto F = [&](const R xx) {
        const R a = x[i + 1] - xx, b = xx - x[i];
        return -M[i] * a * a * a * a / (24 * h) + M[i + 1] * b * b * b * b / (24 * h) -
               ca * a * a / 2 + cb * b * b / 2;
      };
      return F(q) - F(p);
    }
    //! interval index such that x[i] <= xx <= x[i+1] (left one at interior nodes)
    int interval(const R xx) const {
      int i = 0;
      while (i + 2 < n && xx > x[i + 1]) ++i;
      return i;
    }
    //! bound pieces of interval i
    R S1(const int i) const {
      const R h = x[i + 1] - x[i];
      return std::fabs((y[i + 1] - y[i]) / h) + std::fabs(d[i]) + std::fabs(d[i + 1]) + w[i] + w[i + 1];
    }
    R valueBound(const int i) const {
      const R h = x[i + 1] - x[i];
      return std::fabs(y[i]) + std::fabs(y[i + 1]) + 5 * h * S1(i);
    }
    /*!
     * reference value/derivatives of the linearly extrapolated spline and the
     * first-order bounds (to be multiplied by k*u) for the tested evaluation.
     */
    void eval(const R xx, R& f, R& df, R& d2f, R& bf, R& bdf, R& bd2f) const {
      if (n == 1) {
        f = y[0];
        df = d2f = 0;
        bf = std::fabs(y[0]);
        bdf = bd2f = 0;
        return;
      }
      if (xx < x[0] || xx > x[n - 1]) {
        const int e = xx < x[0] ? 0 : n - 1;
        f = y[e] + (xx - x[e]) * d[e];
        df = d[e];
        d2f = 0;
        bf = std::fabs(y[e]) + std::fabs(xx - x[e]) * (std::fabs(d[e]) + w[e]);
        bdf = std::fabs(d[e]) + w[e];
        bd2f = 0;
        return;
      }
      const int i = interval(xx);
      local(i, xx, f, df, d2f);
      auto bounds = [&](const int j, R& a, R& b, R& cc) {
        const R h = x[j + 1] - x[j];
        a = std::max(a, valueBound(j));
        b = std::max(b, 12 * S1(j));
        cc = std::max(cc, 18 * S1(j) / h);
      };
      bf = bdf = bd2f = 0;
      bounds(i, bf, bdf, bd2f);
      // at a node the tested code may use either adjacent interval
      if (xx == x[i] && i > 0) bounds(i - 1, bf, bdf, bd2f);
      if (xx == x[i + 1] && i + 2 < n) bounds(i + 1, bf, bdf, bd2f);
    }
    //! integral of the extrapolated spline on [a,b], a <= b, and its bound (x k u)
    void integral(const R a, const R b, R& I, R& bound, int& knots, bool& tail) const {
      I = 0;
      bound = 0;
      knots = 0;
      tail = false;
      if (n == 1) {
        I = y[0] * (b - a);
        bound = std::fabs(I);
        return;
      }
      int pieces = 0;
      auto tailPart = [&](const int e, const R p, const R q) {  // p<=q on the same side of x[e]
        const R dp = p - x[e], dq = q - x[e];
        I += y[e] * (q - p) + d[e] * (dq * dq - dp * dp) / 2;
        bound += std::fabs(y[e]) * (q - p) + (std::fabs(d[e]) + w[e]) * (dq * dq + dp * dp);
        ++pieces;
        tail = tail || q > p;
      };
      if (a < x[0]) tailPart(0, a, std::min(b, x[0]));
      if (b > x[n - 1]) tailPart(n - 1, std::max(a, x[n - 1]), b);
      for (int i = 0; i + 1 < n; ++i) {
        const R p = std::max(a, x[i]), q = std::min(b, x[i + 1]);
        if (!(p <= q)) continue;
        if (p == q && !(a == b)) continue;
        I += localIntegral(i, p, q);
        bound += (x[i + 1] - x[i]) * valueBound(i);
        ++pieces;
      }
      for (int i = 0; i < n; ++i)
        if (a <= x[i] && x[i] <= b) ++knots;
      bound *= (32 + pieces) / R(32);
    }
  };

  template <typename T>
  R U() {
    return std::numeric_limits<T>::epsilon();
  }

  //! a query abscissa; returns the class in `cls`
  template <typename T>
  T genQuery(verif::Case& c, const Table<T>& t, bool& inside_nonfirst) {
    const int n = static_cast<int>(t.x.size());
    const R x0 = t.x[0], xn = t.x[n - 1];
    const R L = n > 1 ? xn - x0 : std::max<R>(1, std::fabs(x0));
    inside_nonfirst = false;
    T q = t.x[0];
    switch (c.pick(8, "q_class")) {
      case 0: {  // a node
        c.tag("q.node");
        q = t.x[c.pick(n, "node")];
        break;
      }
      case 1: {  // an end node
        c.tag("q.end_node");
        q = c.boolean("last") ? t.x[n - 1] : t.x[0];
        break;
      }
      case 2: {  // midpoint
        c.tag("q.midpoint");
        if (n == 1) break;
        const auto i = c.pick(n - 1, "interval");
        q = static_cast<T>((static_cast<R>(t.x[i]) + static_cast<R>(t.x[i + 1])) / 2);
        break;
      }
      case 3: {  // one ulp beside a node
        c.tag("q.node_ulp");
        const auto i = c.pick(n, "node");
        q = std::nextafter(t.x[i], c.boolean("up") ? std::numeric_limits<T>::infinity()
                                                   : -std::numeric_limits<T>::infinity());
        break;
      }
      case 4: {  // below
        c.tag("q.below");
        q = static_cast<T>(x0 - L * c.log10real(-3, 1, "dist"));
        break;
      }
      case 5: {  // above
        c.tag("q.above");
        q = static_cast<T>(xn + L * c.log10real(-3, 1, "dist"));
        break;
      }
      default: {  // random inside
        c.tag("q.inside");
        if (n == 1) break;
        const auto i = c.pick(n - 1, "interval");
        const R s = c.real(0, 1, "s");
        q = static_cast<T>(static_cast<R>(t.x[i]) + s * (static_cast<R>(t.x[i + 1]) - t.x[i]));
        break;
      }
    }
    if (n >= 3 && q > t.x[1] && q < t.x[n - 1]) {
      bool node = false;
      for (auto v : t.x) node = node || v == q;
      inside_nonfirst = !node;
    }
    return q;
  }

  // ------------------------------------------------------------------ spline values
  template <typename T>
  void splineValues(verif::Case& c) {
    using namespace tfel::math;
    const auto t = genTable<T>(c, 1, 50);
    const int n = static_cast<int>(t.x.size());
    const RefSpline rs(c, t);
    const R u = U<T>();
    CubicSpline<T, T> s;
    if (c.boolean("iterators")) {
      s.setCollocationPoints(t.x.begin(), t.x.end(), t.y.begin());
    } else {
      s.setCollocationPoints(t.x, t.y);
    }
    const auto& pts = s.getCollocationPoints();
    c.check(static_cast<int>(pts.size()) == n, "C11.spline.points", "wrong number of collocation points");
    // slopes against the reference (through the documented accessor)
    for (int i = 0; i < n; ++i) {
      c.check(pts[i].x == t.x[i] && pts[i].y == t.y[i], "C11.spline.points", "collocation point altered");
      c.close(pts[i].d, rs.d[i], KS * u * (rs.w[i] + std::fabs(rs.d[i])) + tinyOf<T>(), "C11.spline.slope",
              "slope at node " + std::to_string(i) + "/" + std::to_string(n));
    }
    // node reproduction (every node, every entry point)
    for (int i = 0; i < n; ++i) {
      R f, df, d2f, bf, bdf, bd2f;
      rs.eval(rs.x[i], f, df, d2f, bf, bdf, bd2f);
      const R tol = KS * u * bf + tinyOf<T>();
      const std::string w = "node " + std::to_string(i) + "/" + std::to_string(n);
      c.close(s.getValue(t.x[i]), rs.y[i], tol, "C11.spline.node", "getValue at " + w);
      c.close(s(t.x[i]), rs.y[i], tol, "C11.spline.node", "operator() at " + w);
      c.close(computeCubicSplineInterpolation<true>(pts, t.x[i]), rs.y[i], tol, "C11.spline.node",
              "computeCubicSplineInterpolation<true> at " + w);
      c.close(computeCubicSplineInterpolation<false>(pts, t.x[i]), rs.y[i], tol, "C11.spline.node",
              "computeCubicSplineInterpolation<false> at " + w);
    }
    // natural end conditions: second derivative at x0+ (one ulp inside) and at xn
    if (n >= 2) {
      T f, df, d2f;
      R rf, rdf, rd2f, bf, bdf, bd2f;
      const T xa = std::nextafter(t.x[0], std::numeric_limits<T>::infinity());
      if (xa < t.x[1]) {
        s.getValues(f, df, d2f, xa);
        rs.eval(xa, rf, rdf, rd2f, bf, bdf, bd2f);
        c.close(d2f, rd2f, KS * u * bd2f + tinyOf<T>(), "C11.spline.natural", "f'' just right of the first node");
      }
      s.getValues(f, df, d2f, t.x[n - 1]);
      rs.eval(rs.x[n - 1], rf, rdf, rd2f, bf, bdf, bd2f);
      c.close(d2f, 0, KS * u * bd2f + tinyOf<T>(), "C11.spline.natural", "f'' at the last node");
      s.getValues(f, df, d2f, t.x[0]);
      c.close(d2f, 0, KS * u * bd2f + tinyOf<T>(), "C11.spline.natural", "f'' at the first node");
    }
    // C2 continuity across an interior node (left value at the node, right value one ulp later)
    if (n >= 3) {
      const auto i = 1 + c.pick(n - 2, "cnode");
      const T xl = t.x[i], xr = std::nextafter(t.x[i], std::numeric_limits<T>::infinity());
      if (xr < t.x[i + 1]) {
        T fl, dfl, d2fl, fr, dfr, d2fr;
        s.getValues(fl, dfl, d2fl, xl);
        s.getValues(fr, dfr, d2fr, xr);
        R rf, rdf, rd2f, bf, bdf, bd2f, bf2, bdf2, bd2f2;
        rs.eval(xl, rf, rdf, rd2f, bf, bdf, bd2f);
        rs.eval(xr, rf, rdf, rd2f, bf2, bdf2, bd2f2);
        const R dx = static_cast<R>(xr) - xl;
        // jump allowed: rounding of both sides + variation of the exact function over one ulp
        c.close(fr, fl, KS * u * (bf + bf2) + dx * (std::fabs(rdf) + bdf) + tinyOf<T>(), "C11.spline.C0",
                "value jump at node " + std::to_string(i));
        c.close(dfr, dfl, KS * u * (bdf + bdf2) + dx * (std::fabs(rd2f) + bd2f) + tinyOf<T>(), "C11.spline.C1",
                "slope jump at node " + std::to_string(i));
        const R third = bd2f2 / std::max<R>(rs.x[i + 1] - rs.x[i], tinyOf<T>());
        c.close(d2fr, d2fl, 8 * KS * u * (bd2f + bd2f2) + dx * third + tinyOf<T>(), "C11.spline.C2",
                "curvature jump at node " + std::to_string(i));
      }
    }
    // queries
    bool nt = false;
    for (int rep = 0; rep < 4; ++rep) {
      bool inside;
      const T q = genQuery(c, t, inside);
      nt = nt || inside;
      R f, df, d2f, bf, bdf, bd2f;
      rs.eval(q, f, df, d2f, bf, bdf, bd2f);
      const R tf = KS * u * bf + tinyOf<T>(), tdf = KS * u * bdf + tinyOf<T>(), td2f = KS * u * bd2f + tinyOf<T>();
      const bool below = n > 1 && q < t.x[0], above = n > 1 && q > t.x[n - 1];
      const bool outside = below || above;
      const bool at_end = n > 1 && (q == t.x[0] || q == t.x[n - 1]);
      const std::string cls = outside ? ".outside" : ".inside";
      // class interface (always extrapolates linearly)
      c.close(s.getValue(q), f, tf, "C11.spline.value" + cls, "getValue");
      {
        T a, b;
        s.getValues(a, b, q);
        c.close(a, f, tf, "C11.spline.value" + cls, "getValues(f,df): f");
        c.close(b, df, tdf, "C11.spline.derivative" + cls, "getValues(f,df): df");
        T a2, b2, c2;
        s.getValues(a2, b2, c2, q);
        c.close(a2, f, tf, "C11.spline.value" + cls, "getValues(f,df,d2f): f");
        c.close(b2, df, tdf, "C11.spline.derivative" + cls, "getValues(f,df,d2f): df");
        // f'' jumps to 0 outside; exactly at an end node both 0 and the inner value are f''
        if (!at_end) c.close(c2, d2f, td2f, "C11.spline.second_derivative" + cls, "getValues: d2f");
      }
      // free functions (what mfront generates), extrapolation on
      c.close(computeCubicSplineInterpolation<true>(pts, q), f, tf, "C11.spline.value" + cls,
              "computeCubicSplineInterpolation<true>");
      {
        const auto [a, b] = computeCubicSplineInterpolationAndDerivative<true>(pts, q);
        c.close(a, f, tf, "C11.spline.value" + cls, "computeCubicSplineInterpolationAndDerivative<true>: f");
        c.close(b, df, tdf, "C11.spline.derivative" + cls,
                "computeCubicSplineInterpolationAndDerivative<true>: df");
      }
      // extrapolation off: clamp to the end value, zero derivative outside
      {
        const auto v = computeCubicSplineInterpolation<false>(pts, q);
        const auto [a, b] = computeCubicSplineInterpolationAndDerivative<false>(pts, q);
        if (outside) {
          const T ye = below ? t.y[0] : t.y[n - 1];
          c.check(v == ye, "C11.spline.clamp", "computeCubicSplineInterpolation<false> outside is not the end value");
          c.check(a == ye, "C11.spline.clamp",
                  "computeCubicSplineInterpolationAndDerivative<false> outside is not the end value");
          c.check(b == T(0), "C11.spline.clamp", "derivative of the clamped spline outside is not 0");
        } else {
          c.close(v, f, tf, "C11.spline.value.inside", "computeCubicSplineInterpolation<false>");
          c.close(a, f, tf, "C11.spline.value.inside", "computeCubicSplineInterpolationAndDerivative<false>: f");
          if (at_end) {
            // one-sided derivatives of the clamped function: 0 or the end slope
            const R e = std::min(std::fabs(static_cast<R>(b)), std::fabs(static_cast<R>(b) - df));
            c.check(e <= tdf, "C11.spline.derivative.inside",
                    "derivative of the clamped spline at an end node is neither 0 nor the end slope");
          } else {
            c.close(b, df, tdf, "C11.spline.derivative.inside",
                    "computeCubicSplineInterpolationAndDerivative<false>: df");
          }
        }
      }
    }
    // same free functions on a std::array (mfront emits constexpr std::array)
    if (n == 4) {
      using P = CubicSplineCollocationPoint<T, T>;
      std::array<P, 4> ap{pts[0], pts[1], pts[2], pts[3]};
      bool inside;
      const T q = genQuery(c, t, inside);
      c.check(computeCubicSplineInterpolation<true>(ap, q) == computeCubicSplineInterpolation<true>(pts, q),
              "C11.spline.container", "std::array and std::vector of points disagree");
    }
    c.nontrivial(nt);
  }

  // ------------------------------------------------------------------ spline integrals
  template <typename T>
  T genBound(verif::Case& c, const Table<T>& t, const char* nm) {
    const int n = static_cast<int>(t.x.size());
    const R x0 = t.x[0], xn = t.x[n - 1];
    const R L = n > 1 ? xn - x0 : std::max<R>(1, std::fabs(x0));
    switch (c.pick(5, nm)) {
      case 0: return t.x[c.pick(n, "node")];
      case 1: return static_cast<T>(x0 - L * c.real(0, 2, "dist"));
      case 2: return static_cast<T>(xn + L * c.real(0, 2, "dist"));
      default: return static_cast<T>(x0 + L * c.real(0, 1, "s"));
    }
  }

  template <typename T>
  void splineIntegrals(verif::Case& c) {
    using namespace tfel::math;
    const auto t = genTable<T>(c, 1, 50);
    const RefSpline rs(c, t);
    const R u = U<T>();
    CubicSpline<T, T> s;
    s.setCollocationPoints(t.x, t.y);
    T a = genBound(c, t, "a_class"), b = genBound(c, t, "b_class"), m = genBound(c, t, "m_class");
    auto refI = [&](const R p, const R q, R& I, R& bd, int& knots, bool& tail) {
      if (p <= q) {
        rs.integral(p, q, I, bd, knots, tail);
      } else {
        rs.integral(q, p, I, bd, knots, tail);
        I = -I;
      }
    };
    R I, bd;
    int knots;
    bool tail;
    refI(a, b, I, bd, knots, tail);
    c.nontrivial(knots >= 2 && tail);
    if (a > b) c.tag("I.reversed");
    if (tail) c.tag("I.tail");
    if (knots >= 2) c.tag("I.ge2knots");
    const T Iab = s.computeIntegral(a, b);
    c.close(Iab, I, KS * u * bd + tinyOf<T>(), "C11.integral.value", "computeIntegral(a,b)");
    // antisymmetry (exact: the implementation negates)
    const T Iba = s.computeIntegral(b, a);
    c.check(Iba == -Iab, "C11.integral.antisymmetry", "computeIntegral(b,a) != -computeIntegral(a,b)");
    // additivity through any third point
    {
      R I1, b1, I2, b2;
      int k;
      bool tl;
      refI(a, m, I1, b1, k, tl);
      refI(m, b, I2, b2, k, tl);
      const T Iam = s.computeIntegral(a, m), Imb = s.computeIntegral(m, b);
      c.close(static_cast<R>(Iam) + static_cast<R>(Imb), Iab, KS * u * (bd + b1 + b2) + tinyOf<T>(),
              "C11.integral.additivity", "I(a,m)+I(m,b) vs I(a,b)");
    }
    // mean value
    if (a != b) {
      const R len = static_cast<R>(b) - static_cast<R>(a);
      c.close(s.computeMeanValue(a, b), I / len, KS * u * (bd / std::fabs(len) + std::fabs(I / len)) + tinyOf<T>(),
              "C11.integral.mean", "computeMeanValue(a,b)");
    }
  }

  // ------------------------------------------------------------------ linear interpolation
  template <typename T, typename XC, typename YC>
  void linearQueries(verif::Case& c, const Table<T>& t, const XC& xs, const YC& ys) {
    using namespace tfel::math;
    const int n = static_cast<int>(t.x.size());
    const R u = U<T>();
    auto slope = [&](const int i) {
      return (static_cast<R>(t.y[i + 1]) - t.y[i]) / (static_cast<R>(t.x[i + 1]) - t.x[i]);
    };
    auto line = [&](const int i, const R q) { return static_cast<R>(t.y[i]) + slope(i) * (q - t.x[i]); };
    auto bound = [&](const int i, const R q) {
      return std::fabs(static_cast<R>(t.y[i])) + std::fabs(slope(i) * (q - t.x[i]));
    };
    // node reproduction
    for (int i = 0; i < n; ++i) {
      const R tol = KL * u * (n > 1 ? std::max(bound(std::max(0, i - 1), t.x[i]), bound(std::min(i, n - 2), t.x[i]))
                                    : std::fabs(static_cast<R>(t.y[0]))) +
                    tinyOf<T>();
      c.close(computeLinearInterpolation<true>(xs, ys, t.x[i]), t.y[i], tol, "C11.linear.node",
              "computeLinearInterpolation<true> at node " + std::to_string(i));
      c.close(computeLinearInterpolation<false>(xs, ys, t.x[i]), t.y[i], tol, "C11.linear.node",
              "computeLinearInterpolation<false> at node " + std::to_string(i));
    }
    bool nt = false;
    for (int rep = 0; rep < 5; ++rep) {
      bool inside;
      const T q = genQuery(c, t, inside);
      nt = nt || inside;
      const auto ve = computeLinearInterpolation<true>(xs, ys, q);
      const auto vc = computeLinearInterpolation<false>(xs, ys, q);
      const auto [fe, de] = computeLinearInterpolationAndDerivative<true>(xs, ys, q);
      const auto [fc, dc] = computeLinearInterpolationAndDerivative<false>(xs, ys, q);
      c.check(fe == ve && fc == vc, "C11.linear.consistency",
              "computeLinearInterpolation and ...AndDerivative return different values");
      if (n == 1) {
        c.check(ve == t.y[0] && vc == t.y[0] && de == T(0) && dc == T(0), "C11.linear.single_point",
                "single point table is not the constant function");
        continue;
      }
      const bool below = q < t.x[0], above = q > t.x[n - 1];
      // segment(s) containing q
      int i = 0;
      while (i + 2 < n && static_cast<R>(q) > t.x[i + 1]) ++i;
      if (below) i = 0;
      if (above) i = n - 2;
      const bool node_hi = (q == t.x[i + 1]) && (i + 2 < n);  // interior node: two segments
      const R tol = KL * u * std::max(bound(i, q), node_hi ? bound(i + 1, q) : R(0)) + tinyOf<T>();
      const R tols = KL * u * std::max(std::fabs(slope(i)), node_hi ? std::fabs(slope(i + 1)) : R(0)) + tinyOf<T>();
      // extrapolation on: the end segments are prolonged
      c.close(ve, line(i, q), tol, below || above ? "C11.linear.value.outside" : "C11.linear.value.inside",
              "computeLinearInterpolation<true>");
      {
        R e = std::fabs(static_cast<R>(de) - slope(i));
        if (node_hi) e = std::min(e, std::fabs(static_cast<R>(de) - slope(i + 1)));
        c.err("C11.linear.derivative", static_cast<double>(e / tols));
        c.check(e <= tols, "C11.linear.derivative", "derivative<true> is not the slope of a segment containing the point");
      }
      // extrapolation off: clamp
      if (below || above) {
        const T ye = below ? t.y[0] : t.y[n - 1];
        c.check(vc == ye, "C11.linear.clamp", "computeLinearInterpolation<false> outside is not the end value");
        c.check(dc == T(0), "C11.linear.clamp", "derivative of the clamped interpolant outside is not 0");
      } else {
        c.close(vc, line(i, q), tol, "C11.linear.value.inside", "computeLinearInterpolation<false>");
        R e = std::fabs(static_cast<R>(dc) - slope(i));
        if (node_hi) e = std::min(e, std::fabs(static_cast<R>(dc) - slope(i + 1)));
        // at the end nodes the clamped function has the one-sided derivative 0
        if (q == t.x[0] || q == t.x[n - 1]) e = std::min(e, std::fabs(static_cast<R>(dc)));
        c.check(e <= tols, "C11.linear.derivative", "derivative<false> is not a one-sided derivative of the interpolant");
      }
    }
    c.nontrivial(nt);
  }

  template <typename T>
  void linear(verif::Case& c) {
    const auto t = genTable<T>(c, 1, 50);
    if (t.x.size() == 4 && c.boolean("std_array")) {
      std::array<T, 4> xs{t.x[0], t.x[1], t.x[2], t.x[3]}, ys{t.y[0], t.y[1], t.y[2], t.y[3]};
      c.tag("container.std_array");
      linearQueries<T>(c, t, xs, ys);
    } else {
      linearQueries<T>(c, t, t.x, t.y);
    }
  }

}  // namespace

VERIF_SUB(spline_values_double) { splineValues<double>(c); }
VERIF_SUB_W(spline_values_float, 0.4) { splineValues<float>(c); }
VERIF_SUB(spline_integrals_double) { splineIntegrals<double>(c); }
VERIF_SUB_W(spline_integrals_float, 0.3) { splineIntegrals<float>(c); }
VERIF_SUB(linear_double) { linear<double>(c); }
VERIF_SUB_W(linear_float, 0.4) { linear<float>(c); }

VERIF_MAIN("C11_interp")
