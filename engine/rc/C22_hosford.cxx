/*!
 * C22 - equivalent-stress criteria, unit "hosford": Hosford 1972 (and its reduction to
 * von Mises for a = 2).
 * See C22_common.hxx for the oracle and the tolerances.
 */
#include "C22_common.hxx"
#include "TFEL/Material/Hosford1972YieldCriterion.hxx"

using namespace c22;

namespace {

  // ------------------------------------------------------------------ Mises
  //! the expressions MFront generates for the Mises criterion (MisesStressCriterion.cxx)
  struct Mises {
    template <unsigned short N>
    double value(const S2<N>& s, double) const {
      return tfel::math::sigmaeq(s);
    }
    template <unsigned short N>
    std::pair<double, S2<N>> normal(const S2<N>& s, double seps) const {
      const double seq = tfel::math::sigmaeq(s);
      const double iseq = 1 / std::max(seq, seps);
      const S2<N> n = 3 * tfel::math::deviator(s) * (iseq / 2);
      return {seq, n};
    }
    template <unsigned short N>
    std::tuple<double, S2<N>, S4<N>> second(const S2<N>& s, double seps) const {
      const double seq = tfel::math::sigmaeq(s);
      const double iseq = 1 / std::max(seq, seps);
      const S2<N> n = 3 * tfel::math::deviator(s) * (iseq / 2);
      const S4<N> dn = (S4<N>::M() - (n ^ n)) * iseq;
      return {seq, n, dn};
    }
    R ref(const M3& s) const { return ref::vonMises(s); }
  };

  // ---------------------------------------------------------------- Hosford
  template <typename Exponent>
  struct Hosford {
    Exponent a;
    template <unsigned short N>
    double value(const S2<N>& s, double seps) const {
      return tfel::material::computeHosfordStress(s, a, seps);
    }
    template <unsigned short N>
    std::pair<double, S2<N>> normal(const S2<N>& s, double seps) const {
      const auto r = tfel::material::computeHosfordStressNormal(s, a, seps);
      return {std::get<0>(r), S2<N>(std::get<1>(r))};
    }
    template <unsigned short N>
    std::tuple<double, S2<N>, S4<N>> second(const S2<N>& s, double seps) const {
      const auto r = tfel::material::computeHosfordStressSecondDerivative(s, a, seps);
      return {std::get<0>(r), S2<N>(std::get<1>(r)), S4<N>(std::get<2>(r))};
    }
    //! docs/web/tfel-material.md: (1/2 (|s1-s2|^a+|s1-s3|^a+|s2-s3|^a))^(1/a)
    R ref(const M3& s) const {
      R vp[3];
      M3 V;
      ref::jacobi(s, vp, V);
      const R d[3] = {std::fabs(vp[0] - vp[1]), std::fabs(vp[0] - vp[2]),
                      std::fabs(vp[1] - vp[2])};
      const R m = std::max({d[0], d[1], d[2]});
      if (m == 0) return 0;
      const R e = static_cast<R>(a);
      R sum = 0;
      for (const R x : d) sum += x > 0 ? std::pow(x / m, e) : R(0);
      return m * std::pow(sum / 2, 1 / e);
    }
  };

  template <unsigned short N>
  void hosford(verif::Case& c) {
    // exponent classes: usual even integers, integer type, real
    const auto k = c.integer(0, 9, "a_class");
    const bool integerType = (k == 0 || k == 1);
    double a = 2;
    if (k <= 5) {
      static const int A[6] = {2, 6, 2, 4, 8, 12};
      a = A[k];
    } else {
      a = c.real(1.5, 20., "a");
    }
    // for a < 2 the criterion is not twice differentiable where two principal
    // stresses coincide (|x|^(a-2) is singular): outside the domain
    // and for 2 < a < 3 the second derivative is only Hoelder continuous there with
    // exponent a-2 (no converged finite difference for a -> 2+): two equal principal
    // stresses are generated for a == 2 or a >= 3 only
    const auto st = genStress<N>(c, /*allowTwoEqual=*/a == 2 || a >= 3);
    Options o;
    o.name = "hosford";
    o.amp = a;
    c.tag(a == 2 ? "hosford.a2" : (a < 2 ? "hosford.a_lt_2" : "hosford.a_gt_2"));
    {
      // which branch of the second derivative is taken (same solver, same test)
      const auto vp = toS<N>(st.sig).computeEigenValues();
      const double e = static_cast<double>(st.seps);
      const bool e01 = std::fabs(vp[0] - vp[1]) < e, e02 = std::fabs(vp[0] - vp[2]) < e,
                 e12 = std::fabs(vp[1] - vp[2]) < e;
      if (N == 3) {
        c.tag(e01 && e02 ? "hosford.branch.all_equal"
                         : (e01 ? "hosford.branch.01" : (e02 ? "hosford.branch.02" : (e12 ? "hosford.branch.12" : "hosford.branch.distinct"))));
      } else if (N == 2) {
        c.tag(e01 ? "hosford.branch.01" : "hosford.branch.distinct");
      }
    }
    if (integerType) {
      checkAll<N>(c, Hosford<int>{static_cast<int>(a)}, st, o);
    } else {
      checkAll<N>(c, Hosford<double>{a}, st, o);
    }
    if (a == 2) {
      // Hosford(a=2) == von Mises (docs/web/tfel-material.md)
      const auto s = toS<N>(st.sig);
      const double seps = static_cast<double>(st.seps);
      const auto h = Hosford<double>{2.}.template second<N>(s, seps);
      const auto m = Mises{}.template second<N>(s, seps);
      c.close(std::get<0>(h), std::get<0>(m), 512 * st.Eeig() * st.vm, "C22.hosford.a2_is_mises",
              "Hosford(a=2) vs sigmaeq");
      closeM(c, toM<N>(std::get<1>(h)), toM<N>(std::get<1>(m)), 512 * st.En(true),
             "C22.hosford.a2_is_mises", "normal of Hosford(a=2) vs 3/2 dev(s)/seq", N);
      constexpr int n = N == 1 ? 3 : (N == 2 ? 4 : 6);
      const R t = 512 * st.En(true) / std::min(R(1), st.gap) / st.vm;
      for (int i = 0; i < n; ++i)
        for (int j = 0; j < n; ++j)
          c.close(std::get<2>(h)(i, j), std::get<2>(m)(i, j), t, "C22.hosford.a2_is_mises_second",
                  "second derivative of Hosford(a=2) vs (M - n^n)/seq");
    }
  }

}  // namespace

VERIF_SUB_W(hosford_1d, 0.25) { hosford<1u>(c); }
VERIF_SUB_W(hosford_2d, 0.5) { hosford<2u>(c); }
VERIF_SUB(hosford_3d) { hosford<3u>(c); }

VERIF_MAIN("C22_hosford")
