/*!
 * C02 (unit "t2tot2") - fourth order tensors mapping non symmetric tensors to
 * non symmetric tensors match their index-notation meaning.
 * Oracle: every t2tot2 is expanded to a 3x3x3x3 array through the tensor basis
 * (11 22 33 12 21 13 31 23 32) of refmath.hxx and compared with the index
 * formula evaluated in long double.
 * Non-trivial: N=3, or N=2 with non-zero (1,2) != (2,1) components in the
 * second order operand (for pure fourth order operations: N >= 2, non-zero).
 */
#include "C02_common.hxx"
#include "TFEL/Math/stensor.hxx"
#include "TFEL/Math/tensor.hxx"
#include "TFEL/Math/t2tot2.hxx"

using namespace tfel::math;

namespace {

  constexpr bool NS = false;

  template <unsigned short N, typename T>
  void projectors(verif::Case& c) {
    using TT = tensor<N, T>;
    using C4 = t2tot2<N, T>;
    const double sc = gen::scale(c, std::is_same_v<T, float> ? 10 : 30);
    const TT a = gen::toTensor<TT>(gen::dense(c, N, sc));
    const M3 A = gen::tensorToM3(a);
    c.nontrivial(nonsym(A, N));
    const R u = U<T>(), tiny = tinyOf<T>();
    const R nA = ref::norm(A);
    const T4 I4 = ref::Id4(), II = ref::IxI();
    const T4 K = I4 - R(1) / 3 * II;
    // docs/web/tensors.md "Special values of the t2tot2 class"
    f4::cmp(c, C4::Id(), I4, N, NS, NS, 0, "C02.t2tot2.Id", "Id");
    f4::cmp(c, C4::IxI(), II, N, NS, NS, 0, "C02.t2tot2.IxI", "IxI");
    f4::cmp(c, C4::K(), K, N, NS, NS, 32 * u, "C02.t2tot2.K", "K");
    f4::cmp(c, C4::transpose_derivative(), ref::Tr4(), N, NS, NS, 0,
            "C02.t2tot2.transpose_derivative", "transpose_derivative");
    const R tol = 512 * u * nA + tiny;
    cmpT(c, TT(C4::Id() * a), A, tol, "C02.t2tot2.Id", "Id:a = a");
    cmpT(c, TT(C4::IxI() * a), ref::trace(A) * M3::Id(), tol, "C02.t2tot2.IxI",
         "IxI:a = tr(a) I");
    cmpT(c, TT(C4::K() * a), ref::dev(A), tol, "C02.t2tot2.K", "K:a = dev(a)");
    cmpT(c, TT(C4::transpose_derivative() * a), ref::transpose(A), tol,
         "C02.t2tot2.transpose_derivative", "transpose_derivative:a = a^T");
  }

  template <unsigned short N, typename T>
  void products(verif::Case& c) {
    using TT = tensor<N, T>;
    using C4 = t2tot2<N, T>;
    const int kmax = std::is_same_v<T, float> ? 8 : 30;
    const double sc = gen::scale(c, kmax), sd = gen::scale(c, kmax, "scale2");
    const C4 C = f4::fromT4<C4>(f4::gen(c, N, NS, NS, sc), N, NS, NS);
    const C4 D = f4::fromT4<C4>(f4::gen(c, N, NS, NS, sc), N, NS, NS);
    const TT a = gen::toTensor<TT>(gen::dense(c, N, sd));
    const TT b = gen::toTensor<TT>(gen::dense(c, N, sd));
    const T4 Cr = f4::toT4(C, N, NS, NS), Dr = f4::toT4(D, N, NS, NS);
    const M3 A = gen::tensorToM3(a), B = gen::tensorToM3(b);
    const R u = U<T>(), tiny = tinyOf<T>();
    const R nC = ref::norm(Cr), nD = ref::norm(Dr), nA = ref::norm(A), nB = ref::norm(B);
    c.nontrivial(N >= 2 && nC > 0 && (nonsym(A, N) || nD > 0));
    // (C:a)_ij = C_ijkl a_kl
    cmpT(c, TT(C * a), ref::ddot(Cr, A), 256 * u * nC * nA + tiny, "C02.t2tot2.apply", "C*a");
    // (a:C)_kl = a_ij C_ijkl
    cmpT(c, TT(a * C), ref::ddot(A, Cr), 256 * u * nC * nA + tiny, "C02.t2tot2.apply_left",
         "a*C");
    cmpT(c, TT(a | C), ref::ddot(A, Cr), 256 * u * nC * nA + tiny, "C02.t2tot2.apply_left",
         "a|C");
    // (C:D)_ijkl = C_ijmn D_mnkl
    f4::cmp(c, C4(C * D), ref::ddot(Cr, Dr), N, NS, NS, 256 * u * nC * nD + tiny,
            "C02.t2tot2.product", "C*D");
    // dyadic product (a^b)_ijkl = a_ij b_kl
    f4::cmp(c, C4(a ^ b), ref::otimes(A, B), N, NS, NS, 128 * u * nA * nB + tiny,
            "C02.t2tot2.dyadic", "a^b");
    // linear combinations
    f4::cmp(c, C4(C + D), Cr + Dr, N, NS, NS, 128 * u * (nC + nD) + tiny, "C02.t2tot2.lincomb",
            "C+D");
    f4::cmp(c, C4(2 * C - D), R(2) * Cr - Dr, N, NS, NS, 128 * u * (2 * nC + nD) + tiny,
            "C02.t2tot2.lincomb", "2C-D");
    f4::cmp(c, C4(-C), R(-1) * Cr, N, NS, NS, 0, "C02.t2tot2.lincomb", "-C");
    // transposition operator composed: (T:C:T) a = (C a^T)^T
    const C4 Tt = C4::transpose_derivative();
    f4::cmp(c, C4(Tt * C), ref::ddot(ref::Tr4(), Cr), N, NS, NS, 128 * u * nC + tiny,
            "C02.t2tot2.transpose_derivative", "transpose_derivative*C");
  }

  template <unsigned short N, typename T>
  void basis(verif::Case& c) {
    using TT = tensor<N, T>;
    using C4 = t2tot2<N, T>;
    const double sc = gen::scale(c, std::is_same_v<T, float> ? 8 : 30);
    const C4 C = f4::fromT4<C4>(f4::gen(c, N, NS, NS, sc), N, NS, NS);
    const T4 Cr = f4::toT4(C, N, NS, NS);
    const auto r = gen::toRotationMatrix<rotation_matrix<T>>(gen::rot(c, N));
    const M3 Rm = gen::rotationMatrixToM3(r);
    const R u = U<T>(), tiny = tinyOf<T>();
    const R nC = ref::norm(Cr);
    c.nontrivial(N >= 2 && nC > 0 && gen::misalignment(Rm) > 1e-3);
    // C'_ijkl = r_mi r_nj r_pk r_ql C_mnpq
    const T4 E = ref::rotate(Cr, ref::transpose(Rm));
    f4::cmp(c, C4(change_basis(C, r)), E, N, NS, NS, 512 * u * nC + tiny,
            "C02.t2tot2.change_basis", "change_basis(C,r)");
    // the rotation operator: Rot_ijkl a_kl = (r^T a r)_ij  (docs: "same effect
    // on a tensor than applying a given rotation", i.e. change_basis(a,r))
    T4 Rot;
    REF_FOR4 Rot(i, j, k, l) = Rm(k, i) * Rm(l, j);
    f4::cmp(c, C4(C4::fromRotationMatrix(r)), Rot, N, NS, NS, 256 * u,
            "C02.t2tot2.fromRotationMatrix", "fromRotationMatrix(r)");
    const TT a = gen::toTensor<TT>(gen::dense(c, N, 1.));
    const M3 A = gen::tensorToM3(a);
    cmpT(c, TT(C4::fromRotationMatrix(r) * a), ref::transpose(Rm) * A * Rm,
         512 * u * ref::norm(A) + tiny, "C02.t2tot2.fromRotationMatrix",
         "fromRotationMatrix(r)*a = r^T a r");
    cmpT(c, TT(C4::fromRotationMatrix(r) * a), gen::tensorToM3(TT(change_basis(a, r))),
         256 * u * ref::norm(A) + tiny, "C02.t2tot2.fromRotationMatrix",
         "fromRotationMatrix(r)*a = change_basis(a,r)");
    // coherence with the second order change of basis
    const TT lhs = C4(change_basis(C, r)) * TT(change_basis(a, r));
    cmpT(c, lhs, ref::transpose(Rm) * ref::ddot(Cr, A) * Rm, 1024 * u * nC * ref::norm(A) + tiny,
         "C02.t2tot2.change_basis", "change_basis(C,r)*change_basis(a,r) = change_basis(C*a,r)");
  }

  /*!
   * det(t2tot2) (T2toT2Concept.hxx: "the determinant of a t2tot2") = determinant
   * of the matrix of the linear map in the (orthonormal) tensor basis.  Same LU
   * code path as det(st2tost2): classes forcing row exchanges are generated.
   */
  template <unsigned short N, typename T>
  void determinant(verif::Case& c) {
    using C4 = t2tot2<N, T>;
    const int n = f4::dimOf(N, NS);
    const bool flt = std::is_same_v<T, float>;
    const double sc = gen::scale(c, flt ? 3 : 15);
    const ref::Vec g = pivotMatrix(c, n);
    C4 C;
    for (int I = 0; I < n; ++I)
      for (int J = 0; J < n; ++J)
        C(I, J) = static_cast<T>(R(sc) * g[static_cast<std::size_t>(I * n + J)]);
    ref::Vec m(static_cast<std::size_t>(n * n));
    for (int I = 0; I < n; ++I)
      for (int J = 0; J < n; ++J) m[static_cast<std::size_t>(I * n + J)] = C(I, J);
    const bool exch = N >= 2 && luExchangesRows(n, m, U<T>());
    c.tag(exch ? "pivot.row_exchange" : "pivot.no_row_exchange");
    c.nontrivial(N >= 2);
    const R u = U<T>();
    const R d = ref::detN(n, m);
    R bound = 1;  // Hadamard bound: product of the row norms
    for (int I = 0; I < n; ++I) {
      R rn = 0;
      for (int J = 0; J < n; ++J)
        rn += m[static_cast<std::size_t>(I * n + J)] * m[static_cast<std::size_t>(I * n + J)];
      bound *= std::sqrt(rn);
    }
    if (!(bound < static_cast<R>(std::numeric_limits<T>::max()) * 1e-3L &&
          bound > static_cast<R>(std::numeric_limits<T>::min()) * 1e6L))
      return;
    c.close(det(C), d, 4096 * u * bound,
            exch ? "C02.t2tot2.det.row_exchange" : "C02.t2tot2.det", "det(C)");
  }

}  // namespace

#define C02_INST(NAME, FCT)                          \
  VERIF_SUB(NAME##_1d) { FCT<1u, double>(c); }       \
  VERIF_SUB(NAME##_2d) { FCT<2u, double>(c); }       \
  VERIF_SUB(NAME##_3d) { FCT<3u, double>(c); }       \
  VERIF_SUB_W(NAME##_3f, 0.5) { FCT<3u, float>(c); }

C02_INST(projectors, projectors)
C02_INST(products, products)
C02_INST(basis, basis)
C02_INST(determinant, determinant)

VERIF_MAIN("C02_t2tot2")
