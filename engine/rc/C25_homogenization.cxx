/*!
 * C25 - Homogenisation bounds are ordered and schemes consistent.
 *
 * Grounding: docs/web/tfel-material.md section "Homogenization" (definitions
 * of the Eshelby tensor S0, the Hill tensor P0 = S0:C0^-1, the localisation
 * tensor A = [I + P0:(Ci-C0)]^-1, the schemes and the bounds) and the headers
 * LinearHomogenizationBounds.hxx, LinearHomogenizationSchemes.hxx,
 * IsotropicEshelbyTensor.hxx, LocalisationTensor.hxx,
 * MicrostructureLinearHomogenization.hxx.
 *
 * Oracles (long double, no TFEL code):
 *  - Reuss / Voigt: harmonic / arithmetic means (scalars) and
 *    (sum f C^-1)^-1 / sum f C on 6x6 Mandel matrices (ref::inverseN);
 *  - Hashin-Shtrikman: ordering Reuss <= HS- <= HS+ <= Voigt, the documented
 *    (Torquato) formula re-evaluated, the classical two-phase closed form;
 *  - Mori-Tanaka with spheres = HS bound for two well-ordered phases;
 *  - f = 0 => every scheme returns the matrix;
 *  - Hill tensor of an ellipsoid in an isotropic medium by quadrature of the
 *    Green operator over the unit sphere:
 *      P = 1/(4 pi) int Gamma(A^-1 zeta) dS(zeta),
 *      Gamma_ijkl(xi) = sym[delta_ik xi_j xi_l]/mu - xi_i xi_j xi_k xi_l/(2 mu (1-nu)), |xi| = 1
 *    (Gauss-Legendre in cos(theta) x trapezoid in phi);
 *  - identities: sphere closed form (alpha, beta), sum_ik S_iikk = (1+nu)/(1-nu)
 *    for every ellipsoid, P symmetric, S = P:C0, Lipschitz continuity of the
 *    spheroid tensor at aspect ratio 1, A:(I + P:(Ci-C0)) = I multiplied back
 *    in the reference algebra, sum_r f_r A_r = I.
 *
 * Non-trivial: >= 3 phases, or aspect ratio != 1 with an inclined inclusion.
 */
#include "gens.hxx"
#include <span>
#include "TFEL/Material/IsotropicModuli.hxx"
#include "TFEL/Material/StiffnessTensor.hxx"
#include "TFEL/Material/LinearHomogenizationBounds.hxx"
#include "TFEL/Material/LinearHomogenizationSchemes.hxx"
#include "TFEL/Material/IsotropicEshelbyTensor.hxx"
#include "TFEL/Material/LocalisationTensor.hxx"
#include "TFEL/Material/MicrostructureDescription.hxx"
#include "TFEL/Material/MicrostructureLinearHomogenization.hxx"

using ref::M3;
using ref::R;
using ref::Vec;
using namespace tfel::material;
using namespace tfel::material::homogenization::elasticity;
using T4d = tfel::math::st2tost2<3u, double>;
using V3d = tfel::math::tvector<3u, double>;

namespace {

  constexpr R u = std::numeric_limits<double>::epsilon();

  std::string num(const long double v) {
    char b[64];
    std::snprintf(b, sizeof b, "%.12Lg", v);
    return b;
  }
  template <unsigned short N>
  Vec toVec(const tfel::math::st2tost2<N, double>& C) {
    const int n = ref::stensorSize(N);
    Vec v(n * n);
    for (int i = 0; i < n; ++i)
      for (int j = 0; j < n; ++j) v[i * n + j] = static_cast<R>(C(i, j));
    return v;
  }
  R normF(const Vec& v) {
    R s = 0;
    for (auto x : v) s += x * x;
    return std::sqrt(s);
  }
  Vec matmul(int n, const Vec& A, const Vec& B) {
    Vec r(n * n, 0);
    for (int i = 0; i < n; ++i)
      for (int k = 0; k < n; ++k) {
        const R a = A[i * n + k];
        if (a == 0) continue;
        for (int j = 0; j < n; ++j) r[i * n + j] += a * B[k * n + j];
      }
    return r;
  }
  Vec identity(int n) {
    Vec r(n * n, 0);
    for (int i = 0; i < n; ++i) r[i * n + i] = 1;
    return r;
  }
  Vec axpy(const Vec& A, R s, const Vec& B) {  // A + s B
    Vec r(A.size());
    for (std::size_t i = 0; i < A.size(); ++i) r[i] = A[i] + s * B[i];
    return r;
  }
  //! isotropic 6x6 Mandel: 3K J + 2G K
  Vec isoKG(const R K, const R G) {
    Vec v(36, 0);
    const R lam = K - 2 * G / 3;
    for (int i = 0; i < 3; ++i)
      for (int j = 0; j < 3; ++j) v[i * 6 + j] = lam;
    for (int i = 0; i < 6; ++i) v[i * 6 + i] += 2 * G;
    return v;
  }
  void cmp(verif::Case& c, const Vec& got, const Vec& e, R tol, const std::string& key, const std::string& what) {
    const int n = got.size() == 36 ? 6 : (got.size() == 16 ? 4 : 3);
    for (int i = 0; i < n; ++i)
      for (int j = 0; j < n; ++j)
        c.close(got[i * n + j], e[i * n + j], tol, key,
                what + " component (" + std::to_string(i) + "," + std::to_string(j) + ")");
  }

  struct Iso {
    double E, nu;
    R K() const { return R(E) / (3 * (1 - 2 * R(nu))); }
    R G() const { return R(E) / (2 * (1 + R(nu))); }
  };
  //! usual isotropic phase: E in 10^[6,12] (or around a reference), nu in [-0.5, 0.45]
  Iso genIso(verif::Case& c, const char* n = "E") {
    Iso m;
    m.E = c.log10real(6, 12, n);
    const auto k = c.integer(0, 3, "nu_class");
    m.nu = k == 0 ? c.real(-0.5, 0.45, "nu") : (k == 1 ? 0. : c.real(0.05, 0.45, "nu"));
    return m;
  }
  Iso genIsoContrast(verif::Case& c, const Iso& ref0, const double lo, const double hi) {
    Iso m;
    m.E = ref0.E * c.log10real(lo, hi, "contrast");
    m.nu = c.real(-0.3, 0.45, "nu_i");
    return m;
  }
  T4d isoTensor(const Iso& m) {
    T4d C;
    computeIsotropicStiffnessTensorII<3u, StiffnessTensorAlterationCharacteristic::UNALTERED, double, double>(C, m.E, m.nu);
    return C;
  }

  // ------------------------------------------------------------------ bounds (scalars)
  template <unsigned short d>
  void hsBounds(verif::Case& c) {
    const int N = static_cast<int>(c.integer(2, 5, "phases"));
    std::vector<double> f(N), K(N), mu(N);
    const auto order = c.integer(0, 2, "order_class");
    const double K0 = c.log10real(6, 12, "K0"), r0 = c.log10real(-1, 1, "mu0/K0");
    for (int i = 0; i < N; ++i) {
      if (order == 0) {  // well ordered: K and mu increase together
        c.tag("phases.well_ordered");
        K[i] = K0 * (1 + i * c.real(0.01, 10., "dK"));
        mu[i] = K0 * r0 * (1 + i * c.real(0.01, 10., "dmu"));
      } else if (order == 1) {
        K[i] = c.log10real(6, 12, "K");
        mu[i] = c.log10real(6, 12, "mu");
      } else {  // equal phases
        K[i] = K0;
        mu[i] = K0 * r0;
      }
    }
    if (order == 1) c.tag("phases.arbitrary");
    if (order == 2) c.tag("phases.equal");
    // fractions on the simplex, with zero and near-one fractions
    {
      const auto fc = c.integer(0, 3, "fraction_class");
      std::vector<double> w(N);
      double s = 0;
      for (int i = 0; i < N; ++i) {
        w[i] = c.real(0., 1., "w");
        if (fc == 1 && i == 0) w[i] = 0;                  // a zero fraction
        if (fc == 2 && i > 0) w[i] *= 1e-6;               // a near-one fraction
        s += w[i];
      }
      if (!(s > 0)) {
        w[N - 1] = 1;
        s = 1;
        for (int i = 0; i + 1 < N; ++i) s += w[i];
      }
      for (int i = 0; i < N; ++i) f[i] = w[i] / s;
    }
    c.nontrivial(N >= 3);
    const auto res = computeIsotropicHashinShtrikmanBounds<d, double>(std::span<double>(f), std::span<double>(K),
                                                                     std::span<double>(mu));
    const R KL = res.first.first, GL = res.first.second, KU = res.second.first, GU = res.second.second;
    // reference means on the values actually passed; sum f may differ from 1 by a few u: renormalise the
    // reference the same way the formula does not (the code uses f as given), so use f as given
    R sf = 0, KV = 0, GV = 0, KRi = 0, GRi = 0, Kmax = 0, Gmax = 0, Kmin = 1e300L, Gmin = 1e300L;
    for (int i = 0; i < N; ++i) {
      sf += f[i];
      KV += R(f[i]) * K[i];
      GV += R(f[i]) * mu[i];
      KRi += R(f[i]) / K[i];
      GRi += R(f[i]) / mu[i];
      Kmax = std::max<R>(Kmax, K[i]);
      Gmax = std::max<R>(Gmax, mu[i]);
      Kmin = std::min<R>(Kmin, K[i]);
      Gmin = std::min<R>(Gmin, mu[i]);
    }
    const R KR = 1 / KRi, GR = 1 / GRi;
    // Ke(K*) = 1/sum f/(K*+K_i) - K*: the subtraction of K* loses (K*+Kmax)/Ke
    const R slackK = 256 * u * (Kmax + 2 * Gmax) + 64 * u * std::fabs(sf - 1) * Kmax;
    const R slackG = 256 * u * (Gmax + 2 * (Kmax + Gmax)) + 64 * u * std::fabs(sf - 1) * Gmax;
    const std::string k = std::string("C25.hs.d") + std::to_string(d);
    c.check(KR <= KL + slackK, k + ".order", "Reuss > HS- (bulk): " + num(KR) + " vs " + num(KL));
    c.check(KL <= KU + slackK, k + ".order", "HS- > HS+ (bulk): " + num(KL) + " vs " + num(KU));
    c.check(KU <= KV + slackK, k + ".order", "HS+ > Voigt (bulk): " + num(KU) + " vs " + num(KV));
    c.check(GR <= GL + slackG, k + ".order", "Reuss > HS- (shear): " + num(GR) + " vs " + num(GL));
    c.check(GL <= GU + slackG, k + ".order", "HS- > HS+ (shear): " + num(GL) + " vs " + num(GU));
    c.check(GU <= GV + slackG, k + ".order", "HS+ > Voigt (shear): " + num(GU) + " vs " + num(GV));
    // documented formula (Torquato 2002), d-dimensional
    auto H = [](R Kk, R G) {
      if (d == 3) return G * (9 * Kk + 8 * G) / (6 * (Kk + 2 * G));
      return G * Kk / (Kk + 2 * G);
    };
    R Hmin = 1e300L, Hmax = 0;
    for (int i = 0; i < N; ++i) {
      Hmin = std::min(Hmin, H(K[i], mu[i]));
      Hmax = std::max(Hmax, H(K[i], mu[i]));
    }
    const R ks = d == 3 ? R(4) / 3 : R(1);
    auto est = [&](const std::vector<double>& m, R star) {
      R s = 0;
      for (int i = 0; i < N; ++i) s += R(f[i]) / (star + m[i]);
      return 1 / s - star;
    };
    c.close(KL, est(K, ks * Gmin), slackK, k + ".formula", "K lower");
    c.close(KU, est(K, ks * Gmax), slackK, k + ".formula", "K upper");
    c.close(GL, est(mu, Hmin), slackG, k + ".formula", "mu lower");
    c.close(GU, est(mu, Hmax), slackG, k + ".formula", "mu upper");
    if (order == 2) {
      // equal phases: the four estimates coincide
      c.close(KL, K0, 1024 * u * (Kmax + Gmax), k + ".equal_phases", "K lower = K");
      c.close(KU, K0, 1024 * u * (Kmax + Gmax), k + ".equal_phases", "K upper = K");
      c.close(GL, K0 * r0, 1024 * u * (Kmax + Gmax), k + ".equal_phases", "mu lower = mu");
      c.close(GU, K0 * r0, 1024 * u * (Kmax + Gmax), k + ".equal_phases", "mu upper = mu");
    }
    if (d == 3 && N == 2 && order == 0 && f[0] > 0 && f[1] > 0) {
      // classical two-phase Hashin-Shtrikman expressions (phase 0 softer)
      const R K1 = K[0], K2 = K[1], G1 = mu[0], G2 = mu[1], f1 = f[0], f2 = f[1];
      if (K2 > K1 && G2 > G1) {
        const R KLc = K1 + f2 / (1 / (K2 - K1) + 3 * f1 / (3 * K1 + 4 * G1));
        const R KUc = K2 + f1 / (1 / (K1 - K2) + 3 * f2 / (3 * K2 + 4 * G2));
        const R GLc = G1 + f2 / (1 / (G2 - G1) + 6 * f1 * (K1 + 2 * G1) / (5 * G1 * (3 * K1 + 4 * G1)));
        const R GUc = G2 + f1 / (1 / (G1 - G2) + 6 * f2 * (K2 + 2 * G2) / (5 * G2 * (3 * K2 + 4 * G2)));
        c.tag("hs.two_phase_closed_form");
        c.close(KL, KLc, slackK, k + ".two_phase", "K lower vs closed form");
        c.close(KU, KUc, slackK, k + ".two_phase", "K upper vs closed form");
        c.close(GL, GLc, slackG, k + ".two_phase", "mu lower vs closed form");
        c.close(GU, GUc, slackG, k + ".two_phase", "mu upper vs closed form");
      }
    }
  }

  // ------------------------------------------------------------------ Voigt / Reuss tensors
  void voigtReuss(verif::Case& c) {
    const int N = static_cast<int>(c.integer(2, 5, "phases"));
    c.nontrivial(N >= 3);
    std::vector<double> f(N);
    std::vector<T4d> C(N);
    std::vector<Vec> Cr(N);
    double s = 0;
    for (int i = 0; i < N; ++i) {
      f[i] = c.real(0.01, 1., "w");
      s += f[i];
    }
    for (auto& x : f) x /= s;
    R cmax = 1;
    for (int i = 0; i < N; ++i) {
      const Iso m = genIso(c);
      C[i] = isoTensor(m);
      if (c.boolean("anisotropic")) {
        // keep SPD: add a positive diagonal (cubic / orthotropic like) perturbation
        for (int k = 0; k < 6; ++k) C[i](k, k) += m.E * c.real(0., 1., "diag");
      }
      Cr[i] = toVec<3u>(C[i]);
      Vec inv;
      if (!ref::inverseN(6, Cr[i], inv)) c.discard();
      cmax = std::max(cmax, ref::matNormInf(6, Cr[i]) * ref::matNormInf(6, inv));
    }
    const auto CV = computeVoigtStiffness<3u, double>(std::span<double>(f), std::span<T4d>(C));
    const auto CR = computeReussStiffness<3u, double>(std::span<double>(f), std::span<T4d>(C));
    Vec V(36, 0), Si(36, 0);
    R nmax = 0;
    for (int i = 0; i < N; ++i) {
      V = axpy(V, f[i], Cr[i]);
      Vec inv;
      ref::inverseN(6, Cr[i], inv);
      Si = axpy(Si, f[i], inv);
      nmax = std::max(nmax, normF(Cr[i]));
    }
    Vec Rr;
    if (!ref::inverseN(6, Si, Rr)) c.discard();
    cmp(c, toVec<3u>(CV), V, 64 * u * nmax, "C25.voigt", "sum f C");
    // two inversions: conditioning of the phases and of the mean compliance
    const R cS = ref::matNormInf(6, Si) * ref::matNormInf(6, Rr);
    cmp(c, toVec<3u>(CR), Rr, 256 * u * (cmax + cS) * normF(Rr), "C25.reuss", "(sum f C^-1)^-1");
    // Reuss <= Voigt in the quadratic-form sense along random directions
    for (int t = 0; t < 3; ++t) {
      R e[6], qV = 0, qR = 0;
      for (auto& x : e) x = c.sreal(1., "e");
      for (int i = 0; i < 6; ++i)
        for (int j = 0; j < 6; ++j) {
          qV += e[i] * static_cast<R>(CV(i, j)) * e[j];
          qR += e[i] * static_cast<R>(CR(i, j)) * e[j];
        }
      c.check(qR <= qV + 1024 * u * (cmax + cS) * nmax * 6, "C25.voigt_reuss.order", "e:C_R:e > e:C_V:e");
    }
  }

  // ------------------------------------------------------------------ Mori-Tanaka = Hashin-Shtrikman
  void moriTanakaHS(verif::Case& c) {
    // two well-ordered phases
    const R K1 = c.log10real(6, 11, "K1");
    const R r1 = c.real(0.2, 1.4, "G1/K1");  // nu1 in (0.02, 0.41)
    const R G1 = K1 * r1;
    const R kk = 1 + c.log10real(-2, 2, "K2/K1-1");
    const R K2 = K1 * kk;
    // G2 > G1 and G2/K2 in [0.1, 1.45] (nu2 in (0.01, 0.45)): r2 > r1/kk
    const R r2lo = std::max<R>(0.1L, r1 / kk * 1.01L);
    const R r2 = r2lo + (1.45L - r2lo) * c.real(0., 1., "r2");
    const R G2 = K2 * r2;
    if (!(G2 > G1 && K2 > K1)) c.discard();
    const double f2 = c.chance(1, 8, "f_end") ? (c.boolean("one") ? 1. : 0.) : c.real(0., 1., "f2");
    c.nontrivial(f2 > 0 && f2 < 1);
    std::vector<double> f{1 - f2, f2}, K{static_cast<double>(K1), static_cast<double>(K2)},
        mu{static_cast<double>(G1), static_cast<double>(G2)};
    const auto hs = computeIsotropicHashinShtrikmanBounds<3u, double>(std::span<double>(f), std::span<double>(K),
                                                                     std::span<double>(mu));
    const KGModuli<double> soft(K[0], mu[0]), stiff(K[1], mu[1]);
    const R scale = K[1] + mu[1];
    // nu -> K conversions inside the (E,nu) based API: conditioning 1/(1-2nu) <= ~6 on this domain
    const R tol = 4096 * u * scale;
    // matrix = soft phase, inclusions = stiff phase with fraction f2: lower bound
    {
      const auto kg = computeSphereMoriTanakaScheme<double>(soft, f2, stiff);
      c.close(kg.kappa, hs.first.first, tol, "C25.mt_hs.lower", "kappa, IsotropicModuli API");
      c.close(kg.mu, hs.first.second, tol, "C25.mt_hs.lower", "mu, IsotropicModuli API");
      const auto e0 = soft.ToYoungNu(), ei = stiff.ToYoungNu();
      const auto yn = computeSphereMoriTanakaScheme<double>(e0.young, e0.nu, f2, ei.young, ei.nu);
      const auto kg2 = yn.ToKG();
      c.close(kg2.kappa, hs.first.first, tol, "C25.mt_hs.lower", "kappa, (E,nu) API");
      c.close(kg2.mu, hs.first.second, tol, "C25.mt_hs.lower", "mu, (E,nu) API");
      // generic scheme fed with the sphere localisation tensor
      const auto A = computeSphereLocalisationTensor<double>(e0.young, e0.nu, ei.young, ei.nu);
      const auto Cm = computeMoriTanakaScheme<double>(e0.young, e0.nu, f2, ei.young, ei.nu, A);
      cmp(c, toVec<3u>(Cm), isoKG(hs.first.first, hs.first.second), 4 * tol, "C25.mt_hs.lower", "computeMoriTanakaScheme(A_sphere)");
      // isotropic distribution of 'ellipsoids' with a=b=c
      const auto kg3 = computeIsotropicMoriTanakaScheme<double>(soft, f2, stiff, 1., 1., 1.);
      c.close(kg3.kappa, hs.first.first, tol, "C25.mt_hs.lower", "kappa, isotropic distribution a=b=c");
      c.close(kg3.mu, hs.first.second, tol, "C25.mt_hs.lower", "mu, isotropic distribution a=b=c");
    }
    // matrix = stiff phase, inclusions = soft phase with fraction f1: upper bound
    {
      const auto kg = computeSphereMoriTanakaScheme<double>(stiff, f[0], soft);
      c.close(kg.kappa, hs.second.first, tol, "C25.mt_hs.upper", "kappa");
      c.close(kg.mu, hs.second.second, tol, "C25.mt_hs.upper", "mu");
    }
    // ParticulateMicrostructure route
    if (f2 < 1) {
      ParticulateMicrostructure<3u, double> micro(soft);
      Sphere<double> sph;
      SphereDistribution<double> dist(sph, f2, stiff);
      if (micro.addInclusionPhase(dist) != 1) c.discard();
      const auto h = computeMoriTanaka<3u, double>(micro);
      cmp(c, toVec<3u>(h.homogenized_stiffness), isoKG(hs.first.first, hs.first.second), 4 * tol, "C25.mt_hs.lower",
          "computeMoriTanaka(ParticulateMicrostructure)");
    }
  }

  // ------------------------------------------------------------------ orientation helpers
  struct Frame {
    V3d na, nb;
    M3 Q;  // columns: n_a, n_b, n_c
    bool inclined;
  };
  //! n_a, n_b exactly orthogonal in floating point: axis permutations x rotation about one axis
  Frame genFrame(verif::Case& c) {
    Frame fr;
    const double t = c.chance(1, 4, "aligned") ? 0. : c.sreal(3.14159, "theta");
    const double cs = std::cos(t), sn = std::sin(t);
    const auto ax = c.integer(0, 2, "axis");
    double a[3] = {0, 0, 0}, b[3] = {0, 0, 0};
    const int i0 = static_cast<int>((ax + 1) % 3), i1 = static_cast<int>((ax + 2) % 3);
    a[i0] = cs;
    a[i1] = sn;
    b[i0] = -sn;  // a.b = -cs*sn + sn*cs = 0 exactly (commutative products)
    b[i1] = cs;
    // the library aborts unless n_a.n_b == 0 exactly in floating point: only
    // power-of-two norms keep the two products of the dot product identical
    const double sc = c.boolean("not_unit") ? (c.boolean("half") ? 0.5 : 2.) : 1.;
    fr.na = {sc * a[0], sc * a[1], sc * a[2]};
    fr.nb = {b[0], b[1], b[2]};
    R A[3] = {a[0], a[1], a[2]}, B[3] = {b[0], b[1], b[2]};
    const R nA = std::sqrt(A[0] * A[0] + A[1] * A[1] + A[2] * A[2]);
    for (auto& x : A) x /= nA;
    const R nB = std::sqrt(B[0] * B[0] + B[1] * B[1] + B[2] * B[2]);
    for (auto& x : B) x /= nB;
    const R Cc[3] = {A[1] * B[2] - A[2] * B[1], A[2] * B[0] - A[0] * B[2], A[0] * B[1] - A[1] * B[0]};
    for (int i = 0; i < 3; ++i) {
      fr.Q(i, 0) = A[i];
      fr.Q(i, 1) = B[i];
      fr.Q(i, 2) = Cc[i];
    }
    fr.inclined = t != 0 && std::fabs(sn) > 1e-3 && std::fabs(cs) > 1e-3;
    return fr;
  }
  //! any unit-ish direction (for spheroids only one axis is needed)
  V3d genAxis(verif::Case& c, M3& Q, bool& inclined) {
    double v[3];
    const auto k = c.integer(0, 4, "axis_class");
    if (k <= 2) {
      v[0] = v[1] = v[2] = 0;
      v[k] = 1;
      inclined = false;
    } else {
      do {
        for (auto& x : v) x = c.sreal(1., "n");
      } while (false);
      if (v[0] * v[0] + v[1] * v[1] + v[2] * v[2] < 1e-4) {
        v[0] = 1;
        v[1] = v[2] = 0;
      }
      inclined = true;
    }
    R a[3] = {v[0], v[1], v[2]};
    const R n = std::sqrt(a[0] * a[0] + a[1] * a[1] + a[2] * a[2]);
    for (auto& x : a) x /= n;
    // complete to an orthonormal basis
    R h[3] = {0, 0, 0};
    int m = 0;
    for (int i = 1; i < 3; ++i)
      if (std::fabs(a[i]) < std::fabs(a[m])) m = i;
    h[m] = 1;
    R b[3] = {a[1] * h[2] - a[2] * h[1], a[2] * h[0] - a[0] * h[2], a[0] * h[1] - a[1] * h[0]};
    const R nb = std::sqrt(b[0] * b[0] + b[1] * b[1] + b[2] * b[2]);
    for (auto& x : b) x /= nb;
    const R cc[3] = {a[1] * b[2] - a[2] * b[1], a[2] * b[0] - a[0] * b[2], a[0] * b[1] - a[1] * b[0]};
    for (int i = 0; i < 3; ++i) {
      Q(i, 0) = a[i];
      Q(i, 1) = b[i];
      Q(i, 2) = cc[i];
    }
    return {v[0], v[1], v[2]};
  }

  // ------------------------------------------------------------------ Hill tensor by quadrature
  struct GL {
    std::vector<R> x, w;
  };
  const GL& gaussLegendre(int n) {
    static std::map<int, GL> cache;
    auto p = cache.find(n);
    if (p != cache.end()) return p->second;
    GL g;
    g.x.resize(n);
    g.w.resize(n);
    for (int i = 0; i < n; ++i) {
      R z = std::cos(ref::pi * (i + 0.75L) / (n + 0.5L));
      R pp = 0;
      for (int it = 0; it < 100; ++it) {
        R p1 = 1, p2 = 0;
        for (int j = 1; j <= n; ++j) {
          const R p3 = p2;
          p2 = p1;
          p1 = ((2 * j - 1) * z * p2 - (j - 1) * p3) / j;
        }
        pp = n * (z * p1 - p2) / (z * z - 1);
        const R dz = p1 / pp;
        z -= dz;
        if (std::fabs(dz) < 1e-19L) break;
      }
      g.x[i] = z;
      g.w[i] = 2 / ((1 - z * z) * pp * pp);
    }
    return cache[n] = g;
  }
  /*!
   * Hill tensor (6x6 Mandel) of the ellipsoid with semi-axes (a,b,c) along the
   * columns of Q in an isotropic medium (mu, nu).
   */
  Vec hillQuadrature(const R mu, const R nu, const M3& Q, const R a, const R b, const R cc, const int nt) {
    const GL& g = gaussLegendre(nt);
    const int np = 2 * nt;
    ref::T4 P;
    const R ax[3] = {a, b, cc};
    for (int it = 0; it < nt; ++it) {
      const R ct = g.x[it], st = std::sqrt(1 - ct * ct);
      for (int ip = 0; ip < np; ++ip) {
        const R ph = 2 * ref::pi * (ip + 0.5L) / np;
        const R zl[3] = {st * std::cos(ph), st * std::sin(ph), ct};  // in the ellipsoid frame
        // xi = A^-1 zeta (ellipsoid frame) then to the global frame, normalised
        R xl[3] = {zl[0] / ax[0], zl[1] / ax[1], zl[2] / ax[2]};
        const R n = std::sqrt(xl[0] * xl[0] + xl[1] * xl[1] + xl[2] * xl[2]);
        R xi[3] = {0, 0, 0};
        for (int i = 0; i < 3; ++i)
          for (int k = 0; k < 3; ++k) xi[i] += Q(i, k) * xl[k] / n;
        const R w = g.w[it] * (2 * ref::pi / np) / (4 * ref::pi);
        for (int i = 0; i < 3; ++i)
          for (int j = 0; j < 3; ++j)
            for (int k = 0; k < 3; ++k)
              for (int l = 0; l < 3; ++l) {
                const R s = ((i == k ? xi[j] * xi[l] : 0) + (i == l ? xi[j] * xi[k] : 0) + (j == k ? xi[i] * xi[l] : 0) +
                             (j == l ? xi[i] * xi[k] : 0)) /
                            (4 * mu);
                P(i, j, k, l) += w * (s - xi[i] * xi[j] * xi[k] * xi[l] / (2 * mu * (1 - nu)));
              }
      }
    }
    return ref::mandel66(P);
  }
  int quadOrder(const R ratio) {  // max/min semi-axis
    // exponential convergence; 1e-11 relative reached with ~ 12 * ratio points (calibrated, see mutants/C25.md)
    return std::max(24, static_cast<int>(16 * ratio));
  }

  // ------------------------------------------------------------------ Eshelby identities
  void eshelbyIdentities(verif::Case& c) {
    const double nu = c.chance(1, 5, "nu0") ? 0. : c.real(-0.5, 0.49, "nu");
    const R nl = nu;
    // sphere closed form (docs: alpha J + beta K)
    {
      const auto S = computeSphereEshelbyTensor<double>(nu);
      const R al = (1 + nl) / (3 * (1 - nl)), be = 2 * (4 - 5 * nl) / (15 * (1 - nl));
      Vec e(36, 0);
      for (int i = 0; i < 3; ++i)
        for (int j = 0; j < 3; ++j) e[i * 6 + j] = (al - be) / 3;
      for (int i = 0; i < 6; ++i) e[i * 6 + i] += be;
      cmp(c, toVec<3u>(S), e, 256 * u, "C25.eshelby.sphere", "alpha J + beta K");
    }
    // spheroid: aspect ratio e in 10^[-2,2], trace identity, continuity at e -> 1
    {
      const double e = c.chance(1, 3, "near_one") ? 1 + (c.boolean("below") ? -1 : 1) * c.log10real(-6, -1, "|e-1|")
                                                   : c.log10real(-2, 2, "e");
      c.nontrivial(std::fabs(e - 1) > 1e-2);
      const auto S = computeAxisymmetricalEshelbyTensor<double>(nu, e);
      R tr = 0;
      for (int i = 0; i < 3; ++i)
        for (int k = 0; k < 3; ++k) tr += static_cast<R>(S(i, k));
      // cancellation of the closed form near e = 1: terms of size 1/(e^2-1)^2 relative to u
      const R e21 = std::fabs(R(e) * e - 1);
      const R cform = 1 + (e21 > 0 ? 1 / (e21 * e21) : 0);
      c.close(tr, (1 + nl) / (1 - nl), 256 * u * std::min<R>(cform, 1e9L) / (1 - nl) + 1e-13L, "C25.eshelby.spheroid.trace",
              "sum_ik S_iikk = (1+nu)/(1-nu), e=" + num(e));
      // Lipschitz continuity towards the sphere (|dS/de| < 1 for nu in the domain; sphere returned for |e-1|<1.5e-4)
      const auto Ss = computeSphereEshelbyTensor<double>(nu);
      const R d = std::fabs(R(e) - 1);
      if (d < 0.1L) {
        for (int i = 0; i < 6; ++i)
          for (int j = 0; j < 6; ++j)
            c.close(S(i, j), Ss(i, j), 2 * d / (1 - nl) + 1e-7L, "C25.eshelby.spheroid.continuity",
                    "S(e) -> S(sphere), e=" + num(e));
      }
    }
    // general ellipsoid a > b > c: trace identity, Hill tensor symmetric, S = P:C0 (aligned frame)
    {
      const double a = 1., b = c.real(0.3, 0.95, "b/a"), cc = b * c.real(0.3, 0.95, "c/b");
      const auto S = computeEshelbyTensor<double>(nu, a, b, cc);
      R tr = 0;
      for (int i = 0; i < 3; ++i)
        for (int k = 0; k < 3; ++k) tr += static_cast<R>(S(i, k));
      // differences of squares in the denominators: b^2-c^2 >= 0.05 b^2 here
      c.close(tr, (1 + nl) / (1 - nl), 1e-10L / (1 - nl), "C25.eshelby.ellipsoid.trace", "sum_ik S_iikk = (1+nu)/(1-nu)");
      const double E = c.log10real(6, 12, "E");
      const V3d na = {1., 0., 0.}, nb = {0., 1., 0.};
      const auto P = computeHillPolarisationTensor<double>(E, nu, na, a, nb, b, cc);
      const R mu0 = R(E) / (2 * (1 + nl));
      for (int i = 0; i < 6; ++i)
        for (int j = 0; j < i; ++j)
          c.close(P(i, j) * mu0, P(j, i) * mu0, 1e-10L / (1 - 2 * nl + 1e-2L), "C25.hill.symmetric", "mu0 P(i,j) vs mu0 P(j,i)");
      const Vec C0 = toVec<3u>(isoTensor(Iso{E, nu}));
      const Vec PC = matmul(6, toVec<3u>(P), C0);
      cmp(c, PC, toVec<3u>(S), 1e-10L / (1 - 2 * nl + 1e-2L), "C25.hill.S_equals_P_C0", "P:C0 vs S (frame aligned with a>b>c)");
    }
  }

  // ------------------------------------------------------------------ Hill / localisation vs quadrature
  void hillQuadratureCheck(verif::Case& c) {
    const Iso m0{c.log10real(6, 12, "E0"), c.real(-0.3, 0.45, "nu0")};
    const R mu0 = m0.G(), nu0 = m0.nu;
    const Iso mi = genIsoContrast(c, m0, -4, 4);
    const Vec C0 = toVec<3u>(isoTensor(m0)), Ci = toVec<3u>(isoTensor(mi));
    const bool spheroid = c.boolean("spheroid");
    Vec Plib, Alib, Pq;
    R ratio;
    R spheroid_e = 1;
    if (spheroid) {
      // [0.2, 5], with the sphere and its neighbourhood as classes
      const auto ecls = c.integer(0, 5, "e_class");
      const double e = ecls == 0 ? 1.
                                 : (ecls == 1 ? 1 + (c.boolean("below") ? -1 : 1) * c.log10real(-5, -2, "|e-1|")
                                              : c.log10real(-0.7, 0.7, "e"));
      M3 Q;
      bool inclined;
      const V3d na = genAxis(c, Q, inclined);
      c.nontrivial(std::fabs(e - 1) > 1e-2 && inclined);
      c.tag(e == 1. ? "shape.sphere" : (e > 1 ? "shape.prolate" : "shape.oblate"));
      // e = (semi-axis along n_a) / (transverse semi-axis)
      ratio = std::max<R>(e, 1 / R(e));
      spheroid_e = e;
      Pq = hillQuadrature(mu0, nu0, Q, e, 1, 1, quadOrder(ratio));
      Plib = toVec<3u>(computeAxisymmetricalHillPolarisationTensor<double>(m0.E, m0.nu, na, e));
      Alib = toVec<3u>(computeAxisymmetricalEllipsoidLocalisationTensor<double>(m0.E, m0.nu, mi.E, mi.nu, na, e));
      if (e == 1.) {
        const Vec Ps = toVec<3u>(computeSphereHillPolarisationTensor<double>(m0.E, m0.nu));
        cmp(c, Ps, Pq, 1e-9L / mu0, "C25.hill.sphere", "sphere Hill tensor vs quadrature");
        const Vec As = toVec<3u>(computeSphereLocalisationTensor<double>(m0.E, m0.nu, mi.E, mi.nu));
        cmp(c, As, Alib, 1e-9L * (1 + normF(Alib)), "C25.localisation.sphere", "sphere vs spheroid e=1");
      }
    } else {
      // three distinct semi-axes in any order, max/min <= 5, pairwise separated by > 5 %
      double ax[3] = {1., c.real(0.25, 0.9, "r1"), 0};
      ax[2] = ax[1] * c.real(0.3, 0.9, "r2");
      const auto perm = c.integer(0, 5, "axes_order");
      static const int PM[6][3] = {{0, 1, 2}, {0, 2, 1}, {1, 0, 2}, {1, 2, 0}, {2, 0, 1}, {2, 1, 0}};
      const double a = ax[PM[perm][0]], b = ax[PM[perm][1]], cc = ax[PM[perm][2]];
      const Frame fr = genFrame(c);
      c.nontrivial(fr.inclined);
      c.tag("shape.ellipsoid");
      ratio = 1 / R(ax[2]);
      Pq = hillQuadrature(mu0, nu0, fr.Q, a, b, cc, quadOrder(ratio));
      Plib = toVec<3u>(computeHillPolarisationTensor<double>(m0.E, m0.nu, fr.na, a, fr.nb, b, cc));
      Alib = toVec<3u>(computeEllipsoidLocalisationTensor<double>(m0.E, m0.nu, mi.E, mi.nu, fr.na, a, fr.nb, b, cc));
    }
    // P scales like 1/mu0.  Spheroid closed form: terms of size 1/(e^2-1)^2 cancel near e = 1, and the
    // library returns the sphere tensor for |e-1| < EshelbyTolerances (1.5e-4 in double): |dS/de| < 1
    R shape_err = 0;
    bool sphere_substituted = false;
    if (spheroid_e != 1) {
      const R e21 = std::fabs(spheroid_e * spheroid_e - 1);
      // q(e) is a difference of O(sqrt(e21)) terms divided by e21^(3/2), then multiplied by 1/e21:
      // u / e21^2.5 (observed 5 u / e21^2.5 at e21 = 4e-4)
      shape_err = 512 * u / (e21 * e21 * std::sqrt(e21));
      if (std::fabs(spheroid_e - 1) < 2e-4L) {
        shape_err += 2 * std::fabs(spheroid_e - 1);
        sphere_substituted = true;
        c.tag("shape.within_sphere_tolerance");
      }
    }
    cmp(c, Plib, Pq, (1e-9L + shape_err) / mu0 / (1 - 2 * nu0 + 0.05L), "C25.hill.quadrature",
        "Hill tensor vs quadrature of the Green operator");
    if (sphere_substituted) return;  // A is built on the substituted sphere tensor: nothing more to claim
    // A:(I + P:(Ci - C0)) = I with the independent P
    Vec dC(36);
    for (int i = 0; i < 36; ++i) dC[i] = Ci[i] - C0[i];
    const Vec M = axpy(identity(6), 1, matmul(6, Pq, dC));
    const Vec AM = matmul(6, Alib, M);
    Vec Minv;
    if (!ref::inverseN(6, M, Minv)) c.discard();
    const R cM = ref::matNormInf(6, M) * ref::matNormInf(6, Minv);
    cmp(c, AM, identity(6), (1e-7L + shape_err * normF(dC) / mu0) * cM, "C25.localisation.definition", "A:(I + P:(Ci-C0)) vs I");
  }

  // ------------------------------------------------------------------ zero fraction
  void zeroFraction(verif::Case& c) {
    const Iso m0 = genIso(c, "E0");
    const Iso mi = genIsoContrast(c, m0, -4, 4);
    const T4d C0 = isoTensor(m0);
    const Vec C0r = toVec<3u>(C0);
    const R tol = 8 * u * normF(C0r);
    const R K0 = m0.K(), G0 = m0.G();
    // conversions (E,nu) -> (K,G) -> (E,nu) inside the API: a few u with 1/(1-2nu) conditioning
    const R ctol = 256 * u * (K0 + G0) / (1 - 2 * R(m0.nu));
    const double f = 0.;
    const double e = c.log10real(-2, 2, "aspect");
    M3 Q;
    bool inclined;
    const V3d na = genAxis(c, Q, inclined);
    c.nontrivial(inclined && std::fabs(e - 1) > 1e-2);
    const Frame fr = genFrame(c);
    const double a = c.log10real(-1, 1, "a"), b = c.log10real(-1, 1, "b"), cc = c.log10real(-1, 1, "c");
    const YoungNuModuli<double> im0(m0.E, m0.nu), imi(mi.E, mi.nu);
    {
      const auto r = computeSphereDiluteScheme<double>(m0.E, m0.nu, f, mi.E, mi.nu).ToKG();
      c.close(r.kappa, K0, ctol, "C25.zero_fraction.sphere_dilute", "kappa");
      c.close(r.mu, G0, ctol, "C25.zero_fraction.sphere_dilute", "mu");
      const auto r2 = computeSphereMoriTanakaScheme<double>(m0.E, m0.nu, f, mi.E, mi.nu).ToKG();
      c.close(r2.kappa, K0, ctol, "C25.zero_fraction.sphere_mori_tanaka", "kappa");
      c.close(r2.mu, G0, ctol, "C25.zero_fraction.sphere_mori_tanaka", "mu");
      const auto r3 = computeIsotropicDiluteScheme<double>(im0, f, imi, a, b, cc);
      c.close(r3.kappa, K0, ctol, "C25.zero_fraction.isotropic_dilute", "kappa");
      c.close(r3.mu, G0, ctol, "C25.zero_fraction.isotropic_dilute", "mu");
      const auto r4 = computeIsotropicMoriTanakaScheme<double>(im0, f, imi, a, b, cc);
      c.close(r4.kappa, K0, ctol, "C25.zero_fraction.isotropic_mori_tanaka", "kappa");
      c.close(r4.mu, G0, ctol, "C25.zero_fraction.isotropic_mori_tanaka", "mu");
    }
    {
      const auto A = computeAxisymmetricalEllipsoidLocalisationTensor<double>(m0.E, m0.nu, mi.E, mi.nu, na, e);
      cmp(c, toVec<3u>(computeDiluteScheme<double>(m0.E, m0.nu, f, mi.E, mi.nu, A)), C0r, tol, "C25.zero_fraction.dilute", "f=0");
      cmp(c, toVec<3u>(computeMoriTanakaScheme<double>(m0.E, m0.nu, f, mi.E, mi.nu, A)), C0r, tol,
          "C25.zero_fraction.mori_tanaka", "f=0");
      Distribution<double> D = {.n_a = fr.na, .a = a, .n_b = fr.nb, .b = b, .c = cc};
      cmp(c, toVec<3u>(computePCWScheme<double>(m0.E, m0.nu, f, mi.E, mi.nu, A, D)), C0r, tol, "C25.zero_fraction.pcw", "f=0");
      cmp(c, toVec<3u>(computeOrientedDiluteScheme<double>(m0.E, m0.nu, f, mi.E, mi.nu, fr.na, a, fr.nb, b, cc)), C0r, tol,
          "C25.zero_fraction.oriented_dilute", "f=0");
      cmp(c, toVec<3u>(computeOrientedMoriTanakaScheme<double>(im0, f, imi, fr.na, a, fr.nb, b, cc)), C0r, 8 * tol + 36 * ctol,
          "C25.zero_fraction.oriented_mori_tanaka", "f=0");
      cmp(c, toVec<3u>(computeTransverseIsotropicDiluteScheme<double>(m0.E, m0.nu, f, mi.E, mi.nu, na, a, b, cc)), C0r, tol,
          "C25.zero_fraction.transverse_dilute", "f=0");
      cmp(c, toVec<3u>(computeTransverseIsotropicMoriTanakaScheme<double>(m0.E, m0.nu, f, mi.E, mi.nu, na, a, b, cc)), C0r,
          tol, "C25.zero_fraction.transverse_mori_tanaka", "f=0");
    }
    // general microstructure: an inclusion phase with zero fraction
    {
      ParticulateMicrostructure<3u, double> micro(im0);
      Sphere<double> sph;
      SphereDistribution<double> d0(sph, 0., imi);
      Spheroid<double> sd(e, 1.);
      IsotropicDistribution<double> d1(sd, 0., imi);
      if (micro.addInclusionPhase(d0) != 1 || micro.addInclusionPhase(d1) != 1) c.discard();
      const Vec Cm = toVec<3u>(micro.getMatrixElasticity());
      const R t2 = 8 * u * normF(Cm);
      cmp(c, toVec<3u>(computeDilute<3u, double>(micro).homogenized_stiffness), Cm, t2, "C25.zero_fraction.micro_dilute", "f=0");
      cmp(c, toVec<3u>(computeMoriTanaka<3u, double>(micro).homogenized_stiffness), Cm, t2, "C25.zero_fraction.micro_mori_tanaka",
          "f=0");
      cmp(c, toVec<3u>(computeSelfConsistent<3u, double>(micro, 1e-10, true).homogenized_stiffness), Cm, 64 * t2,
          "C25.zero_fraction.micro_self_consistent", "f=0");
    }
  }

  // ------------------------------------------------------------------ averages of localisation tensors
  void localisationAverage(verif::Case& c) {
    const Iso m0{c.log10real(6, 12, "E0"), c.real(0., 0.4, "nu0")};
    const YoungNuModuli<double> im0(m0.E, m0.nu);
    ParticulateMicrostructure<3u, double> micro(im0);
    const int np = static_cast<int>(c.integer(1, 3, "inclusion_phases"));
    c.nontrivial(np >= 2);
    std::vector<R> fr{1};
    std::vector<Vec> Cs{toVec<3u>(isoTensor(m0))};
    bool spheres_only = true;
    R Kmin = m0.K(), Kmax = m0.K(), Gmin = m0.G(), Gmax = m0.G();
    std::vector<double> fK{}, vK{}, vG{};
    for (int i = 0; i < np; ++i) {
      const Iso mi{m0.E * c.log10real(-1, 1, "contrast"), c.real(0., 0.4, "nu_i")};
      const YoungNuModuli<double> imi(mi.E, mi.nu);
      const double f = c.real(0.01, 0.25, "f");
      const auto shape = c.integer(0, 2, "shape");
      int ok;
      if (shape == 0) {
        Sphere<double> s;
        SphereDistribution<double> d(s, f, imi);
        ok = micro.addInclusionPhase(d);
      } else if (shape == 1) {
        Spheroid<double> s(c.log10real(-1, 1, "aspect"), 1.);
        IsotropicDistribution<double> d(s, f, imi);
        ok = micro.addInclusionPhase(d);
        spheres_only = false;
      } else {
        Ellipsoid<double> s(1., c.real(0.3, 0.9, "b"), c.real(0.05, 0.25, "c"));
        const Frame frm = genFrame(c);
        OrientedDistribution<double> d(s, f, imi, frm.na, frm.nb);
        ok = micro.addInclusionPhase(d);
        spheres_only = false;
      }
      if (ok != 1) c.discard();
      fr.push_back(f);
      fr[0] -= f;
      Cs.push_back(toVec<3u>(isoTensor(mi)));
      Kmin = std::min(Kmin, mi.K());
      Kmax = std::max(Kmax, mi.K());
      Gmin = std::min(Gmin, mi.G());
      Gmax = std::max(Gmax, mi.G());
      fK.push_back(f);
      vK.push_back(static_cast<double>(mi.K()));
      vG.push_back(static_cast<double>(mi.G()));
    }
    auto average = [&](const std::vector<tfel::math::st2tost2<3u, double>>& A, const std::string& key, const T4d& Chom) {
      c.check(A.size() == fr.size(), key, "number of localisation tensors");
      Vec s(36, 0), sc(36, 0);
      R na = 0;
      for (std::size_t r = 0; r < A.size(); ++r) {
        const Vec Ar = toVec<3u>(A[r]);
        s = axpy(s, fr[r], Ar);
        sc = axpy(sc, fr[r], matmul(6, Cs[r], Ar));
        na = std::max(na, normF(Ar));
      }
      cmp(c, s, identity(6), 1024 * u * (1 + na) * (1 + na), key, "sum f_r A_r vs I");
      // Chom = sum f_r C_r : A_r
      R nc = 0;
      for (const auto& x : Cs) nc = std::max(nc, normF(x));
      cmp(c, toVec<3u>(Chom), sc, 1024 * u * nc * (1 + na) * (1 + na), key + ".stiffness", "C_hom vs sum f_r C_r:A_r");
    };
    // dilute: matrix localisator is the identity
    {
      const auto h = computeDilute<3u, double>(micro);
      cmp(c, toVec<3u>(h.mean_strain_localisation_tensors[0]), identity(6), 0, "C25.average.dilute_matrix_identity", "A_0 = I");
    }
    {
      const auto h = computeMoriTanaka<3u, double>(micro);
      average(h.mean_strain_localisation_tensors, "C25.average.mori_tanaka", h.homogenized_stiffness);
    }
    {
      // contrast <= 10, total inclusion fraction <= 0.75: the fixed point iteration converges
      const auto h = computeSelfConsistent<3u, double>(micro, 1e-10, true);
      // the returned tensors are those of the last iterate: consistent to the iteration tolerance
      Vec s(36, 0);
      R na = 0;
      for (std::size_t r = 0; r < h.mean_strain_localisation_tensors.size(); ++r) {
        const Vec Ar = toVec<3u>(h.mean_strain_localisation_tensors[r]);
        s = axpy(s, fr[r], Ar);
        na = std::max(na, normF(Ar));
      }
      c.check(h.mean_strain_localisation_tensors.size() == fr.size(), "C25.average.self_consistent", "number of tensors");
      cmp(c, s, identity(6), 1024 * u * (1 + na) * (1 + na), "C25.average.self_consistent", "sum f_r A_r vs I");
      if (spheres_only) {
        // self-consistent estimate of an isotropic mixture of spheres lies between the HS bounds
        std::vector<double> f(fr.size()), K(fr.size()), G(fr.size());
        f[0] = static_cast<double>(fr[0]);
        K[0] = static_cast<double>(m0.K());
        G[0] = static_cast<double>(m0.G());
        for (std::size_t i = 0; i < fK.size(); ++i) {
          f[i + 1] = fK[i];
          K[i + 1] = vK[i];
          G[i + 1] = vG[i];
        }
        const auto hs = computeIsotropicHashinShtrikmanBounds<3u, double>(std::span<double>(f), std::span<double>(K),
                                                                         std::span<double>(G));
        const auto kg = computeKGModuli<double>(h.homogenized_stiffness);
        const R sl = 1e-9L * (Kmax + Gmax);
        // NOT asserted (the property statement does not claim it): the library's scheme keeps the matrix
        // localisator equal to the identity in the effective medium, which is not Hill/Budiansky's
        // self-consistent scheme, and its estimate leaves the HS interval for soft inclusions
        // (E0=1e6, Ei=1e5, nu=0, f=0.2: mu=358227 > HS+ = 353896).  Counted only.
        const bool inside = hs.first.first - sl <= kg.kappa && kg.kappa <= hs.second.first + sl &&
                            hs.first.second - sl <= kg.mu && kg.mu <= hs.second.second + sl;
        c.tag(inside ? "sc.within_hs" : "sc.outside_hs");
        c.tag("sc.spheres_only");
      }
    }
  }

}  // namespace

VERIF_SUB(hs_bounds_3d) { hsBounds<3u>(c); }
VERIF_SUB_W(hs_bounds_2d, 0.5) { hsBounds<2u>(c); }
VERIF_SUB_W(voigt_reuss, 0.3) { voigtReuss(c); }
VERIF_SUB_W(mori_tanaka_hs, 0.5) { moriTanakaHS(c); }
VERIF_SUB_W(eshelby_identities, 0.5) { eshelbyIdentities(c); }
VERIF_SUB_W(hill_quadrature, 0.05) { hillQuadratureCheck(c); }
VERIF_SUB_W(zero_fraction, 0.2) { zeroFraction(c); }
VERIF_SUB_W(localisation_average, 0.1) { localisationAverage(c); }

VERIF_MAIN("C25_homogenization")
