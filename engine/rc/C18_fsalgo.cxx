/*!
 * C18 - tfel::fsalgo algorithms equal their std:: counterparts on the first N
 * elements, for every N in 0..64.
 *
 * Every generated case is run for *all* sizes N = 0..64: each check is a
 * template on N, instantiated through an index_sequence dispatch table, and the
 * case loops over the table (so the smallest failing N is what gets reported).
 *
 * Oracle: the std:: algorithm on [first, first+N) -- outputs, returned
 * iterators, first-extremum tie-breaking, number (and, where the standard
 * fixes it, order) of functor calls, guard zones around every output range,
 * and bounds-checked forward iterators that flag any access outside [0,N).
 *
 * Argument conventions that differ from std:: and are *documented by the
 * headers and relied upon by the callers* are followed, not flagged:
 *  - accumulate<N>::exe(p, init, op) computes op(*p, acc) (element first):
 *    header formula Op(*(p+N-1),...,Op(*p,init)) and RungeKutta42.ixx:51
 *    (`[](a, b){ return abs(a) + b; }` with a the element, b the accumulator).
 *  - max_element<N>::exe(p, comp) replaces the current best when
 *    comp(candidate, best): comp is a "greater than" ordering, as used by
 *    StensorComputeEigenValues.hxx:78 and tests/FSAlgorithms (abs_compare);
 *    std counterpart: std::max_element with the arguments of comp flipped.
 *  - for_each takes the functor by reference and returns void.
 *  - inner_product<N>::exe<T>(p, q) (no init) is the plain sum of products
 *    (T{} for N = 0), as documented.
 * Non-trivial: some N >= 2 sees a tie (min/max_element) or a non-commutative
 * operation whose operand order matters.
 */
#include <algorithm>
#include <array>
#include <iterator>
#include <list>
#include <numeric>
#include <string>
#include <utility>
#include <vector>
#include "verif.hxx"
#include "TFEL/FSAlgorithm/FSAlgorithm.hxx"

namespace {

  constexpr unsigned NMAX = 64;
  constexpr unsigned G = 8;  // guard cells on each side of an output range
  constexpr unsigned LEN = NMAX + 2 * G;

  using U = unsigned;  // wrapping arithmetic: non-commutative ops without UB

  //! the data of one case
  struct Data {
    std::array<U, NMAX + 1> a{}, b{};
    std::array<double, NMAX + 1> da{}, db{};
    std::array<std::string, NMAX + 1> sa, sb;
    U init = 0;
    bool ties = false;
  };

  Data draw(verif::Case& c) {
    Data d;
    // small ranges give many duplicates (ties); wide ranges exercise the ops
    const int width = c.boolean("wide") ? 1000000 : static_cast<int>(c.integer(1, 4, "range"));
    for (unsigned i = 0; i <= NMAX; ++i) {
      const auto x = c.integer(-width, width, "a");
      const auto y = c.integer(-width, width, "b");
      d.a[i] = static_cast<U>(static_cast<int>(x));
      d.b[i] = static_cast<U>(static_cast<int>(y));
      d.da[i] = static_cast<double>(x) / 4;  // dyadic: every sum / product below is exact
      d.db[i] = static_cast<double>(y) / 4;
      d.sa[i] = std::string(1, static_cast<char>('a' + (static_cast<U>(x + width) % 26)));
      d.sb[i] = std::string(1, static_cast<char>('A' + (static_cast<U>(y + width) % 26)));
    }
    d.init = static_cast<U>(c.integer(-5, 5, "init"));
    for (unsigned i = 0; i < NMAX && !d.ties; ++i)
      for (unsigned j = i + 1; j < NMAX; ++j)
        if (d.a[i] == d.a[j]) {
          d.ties = true;
          break;
        }
    return d;
  }

  //! output buffer with guard zones
  template <typename T>
  struct Guarded {
    std::array<T, LEN> v;  // compared as a whole: range + guard cells
    explicit Guarded(const T& sentinel) { v.fill(sentinel); }
    T* out() { return v.data() + G; }
  };

  /*!
   * bounds-checked forward iterator over an array: records every access outside
   * [0, limit) instead of performing it (forward category: exercises the
   * non random access code paths)
   */
  template <typename T>
  struct Checked {
    using iterator_category = std::forward_iterator_tag;
    using value_type = std::remove_const_t<T>;
    using difference_type = std::ptrdiff_t;
    using pointer = T*;
    using reference = T&;
    T* base = nullptr;
    std::ptrdiff_t pos = 0, limit = 0;
    bool* bad = nullptr;
    T* dummy = nullptr;
    reference operator*() const {
      if (pos < 0 || pos >= limit) {
        *bad = true;
        return *dummy;
      }
      return base[pos];
    }
    Checked& operator++() {
      ++pos;
      return *this;
    }
    Checked operator++(int) {
      auto t = *this;
      ++pos;
      return t;
    }
    bool operator==(const Checked& o) const { return pos == o.pos; }
    bool operator!=(const Checked& o) const { return pos != o.pos; }
  };
  template <typename T>
  Checked<T> checked(T* p, unsigned n, bool& bad, T& dummy) {
    return Checked<T>{p, 0, static_cast<std::ptrdiff_t>(n), &bad, &dummy};
  }

  /*!
   * Observables of one run of an algorithm: (name, serialised value) pairs.
   * The code templated on N only calls the fsalgo algorithm and records what
   * it observes; the std:: oracle runs with a run-time n in non-template code
   * and records the same observables (this keeps the 65 instantiations small).
   */
  struct Obs {
    std::vector<std::pair<std::string, std::string>> items;
    void put(const std::string& name, const std::string& v) { items.push_back({name, v}); }
    template <typename I>
    requires(std::is_integral_v<I> && !std::is_same_v<I, bool>) void put(const std::string& name, I v) {
      put(name, std::to_string(static_cast<long long>(v)));
    }
    void put(const std::string& name, double v) {
      char b[64];
      std::snprintf(b, sizeof b, "%a", v);
      put(name, std::string(b));
    }
    void flag(const std::string& name, bool v) { put(name, std::string(v ? "true" : "false")); }
  };
  std::string str(U x) { return std::to_string(x); }
  std::string str(unsigned short x) { return std::to_string(x); }
  std::string str(const std::string& x) { return x; }
  std::string str(double x) {
    char b[64];
    std::snprintf(b, sizeof b, "%a", x);  // distinguishes -0. and +0.
    return b;
  }
  std::string str(const std::pair<U, U>& x) { return "(" + str(x.first) + "," + str(x.second) + ")"; }
  template <typename It>
  std::string strRange(It b, It e) {
    std::string r;
    for (; b != e; ++b) r += str(*b) + " ";
    return r;
  }
  template <typename T>
  void putBuf(Obs& o, const std::string& name, const Guarded<T>& g) {
    o.put(name, strRange(g.v.begin(), g.v.end()));
  }
  template <typename T>
  void putVec(Obs& o, const std::string& name, const std::vector<T>& v) {
    o.put(name, strRange(v.begin(), v.end()));
  }
  template <typename T>
  void putSorted(Obs& o, const std::string& name, std::vector<T> v) {
    std::sort(v.begin(), v.end());
    o.put(name, strRange(v.begin(), v.end()));
  }
  template <typename T, std::size_t K>
  void putArr(Obs& o, const std::string& name, const std::array<T, K>& v) {
    o.put(name, strRange(v.begin(), v.end()));
  }

  // ---------------------------------------------------------------- functors
  struct NonCommutative {  // a*31+b: neither commutative nor associative
    U operator()(U a, U b) const { return a * 31u + b; }
  };
  struct NonCommutative2 {
    U operator()(U a, U b) const { return a * 7u - b * 3u + 1u; }
  };
  struct TagConcat {
    std::string operator()(const std::string& a, const std::string& b) const { return "(" + a + "," + b + ")"; }
  };
  struct TagMul {
    std::string operator()(const std::string& a, const std::string& b) const { return a + "*" + b; }
  };
  //! records its calls (shared log: survives by-value copies)
  template <typename Op>
  struct Rec2 {
    std::vector<std::pair<U, U>>* log;
    Op op;
    auto operator()(U a, U b) const {
      log->push_back({a, b});
      return op(a, b);
    }
  };
  struct Rec1 {
    std::vector<U>* log;
    U operator()(U a) const {
      log->push_back(a);
      return a * 5u + 3u;
    }
  };
  struct Less {
    bool operator()(U a, U b) const { return static_cast<int>(a) < static_cast<int>(b); }
  };
  struct Greater {
    bool operator()(U a, U b) const { return static_cast<int>(a) > static_cast<int>(b); }
  };
  struct AbsLess {  // coarser ordering: more ties
    static int ab(U x) {
      const int i = static_cast<int>(x);
      return i < 0 ? -i : i;
    }
    bool operator()(U a, U b) const { return ab(a) < ab(b); }
  };
  struct AbsGreater {
    bool operator()(U a, U b) const { return AbsLess::ab(a) > AbsLess::ab(b); }
  };
  template <typename C>
  struct RecCmp {
    std::vector<std::pair<U, U>>* log;
    C cmp;
    bool operator()(U a, U b) const {
      log->push_back({a, b});
      return cmp(a, b);
    }
  };
  template <typename C>
  struct Flip {
    C cmp;
    bool operator()(U a, U b) const { return cmp(b, a); }
  };

  // ---------------------------------------------------------------- copy
  template <unsigned N>
  struct Copy {
    static void run(const Data& d, Obs& o) {
      using tfel::fsalgo::copy;
      {  // pointer -> pointer (random access: unrolled specialisations for N <= 10)
        Guarded<U> g(0xdeadbeefu);
        o.put("ptr.return", copy<N>::exe(d.a.data(), g.out()) - g.out());
        putBuf(o, "ptr.output", g);
      }
      {  // double, pointer to const input
        Guarded<double> g(-777.25);
        const double* in = d.da.data();
        o.put("ptr_double.return", copy<N>::exe(in, g.out()) - g.out());
        putBuf(o, "ptr_double.output", g);
      }
      {  // bounds-checked forward iterators on both sides (general versions)
        Guarded<U> g(0xdeadbeefu);
        bool bad = false;
        U dummy = 0;
        auto src = d.a;
        o.put("forward.return", copy<N>::exe(checked(src.data(), N, bad, dummy), checked(g.out(), N, bad, dummy)).pos);
        o.flag("forward.out_of_range_access", bad);
        putBuf(o, "forward.output", g);
      }
      {  // std::list input -> pointer; pointer -> back_inserter (pure output iterator)
        std::list<U> l(d.a.begin(), d.a.begin() + N + 1);
        Guarded<U> g(0xdeadbeefu);
        o.put("list_to_ptr.return", copy<N>::exe(l.begin(), g.out()) - g.out());
        putBuf(o, "list_to_ptr.output", g);
        std::vector<U> out;
        copy<N>::exe(d.a.data(), std::back_inserter(out));
        putVec(o, "back_inserter.output", out);
      }
    }
  };
  void copyExpected(unsigned n, const Data& d, Obs& o) {
    Guarded<U> g(0xdeadbeefu);
    std::copy(d.a.data(), d.a.data() + n, g.out());
    Guarded<double> gd(-777.25);
    std::copy(d.da.data(), d.da.data() + n, gd.out());
    o.put("ptr.return", n);
    putBuf(o, "ptr.output", g);
    o.put("ptr_double.return", n);
    putBuf(o, "ptr_double.output", gd);
    o.put("forward.return", n);
    o.flag("forward.out_of_range_access", false);
    putBuf(o, "forward.output", g);
    o.put("list_to_ptr.return", n);
    putBuf(o, "list_to_ptr.output", g);
    std::vector<U> out;
    std::copy(d.a.data(), d.a.data() + n, std::back_inserter(out));
    putVec(o, "back_inserter.output", out);
  }

  // ---------------------------------------------------------------- fill
  template <unsigned N>
  struct Fill {
    static void run(const Data& d, Obs& o) {
      using tfel::fsalgo::fill;
      Guarded<U> g(0xdeadbeefu);
      fill<N>::exe(g.out(), d.init);
      putBuf(o, "ptr.output", g);
      Guarded<std::string> gs("guard");
      fill<N>::exe(gs.out(), d.sa[0]);
      putBuf(o, "string.output", gs);
      bool bad = false;
      U dummy = 0;
      Guarded<U> g2(0xdeadbeefu);
      fill<N>::exe(checked(g2.out(), N, bad, dummy), d.init);
      o.flag("forward.out_of_range_access", bad);
      putBuf(o, "forward.output", g2);
    }
  };
  void fillExpected(unsigned n, const Data& d, Obs& o) {
    Guarded<U> g(0xdeadbeefu);
    std::fill(g.out(), g.out() + n, d.init);
    putBuf(o, "ptr.output", g);
    Guarded<std::string> gs("guard");
    std::fill(gs.out(), gs.out() + n, d.sa[0]);
    putBuf(o, "string.output", gs);
    o.flag("forward.out_of_range_access", false);
    putBuf(o, "forward.output", g);
  }

  // ---------------------------------------------------------------- transform
  template <unsigned N>
  struct Transform {
    static void run(const Data& d, Obs& o) {
      using tfel::fsalgo::transform;
      {  // unary, recording
        std::vector<U> log;
        Guarded<U> g(0xdeadbeefu);
        o.put("unary.return", transform<N>::exe(d.a.data(), g.out(), Rec1{&log}) - g.out());
        putBuf(o, "unary.output", g);
        putSorted(o, "unary.applications", log);  // std::transform does not fix the order
      }
      {  // binary, non commutative, recording
        std::vector<std::pair<U, U>> log;
        Guarded<U> g(0xdeadbeefu);
        o.put("binary.return", transform<N>::exe(d.a.data(), d.b.data(), g.out(), Rec2<NonCommutative>{&log, {}}) - g.out());
        putBuf(o, "binary.output", g);
        putSorted(o, "binary.applications", log);
      }
      {  // in place (result == first1, allowed by std::transform), forward iterators, strings
        bool bad = false;
        std::string dummy;
        auto x = d.sa, y = d.sb;
        o.put("inplace.return", transform<N>::exe(checked(x.data(), N, bad, dummy), checked(y.data(), N, bad, dummy),
                                                  checked(x.data(), N, bad, dummy), TagConcat{})
                                    .pos);
        o.flag("inplace.out_of_range_access", bad);
        putArr(o, "inplace.output", x);
      }
    }
  };
  void transformExpected(unsigned n, const Data& d, Obs& o) {
    {
      std::vector<U> log;
      Guarded<U> g(0xdeadbeefu);
      std::transform(d.a.data(), d.a.data() + n, g.out(), Rec1{&log});
      o.put("unary.return", n);
      putBuf(o, "unary.output", g);
      putSorted(o, "unary.applications", log);
    }
    {
      std::vector<std::pair<U, U>> log;
      Guarded<U> g(0xdeadbeefu);
      std::transform(d.a.data(), d.a.data() + n, d.b.data(), g.out(), Rec2<NonCommutative>{&log, {}});
      o.put("binary.return", n);
      putBuf(o, "binary.output", g);
      putSorted(o, "binary.applications", log);
    }
    {
      auto x = d.sa;
      std::transform(x.data(), x.data() + n, d.sb.data(), x.data(), TagConcat{});
      o.put("inplace.return", n);
      o.flag("inplace.out_of_range_access", false);
      putArr(o, "inplace.output", x);
    }
  }

  // ---------------------------------------------------------------- accumulate
  template <unsigned N>
  struct Accumulate {
    static void run(const Data& d, Obs& o) {
      using tfel::fsalgo::accumulate;
      o.put("plus", static_cast<long long>(accumulate<N>::exe(d.a.data(), d.init)));
      o.put("plus_double", accumulate<N>::exe(d.da.data(), 0.5));
      std::vector<std::pair<U, U>> log;
      o.put("op", static_cast<long long>(accumulate<N>::exe(d.a.data(), d.init, Rec2<NonCommutative>{&log, {}})));
      putVec(o, "op.calls", log);
      bool bad = false;
      std::string dummy;
      auto x = d.sa;
      o.put("op_string", accumulate<N>::exe(checked(x.data(), N, bad, dummy), std::string("i"), TagConcat{}));
      o.flag("op_string.out_of_range_access", bad);
    }
  };
  void accumulateExpected(unsigned n, const Data& d, Obs& o) {
    o.put("plus", static_cast<long long>(std::accumulate(d.a.data(), d.a.data() + n, d.init)));
    o.put("plus_double", std::accumulate(d.da.data(), d.da.data() + n, 0.5));
    // documented operand order: op(element, accumulator)
    std::vector<std::pair<U, U>> log;
    const Rec2<NonCommutative> f{&log, {}};
    o.put("op", static_cast<long long>(
                    std::accumulate(d.a.data(), d.a.data() + n, d.init, [&f](U acc, U x) { return f(x, acc); })));
    putVec(o, "op.calls", log);
    o.put("op_string", std::accumulate(d.sa.data(), d.sa.data() + n, std::string("i"),
                                       [](const std::string& acc, const std::string& s) { return TagConcat{}(s, acc); }));
    o.flag("op_string.out_of_range_access", false);
  }

  //! operator+ version on a type whose + is not commutative: documented as init + sum_i *(p+i)
  template <unsigned N>
  struct AccumulatePlusString {
    static void run(const Data& d, Obs& o) {
      o.put("plus_noncommutative", tfel::fsalgo::accumulate<N>::exe(d.sa.data(), std::string("i")));
    }
  };
  void accumulatePlusStringExpected(unsigned n, const Data& d, Obs& o) {
    o.put("plus_noncommutative", std::accumulate(d.sa.data(), d.sa.data() + n, std::string("i")));
  }

  // ---------------------------------------------------------------- inner_product
  template <unsigned N>
  struct InnerProduct {
    static void run(const Data& d, Obs& o) {
      using tfel::fsalgo::inner_product;
      o.put("plain", static_cast<long long>(inner_product<N>::exe(d.a.data(), d.b.data(), d.init)));
      o.put("plain_double", inner_product<N>::exe(d.da.data(), d.db.data(), 0.5));
      std::vector<std::pair<U, U>> l1, l2;
      o.put("ops", static_cast<long long>(inner_product<N>::exe(d.a.data(), d.b.data(), d.init, Rec2<NonCommutative>{&l1, {}},
                                                                Rec2<NonCommutative2>{&l2, {}})));
      putVec(o, "ops.calls_op1", l1);
      putVec(o, "ops.calls_op2", l2);
      bool bad = false;
      std::string dummy;
      auto x = d.sa, y = d.sb;
      o.put("ops_string", inner_product<N>::exe(checked(x.data(), N, bad, dummy), checked(y.data(), N, bad, dummy),
                                                std::string("i"), TagConcat{}, TagMul{}));
      o.flag("ops_string.out_of_range_access", bad);
      o.put("noinit", static_cast<long long>(inner_product<N>::template exe<U>(d.a.data(), d.b.data())));
      // numerical value only: the documented plain sum keeps the sign of a -0. product, 0. + (-0.) does not
      o.put("noinit_double", inner_product<N>::template exe<double>(d.da.data(), d.db.data()) + 0.);
    }
  };
  void innerProductExpected(unsigned n, const Data& d, Obs& o) {
    o.put("plain", static_cast<long long>(std::inner_product(d.a.data(), d.a.data() + n, d.b.data(), d.init)));
    o.put("plain_double", std::inner_product(d.da.data(), d.da.data() + n, d.db.data(), 0.5));
    std::vector<std::pair<U, U>> l1, l2;
    o.put("ops", static_cast<long long>(std::inner_product(d.a.data(), d.a.data() + n, d.b.data(), d.init,
                                                           Rec2<NonCommutative>{&l1, {}}, Rec2<NonCommutative2>{&l2, {}})));
    putVec(o, "ops.calls_op1", l1);
    putVec(o, "ops.calls_op2", l2);
    o.put("ops_string",
          std::inner_product(d.sa.data(), d.sa.data() + n, d.sb.data(), std::string("i"), TagConcat{}, TagMul{}));
    o.flag("ops_string.out_of_range_access", false);
    o.put("noinit", static_cast<long long>(std::inner_product(d.a.data(), d.a.data() + n, d.b.data(), U{})));
    o.put("noinit_double", std::inner_product(d.da.data(), d.da.data() + n, d.db.data(), 0.) + 0.);
  }

  // ---------------------------------------------------------------- equal
  //! positions of the single difference between the two ranges (>= n: none among the first n)
  std::array<unsigned, 5> diffPositions(unsigned n) { return {{0u, n / 2, n > 0 ? n - 1 : 0u, n, NMAX}}; }
  bool absEq(U p, U q) { return AbsLess::ab(p) == AbsLess::ab(q); }
  //! at most n applications, the i-th one on (x[i], y[i])
  bool predicateLogOK(const std::vector<std::pair<U, U>>& log, const U* x, const U* y, unsigned n) {
    if (log.size() > n) return false;
    for (std::size_t i = 0; i < log.size(); ++i)
      if (log[i] != std::make_pair(x[i], y[i])) return false;
    return true;
  }
  template <unsigned N>
  struct Equal {
    static void run(const Data& d, Obs& o) {
      using tfel::fsalgo::equal;
      for (const unsigned k : diffPositions(N)) {
        auto x = d.a, y = d.a;
        y[k] = y[k] + 1u;
        bool bad = false;
        U dummy = 0;
        o.flag("plain", equal<N>::exe(x.data(), y.data()));
        o.flag("forward", equal<N>::exe(checked(x.data(), N, bad, dummy), checked(y.data(), N, bad, dummy)));
        o.flag("forward.out_of_range_access", bad);
        std::vector<std::pair<U, U>> log;
        o.flag("predicate", equal<N>::exe(x.data(), y.data(), [&log](U p, U q) {
          log.push_back({p, q});
          return absEq(p, q);
        }));
        o.flag("predicate.applications_ok", predicateLogOK(log, x.data(), y.data(), N));
      }
    }
  };
  void equalExpected(unsigned n, const Data& d, Obs& o) {
    for (const unsigned k : diffPositions(n)) {
      auto x = d.a, y = d.a;
      y[k] = y[k] + 1u;
      const bool e = std::equal(x.data(), x.data() + n, y.data());
      o.flag("plain", e);
      o.flag("forward", e);
      o.flag("forward.out_of_range_access", false);
      o.flag("predicate", std::equal(x.data(), x.data() + n, y.data(), absEq));
      o.flag("predicate.applications_ok", true);
    }
  }

  // ---------------------------------------------------------------- for_each
  struct Sum {  // stateful functor
    U s = 1;
    void operator()(U x) { s = s * 31u + x; }
  };
  template <unsigned N>
  struct ForEach {
    static void run(const Data& d, Obs& o) {
      std::vector<U> log;
      auto f = [&log](const U& x) { log.push_back(x); };
      tfel::fsalgo::for_each<N>::exe(d.a.data(), f);
      putVec(o, "calls", log);
      Sum s;  // taken by reference: the state is visible to the caller
      bool bad = false;
      U dummy = 0;
      auto x = d.a;
      tfel::fsalgo::for_each<N>::exe(checked(x.data(), N, bad, dummy), s);
      o.put("state", static_cast<long long>(s.s));
      o.flag("out_of_range_access", bad);
    }
  };
  void forEachExpected(unsigned n, const Data& d, Obs& o) {
    std::vector<U> log;
    std::for_each(d.a.data(), d.a.data() + n, [&log](const U& x) { log.push_back(x); });
    putVec(o, "calls", log);
    o.put("state", static_cast<long long>(std::for_each(d.a.data(), d.a.data() + n, Sum{}).s));
    o.flag("out_of_range_access", false);
  }

  // ---------------------------------------------------------------- generate
  struct Counter {  // by-value state
    U s;
    U operator()() { return s = s * 31u + 7u; }
  };
  template <unsigned N>
  struct Generate {
    static void run(const Data& d, Obs& o) {
      Guarded<U> g(0xdeadbeefu);
      tfel::fsalgo::generate<N>::exe(g.out(), Counter{d.init});
      putBuf(o, "values", g);
      unsigned calls = 0;
      Guarded<U> g2(0xdeadbeefu);
      bool bad = false;
      U dummy = 0;
      tfel::fsalgo::generate<N>::exe(checked(g2.out(), N, bad, dummy), [&calls] { return 100u + calls++; });
      o.put("calls", static_cast<long long>(calls));
      o.flag("out_of_range_access", bad);
      putBuf(o, "values_in_call_order", g2);
    }
  };
  void generateExpected(unsigned n, const Data& d, Obs& o) {
    Guarded<U> g(0xdeadbeefu);
    std::generate(g.out(), g.out() + n, Counter{d.init});
    putBuf(o, "values", g);
    unsigned calls = 0;
    Guarded<U> g2(0xdeadbeefu);
    std::generate(g2.out(), g2.out() + n, [&calls] { return 100u + calls++; });
    o.put("calls", static_cast<long long>(calls));
    o.flag("out_of_range_access", false);
    putBuf(o, "values_in_call_order", g2);
  }

  // ---------------------------------------------------------------- iota
  template <unsigned N>
  struct Iota {
    static void run(const Data& d, Obs& o) {
      Guarded<U> g(0xdeadbeefu);
      tfel::fsalgo::iota<N>::exe(g.out(), d.init);
      putBuf(o, "unsigned", g);
      Guarded<double> gd(-777.25);
      tfel::fsalgo::iota<N>::exe(gd.out(), d.da[0]);
      putBuf(o, "double", gd);
      Guarded<unsigned short> gs(0xbeef);  // TinyPermutation uses iota on index types
      tfel::fsalgo::iota<N>::exe(gs.out(), static_cast<unsigned short>(d.init & 0xff));
      putBuf(o, "ushort", gs);
    }
  };
  void iotaExpected(unsigned n, const Data& d, Obs& o) {
    Guarded<U> g(0xdeadbeefu);
    std::iota(g.out(), g.out() + n, d.init);
    putBuf(o, "unsigned", g);
    Guarded<double> gd(-777.25);
    std::iota(gd.out(), gd.out() + n, d.da[0]);
    putBuf(o, "double", gd);
    Guarded<unsigned short> gs(0xbeef);
    std::iota(gs.out(), gs.out() + n, static_cast<unsigned short>(d.init & 0xff));
    putBuf(o, "ushort", gs);
  }

  // ---------------------------------------------------------------- min_element / max_element
  std::array<int, NMAX + 1> signedValues(const Data& d) {
    std::array<int, NMAX + 1> s;
    for (unsigned i = 0; i <= NMAX; ++i) s[i] = static_cast<int>(d.a[i]);
    return s;
  }
  //! doubles with -0. / +0. ties
  std::array<double, NMAX + 1> doubleValues(const Data& d, unsigned n) {
    auto x = d.da;
    if (n > 2) {
      x[n / 2] = -0.;
      x[n - 1] = 0.;
    }
    return x;
  }
  template <unsigned N>
  struct MinMax {
    template <typename C>
    static void withComp(const Data& d, Obs& o, const std::string& name) {
      const U* const p = d.a.data();
      std::vector<std::pair<U, U>> l1, l2;
      o.put("min_element.comp_" + name, tfel::fsalgo::min_element<N>::exe(p, RecCmp<C>{&l1, {}}) - p);
      o.put("min_element.comp_" + name + ".comparisons", static_cast<long long>(l1.size()));
      o.put("max_element.comp_" + name, tfel::fsalgo::max_element<N>::exe(p, RecCmp<C>{&l2, {}}) - p);
      o.put("max_element.comp_" + name + ".comparisons", static_cast<long long>(l2.size()));
    }
    static void run(const Data& d, Obs& o) {
      using tfel::fsalgo::max_element;
      using tfel::fsalgo::min_element;
      const auto s = signedValues(d);
      o.put("min_element.plain", min_element<N>::exe(s.data()) - s.data());
      o.put("max_element.plain", max_element<N>::exe(s.data()) - s.data());
      bool bad = false;
      double dummy = 0;
      auto x = doubleValues(d, N);
      o.put("min_element.double_forward", min_element<N>::exe(checked(x.data(), N, bad, dummy)).pos);
      o.put("max_element.double_forward", max_element<N>::exe(checked(x.data(), N, bad, dummy)).pos);
      o.flag("minmax_element.out_of_range_access", bad);
      withComp<Less>(d, o, "less");
      withComp<Greater>(d, o, "greater");
      withComp<AbsLess>(d, o, "absless");
      withComp<AbsGreater>(d, o, "absgreater");
    }
  };
  template <typename C>
  void minMaxExpectedWithComp(unsigned n, const Data& d, Obs& o, const std::string& name) {
    const U* const p = d.a.data();
    const long long ncmp = n > 0 ? n - 1 : 0;  // exactly max(N-1,0) comparisons
    o.put("min_element.comp_" + name, std::min_element(p, p + n, C{}) - p);
    o.put("min_element.comp_" + name + ".comparisons", ncmp);
    // comp(candidate, best) replaces: std::max_element with the arguments of comp flipped
    o.put("max_element.comp_" + name, std::max_element(p, p + n, Flip<C>{}) - p);
    o.put("max_element.comp_" + name + ".comparisons", ncmp);
  }
  void minMaxExpected(unsigned n, const Data& d, Obs& o) {
    const auto s = signedValues(d);
    o.put("min_element.plain", std::min_element(s.data(), s.data() + n) - s.data());
    o.put("max_element.plain", std::max_element(s.data(), s.data() + n) - s.data());
    const auto x = doubleValues(d, n);
    o.put("min_element.double_forward", std::min_element(x.data(), x.data() + n) - x.data());
    o.put("max_element.double_forward", std::max_element(x.data(), x.data() + n) - x.data());
    o.flag("minmax_element.out_of_range_access", false);
    minMaxExpectedWithComp<Less>(n, d, o, "less");
    minMaxExpectedWithComp<Greater>(n, d, o, "greater");
    minMaxExpectedWithComp<AbsLess>(n, d, o, "absless");
    minMaxExpectedWithComp<AbsGreater>(n, d, o, "absgreater");
  }

  // ---------------------------------------------------------------- swap_ranges
  template <unsigned N>
  struct SwapRanges {
    static void run(const Data& d, Obs& o) {
      Guarded<U> g1(0xdeadbeefu), g2(0xfeedf00du);
      std::copy(d.a.data(), d.a.data() + N, g1.out());
      std::copy(d.b.data(), d.b.data() + N, g2.out());
      o.put("ptr.return", tfel::fsalgo::swap_ranges<N>::exe(g1.out(), g2.out()) - g2.out());
      putBuf(o, "ptr.range1", g1);
      putBuf(o, "ptr.range2", g2);
      bool bad = false;
      std::string dummy;
      auto x = d.sa, y = d.sb;
      o.put("forward.return",
            tfel::fsalgo::swap_ranges<N>::exe(checked(x.data(), N, bad, dummy), checked(y.data(), N, bad, dummy)).pos);
      o.flag("forward.out_of_range_access", bad);
      putArr(o, "forward.range1", x);
      putArr(o, "forward.range2", y);
    }
  };
  void swapRangesExpected(unsigned n, const Data& d, Obs& o) {
    Guarded<U> g1(0xdeadbeefu), g2(0xfeedf00du);
    std::copy(d.a.data(), d.a.data() + n, g1.out());
    std::copy(d.b.data(), d.b.data() + n, g2.out());
    o.put("ptr.return", std::swap_ranges(g1.out(), g1.out() + n, g2.out()) - g2.out());
    putBuf(o, "ptr.range1", g1);
    putBuf(o, "ptr.range2", g2);
    auto x = d.sa, y = d.sb;
    o.put("forward.return", std::swap_ranges(x.data(), x.data() + n, y.data()) - y.data());
    o.flag("forward.out_of_range_access", false);
    putArr(o, "forward.range1", x);
    putArr(o, "forward.range2", y);
  }

  // ---------------------------------------------------------------- dispatch over N = 0..64
  using Fn = void (*)(const Data&, Obs&);
  using Oracle = void (*)(unsigned, const Data&, Obs&);
  template <template <unsigned> class A, std::size_t... I>
  constexpr std::array<Fn, sizeof...(I)> makeTable(std::index_sequence<I...>) {
    return {{&A<static_cast<unsigned>(I)>::run...}};
  }
  /*!
   * runs the case for every N in 0..64; the first differing observable of the
   * smallest failing N is reported under the key C18.<algo>.<observable>
   */
  template <template <unsigned> class A>
  void forAllN(verif::Case& c, const Data& d, Oracle oracle, const std::string& algo, bool nontrivial) {
    static constexpr auto table = makeTable<A>(std::make_index_sequence<NMAX + 1>{});
    static_assert(table.size() == 65);
    c.nontrivial(nontrivial);
    for (unsigned n = 0; n <= NMAX; ++n) {
      Obs got, exp;
      table[n](d, got);
      oracle(n, d, exp);
      c.check(got.items.size() == exp.items.size(), "C18.harness", "harness error: observables lists differ in size");
      for (std::size_t i = 0; i < got.items.size(); ++i) {
        c.check(got.items[i].first == exp.items[i].first, "C18.harness", "harness error: observables lists differ");
        if (got.items[i].second != exp.items[i].second) {
          const bool prefixed = got.items[i].first.rfind("min_element", 0) == 0 || got.items[i].first.rfind("max_element", 0) == 0 ||
                                got.items[i].first.rfind("minmax_element", 0) == 0;
          c.check(false, "C18." + (prefixed ? std::string() : algo + ".") + got.items[i].first,
                  "N=" + std::to_string(n) + ": " + got.items[i].first + ": fsalgo gives [" + got.items[i].second +
                      "], std:: counterpart gives [" + exp.items[i].second + "]");
        }
      }
    }
  }

}  // namespace

/*
 * The harness is compiled as four units (same source, -DC18_PART=1..4) so that
 * the 65 x ~40 instantiations are built in parallel by the driver.
 */
#ifndef C18_PART
#error "C18_PART must be defined (1..4)"
#endif
#define C18_STR2(X) #X
#define C18_STR(X) C18_STR2(X)

#if C18_PART == 1
VERIF_SUB(copy) { forAllN<Copy>(c, draw(c), copyExpected, "copy", true); }
VERIF_SUB(fill) { forAllN<Fill>(c, draw(c), fillExpected, "fill", true); }
VERIF_SUB(iota) { forAllN<Iota>(c, draw(c), iotaExpected, "iota", true); }
VERIF_SUB(swap_ranges) { forAllN<SwapRanges>(c, draw(c), swapRangesExpected, "swap_ranges", true); }
#elif C18_PART == 2
VERIF_SUB(transform) { forAllN<Transform>(c, draw(c), transformExpected, "transform", true); }
VERIF_SUB(equal) { forAllN<Equal>(c, draw(c), equalExpected, "equal", true); }
VERIF_SUB(for_each) { forAllN<ForEach>(c, draw(c), forEachExpected, "for_each", true); }
VERIF_SUB(generate) { forAllN<Generate>(c, draw(c), generateExpected, "generate", true); }
#elif C18_PART == 3
VERIF_SUB(accumulate) { forAllN<Accumulate>(c, draw(c), accumulateExpected, "accumulate", true); }
VERIF_SUB(accumulate_plus_noncommutative) {
  forAllN<AccumulatePlusString>(c, draw(c), accumulatePlusStringExpected, "accumulate", true);
}
VERIF_SUB(inner_product) { forAllN<InnerProduct>(c, draw(c), innerProductExpected, "inner_product", true); }
#elif C18_PART == 4
VERIF_SUB(minmax_element) {
  const Data d = draw(c);
  c.tag(d.ties ? "ties" : "no_ties");
  forAllN<MinMax>(c, d, minMaxExpected, "minmax_element", d.ties);
}
#endif

VERIF_MAIN("C18_fsalgo" C18_STR(C18_PART))
