/*!
 * C19 - Kriging interpolants reproduce their training data.
 *
 * Statement: for every set of distinct sample points in 1D/2D/3D with values,
 * Kriging / FactorizedKriging (and KrigedFunction in the evaluator) built
 * without a nugget return the training value at each training point, up to a
 * conditioning-dependent multiple of machine precision.
 *
 * Oracle: the training values themselves.  The tolerance is the residual bound
 * of the dual-kriging linear system, which the harness assembles
 * INDEPENDENTLY in long double from the documented covariances and drifts
 *   default 1D : cov |h|^3,            drifts 1, x
 *   default 2D : cov 1/2 h^2 log h^2,  drifts 1, x, y
 *   default 3D : cov |h|,              drifts 1, x, y, z
 *   piecewise linear 1D : cov |h|,     drift  1
 *   factorized : cov1(h1)*cov2(h2), drifts of model 1 then of model 2 (the
 *                adaptor drops the constant drift of model 2)
 * and solves with ref::solve (full pivoting):  M a = (f,0).
 * The interpolant at x_i is row i of M times the computed coefficients, i.e.
 * f_i minus the residual of the LU solve; Gaussian elimination with partial
 * pivoting is backward stable, |r_i| <= c (n+nb) u max|M| ||a||_1 (growth
 * factor aside), and ||a|| <= cond(M) ||f|| / ||M||: the bound is the
 * "conditioning-dependent multiple of machine precision" of the statement.
 *   threshold = KK * u * (n+nb) * max|M| * ||a_ref||_1 + KK * u * |f_i|
 * Sets whose reference matrix has cond_inf > 1e10 (or is singular: collinear
 * points, degenerate factorized designs) are discarded and counted; for
 * cond <= 1e8 the absolute cap 1e-6 max|f| of DESIGN.md is checked too.
 * The wrappers Kriging1D/2D/3D and FactorizedKriging1D1D/1D2D/1D3D normalise
 * every coordinate to [0,1] ((x-min)/(max-min), KrigingUtilities::normalize);
 * the reference matrix is assembled on the normalised coordinates.
 *
 * Non-trivial: >= 5 points, not collinear in 2D/3D (collinear sets are
 * singular and discarded anyway).
 */
#include "verif.hxx"
#include "refmath.hxx"
#include <memory>
#include <vector>
#include "TFEL/Math/Kriging.hxx"
#include "TFEL/Math/Kriging1D.hxx"
#include "TFEL/Math/Kriging2D.hxx"
#include "TFEL/Math/Kriging3D.hxx"
#include "TFEL/Math/FactorizedKriging.hxx"
#include "TFEL/Math/FactorizedKriging1D1D.hxx"
#include "TFEL/Math/FactorizedKriging1D2D.hxx"
#include "TFEL/Math/FactorizedKriging1D3D.hxx"
#include "TFEL/Math/Evaluator.hxx"
#include "TFEL/Math/Parser/ExternalFunctionManager.hxx"
#include "TFEL/Math/Parser/KrigedFunction.hxx"
#include "TFEL/Math/LU/LUException.hxx"

using ref::R;
using ref::Vec;

namespace {

  constexpr R u = 2.220446049250313e-16L;
  constexpr R KK = 2048;

  using Pt = std::array<double, 3>;

  enum Cov { CUBIC1D, TPS2D, LIN3D, ABS1D };

  R cov(const Cov k, const int dim, const Pt& a, const Pt& b) {
    R h2 = 0;
    for (int i = 0; i < dim; ++i) h2 += (R(a[i]) - R(b[i])) * (R(a[i]) - R(b[i]));
    switch (k) {
      case CUBIC1D: return h2 * std::sqrt(h2);
      case TPS2D: return h2 == 0 ? 0 : R(0.5) * h2 * std::log(h2);
      case LIN3D: return std::sqrt(h2);
      default: return std::sqrt(h2);
    }
  }
  Cov defaultCov(const int dim) { return dim == 1 ? CUBIC1D : (dim == 2 ? TPS2D : LIN3D); }

  //! condition number (infinity norm) through an LU factorisation with partial pivoting
  R condInf(const int n, const Vec& A) {
    Vec lu = A;
    std::vector<int> piv(n);
    for (int k = 0; k < n; ++k) {
      int p = k;
      for (int i = k + 1; i < n; ++i)
        if (std::fabs(lu[i * n + k]) > std::fabs(lu[p * n + k])) p = i;
      piv[k] = p;
      if (lu[p * n + k] == 0) return INFINITY;
      if (p != k)
        for (int j = 0; j < n; ++j) std::swap(lu[k * n + j], lu[p * n + j]);
      for (int i = k + 1; i < n; ++i) {
        const R f = lu[i * n + k] / lu[k * n + k];
        lu[i * n + k] = f;
        for (int j = k + 1; j < n; ++j) lu[i * n + j] -= f * lu[k * n + j];
      }
    }
    Vec inv(static_cast<std::size_t>(n) * n, 0);
    Vec e(n);
    for (int c = 0; c < n; ++c) {
      for (int i = 0; i < n; ++i) e[i] = i == c ? 1 : 0;
      for (int k = 0; k < n; ++k) {
        std::swap(e[k], e[piv[k]]);
        for (int i = k + 1; i < n; ++i) e[i] -= lu[i * n + k] * e[k];
      }
      for (int i = n - 1; i >= 0; --i) {
        R s = e[i];
        for (int j = i + 1; j < n; ++j) s -= lu[i * n + j] * e[j];
        e[i] = s / lu[i * n + i];
      }
      for (int i = 0; i < n; ++i) inv[i * n + c] = e[i];
    }
    return ref::matNormInf(n, A) * ref::matNormInf(n, inv);
  }

  struct Design {
    int n = 0;
    int dim1 = 1, dim2 = 0;     // dim2 > 0: factorized
    std::vector<Pt> p1, p2;     // coordinates seen by the model(s)
    std::vector<double> f;
  };

  struct Oracle {
    R tolScale = 0;  // (n+nb) max|M| ||a||_1
    R cond = 0;
    R fmax = 0;
  };

  /*!
   * assemble the dual kriging matrix, solve, estimate the conditioning.
   * drifts: model 1 -> {1, coordinates of p1} (first_const1) ; model 2 -> coordinates of p2
   */
  Oracle oracle(verif::Case& c, const Design& d, const Cov k1, const bool const1, const bool lin1,
                const Cov k2) {
    const int n = d.n;
    const int nb1 = (const1 ? 1 : 0) + (lin1 ? d.dim1 : 0);
    const int nb2 = d.dim2;  // the adaptor keeps the coordinate drifts only
    const int m = n + nb1 + nb2;
    Vec M(static_cast<std::size_t>(m) * m, 0), b(m, 0), a;
    for (int i = 0; i < n; ++i) {
      for (int j = 0; j < i; ++j) {
        R v = cov(k1, d.dim1, d.p1[i], d.p1[j]);
        if (d.dim2 > 0) v *= cov(k2, d.dim2, d.p2[i], d.p2[j]);
        M[i * m + j] = M[j * m + i] = v;
      }
      int col = n;
      if (const1) {
        M[i * m + col] = M[col * m + i] = 1;
        ++col;
      }
      if (lin1)
        for (int k = 0; k < d.dim1; ++k, ++col) M[i * m + col] = M[col * m + i] = d.p1[i][k];
      for (int k = 0; k < d.dim2; ++k, ++col) M[i * m + col] = M[col * m + i] = d.p2[i][k];
      b[i] = d.f[i];
    }
    Oracle o;
    if (!ref::solve(m, M, b, a)) {
      c.tag("discard.singular");
      c.discard();
    }
    o.cond = condInf(m, M);
    if (!(o.cond <= 1e10L)) {
      c.tag("discard.ill_conditioned");
      c.discard();
    }
    R mx = 0, a1 = 0;
    for (auto v : M) mx = std::max(mx, std::fabs(v));
    for (auto v : a) a1 += std::fabs(v);
    for (auto v : d.f) o.fmax = std::max(o.fmax, std::fabs(R(v)));
    o.tolScale = R(m) * mx * a1;
    const int dec = o.cond < 1e2L ? 2 : (o.cond < 1e4L ? 4 : (o.cond < 1e6L ? 6 : (o.cond < 1e8L ? 8 : 10)));
    c.tag("cond.le1e" + std::to_string(dec));
    return o;
  }

  void checkPoint(verif::Case& c, const Oracle& o, const double got, const double expected, const std::string& key,
                  const std::string& what) {
    const R tol = KK * u * (o.tolScale + std::fabs(R(expected))) + 1e-300L;
    c.close(got, expected, tol, key, what);
    if (o.cond <= 1e8L)
      c.check(std::fabs(R(got) - R(expected)) <= 1e-6L * o.fmax + 1e-300L, key + ".cap",
              what + ": error above 1e-6 max|f| although cond <= 1e8");
  }

  // ---------------------------------------------------------------- generators
  //! n points of [0,1]^dim, pairwise distance >= dmin (greedy insertion or jittered lattice)
  std::vector<Pt> genUnitPoints(verif::Case& c, const int dim, const int n) {
    std::vector<Pt> pts;
    const auto kind = c.pick(3, "layout");
    if (dim == 1 && kind == 0) {
      c.tag("layout.sorted_increments");
      std::vector<double> h(n);
      double L = 0;
      for (auto& e : h) {
        e = c.log10real(0, 2, "h");
        L += e;
      }
      double acc = 0;
      for (int i = 0; i < n; ++i) {
        pts.push_back({acc / L, 0, 0});
        acc += h[i];
      }
      return pts;
    }
    if (kind == 1) {
      c.tag("layout.jittered_lattice");
      int m = 1;
      while (std::pow(m, dim) < 2 * n) ++m;
      const double jit = c.chance(1, 4, "no_jitter") ? 0. : 0.3;
      std::vector<int> used;
      for (int tries = 0; tries < 6 * n && static_cast<int>(pts.size()) < n; ++tries) {
        int cell = static_cast<int>(c.integer(0, static_cast<int>(std::pow(m, dim)) - 1, "cell"));
        if (std::find(used.begin(), used.end(), cell) != used.end()) continue;
        used.push_back(cell);
        Pt p{0, 0, 0};
        for (int k = 0; k < dim; ++k) {
          const int ck = cell % m;
          cell /= m;
          p[k] = (ck + 0.5 + (jit > 0 ? c.sreal(jit, "jitter") : 0.)) / m;
        }
        pts.push_back(p);
      }
      return pts;
    }
    c.tag("layout.greedy_random");
    const double dmin = c.log10real(-3, -1, "dmin") * std::sqrt(static_cast<double>(dim));
    for (int tries = 0; tries < 4 * n && static_cast<int>(pts.size()) < n; ++tries) {
      Pt p{0, 0, 0};
      for (int k = 0; k < dim; ++k) p[k] = c.real(0, 1, "coord");
      bool ok = true;
      for (const auto& q : pts) {
        double h2 = 0;
        for (int k = 0; k < dim; ++k) h2 += (p[k] - q[k]) * (p[k] - q[k]);
        ok = ok && h2 >= dmin * dmin;
      }
      if (ok) pts.push_back(p);
    }
    return pts;
  }

  //! affine map of unit points: scale and offset per property design
  void place(verif::Case& c, std::vector<Pt>& pts, const int dim, const bool wide) {
    double s = 1;
    const auto sc = c.pick(wide ? 3 : 6, "scale_class");
    if (sc == 1) s = c.log10real(-1, 1, "scale");
    if (sc == 2) s = c.log10real(-3, 3, "scale");
    if (s != 1) c.tag("coords.scaled");
    for (int k = 0; k < dim; ++k) {
      const double off = c.chance(1, 2, "no_offset") ? 0. : c.sreal((wide ? 10 : 2) * s, "offset");
      for (auto& p : pts) p[k] = off + s * p[k];
    }
  }

  std::vector<double> genValues(verif::Case& c, const std::vector<Pt>& x, const std::vector<Pt>* x2 = nullptr) {
    const auto n = x.size();
    std::vector<double> f(n);
    const double ys = c.chance(1, 3, "unit_yscale") ? 1. : c.log10real(-3, 3, "yscale");
    const double off = c.chance(1, 2, "no_yoffset") ? 0. : c.sreal(10 * ys, "yoffset");
    const double noise = c.chance(1, 2, "no_noise") ? 0. : c.log10real(-3, 0, "noise");
    const auto kind = c.pick(3, "f_kind");
    // reduced coordinates for the smooth part (so that scales do not matter)
    Pt lo{1e300, 1e300, 1e300}, hi{-1e300, -1e300, -1e300};
    for (const auto& p : x)
      for (int k = 0; k < 3; ++k) {
        lo[k] = std::min(lo[k], p[k]);
        hi[k] = std::max(hi[k], p[k]);
      }
    for (std::size_t i = 0; i < n; ++i) {
      double r[3];
      for (int k = 0; k < 3; ++k) r[k] = hi[k] > lo[k] ? (x[i][k] - lo[k]) / (hi[k] - lo[k]) : 0.;
      const double t = x2 != nullptr ? (*x2)[i][0] : 0.;
      double v = 0;
      switch (kind) {
        case 0: v = std::cos(r[0] + r[1] + t) * std::exp(r[0] - r[2]); break;
        case 1: v = 1 + r[0] - 2 * r[1] + 0.5 * r[2] + r[0] * r[1] + t; break;
        default: v = 0; break;
      }
      f[i] = off + ys * (v + (noise > 0 || kind == 2 ? (kind == 2 ? 1. : noise) * c.sreal(1, "eta") : 0.));
    }
    return f;
  }

  int genCount(verif::Case& c, const int nmin) {
    int n;
    switch (c.pick(4, "n_class")) {
      case 0: n = nmin; break;
      case 1: n = static_cast<int>(c.integer(nmin, 8, "n")); break;
      case 2: n = static_cast<int>(c.integer(9, 40, "n")); break;
      default: n = static_cast<int>(c.integer(5, 20, "n")); break;
    }
    return std::max(n, nmin);
  }

  bool collinear(const std::vector<Pt>& p, const int dim) {
    if (dim == 1) return false;
    // rank of the centred coordinates < dim  (checked through the Gram determinant)
    Vec G(dim * dim, 0);
    Pt m{0, 0, 0};
    for (const auto& q : p)
      for (int k = 0; k < dim; ++k) m[k] += q[k] / p.size();
    for (const auto& q : p)
      for (int i = 0; i < dim; ++i)
        for (int j = 0; j < dim; ++j) G[i * dim + j] += (R(q[i]) - m[i]) * (R(q[j]) - m[j]);
    R tr = 0;
    for (int i = 0; i < dim; ++i) tr += G[i * dim + i];
    return !(std::fabs(ref::detN(dim, G)) > 1e-12L * std::pow(tr / dim, dim));
  }

  template <unsigned short N>
  typename tfel::math::KrigingVariable<N, double>::type toVar(const Pt& p) {
    if constexpr (N == 1) {
      return p[0];
    } else {
      typename tfel::math::KrigingVariable<N, double>::type v;
      for (unsigned short k = 0; k < N; ++k) v(k) = p[k];
      return v;
    }
  }

  //! normalisation documented in KrigingUtilities::normalize, applied like the wrappers do (a*x+b)
  std::vector<Pt> normalised(const std::vector<Pt>& x, const int dim) {
    std::vector<Pt> r = x;
    for (int k = 0; k < dim; ++k) {
      double mn = x[0][k], mx = x[0][k];
      for (const auto& p : x) {
        mn = std::min(mn, p[k]);
        mx = std::max(mx, p[k]);
      }
      const double a = 1 / (mx - mn), b = -mn / (mx - mn);
      for (auto& p : r) p[k] = a * p[k] + b;
    }
    return r;
  }
  std::vector<double> column(const std::vector<Pt>& x, const int k) {
    std::vector<double> r;
    for (const auto& p : x) r.push_back(p[k]);
    return r;
  }
  tfel::math::vector<double> tv(const std::vector<double>& v) {
    tfel::math::vector<double> r;
    for (auto e : v) r.push_back(e);
    return r;
  }

  // ---------------------------------------------------------------- Kriging<N>, KrigedFunction<N>
  template <unsigned short N>
  void krigingGeneric(verif::Case& c) {
    using namespace tfel::math;
    Design d;
    d.dim1 = N;
    const int n = genCount(c, N + 2);
    d.p1 = genUnitPoints(c, N, n);
    d.n = static_cast<int>(d.p1.size());
    if (d.n < N + 2) c.discard();
    place(c, d.p1, N, false);
    d.f = genValues(c, d.p1);
    const auto o = oracle(c, d, defaultCov(N), true, true, CUBIC1D);
    c.nontrivial(d.n >= 5 && !collinear(d.p1, N));
    const bool through_evaluator = c.chance(1, 3, "through_evaluator");
    if (!through_evaluator) {
      c.tag("class.Kriging<N>");
      Kriging<N> k;
      for (int i = 0; i < d.n; ++i) k.addValue(toVar<N>(d.p1[i]), d.f[i]);
      k.buildInterpolation();
      for (int i = 0; i < d.n; ++i)
        checkPoint(c, o, k(toVar<N>(d.p1[i])), d.f[i], "C19.kriging" + std::to_string(N) + ".reproduction",
                   "Kriging<" + std::to_string(N) + "> at training point " + std::to_string(i) + "/" +
                       std::to_string(d.n));
    } else {
      c.tag("class.KrigedFunction<N>");
      using KF = tfel::math::parser::KrigedFunction<N>;
      std::vector<typename KF::Point> pts;
      for (int i = 0; i < d.n; ++i) pts.push_back({toVar<N>(d.p1[i]), d.f[i]});
      auto manager = std::make_shared<tfel::math::parser::ExternalFunctionManager>();
      (*manager)["k"] = std::make_shared<KF>(pts);
      const std::vector<std::string> vars = N == 1 ? std::vector<std::string>{"x"}
                                                   : (N == 2 ? std::vector<std::string>{"x", "y"}
                                                             : std::vector<std::string>{"x", "y", "z"});
      const std::string formula = N == 1 ? "k(x)" : (N == 2 ? "k(x,y)" : "k(x,y,z)");
      tfel::math::Evaluator ev(vars, formula, manager);
      for (int i = 0; i < d.n; ++i) {
        for (unsigned short k = 0; k < N; ++k) ev.setVariableValue(vars[k], d.p1[i][k]);
        checkPoint(c, o, ev.getValue(), d.f[i], "C19.kriged_function" + std::to_string(N) + ".reproduction",
                   "Evaluator(" + formula + ") at training point " + std::to_string(i) + "/" + std::to_string(d.n));
      }
    }
  }

  // ---------------------------------------------------------------- Kriging1D/2D/3D
  template <int N>
  void krigingWrapper(verif::Case& c) {
    using namespace tfel::math;
    Design d;
    d.dim1 = N;
    const int n = genCount(c, N + 2);
    auto x = genUnitPoints(c, N, n);
    d.n = static_cast<int>(x.size());
    if (d.n < N + 2) c.discard();
    place(c, x, N, true);
    for (int k = 0; k < N; ++k) {
      const auto col = column(x, k);
      if (!(*std::max_element(col.begin(), col.end()) > *std::min_element(col.begin(), col.end()))) c.discard();
    }
    d.p1 = normalised(x, N);
    d.f = genValues(c, x);
    const auto o = oracle(c, d, defaultCov(N), true, true, CUBIC1D);
    c.nontrivial(d.n >= 5 && !collinear(d.p1, N));
    const bool tfelvec = c.boolean("tfel_vector");
    const std::string key = "C19.kriging" + std::to_string(N) + "D_wrapper.reproduction";
    auto msg = [&](int i) { return "Kriging" + std::to_string(N) + "D at training point " + std::to_string(i); };
    if constexpr (N == 1) {
      const auto k = tfelvec ? std::make_unique<Kriging1D>(tv(column(x, 0)), tv(d.f))
                             : std::make_unique<Kriging1D>(column(x, 0), d.f);
      for (int i = 0; i < d.n; ++i) checkPoint(c, o, (*k)(x[i][0]), d.f[i], key, msg(i));
    } else if constexpr (N == 2) {
      const auto k = tfelvec ? std::make_unique<Kriging2D>(tv(column(x, 0)), tv(column(x, 1)), tv(d.f))
                             : std::make_unique<Kriging2D>(column(x, 0), column(x, 1), d.f);
      for (int i = 0; i < d.n; ++i) checkPoint(c, o, (*k)(x[i][0], x[i][1]), d.f[i], key, msg(i));
    } else {
      const auto k =
          tfelvec ? std::make_unique<Kriging3D>(tv(column(x, 0)), tv(column(x, 1)), tv(column(x, 2)), tv(d.f))
                  : std::make_unique<Kriging3D>(column(x, 0), column(x, 1), column(x, 2), d.f);
      for (int i = 0; i < d.n; ++i) checkPoint(c, o, (*k)(x[i][0], x[i][1], x[i][2]), d.f[i], key, msg(i));
    }
  }

  // ---------------------------------------------------------------- factorized kriging
  //! designs (t_i, x_i): tensor grids (time x space, the typical use) or scattered
  void genFactorizedDesign(verif::Case& c, const int M, std::vector<Pt>& t, std::vector<Pt>& x, const int nmin) {
    if (c.boolean("tensor_grid")) {
      c.tag("design.tensor_grid");
      const int nt = static_cast<int>(c.integer(2, 6, "nt"));
      const int nx = std::max(M + 2, static_cast<int>(c.integer(M + 2, 40 / nt, "nx")));
      const auto tt = genUnitPoints(c, 1, nt);
      const auto xx = genUnitPoints(c, M, nx);
      for (const auto& a : tt)
        for (const auto& b : xx) {
          t.push_back(a);
          x.push_back(b);
        }
    } else {
      c.tag("design.scattered");
      const int n = genCount(c, nmin);
      t = genUnitPoints(c, 1, n);
      x = genUnitPoints(c, M, n);
      const auto m = std::min(t.size(), x.size());
      t.resize(m);
      x.resize(m);
    }
  }

  template <unsigned short M>
  void factorizedGeneric(verif::Case& c) {
    using namespace tfel::math;
    Design d;
    d.dim1 = 1;
    d.dim2 = M;
    genFactorizedDesign(c, M, d.p1, d.p2, M + 4);
    d.n = static_cast<int>(d.p1.size());
    if (d.n < M + 4) c.discard();
    place(c, d.p1, 1, false);
    place(c, d.p2, M, false);
    d.f = genValues(c, d.p2, &d.p1);
    // default template arguments: model 1 = default 1D (cubic, drifts 1,x), model 2 = adaptor(default MD)
    const auto o = oracle(c, d, CUBIC1D, true, true, defaultCov(M));
    c.nontrivial(d.n >= 5);
    c.tag("class.FactorizedKriging<1,M>");
    FactorizedKriging<1u, M> k;
    for (int i = 0; i < d.n; ++i) k.addValue(d.p1[i][0], toVar<M>(d.p2[i]), d.f[i]);
    try {
      k.buildInterpolation();
    } catch (const LUException& e) {
      c.check(false, "C19.factorized1" + std::to_string(M) + ".lu_failure",
              std::string("LU failure although the reference matrix has cond ") +
                  std::to_string(static_cast<double>(o.cond)) + ": " + e.what());
    }
    for (int i = 0; i < d.n; ++i)
      checkPoint(c, o, k(d.p1[i][0], toVar<M>(d.p2[i])), d.f[i],
                 "C19.factorized1" + std::to_string(M) + ".reproduction",
                 "FactorizedKriging<1," + std::to_string(M) + "> at training point " + std::to_string(i) + "/" +
                     std::to_string(d.n));
  }

  template <int M>
  void factorizedWrapper(verif::Case& c) {
    using namespace tfel::math;
    Design d;
    d.dim1 = 1;
    d.dim2 = M;
    std::vector<Pt> t, x;
    genFactorizedDesign(c, M, t, x, M + 3);
    d.n = static_cast<int>(t.size());
    if (d.n < M + 3) c.discard();
    place(c, t, 1, true);
    place(c, x, M, true);
    {
      const auto col = column(t, 0);
      if (!(*std::max_element(col.begin(), col.end()) > *std::min_element(col.begin(), col.end()))) c.discard();
    }
    for (int k = 0; k < M; ++k) {
      const auto col = column(x, k);
      if (!(*std::max_element(col.begin(), col.end()) > *std::min_element(col.begin(), col.end()))) c.discard();
    }
    d.p1 = normalised(t, 1);
    d.p2 = normalised(x, M);
    d.f = genValues(c, x, &d.p1);
    // wrappers: model 1 = piecewise linear (|h|, drift 1), model 2 = adaptor(default MD)
    const auto o = oracle(c, d, ABS1D, true, false, defaultCov(M));
    c.nontrivial(d.n >= 5);
    const bool tfelvec = c.boolean("tfel_vector");
    const std::string key = "C19.factorized1D" + std::to_string(M) + "D_wrapper.reproduction";
    auto msg = [&](int i) {
      return "FactorizedKriging1D" + std::to_string(M) + "D at training point " + std::to_string(i) + "/" +
             std::to_string(d.n);
    };
    try {
      if constexpr (M == 1) {
        const auto k = tfelvec ? std::make_unique<FactorizedKriging1D1D>(tv(column(t, 0)), tv(column(x, 0)), tv(d.f))
                               : std::make_unique<FactorizedKriging1D1D>(column(t, 0), column(x, 0), d.f);
        for (int i = 0; i < d.n; ++i) checkPoint(c, o, (*k)(t[i][0], x[i][0]), d.f[i], key, msg(i));
      } else if constexpr (M == 2) {
        const auto k = tfelvec ? std::make_unique<FactorizedKriging1D2D>(tv(column(t, 0)), tv(column(x, 0)),
                                                                         tv(column(x, 1)), tv(d.f))
                               : std::make_unique<FactorizedKriging1D2D>(column(t, 0), column(x, 0), column(x, 1), d.f);
        for (int i = 0; i < d.n; ++i) checkPoint(c, o, (*k)(t[i][0], x[i][0], x[i][1]), d.f[i], key, msg(i));
      } else {
        const auto k = tfelvec ? std::make_unique<FactorizedKriging1D3D>(tv(column(t, 0)), tv(column(x, 0)),
                                                                         tv(column(x, 1)), tv(column(x, 2)), tv(d.f))
                               : std::make_unique<FactorizedKriging1D3D>(column(t, 0), column(x, 0), column(x, 1),
                                                                         column(x, 2), d.f);
        for (int i = 0; i < d.n; ++i)
          checkPoint(c, o, (*k)(t[i][0], x[i][0], x[i][1], x[i][2]), d.f[i], key, msg(i));
      }
    } catch (const LUException& e) {
      c.check(false, "C19.factorized1D" + std::to_string(M) + "D_wrapper.lu_failure",
              std::string("LU failure although the reference matrix has cond ") +
                  std::to_string(static_cast<double>(o.cond)) + ": " + e.what());
    }
  }

}  // namespace

VERIF_SUB(kriging_1) { krigingGeneric<1>(c); }
VERIF_SUB(kriging_2) { krigingGeneric<2>(c); }
VERIF_SUB(kriging_3) { krigingGeneric<3>(c); }
VERIF_SUB_W(kriging1D_wrapper, 0.5) { krigingWrapper<1>(c); }
VERIF_SUB_W(kriging2D_wrapper, 0.5) { krigingWrapper<2>(c); }
VERIF_SUB_W(kriging3D_wrapper, 0.5) { krigingWrapper<3>(c); }
VERIF_SUB_W(factorized_11, 0.5) { factorizedGeneric<1>(c); }
VERIF_SUB_W(factorized_12, 0.5) { factorizedGeneric<2>(c); }
VERIF_SUB_W(factorized_13, 0.5) { factorizedGeneric<3>(c); }
VERIF_SUB_W(factorized1D1D_wrapper, 0.5) { factorizedWrapper<1>(c); }
VERIF_SUB_W(factorized1D2D_wrapper, 0.5) { factorizedWrapper<2>(c); }
VERIF_SUB_W(factorized1D3D_wrapper, 0.5) { factorizedWrapper<3>(c); }

//! documented exceptions (KrigingErrors.hxx)
VERIF_SUB_W(errors, 0.05) {
  using namespace tfel::math;
  c.nontrivial(true);
  const auto k = c.pick(3, "kind");
  bool ok = false;
  try {
    if (k == 0) {  // no data
      Kriging<2> kr;
      kr.buildInterpolation();
    } else if (k == 1) {  // not more points than drifts
      Kriging<1> kr;
      const int n = static_cast<int>(c.integer(1, 2, "n"));
      for (int i = 0; i < n; ++i) kr.addValue(static_cast<double>(i), c.sreal(1, "f"));
      kr.buildInterpolation();
    } else {  // size mismatch in the wrappers
      const std::vector<double> x{0., 1., 2., 3.}, y{0., 1., 2.};
      Kriging1D kr(x, y);
    }
  } catch (const KrigingErrorNoDataSpecified&) {
    ok = k == 0;
  } catch (const KrigingErrorInsufficientData&) {
    ok = k == 1;
  } catch (const KrigingErrorInvalidLength&) {
    ok = k == 2;
  }
  c.check(ok, "C19.errors", "documented KrigingError not thrown for kind " + std::to_string(k));
}

VERIF_MAIN("C19_kriging")
