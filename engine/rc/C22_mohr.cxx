/*!
 * C22 - equivalent-stress criteria, unit "mohr": Mohr-Coulomb criterion with the
 * Abbo-Sloan rounding (MohrCoulombYieldCriterion.hxx).
 * Independent value from docs/web/MohrCoulomb.md:
 *   F = I1/3 sin(phi) + sqrt(J2 K(theta)^2 + a^2 sin(phi)^2) - c cos(phi)
 *   theta = asin(-3 sqrt(3) J3 / (2 J2^(3/2))) / 3
 *   K = cos(theta) - sin(phi) sin(theta)/sqrt(3)                 |theta| <  thetaT
 *   K = A + B sin(3 theta) + C sin(3 theta)^2                    |theta| >= thetaT
 * F is not homogeneous (c, a): no homogeneity / Euler check; it is isotropic.
 *
 * Error model.  theta is obtained through asin: d(theta) = u tri / c3 with
 * c3 = cos(3 theta).
 *  inner zone (|theta| < thetaT, c3 >= cos(3 thetaT)): the value uses theta:
 *   E = u tri / c3; the normal multiplies tan(3 theta) by dK/dtheta: the error is the
 *   theta derivative of the product times d(theta): En = u tri / c3^3; the second
 *   derivative has terms in 1/c3^2 more.
 *  rounded zone: K = A + B sin(3 theta) + C sin(3 theta)^2 with |B|, |C| of the order
 *   of 1/cos(3 thetaT)^3 cancelling to O(1): E = En = u tri (1 + 1/cos(3 thetaT)^3).
 * FD steps are taken on the scale c3 (inner zone) / cos(3 thetaT) (rounded zone).
 * The second derivative is only piecewise continuous (junctions |theta| = thetaT):
 * `Options::regime`.
 */
#include "C22_common.hxx"
#include "TFEL/Material/MohrCoulombYieldCriterion.hxx"

using namespace c22;

namespace {

  struct MohrCoulomb {
    double coh, phi, lodeT, a;  // angles in radians
    bool degrees;               // which unit convention is used to build the parameters
    template <unsigned short N>
    tfel::material::MohrCoulombParameters<S2<N>> params() const {
      using P = tfel::material::MohrCoulombParameters<S2<N>>;
      if (degrees) {
        constexpr double pi = 3.14159265358979323846;
        return tfel::material::makeMohrCoulombParameters<S2<N>, P::DEGREE>(
            coh, phi * 180 / pi, lodeT * 180 / pi, a);
      }
      return tfel::material::makeMohrCoulombParameters<S2<N>, P::RADIAN>(coh, phi, lodeT, a);
    }
    template <unsigned short N>
    double value(const S2<N>& s, double) const {
      return tfel::material::computeMohrCoulombStressCriterion(params<N>(), s);
    }
    template <unsigned short N>
    std::pair<double, S2<N>> normal(const S2<N>& s, double) const {
      const auto r = tfel::material::computeMohrCoulombStressCriterionNormal(params<N>(), s);
      return {std::get<0>(r), S2<N>(std::get<1>(r))};
    }
    template <unsigned short N>
    std::tuple<double, S2<N>, S4<N>> second(const S2<N>& s, double) const {
      const auto r =
          tfel::material::computeMohrCoulombStressCriterionSecondDerivative(params<N>(), s);
      return {std::get<0>(r), S2<N>(std::get<1>(r)), S4<N>(std::get<2>(r))};
    }
    static R sin3theta(const M3& s) {
      const M3 d = ref::dev(s);
      const R J2 = ref::ddot(d, d) / 2, J3 = ref::det(d);
      if (!(J2 > 0)) return 0;
      const R x = -3 * std::sqrt(R(3)) * J3 / (2 * J2 * std::sqrt(J2));
      return std::min(R(1), std::max(R(-1), x));
    }
    R ref(const M3& s) const {
      const M3 d = ref::dev(s);
      const R J2 = ref::ddot(d, d) / 2;
      const R s3 = sin3theta(s);
      const R th = std::asin(s3) / 3;
      const R sp = std::sin(R(phi)), cp = std::cos(R(phi)), tT = lodeT;
      const R is3 = 1 / std::sqrt(R(3));
      R K;
      if (std::fabs(th) < tT) {
        K = std::cos(th) - is3 * sp * std::sin(th);
      } else {
        const R sg = th < 0 ? -1 : 1;
        const R t1 = std::cos(tT) - is3 * sp * sg * std::sin(tT);
        const R t2 = sg * std::sin(tT) + is3 * sp * std::cos(tT);
        const R t3 = 18 * std::pow(std::cos(3 * tT), 3);
        const R B = (sg * std::sin(6 * tT) * t1 - 6 * std::cos(6 * tT) * t2) / t3;
        const R C = (-std::cos(3 * tT) * t1 - 3 * sg * std::sin(3 * tT) * t2) / t3;
        const R A = -is3 * sp * sg * std::sin(tT) - B * sg * std::sin(3 * tT) -
                    C * std::sin(3 * tT) * std::sin(3 * tT) + std::cos(tT);
        K = A + B * s3 + C * s3 * s3;
      }
      return ref::trace(s) / 3 * sp + std::sqrt(J2 * K * K + R(a) * a * sp * sp) - R(coh) * cp;
    }
  };

  template <unsigned short N>
  void mohr(verif::Case& c) {
    const auto st = genStress<N>(c);
    MohrCoulomb m;
    constexpr double deg = 3.14159265358979323846 / 180;
    m.degrees = c.boolean("degrees");
    m.phi = c.real(5., 45., "phi_deg") * deg;
    // Abbo & Sloan: transition angle between 25 and 29.9 degrees
    m.lodeT = (c.boolean("lodeT_29") ? 29. : c.real(20., 29.9, "lodeT_deg")) * deg;
    m.coh = static_cast<double>(st.scale) * c.real(0., 1., "cohesion");
    m.a = static_cast<double>(st.scale) * (c.boolean("a_zero") ? 0. : c.real(0., 1., "a"));
    // the value is built on J2 K^2 + a^2 sin^2: for a == 0 in pure shear states it is
    // sqrt(J2) |K|, differentiable since K > 0
    const R s3 = MohrCoulomb::sin3theta(st.sig);
    const R c3T = std::cos(3 * R(m.lodeT));
    const bool inner = std::fabs(std::asin(s3) / 3) < m.lodeT;
    const bool negative = !inner && s3 < 0;
    c.tag(inner ? "mohr.inner_zone" : (negative ? "mohr.rounded_zone.negative" : "mohr.rounded_zone.positive"));
    Options o;
    o.name = "mohr";
    o.eig = false;
    o.homogeneous = false;
    o.positive = false;
    o.vscale = std::fabs(ref::trace(st.sig)) / 3 + st.vm + R(m.a) + R(m.coh);
    const R ampR = 1 + 1 / (c3T * c3T * c3T);
    o.model = [&m, c3T, ampR](const M3& x) -> ErrModel {
      const Stress t = analysed(x);
      const R y = MohrCoulomb::sin3theta(x);
      const R c3 = std::sqrt(std::max(R(2e-14), 1 - y * y));
      const bool in = std::fabs(std::asin(y) / 3) < m.lodeT;
      ErrModel r;
      r.E = in ? u * t.tri / c3 : u * t.tri * ampR;
      r.En = in ? u * t.tri / (c3 * c3 * c3) : u * t.tri * ampR;
      r.gap = std::min(R(1), in ? c3 : c3T);
      return r;
    };
    {
      const R c3 = std::sqrt(std::max(R(2e-14), 1 - s3 * s3));
      o.ampSecond = inner ? 1 / (c3 * c3) : 1;
    }
    o.amp = 32;
    // known finding C22.mohr.second_fd.two_equal: on the triaxial meridians the closed
    // form divides by cos(3 theta)^2 (clamped to 2e-14) and is 0.2 % (median) to 10 % off
    if (negative) {
      // known finding C22.mohr.value.*.theta_le_minus_thetaT: in this zone the library
      // departs from the documented K (sign(theta) missing in `term1`).  The other
      // sub-claims are then verified against the library's own value.
      o.valueKeySuffix = ".theta_le_minus_thetaT";
      // only while that finding is listed as known; otherwise this zone is verified
      // against the documented value like any other input
      o.fdLibraryValue =
          verif::Global::get().known_keys.count("C22.mohr.value." + st.cls + o.valueKeySuffix) != 0;
    }
    // K(theta) is C1 only at |theta| = thetaT (Abbo-Sloan) : three smooth pieces
    o.regime = [&m](const M3& x) {
      const R th = std::asin(MohrCoulomb::sin3theta(x)) / 3;
      return th >= m.lodeT ? 1 : (th <= -m.lodeT ? -1 : 0);
    };
    checkAll<N>(c, m, st, o);
  }

}  // namespace

VERIF_SUB_W(mohr_1d, 0.25) { mohr<1u>(c); }
VERIF_SUB_W(mohr_2d, 0.5) { mohr<2u>(c); }
VERIF_SUB(mohr_3d) { mohr<3u>(c); }

VERIF_MAIN("C22_mohr")
