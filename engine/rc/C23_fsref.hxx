/*!
 * \file C23_fsref.hxx
 * \brief Finite strain reference (oracle) shared by the C23 and C24 harnesses.
 *
 * Everything is written in long double on full 3x3 matrices / 3x3x3x3 arrays
 * with the algebra of refmath.hxx; no TFEL header is included.
 *
 *  - hyperelastic laws given by S(C) (second Piola-Kirchhoff stress as a
 *    function of the right Cauchy-Green tensor) with analytic dS/dE_GL where
 *    it is simple (used to cross-check the finite differences);
 *  - textbook stress measures: tau = F S F^T, sigma = tau/J, P = F S,
 *    T (dual of the Hencky strain E_log = 1/2 log C, T:dE_log = S:dE_GL);
 *  - derivative operators by 6th order Richardson extrapolated central finite
 *    differences in long double (three steps h, h/2, h/4, error estimate);
 *  - rate-type moduli from their defining rate relation along F(t)=(I+tL)F.
 */
#ifndef VERIF_C23_FSREF_HXX
#define VERIF_C23_FSREF_HXX

#include <limits>
#include <string>
#include "gens.hxx"

namespace fs {

  using ref::M3;
  using ref::R;
  using ref::T4;

  //! (k,l) is a component of a non symmetric tensor in dimension N
  inline bool allowed(int N, int k, int l) {
    if (N == 3 || k == l) return true;
    if (N == 2) return k < 2 && l < 2;
    return false;
  }

  //! (ln x - ln y)/(x-y), x,y > 0
  inline R ddLog(R x, R y) {
    const R r = (x - y) / y;
    if (std::fabs(r) < 1e-3L) {
      R s = 0, p = 1;
      for (int k = 0; k < 12; ++k) {
        s += p / (k + 1);
        p *= -r;
      }
      return s / y;
    }
    return std::log1p(r) / (x - y);
  }

  struct Spec {
    R vp[3];
    M3 V;
  };
  inline Spec spec(const M3& A) {
    Spec s;
    ref::jacobi(A, s.vp, s.V);
    return s;
  }
  template <typename F>
  M3 apply(const Spec& s, F f) {
    M3 D;
    for (int i = 0; i < 3; ++i) D(i, i) = f(s.vp[i]);
    return s.V * D * ref::transpose(s.V);
  }
  /*!
   * Derivative of an isotropic tensor function (Daleckii-Krein):
   * D = sum_ab g(a,b) n_a (x) n_b (x) sym(n_a (x) n_b)
   * g(a,a) = f'(l_a), g(a,b) = (f(l_a)-f(l_b))/(l_a-l_b)
   */
  template <typename G>
  T4 daleckiiKrein(const Spec& s, G g) {
    T4 D;
    for (int a = 0; a < 3; ++a)
      for (int b = 0; b < 3; ++b) {
        const R cf = g(a, b);
        REF_FOR4 D(i, j, k, l) += cf * s.V(i, a) * s.V(j, b) *
                                  (s.V(k, a) * s.V(l, b) + s.V(l, a) * s.V(k, b)) / 2;
      }
    return D;
  }
  //! Hencky strain 1/2 log(A)
  inline M3 halfLog(const M3& A) {
    return apply(spec(A), [](R x) { return std::log(x) / 2; });
  }
  //! dE_log/dE_GL = d(log C)/dC at C
  inline T4 dElog_dEgl(const Spec& sC) {
    return daleckiiKrein(sC, [&sC](int a, int b) {
      return a == b ? 1 / sC.vp[a] : ddLog(sC.vp[a], sC.vp[b]);
    });
  }
  //! dE_GL/dE_log at C (inverse of the previous one on symmetric tensors)
  inline T4 dEgl_dElog(const Spec& sC) {
    return daleckiiKrein(sC, [&sC](int a, int b) {
      return a == b ? sC.vp[a] : 1 / ddLog(sC.vp[a], sC.vp[b]);
    });
  }

  // ------------------------------------------------------------------ laws
  enum LawKind { SVK = 0, NEOHOOKE = 1, MOONEY = 2, ANISO = 3, HENCKY = 4 };
  struct Law {
    int kind = SVK;
    R lam = 0, mu = 0, c1 = 0, c2 = 0;
    T4 K;   // ANISO: S = K:E_GL ; HENCKY: T = K:E_log + T0
    M3 T0;  // HENCKY only
    //! second Piola-Kirchhoff stress
    M3 S(const M3& C) const {
      const M3 I = M3::Id();
      switch (kind) {
        case SVK: {
          const M3 E = R(0.5) * (C - I);
          return (lam * ref::trace(E)) * I + (2 * mu) * E;
        }
        case NEOHOOKE: {
          const M3 iC = ref::inverse(C);
          const R lnJ = std::log(ref::det(C)) / 2;
          return mu * (I - iC) + (lam * lnJ) * iC;
        }
        case MOONEY: {
          // W = c1 (I1-3) + c2 (I2-3) - (2c1+4c2) ln J + lam/2 (ln J)^2
          const M3 iC = ref::inverse(C);
          const R lnJ = std::log(ref::det(C)) / 2;
          return (2 * c1) * I + (2 * c2) * (ref::trace(C) * I - C) +
                 (lam * lnJ - (2 * c1 + 4 * c2)) * iC;
        }
        case ANISO: return ref::ddot(K, R(0.5) * (C - I));
        default: {
          const Spec s = spec(C);
          const M3 El = apply(s, [](R x) { return std::log(x) / 2; });
          const M3 T = ref::ddot(K, El) + T0;
          return ref::ddot(T, dElog_dEgl(s));
        }
      }
    }
    bool hasAnalytic() const { return kind != HENCKY; }
    //! analytic dS/dE_GL (cross-check of the finite differences)
    T4 dSdE(const M3& C) const {
      const M3 iC = kind == NEOHOOKE || kind == MOONEY ? ref::inverse(C) : M3::Id();
      T4 IiC;  // -d(C^-1)/dC
      REF_FOR4 IiC(i, j, k, l) = (iC(i, k) * iC(j, l) + iC(i, l) * iC(j, k)) / 2;
      const R lnJ = std::log(ref::det(C)) / 2;
      switch (kind) {
        case SVK: return lam * ref::IxI() + (2 * mu) * ref::Id4s();
        case NEOHOOKE: return lam * ref::otimes(iC, iC) + (2 * (mu - lam * lnJ)) * IiC;
        case MOONEY:
          return (4 * c2) * (ref::IxI() - ref::Id4s()) + lam * ref::otimes(iC, iC) +
                 (2 * (2 * c1 + 4 * c2 - lam * lnJ)) * IiC;
        default: return K;
      }
    }
  };

  //! random major symmetric 4th order tensor valid in dimension N
  inline T4 genStiffness(verif::Case& c, int N, bool& spd) {
    const int n = ref::stensorSize(N);
    spd = c.chance(2, 3, "K_spd");
    ref::Vec A(n * n), m(36, 0);
    for (auto& x : A) x = c.sreal(1., "K");
    for (int i = 0; i < 6; ++i) m[i * 6 + i] = 1;
    for (int i = 0; i < n; ++i)
      for (int j = 0; j < n; ++j) {
        R s = 0;
        if (spd) {
          for (int k = 0; k < n; ++k) s += A[i * n + k] * A[j * n + k];
          if (i == j) s += R(0.1);
        } else {
          s = (A[i * n + j] + A[j * n + i]) / 2;
        }
        m[i * 6 + j] = s;
      }
    return ref::fromMandel66(m);
  }
  //! generic symmetric tensor valid in dimension N, components in [-a,a]
  inline M3 genSymTensor(verif::Case& c, int N, double a, const char* n = "t") {
    M3 m;
    for (int i = 0; i < 3; ++i) m(i, i) = c.sreal(a, n);
    if (N >= 2) m(0, 1) = m(1, 0) = c.sreal(a, n);
    if (N == 3) {
      m(0, 2) = m(2, 0) = c.sreal(a, n);
      m(1, 2) = m(2, 1) = c.sreal(a, n);
    }
    return m;
  }
  inline Law genLaw(verif::Case& c, int N, int nkinds = 5) {
    Law w;
    w.kind = static_cast<int>(c.pick(nkinds, "law"));
    const R sc = c.chance(1, 3, "unit_modulus") ? 1. : c.log10real(-3, 3, "modulus");
    bool spd = true;
    switch (w.kind) {
      case SVK:
        c.tag("law.svk");
        w.lam = sc * c.real(0., 2., "lambda");
        w.mu = sc * c.real(0.1, 2., "mu");
        break;
      case NEOHOOKE:
        c.tag("law.neohooke");
        w.lam = sc * c.real(0., 2., "lambda");
        w.mu = sc * c.real(0.1, 2., "mu");
        break;
      case MOONEY:
        c.tag("law.mooney");
        w.c1 = sc * c.real(0.05, 1., "c1");
        w.c2 = sc * c.real(0., 1., "c2");
        w.lam = sc * c.real(0., 2., "lambda");
        break;
      case ANISO:
        c.tag("law.aniso_svk");
        w.K = sc * genStiffness(c, N, spd);
        break;
      default:
        c.tag("law.hencky_affine");
        w.K = sc * genStiffness(c, N, spd);
        w.T0 = sc * genSymTensor(c, N, 1., "T0");
    }
    return w;
  }

  // --------------------------------------------------------- stress measures
  struct State {
    M3 F, C, S, tau, sig, P;
    R J;
  };
  inline State state(const Law& w, const M3& F) {
    State s;
    s.F = F;
    s.C = ref::transpose(F) * F;
    s.J = ref::det(F);
    s.S = w.S(s.C);
    s.P = F * s.S;
    s.tau = ref::sym(s.P * ref::transpose(F));
    s.sig = (1 / s.J) * s.tau;
    return s;
  }
  //! dual of the Hencky strain as a function of the Hencky strain
  inline M3 dualOfElog(const Law& w, const M3& El) {
    if (w.kind == HENCKY) return ref::ddot(w.K, El) + w.T0;
    const Spec sE = spec(El);
    Spec sC = sE;
    for (auto& x : sC.vp) x = std::exp(2 * x);
    const M3 C = apply(sC, [](R x) { return x; });
    return ref::ddot(w.S(C), dEgl_dElog(sC));
  }

  // ------------------------------------------------------ finite differences
  struct Op {
    T4 D;
    R err = 0;  //!< Richardson error estimate (absolute, max over components)
  };
  //! d/dt f(t) at 0, 6th order, error estimate accumulated in err
  template <typename Fn>
  M3 ddt(Fn f, R h, R& err) {
    auto D = [&f](R s) { return (1 / (2 * s)) * (f(s) - f(-s)); };
    const M3 d0 = D(h), d1 = D(h / 2), d2 = D(h / 4);
    const M3 r1 = (R(1) / 3) * (R(4) * d1 - d0);
    const M3 r2 = (R(1) / 3) * (R(4) * d2 - d1);
    const M3 r3 = (R(1) / 15) * (R(16) * r2 - r1);
    err = std::max(err, ref::maxabs(r3 - r2));
    return r3;
  }
  //! derivative of f (M3 -> M3) at X w.r.t. the components of X valid in dimension N
  template <typename Fn>
  Op derivative(Fn f, const M3& X, int N, bool symArg, R h) {
    Op r;
    for (int k = 0; k < 3; ++k)
      for (int l = symArg ? k : 0; l < 3; ++l) {
        if (!allowed(N, k, l)) continue;
        M3 V;
        if (symArg) {
          V(k, l) += R(0.5);
          V(l, k) += R(0.5);
        } else {
          V(k, l) = 1;
        }
        const M3 d = ddt([&](R t) { return f(X + t * V); }, h, r.err);
        for (int i = 0; i < 3; ++i)
          for (int j = 0; j < 3; ++j) {
            r.D(i, j, k, l) = d(i, j);
            if (symArg) r.D(i, j, l, k) = d(i, j);
          }
      }
    return r;
  }

  enum RateKind { LIE_TAU, TRUESDELL_SIG, JAUMANN_TAU };
  //! objective rate of the stress along F(t) = (I+tL) F0 at t=0
  inline M3 objectiveRate(RateKind k, const Law& w, const M3& F, const M3& L, R h, R& err) {
    const State s0 = state(w, F);
    const M3 Lt = ref::transpose(L);
    const M3 W = R(0.5) * (L - Lt);
    auto path = [&](R t) { return (M3::Id() + t * L) * F; };
    if (k == TRUESDELL_SIG) {
      const M3 ds = ddt([&](R t) { return state(w, path(t)).sig; }, h, err);
      return ds - L * s0.sig - s0.sig * Lt + ref::trace(L) * s0.sig;
    }
    const M3 dt = ddt([&](R t) { return state(w, path(t)).tau; }, h, err);
    if (k == LIE_TAU) return dt - L * s0.tau - s0.tau * Lt;
    return dt - W * s0.tau + s0.tau * W;
  }
  //! moduli C such that rate = C : sym(L), extracted on the basis of symmetric L
  inline Op rateModuli(RateKind k, const Law& w, const M3& F, int N, R h) {
    Op r;
    for (int a = 0; a < 3; ++a)
      for (int b = a; b < 3; ++b) {
        if (!allowed(N, a, b)) continue;
        M3 V;
        V(a, b) += R(0.5);
        V(b, a) += R(0.5);
        const M3 d = objectiveRate(k, w, F, V, h, r.err);
        for (int i = 0; i < 3; ++i)
          for (int j = 0; j < 3; ++j) r.D(i, j, a, b) = r.D(i, j, b, a) = d(i, j);
      }
    return r;
  }

  // ------------------------------------------------- reference tangent operators
  //! same order as tfel::material::FiniteStrainBehaviourTangentOperatorBase::Flag
  enum Flag {
    DSIG_DF, DSIG_DDF, C_TRUESDELL, SPATIAL_MODULI, C_TAU_JAUMANN, ABAQUS, DSIG_DDE,
    DTAU_DF, DTAU_DDF, DS_DF, DS_DDF, DS_DC, DS_DEGL, DT_DELOG, DPK1_DF
  };
  inline const char* name(int f) {
    static const char* n[] = {"DSIG_DF", "DSIG_DDF", "C_TRUESDELL", "SPATIAL_MODULI",
                              "C_TAU_JAUMANN", "ABAQUS", "DSIG_DDE", "DTAU_DF",
                              "DTAU_DDF", "DS_DF", "DS_DDF", "DS_DC", "DS_DEGL",
                              "DT_DELOG", "DPK1_DF"};
    return n[f];
  }
  //! row / column spaces of the operator of a flag: true = symmetric tensors
  inline bool rowSym(int f) { return f != DPK1_DF; }
  inline bool colSym(int f) {
    switch (f) {
      case C_TRUESDELL: case SPATIAL_MODULI: case C_TAU_JAUMANN: case ABAQUS:
      case DSIG_DDE: case DS_DC: case DS_DEGL: case DT_DELOG: return true;
      default: return false;
    }
  }
  struct Ctx {
    int N = 3;
    Law law;
    M3 F0, F1;
    R lmin = 1;  //!< smallest principal stretch of F1 (step sizes)
  };
  inline Op refOperator(int f, const Ctx& x) {
    const Law& w = x.law;
    const int N = x.N;
    const R hF = R(4e-3) * x.lmin, hC = R(4e-3) * x.lmin * x.lmin, hT = R(4e-3);
    const M3 C = ref::transpose(x.F1) * x.F1;
    const M3 iF0 = ref::inverse(x.F0);
    const M3 dF = x.F1 * iF0;
    switch (f) {
      case DSIG_DF:
        return derivative([&](const M3& F) { return state(w, F).sig; }, x.F1, N, false, hF);
      case DTAU_DF:
        return derivative([&](const M3& F) { return state(w, F).tau; }, x.F1, N, false, hF);
      case DS_DF:
        return derivative([&](const M3& F) { return state(w, F).S; }, x.F1, N, false, hF);
      case DPK1_DF:
        return derivative([&](const M3& F) { return state(w, F).P; }, x.F1, N, false, hF);
      case DSIG_DDF:
        return derivative([&](const M3& D) { return state(w, D * x.F0).sig; }, dF, N, false,
                          hF / std::max(R(1), ref::norm(x.F0)));
      case DTAU_DDF:
        return derivative([&](const M3& D) { return state(w, D * x.F0).tau; }, dF, N, false,
                          hF / std::max(R(1), ref::norm(x.F0)));
      case DS_DDF:
        return derivative([&](const M3& D) { return state(w, D * x.F0).S; }, dF, N, false,
                          hF / std::max(R(1), ref::norm(x.F0)));
      case DS_DC:
        return derivative([&](const M3& c) { return w.S(c); }, C, N, true, hC);
      case DS_DEGL:
        return derivative([&](const M3& E) { return w.S(R(2) * E + M3::Id()); },
                          R(0.5) * (C - M3::Id()), N, true, hC / 2);
      case DT_DELOG:
        return derivative([&](const M3& e) { return dualOfElog(w, e); }, halfLog(C), N, true, hT);
      case SPATIAL_MODULI: return rateModuli(LIE_TAU, w, x.F1, N, hT);
      case C_TRUESDELL: return rateModuli(TRUESDELL_SIG, w, x.F1, N, hT);
      case C_TAU_JAUMANN: return rateModuli(JAUMANN_TAU, w, x.F1, N, hT);
      case ABAQUS: {
        Op r = rateModuli(JAUMANN_TAU, w, x.F1, N, hT);
        const R iJ = 1 / ref::det(x.F1);
        r.D = iJ * r.D;
        r.err *= iJ;
        return r;
      }
      default: return Op{};
    }
  }

  //! largest absolute component of an operator in the storage bases
  inline R maxComponent(const T4& D, int N, bool rs, bool cs) {
    R m = 0;
    const int nr = rs ? ref::stensorSize(N) : ref::tensorSize(N);
    const int nc = cs ? ref::stensorSize(N) : ref::tensorSize(N);
    for (int I = 0; I < nr; ++I)
      for (int J = 0; J < nc; ++J) m = std::max(m, std::fabs(ref::componentOf(D, I, rs, J, cs)));
    return m;
  }

  //! principal stretches (sorted) and rotation angle of F
  struct Kinematics {
    R stretch[3];
    R angle;
    R cond;
  };
  inline Kinematics kinematics(const M3& F) {
    Kinematics k;
    M3 Rm, U;
    ref::polar(F, Rm, U);
    M3 V;
    ref::jacobi(U, k.stretch, V);
    ref::sort3(k.stretch);
    const R ct = std::min(R(1), std::max(R(-1), (ref::trace(Rm) - 1) / 2));
    k.angle = std::acos(ct);
    k.cond = k.stretch[2] / k.stretch[0];
    return k;
  }

  /*!
   * Input class of a deformation gradient for the logarithmic strain handler:
   * relative gaps g_ij = |l_i-l_j|/max(l_i,l_j) between the eigenvalues of C
   * that the handler couples through divided differences (N=3: all pairs,
   * N=2: the in-plane pair, N=1: none).
   *   two_equal / three_equal : the close pairs have g <= 64 u (equal up to rounding)
   *   distinct     : g >= 1e-2 for all pairs
   *   nearly_equal : smallest non-equal gap in [1e-5, 1e-2)
   *   tiny_gap     : smallest non-equal gap in (64 u, 1e-5)
   * The class of a case is the worst one: tiny_gap > nearly_equal > equal > distinct.
   * doubleEigenvalue3d: N=3 and exactly one pair of equal eigenvalues (whatever
   * the distance to the third one), a branch of its own in the 3D handler.
   * equalLarge: a pair of equal eigenvalues while the largest coupled eigenvalue
   * of C exceeds 4.5: the handler detects equal eigenvalues with the absolute
   * threshold 1e-14, which the rounding errors of its eigen solver (a few
   * u |C|) can then exceed.
   */
  struct StretchClass {
    R gap = 1;  //!< smallest non-equal relative gap
    const char* name = "distinct";
    bool tiny = false, nearly = false, equal = false, doubleEigenvalue3d = false, equalLarge = false;
    int equalPairs = 0;
    //! 1/gap relaxation of a tolerance (none for distinct / equal stretches)
    R relax() const { return (tiny || nearly) ? R(1e-2L) / gap : R(1); }
  };
  inline StretchClass classifyStretches(const M3& C, int N) {
    StretchClass r;
    R l[3];
    int n = 0;
    if (N == 3) {
      M3 V;
      ref::jacobi(C, l, V);
      n = 3;
    } else if (N == 2) {
      const R a = C(0, 0), b = C(1, 1), d = C(0, 1);
      const R rad = std::sqrt((a - b) * (a - b) / 4 + d * d);
      l[0] = (a + b) / 2 - rad;
      l[1] = (a + b) / 2 + rad;
      n = 2;
    }
    const R ueq = 64 * static_cast<R>(std::numeric_limits<double>::epsilon());
    for (int i = 0; i < n; ++i)
      for (int j = i + 1; j < n; ++j) {
        const R g = std::fabs(l[i] - l[j]) / std::max(l[i], l[j]);
        if (g <= ueq) {
          r.equal = true;
          ++r.equalPairs;
          continue;
        }
        r.gap = std::min(r.gap, g);
      }
    r.tiny = r.gap < 1e-5L;
    r.nearly = !r.tiny && r.gap < 1e-2L;
    r.doubleEigenvalue3d = N == 3 && r.equalPairs == 1;
    R lmax = 0;
    for (int i = 0; i < n; ++i) lmax = std::max(lmax, l[i]);
    r.equalLarge = r.equal && lmax > R(4.5);
    r.name = r.tiny ? "tiny_gap"
                    : (r.nearly ? "nearly_equal"
                                : (r.equal ? (r.equalPairs == 3 ? "three_equal" : "two_equal") : "distinct"));
    return r;
  }

}  // namespace fs

#endif /* VERIF_C23_FSREF_HXX */
