/*!
 * C31 (part A, grammar based round trip) - CxxTokenizer reproduces the lexical
 * structure of its input (include/TFEL/Utilities/CxxTokenizer.hxx,
 * CxxTokenizerOptions.hxx, Token.hxx, src/Utilities/CxxTokenizer.cxx).
 *
 * The harness generates a list of lexical elements, lays them out with random
 * white space / newlines (a separator is only forced where two neighbours would
 * otherwise form a different element), remembers the line and the byte column
 * of each element and compares the token list (value, flag, line, offset).
 * The model below is NOT a second lexer: it never scans the text, it only
 * knows what it wrote and where.
 *
 * Source facts used (read in splitLine / parseStandardLine / try_join):
 *  - separators: ? ; / ! & * | { } [ ] ( ) % = ^ , : < > ' " \  and . + - `
 *    (the last four by option);
 *  - operators joined with the default joinCxxTwoCharactersSeparators:
 *    << <= >> >= :: ++ -- -> += -= /= *= %= != == && .. .* || |=   and the
 *    three character ->* (explicit branch of the source; see known finding);
 *    everything else (&= ^= <<= >>= ...) is returned character by character and
 *    is generated as such;
 *  - a + or - immediately followed by a digit or '.' and preceded by the
 *    beginning of the line, white space or a separator starts a signed number:
 *    signed numbers are generated with white space before them, and a lone
 *    +/- operator in that position is separated from a following number;
 *  - a number absorbs suffixes (u l ll f, _udl) and digit separators, rejects
 *    a following '.', and splits from a following letter: numbers are always
 *    separated from a following word, '.' or quote;
 *  - hexadecimal / binary literals are only accepted at the end of a line
 *    (parseNumber throws otherwise): not generated (DESIGN: decimal forms);
 *  - comments: value without the delimiters and the doxygen markers, unless
 *    keepCommentBoundaries; white space at the ends is not specified -> values
 *    are compared after per-line right trimming / dropping blank first and last
 *    lines; `//!` / `/*!` -> DoxygenComment, `//!<` -> DoxygenBackwardComment,
 *    except for the very first token (Comment accepted as well);
 *  - raw strings, stray '#' and '\\', treatNumbers=false, treatStrings=false,
 *    addCurlyBraces, additional separators: not part of the statement's input
 *    classes, not generated.
 */
#include "verif.hxx"
#include "TFEL/Utilities/CxxTokenizer.hxx"

using tfel::utilities::CxxTokenizer;
using tfel::utilities::CxxTokenizerOptions;
using tfel::utilities::Token;

namespace {

  struct Opts {
    bool charAsString = false, keepBoundaries = false, mergeStrings = false;
    bool dotSep = true, plusSep = true, minusSep = true;
    CxxTokenizerOptions make() const {
      CxxTokenizerOptions o;
      o.charAsString = charAsString;
      o.bKeepCommentBoundaries = keepBoundaries;
      o.shallMergeStrings = mergeStrings;
      o.dotAsSeparator = dotSep;
      o.plusAsSeparator = plusSep;
      o.minusAsSeparator = minusSep;
      return o;
    }
    std::string str() const {
      std::string r;
      if (charAsString) r += " charAsString";
      if (keepBoundaries) r += " keepCommentBoundaries";
      if (mergeStrings) r += " mergeStrings";
      if (!dotSep) r += " dotNotSeparator";
      if (!plusSep) r += " plusNotSeparator";
      if (!minusSep) r += " minusNotSeparator";
      return r.empty() ? " default" : r;
    }
  };

  //! the separator list of the source (is_separator)
  bool isSeparator(const char ch, const Opts& o) {
    if (ch == '.') return o.dotSep;
    if (ch == '+') return o.plusSep;
    if (ch == '-') return o.minusSep;
    if (ch == '`') return true;
    static const std::string s = "?;/!&*|{}[]()%=^,:<>'\"\\";
    return s.find(ch) != std::string::npos;
  }
  bool isSpace(const char ch) {
    return ch == ' ' || ch == '\t' || ch == '\n' || ch == '\v' || ch == '\f' || ch == '\r';
  }
  bool isWordChar(const char ch, const Opts& o) { return !isSeparator(ch, o) && !isSpace(ch); }

  const std::vector<std::string>& operators() {
    static const std::vector<std::string> ops = {
        // single characters
        "?", ";", "/", "!", "&", "*", "|", "{", "}", "[", "]", "(", ")", "%", "=", "^", ",", ":", "<", ">", ".", "+", "-",
        // joined by try_join / the +,- branch
        "<<", "<=", ">>", ">=", "::", "++", "--", "->", "+=", "-=", "/=", "*=", "%=", "!=", "==", "&&", "..", ".*", "||", "|=",
        // explicit three character branch of the source
        "->*"};
    return ops;
  }
  constexpr std::size_t nSingleOps = 23;

  //! (x,y) such that the tokenizer treats "xy" as one element or as a comment opening
  bool joinable(const char x, const char y) {
    static const std::set<std::string> pairs = [] {
      std::set<std::string> r = {"//", "/*"};
      for (const auto& o : operators())
        if (o.size() == 2) r.insert(o);
      return r;
    }();
    return pairs.count(std::string{x, y}) != 0;
  }

  enum Class { IDENT, NUMBER, STRING, CHARLIT, OP, LINE_COMMENT, C_COMMENT, PP_HASH, PP_KEYWORD };

  struct Expected {
    std::string value;
    std::string alt_value;  // second accepted value ("" = none)
    Token::TokenFlag flag = Token::Standard;
    bool first_token_comment_ok = false;  // doxygen comment as very first token
    std::size_t line = 0, offset = 0;
    bool judge_offset = true;
    bool normalise = false;  // comment without boundaries: compare normalised values
    Class cls = IDENT;
    // literal values for the read* helpers
    bool has_double = false, has_int = false, has_uint = false, has_string = false;
    double dval = 0;
    long ival = 0;
    std::string inner;
    bool arrow_star = false;
    // known classes (see findings/pending/C31.json)
    bool expf = false;            // digits + exponent without '-' + f/F suffix
    std::size_t expf_numlen = 0;  // length of the text before the suffix
    std::string expf_tail;        // suffix (+ user defined literal)
    std::size_t marker_len = 0;   // comments: length of the doxygen marker
    std::size_t kb_shift = 0;     // keepCommentBoundaries: offset deficit after one-line C comments
  };

  struct Item {  // one lexical element about to be written
    Class cls = IDENT;
    std::string text;
    bool is_signed = false;
    Expected e;
  };

  std::string show(const std::string& s, const std::size_t maxlen = 400) {
    std::string r = "\"";
    for (unsigned char ch : s) {
      if (r.size() > maxlen) {
        r += "...";
        break;
      }
      if (ch == '\n') {
        r += "\\n";
      } else if (ch == '\t') {
        r += "\\t";
      } else if (ch >= 0x20 && ch < 0x7f && ch != '"' && ch != '\\') {
        r += static_cast<char>(ch);
      } else if (ch == '"' || ch == '\\') {
        r += '\\';
        r += static_cast<char>(ch);
      } else {
        char b[8];
        std::snprintf(b, sizeof b, "\\x%02x", ch);
        r += b;
      }
    }
    return r + "\"";
  }
  const char* flagName(const Token::TokenFlag f) {
    switch (f) {
      case Token::Standard: return "Standard";
      case Token::Comment: return "Comment";
      case Token::Number: return "Number";
      case Token::DoxygenComment: return "DoxygenComment";
      case Token::DoxygenBackwardComment: return "DoxygenBackwardComment";
      case Token::String: return "String";
      case Token::Char: return "Char";
      case Token::Preprocessor: return "Preprocessor";
    }
    return "?";
  }
  bool isCommentFlag(const Token::TokenFlag f) {
    return f == Token::Comment || f == Token::DoxygenComment || f == Token::DoxygenBackwardComment;
  }

  //! per-line right trim, drop blank first/last lines, left trim of the first line
  std::string normaliseComment(const std::string& v) {
    std::vector<std::string> lines(1);
    for (const char ch : v) {
      if (ch == '\n') {
        lines.emplace_back();
      } else {
        lines.back() += ch;
      }
    }
    for (auto& l : lines)
      while (!l.empty() && isSpace(l.back())) l.pop_back();
    while (!lines.empty() && lines.front().empty()) lines.erase(lines.begin());
    while (!lines.empty() && lines.back().empty()) lines.pop_back();
    if (lines.empty()) return "";
    auto& f = lines.front();
    std::size_t i = 0;
    while (i < f.size() && isSpace(f[i])) ++i;
    f.erase(0, i);
    std::string r;
    for (std::size_t k = 0; k != lines.size(); ++k) r += (k ? "\n" : "") + lines[k];
    return r;
  }

  // ------------------------------------------------------------------ writer
  struct Writer {
    std::string text;
    std::size_t line = 1, col = 0;
    bool blank_line = true;  // only white space on the current line so far
    std::size_t kb_shift = 0;  // see Expected::kb_shift (reset at each newline)
    std::vector<Expected> exp;
    char last() const { return col == 0 ? '\n' : text.back(); }
    void raw(const std::string& s) {
      for (const char ch : s) {
        text += ch;
        if (ch == '\n') {
          ++line;
          col = 0;
          blank_line = true;
          kb_shift = 0;
        } else {
          ++col;
          if (!isSpace(ch)) blank_line = false;
        }
      }
    }
  };

  // ------------------------------------------------------------------ generators
  const char* const greek[] = {"\xcf\x83", "\xce\xb5", "\xce\x94", "\xe1\xb5\x97", "\xe2\x82\x81", "\xe2\x88\x82", "\xc3\xa9"};

  std::string genIdent(verif::Case& c, const Opts& o) {
    static const char first[] = "abcdefghijklmnopqrstuvwxyzABCDEFGHIJKLMNOPQRSTUVWXYZ_";
    static const char rest[] = "abcdefghijklmnopqrstuvwxyzABCDEFGHIJKLMNOPQRSTUVWXYZ_0123456789";
    if (c.chance(1, 25, "ident_R")) return "R";
    std::string s;
    if (c.chance(1, 8, "unicode_first")) {
      s += greek[c.pick(sizeof greek / sizeof *greek, "greek")];
    } else {
      s += first[c.pick(sizeof first - 1, "first")];
    }
    const auto n = c.integer(0, 6, "ident_len");
    for (std::int64_t i = 0; i != n; ++i) {
      const auto k = c.integer(0, 19, "ident_kind");
      if (k == 0) {
        s += greek[c.pick(sizeof greek / sizeof *greek, "greek")];
      } else if (k == 1 && !o.dotSep) {
        s += '.';
      } else if (k == 2 && !o.plusSep) {
        s += '+';
      } else if (k == 3 && !o.minusSep) {
        s += '-';
      } else {
        s += rest[c.pick(sizeof rest - 1, "rest")];
      }
    }
    return s;
  }

  std::string digits(verif::Case& c, const std::int64_t lo, const std::int64_t hi, const bool nonzero_first) {
    const auto n = c.integer(lo, hi, "ndigits");
    std::string s;
    for (std::int64_t i = 0; i != n; ++i)
      s += static_cast<char>('0' + c.integer((i == 0 && nonzero_first) ? 1 : 0, 9, "digit"));
    return s;
  }

  Item genNumber(verif::Case& c) {
    Item it;
    it.cls = NUMBER;
    std::string body;  // without sign
    const auto kind = c.integer(0, 9, "number_kind");
    bool integer = false, exp_only = false;
    std::string suffix;
    if (kind <= 3) {  // integer
      integer = true;
      body = c.chance(1, 10, "zero") ? "0" : digits(c, 1, 7, !c.chance(1, 12, "leading_zero"));
    } else if (kind <= 7) {  // with a decimal point
      const auto form = c.integer(0, 2, "float_form");
      if (form == 0) body = digits(c, 1, 5, false) + "." + digits(c, 1, 5, false);
      if (form == 1) body = digits(c, 1, 5, false) + ".";
      if (form == 2) body = "." + digits(c, 1, 5, false);
      if (c.boolean("exponent")) {
        body += c.boolean("E") ? 'E' : 'e';
        const auto s = c.integer(0, 2, "exp_sign");
        if (s == 1) body += '+';
        if (s == 2) body += '-';
        body += digits(c, 1, 2, false);
      }
    } else {  // digits + exponent, no decimal point
      exp_only = true;
      body = digits(c, 1, 4, false);
      body += c.boolean("E") ? 'E' : 'e';
      const auto s = c.integer(0, 2, "exp_sign");
      if (s == 1) body += '+';
      if (s == 2) body += '-';
      body += digits(c, 1, 2, false);
    }
    // sign
    const auto sg = c.integer(0, 7, "sign");
    std::string sign;
    if (sg == 0) sign = "-";
    if (sg == 1) sign = "+";
    it.is_signed = !sign.empty();
    // suffix
    if (c.chance(1, 4, "suffix")) {
      if (integer) {
        static const char* const us[] = {"u", "U", "l", "L", "ul", "UL", "lu", "LU", "ll", "LL", "ull", "ULL", "llu", "LLU", "uL", "Ul"};
        static const char* const ss[] = {"l", "L", "ll", "LL"};
        suffix = it.is_signed ? ss[c.pick(4, "isuffix")] : us[c.pick(16, "isuffix")];
      } else {
        static const char* const fs[] = {"f", "F", "l", "L"};
        suffix = fs[c.pick(4, "fsuffix")];
      }
    }
    const bool udl = c.chance(1, 20, "udl");
    std::string udls;
    if (udl) {
      udls = "_";
      const auto n = c.integer(1, 3, "udl_len");
      for (std::int64_t i = 0; i != n; ++i) udls += static_cast<char>('a' + c.integer(0, 25, "udl_letter"));
    }
    // digit separators (C++14) between two digits of the leading digit run
    std::string written = body;
    bool separators = false;
    if (c.chance(1, 12, "digit_separator") && body.size() >= 2 && std::isdigit(static_cast<unsigned char>(body[0])) &&
        std::isdigit(static_cast<unsigned char>(body[1]))) {
      written = body.substr(0, 1) + "'" + body.substr(1);
      separators = true;
    }
    it.text = sign + written + suffix + udls;
    auto& e = it.e;
    e.cls = NUMBER;
    e.flag = Token::Number;
    e.value = sign + body + suffix + udls;
    if (separators) e.alt_value = it.text;
    if (suffix.empty() && !udl) {
      e.has_double = true;
      e.dval = std::strtod((sign + body).c_str(), nullptr);
    }
    if (integer && !udl && !(body.size() > 1 && body[0] == '0')) {
      const long v = std::strtol(body.c_str(), nullptr, 10);
      e.has_int = true;
      e.ival = sign == "-" ? -v : v;
      e.has_uint = sign.empty();
    }
    if (exp_only && (suffix == "f" || suffix == "F") && body.find('-') == std::string::npos) {
      e.expf = true;
      e.expf_numlen = (sign + written).size();
      e.expf_tail = suffix + udls;
    }
    return it;
  }

  std::string genStringContent(verif::Case& c, const char quote) {
    static const char plain[] = "abcxyzABC019 _.,;:+-*/=()[]{}<>#!?&|^%~@$`\t";
    static const char* const tricky[] = {"//", "/*", "*/", "/**/", "// x", "#include", "->*", "R\"(", "\\n", "\\t", "\\\\", "\\\"", "\\'", "\\\\\\\\", "'", "\""};
    std::string s;
    const auto n = c.integer(0, 6, "string_pieces");
    for (std::int64_t i = 0; i != n; ++i) {
      const auto k = c.integer(0, 9, "piece_kind");
      if (k <= 4) {
        s += plain[c.pick(sizeof plain - 1, "plain")];
      } else if (k <= 7) {
        const std::string t = tricky[c.pick(sizeof tricky / sizeof *tricky, "tricky")];
        // a bare quote of the string's own kind must be escaped
        std::string u;
        for (const char ch : t) {
          if (ch == quote && (u.empty() || u.back() != '\\')) u += '\\';
          u += ch;
        }
        s += u;
      } else if (k == 8) {
        s += greek[c.pick(sizeof greek / sizeof *greek, "greek")];
      } else {
        s += std::string("\\") + quote;
      }
    }
    return s;
  }

  Item genString(verif::Case& c, const char quote) {
    Item it;
    it.cls = STRING;
    const auto inner = genStringContent(c, quote);
    it.text = quote + inner + quote;
    it.e.cls = STRING;
    it.e.flag = Token::String;
    it.e.value = it.text;
    it.e.has_string = true;
    it.e.inner = inner;
    return it;
  }

  Item genChar(verif::Case& c) {
    Item it;
    it.cls = CHARLIT;
    static const char plain[] = "abzAZ09 _.,;:+-*/=()[]{}<>#!?&|^%~@$`\"";
    static const char escaped[] = "nt0\\'\"rab";
    if (c.chance(1, 3, "escaped_char")) {
      it.text = std::string("'\\") + escaped[c.pick(sizeof escaped - 1, "escape")] + "'";
    } else {
      it.text = std::string("'") + plain[c.pick(sizeof plain - 1, "char")] + "'";
    }
    it.e.cls = CHARLIT;
    it.e.flag = Token::Char;
    it.e.value = it.text;
    return it;
  }

  std::string genCommentText(verif::Case& c, const bool multiline_allowed, const bool c_style) {
    static const char plain[] = "abcxyz019 _.,;:+-=()[]{}<>#?&|^%~@$`\t\"'!";
    static const char* const tricky[] = {"//", "/*", "/ *", "* /", "**", "*", "/", "\"unterminated", "'c", "#define X", "\\", "<", "!<"};
    std::string s;
    const auto n = c.integer(0, 8, "comment_pieces");
    for (std::int64_t i = 0; i != n; ++i) {
      const auto k = c.integer(0, 11, "piece_kind");
      if (k <= 5) {
        s += plain[c.pick(sizeof plain - 1, "plain")];
      } else if (k <= 7) {
        s += tricky[c.pick(sizeof tricky / sizeof *tricky, "tricky")];
      } else if (k == 8) {
        s += greek[c.pick(sizeof greek / sizeof *greek, "greek")];
      } else if (k == 9) {
        s += "word";
      } else if (k == 10) {
        s += ' ';
      } else if (multiline_allowed) {
        s += '\n';
        const auto ind = c.integer(0, 3, "indent");
        s += std::string(static_cast<std::size_t>(ind), ' ');
      }
    }
    if (c_style) {
      // the text must not contain the closing delimiter, nor end with '*' in a
      // way that changes where the comment ends ("*/" is found first anyway)
      std::string r;
      for (const char ch : s) {
        if (ch == '/' && !r.empty() && r.back() == '*') r += ' ';
        r += ch;
      }
      s = r;
    }
    return s;
  }

  /*!
   * a comment.  kind: 0 plain, 1 doxygen (!), 2 doxygen backward (!<)
   */
  Item genComment(verif::Case& c, const Opts& o, const bool c_style) {
    Item it;
    it.cls = c_style ? C_COMMENT : LINE_COMMENT;
    const auto kind = c.integer(0, 5, "comment_kind");  // 0-3 plain, 4 doxygen, 5 backward
    auto txt = genCommentText(c, c_style && c.chance(1, 2, "multiline"), c_style);
    std::string marker;
    if (kind == 4) {
      marker = "!";
      if (!txt.empty() && txt[0] == '<') txt = " " + txt;
    } else if (kind == 5) {
      marker = "!<";
    } else if (!txt.empty() && txt[0] == '!') {
      txt = " " + txt;
    }
    it.text = (c_style ? "/*" : "//") + marker + txt + (c_style ? "*/" : "");
    auto& e = it.e;
    e.cls = it.cls;
    e.marker_len = marker.size();
    e.flag = kind == 4 ? Token::DoxygenComment : (kind == 5 ? Token::DoxygenBackwardComment : Token::Comment);
    if (o.keepBoundaries) {
      e.value = it.text;
    } else {
      e.value = normaliseComment(txt);
      e.normalise = true;
      // offset = column of the first character of the text when the first
      // line of the text is not blank (relative part stored in `offset`)
      const auto first_line = txt.substr(0, txt.find('\n'));
      std::size_t i = 0;
      while (i < first_line.size() && isSpace(first_line[i])) ++i;
      e.judge_offset = i < first_line.size();
      e.offset = 2 + marker.size() + i;  // relative to the beginning of the comment
    }
    return it;
  }

  Item genOperator(verif::Case& c) {
    Item it;
    it.cls = OP;
    const auto& ops = operators();
    // the three character operator is made rare so that most cases are judged behind it
    std::size_t i;
    if (c.chance(1, 100, "arrow_star")) {
      i = ops.size() - 1;
    } else {
      i = c.pick(ops.size() - 1, "operator");
    }
    it.text = ops[i];
    it.e.cls = OP;
    it.e.flag = Token::Standard;
    it.e.value = it.text;
    it.e.arrow_star = it.text == "->*";
    return it;
  }

  Item genIdentItem(verif::Case& c, const Opts& o) {
    Item it;
    it.cls = IDENT;
    it.text = genIdent(c, o);
    it.e.cls = IDENT;
    it.e.flag = Token::Standard;
    it.e.value = it.text;
    return it;
  }

  // ------------------------------------------------------------------ layout
  /*!
   * must A and B be separated by white space?  `a_glue`: A was written at the
   * beginning of a line or right after white space / a separator
   */
  bool needSeparator(const Item& A, const bool a_glue, const Item& B, const Opts& o) {
    const char a = A.text.back(), b = B.text.front();
    if (B.cls == NUMBER && B.is_signed) return true;
    if (A.cls == PP_KEYWORD) return true;
    if (A.cls == PP_HASH) return false;
    if (A.cls == IDENT) {
      if (isWordChar(b, o)) return true;
      if (A.text == "R" && b == '"') return true;  // raw string prefix
      return false;
    }
    if (A.cls == NUMBER) return isWordChar(b, o) || b == '.' || b == '\'';
    if (A.cls == OP || A.cls == C_COMMENT) {
      if (joinable(a, b)) return true;
      if (a == '.' && std::isdigit(static_cast<unsigned char>(b))) return true;
      if (A.text == "->" && b == '*') return true;
      if (A.cls == OP && (A.text == "+" || A.text == "-") && a_glue &&
          (std::isdigit(static_cast<unsigned char>(b)) || b == '.'))
        return true;
      // a lone +/- that is not a separator glues to a following word
      if (A.cls == OP && isWordChar(a, o) && isWordChar(b, o)) return true;
      return false;
    }
    return false;  // STRING, CHARLIT
  }

  std::string genBlank(verif::Case& c) {
    const auto n = c.integer(1, 3, "nblank");
    std::string s;
    for (std::int64_t i = 0; i != n; ++i) s += c.chance(1, 5, "tab") ? '\t' : ' ';
    return s;
  }

  void genNewline(verif::Case& c, Writer& w, const bool trailing_blank_allowed) {
    if (trailing_blank_allowed && c.chance(1, 6, "trailing_blank")) w.raw(genBlank(c));
    const auto n = c.integer(1, 2, "newlines");
    w.raw(std::string(static_cast<std::size_t>(n), '\n'));
    if (c.chance(1, 2, "indent")) w.raw(genBlank(c));
  }

  //! write an item at the current position and record what is expected
  void place(Writer& w, const Item& it, const Opts& o) {
    Expected e = it.e;
    e.line = w.line;
    if (e.normalise) {
      e.offset += w.col;  // stored relative to the comment opening
    } else {
      e.offset = w.col;
    }
    if (o.keepBoundaries) e.kb_shift = w.kb_shift;
    const bool merge = o.mergeStrings && it.cls == STRING && it.text[0] == '"' && !w.exp.empty() &&
                       w.exp.back().flag == Token::String;
    if (merge) {
      auto& p = w.exp.back();
      p.value = p.value.substr(0, p.value.size() - 1) + it.text.substr(1);
      p.inner += it.e.inner;
    } else {
      if (w.exp.empty() && (e.flag == Token::DoxygenComment || e.flag == Token::DoxygenBackwardComment))
        e.first_token_comment_ok = true;
      w.exp.push_back(e);
    }
    w.raw(it.text);
    if (o.keepBoundaries && it.cls == C_COMMENT && it.text.find('\n') == std::string::npos)
      w.kb_shift += 2 + it.e.marker_len;
  }

  // ------------------------------------------------------------------ comparison
  bool sameToken(const Token& t, const Expected& e, std::string& why) {
    const auto got = e.normalise ? normaliseComment(t.value) : t.value;
    if (got != e.value && (e.alt_value.empty() || got != e.alt_value)) {
      why = "value";
      return false;
    }
    if (t.flag != e.flag && !(e.first_token_comment_ok && t.flag == Token::Comment)) {
      why = "flag";
      return false;
    }
    if (t.line != e.line) {
      why = "line";
      return false;
    }
    if (e.judge_offset && t.offset != e.offset) {
      why = "offset";
      return false;
    }
    return true;
  }

  std::string describe(const Token& t) {
    return show(t.value, 80) + "/" + flagName(t.flag) + "@" + std::to_string(t.line) + ":" + std::to_string(t.offset);
  }
  std::string describe(const Expected& e) {
    return show(e.value, 80) + "/" + flagName(e.flag) + "@" + std::to_string(e.line) + ":" +
           (e.judge_offset ? std::to_string(e.offset) : std::string("?"));
  }

  /*!
   * compare; returns "" or the description of the first difference and sets
   * `what` to the differing attribute (count, value, flag, line, offset)
   */
  std::string diff(const CxxTokenizer& t, const std::vector<Expected>& exp, std::string& what) {
    const auto n = std::min<std::size_t>(t.size(), exp.size());
    for (std::size_t i = 0; i != n; ++i) {
      std::string why;
      if (!sameToken(t[i], exp[i], why)) {
        what = why;
        return "token " + std::to_string(i) + " differs by its " + why + ": got " + describe(t[i]) + " expected " +
               describe(exp[i]);
      }
    }
    if (t.size() != exp.size()) {
      what = "count";
      return std::to_string(t.size()) + " tokens instead of " + std::to_string(exp.size()) + ", first unmatched: " +
             (t.size() > n ? "got " + describe(t[n]) : "expected " + describe(exp[n]));
    }
    return "";
  }

  //! what the source does with ->* : "->" followed by "*"
  std::vector<Expected> splitArrowStar(const std::vector<Expected>& exp) {
    std::vector<Expected> r;
    for (const auto& e : exp) {
      if (!e.arrow_star) {
        r.push_back(e);
        continue;
      }
      auto a = e, b = e;
      a.value = "->";
      b.value = "*";
      b.offset = e.offset + 2;
      a.arrow_star = b.arrow_star = false;
      r.push_back(a);
      r.push_back(b);
    }
    return r;
  }
  //! what the source does with 1e5f : number "1e5" followed by the word "f"
  std::vector<Expected> splitExpFloatSuffix(const std::vector<Expected>& exp) {
    std::vector<Expected> r;
    for (const auto& e : exp) {
      if (!e.expf) {
        r.push_back(e);
        continue;
      }
      auto a = e, b = e;
      a.value = e.value.substr(0, e.value.size() - e.expf_tail.size());
      if (!e.alt_value.empty()) a.alt_value = e.alt_value.substr(0, e.alt_value.size() - e.expf_tail.size());
      b.value = e.expf_tail;
      b.alt_value.clear();
      b.flag = Token::Standard;
      b.offset = e.offset + e.expf_numlen;
      a.expf = b.expf = false;
      r.push_back(a);
      r.push_back(b);
    }
    return r;
  }
  //! keepCommentBoundaries: offsets after a one-line C comment lack the length of its opening
  std::vector<Expected> shiftAfterComments(const std::vector<Expected>& exp) {
    auto r = exp;
    for (auto& e : r) {
      e.offset -= std::min(e.offset, e.kb_shift);
      e.kb_shift = 0;
    }
    return r;
  }

  void tagOptions(verif::Case& c, const Opts& o) {
    if (o.charAsString) c.tag("option.charAsString");
    if (o.keepBoundaries) c.tag("option.keepCommentBoundaries");
    if (o.mergeStrings) c.tag("option.mergeStrings");
    if (!o.dotSep) c.tag("option.dotNotSeparator");
    if (!o.plusSep) c.tag("option.plusNotSeparator");
    if (!o.minusSep) c.tag("option.minusNotSeparator");
    if (o.str() == " default") c.tag("option.default");
  }

  Opts genOpts(verif::Case& c) {
    Opts o;
    if (c.chance(1, 2, "default_options")) return o;
    o.charAsString = c.boolean("charAsString");
    o.keepBoundaries = c.boolean("keepCommentBoundaries");
    o.mergeStrings = c.boolean("mergeStrings");
    if (c.chance(1, 3, "separators")) {
      o.dotSep = c.boolean("dotSep");
      o.plusSep = c.boolean("plusSep");
      o.minusSep = c.boolean("minusSep");
    }
    return o;
  }

  /*!
   * judge a tokenization against the expectation.  When it differs, the
   * transformations describing the recorded defect classes present in the text
   * are tried in every combination, smallest first: the first combination that
   * explains the tokens names the finding (one `check(false, key)` per class of
   * the combination: a key that is not in the known list is an ordinary
   * failure), so that everything else in the text has been verified behind it
   * and a repaired class is never assumed.
   */
  void judge(verif::Case& c, const CxxTokenizer& t, const std::vector<Expected>& exp, const std::string& key,
             const std::string& ctx) {
    std::string what;
    const auto d = diff(t, exp, what);
    if (d.empty()) return;
    struct Known {
      const char* key;
      const char* msg;
      std::vector<Expected> (*transform)(const std::vector<Expected>&);
    };
    std::vector<Known> present;
    if (std::any_of(exp.begin(), exp.end(), [](const Expected& e) { return e.arrow_star; }))
      present.push_back({"C31.operator.arrow_star_split",
                         "'->*' is returned as '->' followed by '*' (everything else as expected): ", splitArrowStar});
    if (std::any_of(exp.begin(), exp.end(), [](const Expected& e) { return e.expf; }))
      present.push_back({"C31.number.exponent_float_suffix_split",
                         "a floating literal digits+exponent+f (no '.', no '-') loses its suffix, returned as a separate "
                         "word (everything else as expected): ",
                         splitExpFloatSuffix});
    if (std::any_of(exp.begin(), exp.end(), [](const Expected& e) { return e.kb_shift != 0; }))
      present.push_back({"C31.offset.after_c_comment_keep_boundaries",
                         "keepCommentBoundaries: the offsets of the tokens that follow a one-line /* */ comment on its "
                         "line lack the length of the comment opening (everything else as expected): ",
                         shiftAfterComments});
    const unsigned n = static_cast<unsigned>(present.size());
    for (unsigned size = 1; size <= n; ++size) {
      for (unsigned mask = 1; mask < (1u << n); ++mask) {
        if (static_cast<unsigned>(__builtin_popcount(mask)) != size) continue;
        auto cur = exp;
        for (unsigned k = 0; k != n; ++k)
          if (mask & (1u << k)) cur = present[k].transform(cur);
        std::string w2;
        if (!diff(t, cur, w2).empty()) continue;
        // explained by this combination: unknown keys first (ordinary failures)
        auto& g = verif::Global::get();
        for (unsigned k = 0; k != n; ++k)
          if ((mask & (1u << k)) && g.known_keys.count(present[k].key) == 0)
            c.check(false, present[k].key, present[k].msg + d + ctx);
        for (unsigned k = 0; k != n; ++k)
          if (mask & (1u << k)) c.check(false, present[k].key, present[k].msg + d + ctx);
      }
    }
    c.check(false, key + "." + what, d + (present.empty() ? "" : " (not explained by the recorded classes)") + ctx);
  }

}  // namespace

// ---------------------------------------------------------------------- token streams
VERIF_SUB(tokens) {
  const Opts o = genOpts(c);
  Writer w;
  if (c.chance(1, 4, "leading_blank")) w.raw(genBlank(c));
  const auto n = c.integer(1, c.chance(1, 5, "long") ? 40 : 12, "ntokens");
  Item prev;
  bool have_prev = false, prev_glue = true;
  bool pending_pp_keyword = false;
  std::size_t ncomment_or_string = 0;
  for (std::int64_t k = 0; k != n; ++k) {
    Item it;
    if (pending_pp_keyword) {
      static const char* const keys[] = {"define", "undef", "include", "line", "error", "if", "ifdef",
                                         "ifndef", "elif", "else", "endif", "pragma", "warning"};
      it.cls = PP_KEYWORD;
      it.text = keys[c.pick(13, "pp_keyword")];
      it.e.cls = PP_KEYWORD;
      it.e.flag = Token::Preprocessor;
      it.e.value = it.text;
      pending_pp_keyword = false;
    } else {
      const auto cls = c.integer(0, 19, "class");
      if (cls <= 4) {
        it = genIdentItem(c, o);
      } else if (cls <= 7) {
        it = genNumber(c);
      } else if (cls <= 9) {
        it = genString(c, '"');
      } else if (cls == 10) {
        it = o.charAsString ? genString(c, '\'') : genChar(c);
      } else if (cls <= 14) {
        it = genOperator(c);
      } else if (cls == 15) {
        it = genComment(c, o, false);
      } else if (cls <= 17) {
        it = genComment(c, o, true);
      } else if (cls == 18) {
        it.cls = PP_HASH;
        it.text = "#";
        it.e.cls = PP_HASH;
        it.e.flag = Token::Preprocessor;
        it.e.value = "#";
        pending_pp_keyword = true;
      } else {
        it = genIdentItem(c, o);
      }
    }
    // a '...' string right before a "..." string would be merged into a
    // value the statement says nothing about: a ';' is written in between
    if (o.mergeStrings && o.charAsString && it.cls == STRING && it.text[0] == '"' && have_prev && prev.cls == STRING &&
        prev.text[0] == '\'') {
      Item semi;
      semi.cls = OP;
      semi.text = ";";
      semi.e.cls = OP;
      semi.e.value = ";";
      place(w, semi, o);
      prev = semi;
      prev_glue = true;
    }
    // layout
    bool newline = false;
    if (have_prev && prev.cls == LINE_COMMENT) newline = true;
    if (it.cls == PP_HASH && !w.blank_line) newline = true;
    if (!newline && have_prev && it.cls != PP_KEYWORD) newline = c.chance(1, 5, "newline");
    if (newline) {
      // white space after a line comment would belong to the comment
      genNewline(c, w, !(have_prev && prev.cls == LINE_COMMENT));
    } else if (have_prev) {
      const bool need = needSeparator(prev, prev_glue, it, o);
      if (need || c.chance(1, 2, "blank")) w.raw(genBlank(c));
    }
    // a signed number at the very beginning of a preprocessor line etc. is fine:
    // white space or the beginning of the line precedes it by construction
    prev_glue = w.col == 0 || isSpace(w.last()) || isSeparator(w.last(), o);
    place(w, it, o);
    if (it.cls == STRING || it.cls == LINE_COMMENT || it.cls == C_COMMENT) ++ncomment_or_string;
    switch (it.cls) {
      case IDENT: c.tag("ident"); break;
      case NUMBER: c.tag(it.is_signed ? "number.signed" : "number"); break;
      case STRING: c.tag("string"); break;
      case CHARLIT: c.tag("char"); break;
      case OP: c.tag(it.text.size() > 1 ? "operator.joined" : "operator.single"); break;
      case LINE_COMMENT: c.tag("comment.line"); break;
      case C_COMMENT: c.tag(it.text.find('\n') != std::string::npos ? "comment.c.multiline" : "comment.c"); break;
      case PP_HASH: c.tag("preprocessor"); break;
      default: break;
    }
    prev = it;
    have_prev = true;
  }
  if (pending_pp_keyword) {
    // a lonely '#' is an error for the tokenizer: complete the directive
    Item it;
    it.cls = PP_KEYWORD;
    it.text = "endif";
    it.e.cls = PP_KEYWORD;
    it.e.flag = Token::Preprocessor;
    it.e.value = it.text;
    place(w, it, o);
  }
  if (c.chance(1, 2, "final_newline")) w.raw("\n");
  c.nontrivial(ncomment_or_string >= 1 && w.line >= 2);
  tagOptions(c, o);
  const std::string ctx = " | options:" + o.str() + " | text=" + show(w.text);

  CxxTokenizer t(o.make());
  try {
    t.parseString(w.text);
  } catch (const std::exception& ex) {
    const bool has_arrow_star = std::any_of(w.exp.begin(), w.exp.end(), [](const Expected& e) { return e.arrow_star; });
    (void)has_arrow_star;
    c.check(false, "C31.tokens.unexpected_throw", std::string("parseString threw: ") + ex.what() + ctx);
  }
  judge(c, t, w.exp, "C31.tokens", ctx);

  // read helpers on the literal tokens (before stripComments: the iterators
  // are those of the full list; the arrow-star class never reaches this point)
  for (std::size_t i = 0; i != w.exp.size(); ++i) {
    const auto& e = w.exp[i];
    auto p = t.begin() + static_cast<std::ptrdiff_t>(i);
    const auto next = p + 1;
    if (e.has_double) {
      auto q = p;
      const double v = CxxTokenizer::readDouble(q, t.end());
      c.check(v == e.dval && q == next, "C31.read.double",
              "readDouble(" + show(e.value) + ") = " + std::to_string(v) + " expected " + std::to_string(e.dval) + ctx);
      c.tag("read.double");
    }
    if (e.has_int && e.ival >= -2147483647L && e.ival <= 2147483647L) {
      auto q = p;
      const int v = CxxTokenizer::readInt(q, t.end());
      c.check(v == e.ival && q == next, "C31.read.int",
              "readInt(" + show(e.value) + ") = " + std::to_string(v) + " expected " + std::to_string(e.ival) + ctx);
      c.tag("read.int");
    }
    if (e.has_uint && e.ival >= 0 && e.ival <= 4294967295L) {
      auto q = p;
      const unsigned int v = CxxTokenizer::readUnsignedInt(q, t.end());
      c.check(v == static_cast<unsigned long>(e.ival) && q == next, "C31.read.unsigned",
              "readUnsignedInt(" + show(e.value) + ") = " + std::to_string(v) + " expected " + std::to_string(e.ival) + ctx);
      c.tag("read.unsigned");
    }
    if (e.has_string) {
      auto q = p;
      const auto v = CxxTokenizer::readString(q, t.end());
      c.check(v == e.inner && q == next, "C31.read.string",
              "readString(" + show(e.value) + ") = " + show(v) + " expected " + show(e.inner) + ctx);
      c.tag("read.string");
    }
  }

  // stripComments removes exactly the comments
  std::vector<Expected> kept;
  for (const auto& e : w.exp)
    if (!isCommentFlag(e.flag)) kept.push_back(e);
  t.stripComments();
  for (const auto& tk : t)
    c.check(!isCommentFlag(tk.flag), "C31.strip.comment_left", "a comment token survives stripComments: " + describe(tk) + ctx);
  judge(c, t, kept, "C31.strip", ctx);
}

// ---------------------------------------------------------------------- operators, exhaustively
VERIF_SUB_W(operator_pairs_exhaustive, 0.01) {
  Opts o;
  o.keepBoundaries = c.boolean("keepCommentBoundaries");
  o.mergeStrings = c.boolean("mergeStrings");
  const std::string lead = c.boolean("indent") ? genBlank(c) : std::string();
  const auto& ops = operators();
  std::size_t npairs = 0, arrow_star_splits = 0;
  for (const auto& A : ops) {
    for (const auto& B : ops) {
      for (int glued = 0; glued != 2; ++glued) {
        Item a, b, x, y;
        a.cls = b.cls = OP;
        a.text = A;
        b.text = B;
        a.e.value = A;
        b.e.value = B;
        a.e.cls = b.e.cls = OP;
        a.e.arrow_star = A == "->*";
        b.e.arrow_star = B == "->*";
        x.text = x.e.value = "x";
        y.text = y.e.value = "y1";
        // x A B y1 : the operators are preceded by a word, so that the sign
        // rule does not apply to A; B is followed by white space
        Writer w;
        w.raw(lead);
        place(w, x, o);
        place(w, a, o);
        if (glued == 0 || needSeparator(a, false, b, o)) w.raw(" ");
        place(w, b, o);
        w.raw(" ");
        place(w, y, o);
        CxxTokenizer t(o.make());
        const std::string ctx = " | text=" + show(w.text);
        try {
          t.parseString(w.text);
        } catch (const std::exception& ex) {
          c.check(false, "C31.operators.unexpected_throw", std::string("parseString threw: ") + ex.what() + ctx);
        }
        std::string what;
        const auto d = diff(t, w.exp, what);
        ++npairs;
        if (d.empty()) continue;
        if (a.e.arrow_star || b.e.arrow_star) {
          std::string what2;
          const auto d2 = diff(t, splitArrowStar(w.exp), what2);
          c.check(d2.empty(), "C31.operators." + what2, d2 + " (with '->*' already read as '->','*')" + ctx);
          ++arrow_star_splits;
          continue;
        }
        c.check(false, "C31.operators." + what, d + ctx);
      }
    }
  }
  c.nontrivial(true);
  c.tag("exhaustive.operator_pairs");
  c.note("exhaustive: " + std::to_string(ops.size()) + "^2 x {separated, glued when allowed} = " + std::to_string(npairs) + " texts");
  // the known class ('->*', findings/pending/C31.json) is reported by `directed`
  // and `tokens`; here it is only counted (its residual claim has been verified
  // above) so that the sweep is accounted as an evaluation
  if (arrow_star_splits != 0) {
    c.tag("sweep.with_known_arrow_star_items");
    c.note(std::to_string(arrow_star_splits) + " texts with the known '->*' split");
  }
}

// ---------------------------------------------------------------------- directed examples
namespace {
  struct Example {
    const char* name;
    Opts o;
    const char* text;
    std::vector<Expected> exp;
  };
  Expected E(const std::string& v, const Token::TokenFlag f, const std::size_t line, const std::size_t offset) {
    Expected e;
    e.value = v;
    e.flag = f;
    e.line = line;
    e.offset = offset;
    if (isCommentFlag(f)) {
      e.normalise = true;
      e.value = normaliseComment(v);
    }
    return e;
  }
  std::vector<Example> examples() {
    const auto S = Token::Standard;
    const auto N = Token::Number;
    Opts d, kb;
    kb.keepBoundaries = true;
    std::vector<Example> r;
    // the three known classes, in their smallest form
    {
      auto op = E("->*", S, 1, 1);
      op.arrow_star = true;
      r.push_back({"arrow_star", d, "x->*y", {E("x", S, 1, 0), op, E("y", S, 1, 4)}});
    }
    {
      auto n = E("1e5f", N, 1, 4);
      n.expf = true;
      n.expf_numlen = 3;
      n.expf_tail = "f";
      r.push_back({"exponent_float_suffix", d, "a = 1e5f;", {E("a", S, 1, 0), E("=", S, 1, 2), n, E(";", S, 1, 8)}});
    }
    {
      auto cm = E("/* c */", Token::Comment, 1, 0);
      cm.normalise = false;
      cm.value = "/* c */";
      auto a = E("a", S, 1, 8);
      a.kb_shift = 2;
      r.push_back({"keep_boundaries_offset", kb, "/* c */ a", {cm, a}});
    }
    // upstream expectations (tests/Utilities) and ordinary C++ / mtest lines
    r.push_back({"upstream_offset", d, "  void", {E("void", S, 1, 2)}});
    r.push_back({"upstream_number_word", d, "12.3a+", {E("12.3", N, 1, 0), E("a", S, 1, 4), E("+", S, 1, 5)}});
    r.push_back({"upstream_backward", d, "test //!< a comment \"with string\"",
                 {E("test", S, 1, 0), E("a comment \"with string\"", Token::DoxygenBackwardComment, 1, 10)}});
    r.push_back({"upstream_exponent", d, "a=2.e-5", {E("a", S, 1, 0), E("=", S, 1, 1), E("2.e-5", N, 1, 2)}});
    r.push_back({"template", d, "std::vector<double> v;",
                 {E("std", S, 1, 0), E("::", S, 1, 3), E("vector", S, 1, 5), E("<", S, 1, 11), E("double", S, 1, 12),
                  E(">", S, 1, 18), E("v", S, 1, 20), E(";", S, 1, 21)}});
    r.push_back({"arrow_signed", d, "p->x += -1.5e3;",
                 {E("p", S, 1, 0), E("->", S, 1, 1), E("x", S, 1, 3), E("+=", S, 1, 5), E("-1.5e3", N, 1, 8), E(";", S, 1, 14)}});
    r.push_back({"comment_in_string", d, "\"a//b\" /* \"c */ 'x'",
                 {E("\"a//b\"", Token::String, 1, 0), E("\"c", Token::Comment, 1, 10), E("'x'", Token::Char, 1, 16)}});
    r.push_back({"include", d, "#include <vector>\nint a;",
                 {E("#", Token::Preprocessor, 1, 0), E("include", Token::Preprocessor, 1, 1), E("<", S, 1, 9), E("vector", S, 1, 10),
                  E(">", S, 1, 16), E("int", S, 2, 0), E("a", S, 2, 4), E(";", S, 2, 5)}});
    r.push_back({"multiline_comment", d, "/* a\n b */ c", {E("a\n b", Token::Comment, 1, 3), E("c", S, 2, 6)}});
    r.push_back({"mtest_line", d, "@Real 'x' -1.5;", {E("@Real", S, 1, 0), E("'x'", Token::Char, 1, 6), E("-1.5", N, 1, 10), E(";", S, 1, 14)}});
    return r;
  }
}  // namespace

VERIF_SUB_W(directed, 0.02) {
  static const auto ex = examples();
  const auto& e = ex[c.pick(ex.size(), "example")];
  c.tag(std::string("example.") + e.name);
  c.nontrivial(true);
  const std::string ctx = " | example " + std::string(e.name) + " | options:" + e.o.str() + " | text=" + show(e.text);
  CxxTokenizer t(e.o.make());
  try {
    t.parseString(e.text);
  } catch (const std::exception& x) {
    c.check(false, "C31.directed.unexpected_throw", std::string("parseString threw: ") + x.what() + ctx);
  }
  judge(c, t, e.exp, "C31.directed", ctx);
}

// ---------------------------------------------------------------------- readArray
VERIF_SUB_W(arrays, 0.3) {
  const Opts o = genOpts(c);
  Writer w;
  std::vector<std::string> values;
  const auto npre = c.integer(0, 2, "prefix_tokens");
  Item prev;
  bool have_prev = false;
  auto put = [&](const Item& it, const bool force_blank) {
    const bool glue = w.col == 0 || isSpace(w.last()) || isSeparator(w.last(), o);
    (void)glue;
    if (have_prev) {
      if (c.chance(1, 6, "newline")) {
        genNewline(c, w, true);
      } else if (force_blank || needSeparator(prev, true, it, o) || c.chance(1, 2, "blank")) {
        w.raw(genBlank(c));
      }
    }
    place(w, it, o);
    prev = it;
    have_prev = true;
  };
  auto op = [](const char* s) {
    Item it;
    it.cls = OP;
    it.text = s;
    it.e.cls = OP;
    it.e.value = s;
    return it;
  };
  for (std::int64_t i = 0; i != npre; ++i) put(genIdentItem(c, o), false);
  const std::size_t first = w.exp.size();
  put(op("{"), false);
  const auto n = c.integer(0, 6, "elements");
  for (std::int64_t i = 0; i != n; ++i) {
    if (i != 0) put(op(","), false);
    const auto k = c.integer(0, 3, "element_class");
    Item it = k == 0 ? genIdentItem(c, o) : (k == 1 ? genNumber(c) : (k == 2 ? genString(c, '"') : genIdentItem(c, o)));
    // merged strings are one element
    const std::size_t before = w.exp.size();
    put(it, false);
    if (w.exp.size() > before) {
      values.push_back(w.exp.back().value);
    } else {
      values.back() = w.exp.back().value;
    }
    if (it.cls == STRING && o.mergeStrings && c.chance(1, 3, "second_string")) {
      put(genString(c, '"'), false);
      values.back() = w.exp.back().value;
    }
  }
  put(op("}"), false);
  const std::size_t after = w.exp.size();
  if (c.boolean("suffix_token")) put(op(";"), false);
  const std::string ctx = " | options:" + o.str() + " | text=" + show(w.text);
  c.nontrivial(n >= 2 && w.line >= 2);
  CxxTokenizer t(o.make());
  try {
    t.parseString(w.text);
  } catch (const std::exception& ex) {
    c.check(false, "C31.arrays.unexpected_throw", std::string("parseString threw: ") + ex.what() + ctx);
  }
  judge(c, t, w.exp, "C31.arrays.tokens", ctx);
  auto p = t.begin() + static_cast<std::ptrdiff_t>(first);
  std::vector<std::string> got;
  for (const auto& v : values) {
    // numbers with digit separators: both spellings are accepted in `judge`;
    // here the value is whatever the token holds
    (void)v;
  }
  try {
    got = CxxTokenizer::readArray("C31", p, t.end());
  } catch (const std::exception& ex) {
    c.check(false, "C31.read.array", std::string("readArray threw: ") + ex.what() + ctx);
  }
  bool same = got.size() == values.size();
  for (std::size_t i = 0; same && i != got.size(); ++i) {
    const auto& tk = t[first + 1 + 2 * i];
    same = got[i] == tk.value && (got[i] == values[i] || tk.flag == Token::Number);
  }
  std::string gs;
  for (const auto& g : got) gs += show(g, 40) + " ";
  c.check(same, "C31.read.array", "readArray returned [ " + gs + "] for " + std::to_string(values.size()) + " elements" + ctx);
  c.check(p == t.begin() + static_cast<std::ptrdiff_t>(after), "C31.read.array",
          "readArray does not stop right after the closing brace" + ctx);
}

VERIF_MAIN("C31_roundtrip")
