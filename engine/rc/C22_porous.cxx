/*!
 * C22 - equivalent-stress criteria, unit "porous": Gurson-Tvergaard-Needleman 1982,
 * Rousselier-Tanguy-Besson 2002, Michel-Suquet 1992 (hollow sphere).
 * Independent values (header / .ixx documentation):
 *   GTN : root s* of (svM/s*)^2 + 2 q1 f* cosh(3 q2 sm / (2 s*)) - 1 - q3 f*^2 = 0
 *         f* = f (f < fc), fc + (fu - fc)/(fr - fc) (f - fc) otherwise, fu = (q1 - sqrt(q1^2-q3))/q3
 *   RTB : root s* of svM/((1-f) s*) + 2/3 f DR exp(3 qR sm / (2 (1-f) s*)) - 1 = 0
 *   MS  : sqrt(9/4 A sm^2 + B svM^2), A = (n (f^(-1/n) - 1))^(-2n/(n+1)),
 *         B = (1 + 2f/3) (1-f)^(-2n/(n+1))
 * The implicit ones are solved by bisection on log(1/s*) in long double (both
 * residuals are convex in 1/s*, negative at 0 and tend to +infinity: one root).
 * Only the derivatives with respect to the stress are part of the property.
 *
 * Error model: the criteria are written on (svM, sm): E = u tri; the implicit ones
 * stop their Newton iterations when |d s*| < seps/10 or |S| < 1e-14: E += seps/s_vM.
 */
#include "C22_common.hxx"
#include "TFEL/Material/GursonTvergaardNeedleman1982StressCriterion.hxx"
#include "TFEL/Material/RousselierTanguyBesson2002StressCriterion.hxx"
#include "TFEL/Material/MichelAndSuquet1992HollowSphereStressCriterion.hxx"

using namespace c22;

namespace {

  //! root of S(x) = 0, x = 1/s*, S(0) < 0, S convex, S -> +inf
  template <typename F>
  R solveInverse(const F& S, const R scale) {
    R lo = std::log(1e-8L / scale), hi = std::log(1e8L / scale);
    if (!(S(std::exp(lo)) < 0) || !(S(std::exp(hi)) > 0)) return std::nan("");
    for (int i = 0; i < 200; ++i) {
      const R m = (lo + hi) / 2;
      if (S(std::exp(m)) < 0) lo = m;
      else hi = m;
    }
    return 1 / std::exp((lo + hi) / 2);
  }

  // -------------------------------------------------------------------- GTN
  struct GTN {
    double f, fc, fr, q1, q2, q3;
    bool q3sq = false;  //!< q3 == q1^2 (usual choice): fu = 1/q1
    template <unsigned short N>
    tfel::material::GursonTvergaardNeedleman1982StressCriterionParameters<S2<N>> params() const {
      tfel::material::GursonTvergaardNeedleman1982StressCriterionParameters<S2<N>> p;
      p.f_c = fc;
      p.f_r = fr;
      p.q_1 = q1;
      p.q_2 = q2;
      p.q_3 = q3;
      return p;
    }
    template <unsigned short N>
    double value(const S2<N>& s, double seps) const {
      return tfel::material::computeGursonTvergaardNeedleman1982Stress(s, f, params<N>(), seps);
    }
    template <unsigned short N>
    std::pair<double, S2<N>> normal(const S2<N>& s, double seps) const {
      const auto r = tfel::material::computeGursonTvergaardNeedleman1982StressNormal(
          s, f, params<N>(), seps);
      return {std::get<0>(r), S2<N>(std::get<1>(r))};
    }
    template <unsigned short N>
    std::tuple<double, S2<N>, S4<N>> second(const S2<N>& s, double seps) const {
      const auto r = tfel::material::computeGursonTvergaardNeedleman1982StressSecondDerivative(
          s, f, params<N>(), seps);
      return {std::get<0>(r), S2<N>(std::get<1>(r)), S4<N>(std::get<3>(r))};
    }
    R fstar() const {
      // fu is infinitely sensitive to q1^2 - q3 -> 0: the usual choice q3 = q1^2 is
      // taken as the documented identity fu = 1/q1, other values keep q3 <= 0.98 q1^2
      const R fu = q3sq ? 1 / R(q1) : (R(q1) - std::sqrt(R(q1) * q1 - R(q3))) / R(q3);
      const R delta = (fu - R(fc)) / (R(fr) - R(fc));
      return f < fc ? R(f) : R(fc) + delta * (R(f) - R(fc));
    }
    R ref(const M3& s) const {
      const R vm = ref::vonMises(s), sm = ref::trace(s) / 3, fs = fstar();
      const R c = 3 * R(q2) * sm / 2;
      return solveInverse(
          [&](R x) {
            return vm * vm * x * x + 2 * R(q1) * fs * std::cosh(c * x) - 1 - R(q3) * fs * fs;
          },
          std::max(vm, std::fabs(sm)));
    }
  };

  // -------------------------------------------------------------------- RTB
  struct RTB {
    double f, DR, qR;
    template <unsigned short N>
    tfel::material::RousselierTanguyBesson2002StressCriterionParameters<S2<N>> params() const {
      tfel::material::RousselierTanguyBesson2002StressCriterionParameters<S2<N>> p;
      p.DR = DR;
      p.qR = qR;
      return p;
    }
    template <unsigned short N>
    double value(const S2<N>& s, double seps) const {
      return tfel::material::computeRousselierTanguyBesson2002Stress(s, f, params<N>(), seps);
    }
    template <unsigned short N>
    std::pair<double, S2<N>> normal(const S2<N>& s, double seps) const {
      const auto r =
          tfel::material::computeRousselierTanguyBesson2002StressNormal(s, f, params<N>(), seps);
      return {std::get<0>(r), S2<N>(std::get<1>(r))};
    }
    template <unsigned short N>
    std::tuple<double, S2<N>, S4<N>> second(const S2<N>& s, double seps) const {
      const auto r = tfel::material::computeRousselierTanguyBesson2002StressSecondDerivative(
          s, f, params<N>(), seps);
      return {std::get<0>(r), S2<N>(std::get<1>(r)), S4<N>(std::get<3>(r))};
    }
    R ref(const M3& s) const {
      const R vm = ref::vonMises(s), sm = ref::trace(s) / 3;
      const R a = vm / (1 - R(f)), b = 2 * R(f) * R(DR) / 3, c = 3 * R(qR) * sm / (2 * (1 - R(f)));
      return solveInverse([&](R x) { return a * x + b * std::exp(c * x) - 1; },
                          std::max(vm, std::fabs(sm)));
    }
  };

  // ---------------------------------------------------------- Michel-Suquet
  struct MS {
    double f, n;
    template <unsigned short N>
    tfel::material::MichelAndSuquet1992HollowSphereStressCriterionParameters<S2<N>> params()
        const {
      tfel::material::MichelAndSuquet1992HollowSphereStressCriterionParameters<S2<N>> p;
      p.n = n;
      return p;
    }
    template <unsigned short N>
    double value(const S2<N>& s, double seps) const {
      return tfel::material::computeMichelAndSuquet1992HollowSphereStress(s, f, params<N>(),
                                                                           seps);
    }
    template <unsigned short N>
    std::pair<double, S2<N>> normal(const S2<N>& s, double seps) const {
      const auto r = tfel::material::computeMichelAndSuquet1992HollowSphereStressNormal(
          s, f, params<N>(), seps);
      return {std::get<0>(r), S2<N>(std::get<1>(r))};
    }
    template <unsigned short N>
    std::tuple<double, S2<N>, S4<N>> second(const S2<N>& s, double seps) const {
      const auto r =
          tfel::material::computeMichelAndSuquet1992HollowSphereStressSecondDerivative(
              s, f, params<N>(), seps);
      return {std::get<0>(r), S2<N>(std::get<1>(r)), S4<N>(std::get<3>(r))};
    }
    R ref(const M3& s) const {
      const R vm = ref::vonMises(s), sm = ref::trace(s) / 3, nn = n, ff = f;
      const R e = -2 * nn / (nn + 1);
      const R A = std::pow(nn * (std::pow(ff, -1 / nn) - 1), e);
      const R B = (1 + 2 * ff / 3) * std::pow(1 - ff, e);
      return std::sqrt(R(9) / 4 * A * sm * sm + B * vm * vm);
    }
  };

  Options porousOptions(const char* name, const Stress& st, bool implicit) {
    Options o;
    o.name = name;
    o.eig = false;
    const R extra = implicit ? st.seps / st.vm : R(0);
    o.model = [extra](const M3& x) -> ErrModel {
      const Stress t = analysed(x);
      const R E = u * t.tri + extra;
      return {E, E, R(1)};
    };
    return o;
  }

  void tagPressure(verif::Case& c, const Stress& st) {
    c.tag(std::fabs(ref::trace(st.sig)) / 3 < st.seps ? "porous.pressure_below_seps"
                                                      : "porous.pressure_above_seps");
  }

  template <unsigned short N>
  void gtn(verif::Case& c) {
    const auto st = genStress<N>(c);
    GTN g;
    g.q1 = c.boolean("q1_typical") ? 1.5 : c.real(1., 2., "q1");
    g.q2 = c.boolean("q2_typical") ? 1. : c.real(0.8, 1.2, "q2");
    g.q3sq = c.boolean("q3_q1sq");
    g.q3 = g.q1 * g.q1 * (g.q3sq ? 1. : c.real(0.7, 0.98, "q3_over_q1sq"));
    g.fr = c.real(0.15, 0.5, "f_r");
    g.fc = c.real(0.01, g.fr - 0.05, "f_c");
    g.f = std::min(c.log10real(-4, std::log10(0.3), "f"), 0.9 * g.fr);
    c.tag(g.f < g.fc ? "gtn.f_below_fc" : "gtn.f_above_fc");
    tagPressure(c, st);
    // domain: the yield surface exists (1 - 2 q1 f* + q3 f*^2 > 0)
    const R fs = g.fstar();
    if (!(1 - 2 * R(g.q1) * fs + R(g.q3) * fs * fs > R(0.02))) c.discard();
    auto o = porousOptions("gtn", st, true);
    // cosh(3 q2 sm / (2 s*)): the argument is amplified in the exponential
    o.amp = 8 * (1 + st.tri);
    checkAll<N>(c, g, st, o);
  }

  template <unsigned short N>
  void rtb(verif::Case& c) {
    const auto st = genStress<N>(c);
    RTB r;
    r.DR = c.boolean("DR_typical") ? 2. : c.real(1.5, 2.5, "DR");
    r.qR = c.boolean("qR_typical") ? 1. : c.real(0.7, 1.2, "qR");
    r.f = c.log10real(-4, std::log10(0.3), "f");
    tagPressure(c, st);
    auto o = porousOptions("rtb", st, true);
    o.amp = 8 * (1 + st.tri);
    checkAll<N>(c, r, st, o);
  }

  template <unsigned short N>
  void ms(verif::Case& c) {
    const auto st = genStress<N>(c);
    MS m;
    m.n = c.boolean("n_integer") ? static_cast<double>(c.integer(1, 10, "n")) : c.real(1., 20., "n");
    m.f = c.log10real(-4, std::log10(0.3), "f");
    tagPressure(c, st);
    auto o = porousOptions("michel_suquet", st, false);
    o.amp = 8;
    checkAll<N>(c, m, st, o);
  }

}  // namespace

VERIF_SUB_W(gtn_1d, 0.25) { gtn<1u>(c); }
VERIF_SUB_W(gtn_2d, 0.5) { gtn<2u>(c); }
VERIF_SUB(gtn_3d) { gtn<3u>(c); }
VERIF_SUB_W(rtb_1d, 0.25) { rtb<1u>(c); }
VERIF_SUB_W(rtb_2d, 0.5) { rtb<2u>(c); }
VERIF_SUB(rtb_3d) { rtb<3u>(c); }
VERIF_SUB_W(michel_suquet_1d, 0.25) { ms<1u>(c); }
VERIF_SUB_W(michel_suquet_2d, 0.5) { ms<2u>(c); }
VERIF_SUB(michel_suquet_3d) { ms<3u>(c); }

VERIF_MAIN("C22_porous")
