/*!
 * C02 (unit "st2tost2") - fourth order tensors mapping symmetric tensors to
 * symmetric tensors match their index-notation meaning.
 * Oracle: every st2tost2 is expanded to a 3x3x3x3 array through the
 * orthonormal Mandel basis of refmath.hxx and compared with the index formula
 * evaluated in long double.
 * Non-trivial: N >= 2 (this is where the sqrt2 factors matter) and a non-zero
 * operand.
 */
#include "C02_common.hxx"
#include "TFEL/Math/stensor.hxx"
#include "TFEL/Math/tensor.hxx"
#include "TFEL/Math/st2tost2.hxx"

using namespace tfel::math;

namespace {

  constexpr bool SYM = true;

  template <unsigned short N, typename T>
  void projectors(verif::Case& c) {
    using S = stensor<N, T>;
    using C4 = st2tost2<N, T>;
    const double sc = gen::scale(c, std::is_same_v<T, float> ? 10 : 30);
    const S s = gen::toStensor<S>(gen::sym(c, N, sc));
    const M3 Sm = gen::stensorToM3(s);
    c.nontrivial(N >= 2 && ref::norm(Sm) > 0);
    const R u = U<T>(), tiny = tinyOf<T>();
    const R nS = ref::norm(Sm);
    const T4 Is = ref::Id4s(), II = ref::IxI();
    const T4 J = R(1) / 3 * II, K = Is - J, M = R(1.5) * K;
    // components (docs/web/tensors.md "Special values of the st2tost2 class")
    f4::cmp(c, C4::Id(), Is, N, SYM, SYM, exactTol(1), "C02.st2tost2.Id", "Id");
    f4::cmp(c, C4::IxI(), II, N, SYM, SYM, exactTol(1), "C02.st2tost2.IxI", "IxI");
    f4::cmp(c, C4::J(), J, N, SYM, SYM, 32 * u, "C02.st2tost2.J", "J");
    f4::cmp(c, C4::K(), K, N, SYM, SYM, 32 * u, "C02.st2tost2.K", "K");
    f4::cmp(c, C4::M(), M, N, SYM, SYM, 32 * u, "C02.st2tost2.M", "M");
    // defining actions
    const R tol = 512 * u * nS + tiny;
    cmpS(c, S(C4::Id() * s), Sm, tol, "C02.st2tost2.Id", "Id:s = s");
    cmpS(c, S(C4::IxI() * s), ref::trace(Sm) * M3::Id(), tol, "C02.st2tost2.IxI",
         "IxI:s = tr(s) I");
    cmpS(c, S(C4::J() * s), (ref::trace(Sm) / 3) * M3::Id(), tol, "C02.st2tost2.J",
         "J:s = tr(s)/3 I");
    cmpS(c, S(C4::K() * s), ref::dev(Sm), tol, "C02.st2tost2.K", "K:s = dev(s)");
    // M: sigmaeq^2 = s:M:s
    const R seq = ref::vonMises(Sm);
    c.close(s | (C4::M() * s), seq * seq, 256 * u * nS * nS + tiny, "C02.st2tost2.M",
            "s:M:s = sigmaeq^2");
    c.close((s * C4::M()) | s, seq * seq, 256 * u * nS * nS + tiny, "C02.st2tost2.M",
            "(s:M):s = sigmaeq^2");
  }

  template <unsigned short N, typename T>
  void products(verif::Case& c) {
    using S = stensor<N, T>;
    using C4 = st2tost2<N, T>;
    const int kmax = std::is_same_v<T, float> ? 8 : 30;
    const double sc = gen::scale(c, kmax), sd = gen::scale(c, kmax, "scale2");
    const C4 C = f4::fromT4<C4>(f4::gen(c, N, SYM, SYM, sc), N, SYM, SYM);
    const C4 D = f4::fromT4<C4>(f4::gen(c, N, SYM, SYM, sc), N, SYM, SYM);
    const S s = gen::toStensor<S>(gen::sym(c, N, sd));
    const S s2 = gen::toStensor<S>(gen::sym(c, N, sd));
    const T4 Cr = f4::toT4(C, N, SYM, SYM), Dr = f4::toT4(D, N, SYM, SYM);
    const M3 Sm = gen::stensorToM3(s), S2 = gen::stensorToM3(s2);
    const R u = U<T>(), tiny = tinyOf<T>();
    const R nC = ref::norm(Cr), nD = ref::norm(Dr), nS = ref::norm(Sm), nS2 = ref::norm(S2);
    c.nontrivial(N >= 2 && nC > 0 && (nS > 0 || nD > 0));
    // (C:s)_ij = C_ijkl s_kl
    cmpS(c, S(C * s), ref::ddot(Cr, Sm), 256 * u * nC * nS + tiny, "C02.st2tost2.apply", "C*s");
    // (s:C)_kl = s_ij C_ijkl, both spellings
    cmpS(c, S(s * C), ref::ddot(Sm, Cr), 256 * u * nC * nS + tiny, "C02.st2tost2.apply_left",
         "s*C");
    cmpS(c, S(s | C), ref::ddot(Sm, Cr), 256 * u * nC * nS + tiny, "C02.st2tost2.apply_left",
         "s|C");
    // (C:D)_ijkl = C_ijmn D_mnkl
    f4::cmp(c, C4(C * D), ref::ddot(Cr, Dr), N, SYM, SYM, 256 * u * nC * nD + tiny,
            "C02.st2tost2.product", "C*D");
    // transpose: major transposition C_klij
    f4::cmp(c, C4(transpose(C)), ref::transpose(Cr), N, SYM, SYM, exactTol(nC), "C02.st2tost2.transpose",
            "transpose(C)");
    cmpS(c, S(transpose(C) * s), ref::ddot(Sm, Cr), 256 * u * nC * nS + tiny,
         "C02.st2tost2.transpose", "transpose(C)*s = s:C");
    // dyadic product
    f4::cmp(c, C4(s ^ s2), ref::otimes(Sm, S2), N, SYM, SYM, 128 * u * nS * nS2 + tiny,
            "C02.st2tost2.dyadic", "s1^s2");
    // linear combinations
    f4::cmp(c, C4(C + D), Cr + Dr, N, SYM, SYM, 128 * u * (nC + nD) + tiny, "C02.st2tost2.lincomb",
            "C+D");
    f4::cmp(c, C4(2 * C - D), R(2) * Cr - Dr, N, SYM, SYM, 128 * u * (2 * nC + nD) + tiny,
            "C02.st2tost2.lincomb", "2C-D");
    f4::cmp(c, C4(-C), R(-1) * Cr, N, SYM, SYM, exactTol(nC), "C02.st2tost2.lincomb", "-C");
    // scalar functions documented in ST2toST2Concept.hxx
    R tr = 0;
    for (int I = 0; I < f4::dimOf(N, SYM); ++I) tr += ref::componentOf(Cr, I, SYM, I, SYM);
    c.close(trace(C), tr, 512 * u * nC + tiny, "C02.st2tost2.trace", "trace(C)");
    if (nC * nC > static_cast<R>(std::numeric_limits<T>::min()) * 1e6L &&
        nC * nC < static_cast<R>(std::numeric_limits<T>::max()) * 1e-6L) {
      c.close(norm(C), nC, 256 * u * nC + tiny, "C02.st2tost2.norm", "norm(C)");
      R qd = 0;
      REF_FOR4 qd += Cr(i, j, k, l) * Dr(k, l, i, j);
      c.close(quaddot(C, D), qd, 512 * u * nC * nD + tiny, "C02.st2tost2.quaddot",
              "quaddot(C,D) = trace(C*D)");
    }
    // get / set component
    for (int rep = 0; rep < 3; ++rep) {
      unsigned short id[4];
      for (auto& x : id) x = static_cast<unsigned short>(c.integer(0, 2, "idx"));
      auto fix = [&](unsigned short& p, unsigned short& q) {
        if (N == 1) q = p;
        if (N == 2 && (p == 2 || q == 2)) p = q = 2;
      };
      fix(id[0], id[1]);
      fix(id[2], id[3]);
      c.close(getComponent(C, id[0], id[1], id[2], id[3]), Cr(id[0], id[1], id[2], id[3]),
              256 * u * f4::maxabs(Cr) + tiny, "C02.st2tost2.getComponent", "getComponent");
      const T x = static_cast<T>(c.sreal(sc, "x"));
      C4 G = C;
      setComponent<T>(G, id[0], id[1], id[2], id[3], x);
      const T4 Gr = f4::toT4(G, N, SYM, SYM);
      const R tx = 256 * u * std::fabs(static_cast<R>(x)) + tiny;
      c.close(Gr(id[0], id[1], id[2], id[3]), x, tx, "C02.st2tost2.setComponent",
              "component after setComponent");
      c.close(Gr(id[1], id[0], id[3], id[2]), x, tx, "C02.st2tost2.setComponent",
              "minor-symmetric component after setComponent");
      c.close(getComponent(G, id[0], id[1], id[2], id[3]), x, tx, "C02.st2tost2.setComponent",
              "getComponent(setComponent)");
    }
  }

  template <unsigned short N, typename T>
  void inversion(verif::Case& c) {
    using S = stensor<N, T>;
    using C4 = st2tost2<N, T>;
    const int n = f4::dimOf(N, SYM);
    const double sc = gen::scale(c, std::is_same_v<T, float> ? 6 : 30);
    T4 Cg;
    if (c.chance(1, 3, "elastic")) {
      // isotropic / cubic stiffness
      const R l = c.real(0., 2., "lambda"), m = c.real(0.1, 1., "mu"), d = c.real(0., 1., "c11x");
      Cg = l * ref::IxI() + (2 * m) * ref::Id4s();
      for (int i = 0; i < 3; ++i) Cg(i, i, i, i) += d;
      c.tag("inv.elastic");
    } else {
      // identity + bounded perturbation: ||P||_inf <= 0.5
      std::vector<R> m(static_cast<std::size_t>(n * n));
      for (auto& x : m) x = R(c.sreal(0.5, "p")) / n;
      Cg = ref::Id4s() + ref::toT4([&](int I, int J) { return m[static_cast<std::size_t>(I * n + J)]; },
                                   n, SYM, n, SYM);
      c.tag("inv.perturbed_identity");
    }
    const C4 C = f4::fromT4<C4>(R(sc) * Cg, N, SYM, SYM);
    // dense n x n matrix in the Mandel basis, as stored
    ref::Vec m(static_cast<std::size_t>(n * n)), im;
    for (int I = 0; I < n; ++I)
      for (int J = 0; J < n; ++J) m[static_cast<std::size_t>(I * n + J)] = C(I, J);
    if (!ref::inverseN(n, m, im)) c.discard();
    const R cond = ref::matNormInf(n, m) * ref::matNormInf(n, im);
    c.nontrivial(N >= 2);
    const R u = U<T>();
    const auto iC = invert(C);
    const R tol = 256 * u * cond * ref::matNormInf(n, im);
    for (int I = 0; I < n; ++I)
      for (int J = 0; J < n; ++J)
        c.close(iC(I, J), im[static_cast<std::size_t>(I * n + J)], tol, "C02.st2tost2.invert",
                "invert component");
    // A.A^-1 = Id on symmetric tensors
    const S s = gen::toStensor<S>(gen::sym(c, N, 1.));
    const M3 Sm = gen::stensorToM3(s);
    const S r = C * S(iC * s);
    cmpS(c, r, Sm, 256 * u * cond * ref::norm(Sm) + tinyOf<T>(), "C02.st2tost2.invert",
         "C:(C^-1:s) = s");
    // det (LU), same matrix
    const R d = ref::detN(n, m);
    R bound = 1;  // Hadamard bound: product of the row norms
    for (int I = 0; I < n; ++I) {
      R rn = 0;
      for (int J = 0; J < n; ++J) rn += m[static_cast<std::size_t>(I * n + J)] * m[static_cast<std::size_t>(I * n + J)];
      bound *= std::sqrt(rn);
    }
    if (std::isfinite(static_cast<double>(bound)) &&
        bound < static_cast<R>(std::numeric_limits<T>::max()) * 1e-3L &&
        bound > static_cast<R>(std::numeric_limits<T>::min()) * 1e6L)
      c.close(det(C), d, 256 * u * cond * bound, "C02.st2tost2.det", "det(C)");
  }

  /*!
   * det / invert on matrices that force row exchanges in the LU decomposition:
   * tiny or zero leading entries, row-permuted triangular matrices, small
   * integers, dense.
   */
  template <unsigned short N, typename T>
  void pivoting(verif::Case& c) {
    using S = stensor<N, T>;
    using C4 = st2tost2<N, T>;
    const int n = f4::dimOf(N, SYM);
    const bool flt = std::is_same_v<T, float>;
    const double sc = gen::scale(c, flt ? 4 : 20);
    ref::Vec g = pivotMatrix(c, n);
    auto at = [&](int I, int J) -> R& { return g[static_cast<std::size_t>(I * n + J)]; };
    C4 C;
    for (int I = 0; I < n; ++I)
      for (int J = 0; J < n; ++J) C(I, J) = static_cast<T>(R(sc) * at(I, J));
    ref::Vec m(static_cast<std::size_t>(n * n)), im;
    for (int I = 0; I < n; ++I)
      for (int J = 0; J < n; ++J) m[static_cast<std::size_t>(I * n + J)] = C(I, J);
    const bool exch = N >= 2 && luExchangesRows(n, m, U<T>());
    c.tag(exch ? "pivot.row_exchange" : "pivot.no_row_exchange");
    c.nontrivial(exch);
    const R u = U<T>();
    const bool invertible = ref::inverseN(n, m, im);
    const R cond = invertible ? ref::matNormInf(n, m) * ref::matNormInf(n, im) : R(0);
    // invert (TinyMatrixInvert): only well conditioned matrices
    if (invertible && cond < (flt ? 1e3L : 1e6L)) {
      const auto iC = invert(C);
      // threshold pivoting (multipliers up to 10): allow for the growth of the elements
      const R tol = 4096 * u * cond * ref::matNormInf(n, im);
      for (int I = 0; I < n; ++I)
        for (int J = 0; J < n; ++J)
          c.close(iC(I, J), im[static_cast<std::size_t>(I * n + J)], tol,
                  "C02.st2tost2.invert.pivoting", "invert component");
      const S s = gen::toStensor<S>(gen::sym(c, N, 1.));
      const M3 Sm = gen::stensorToM3(s);
      cmpS(c, S(C * S(iC * s)), Sm, 4096 * u * cond * std::max<R>(ref::norm(Sm), 1) + tinyOf<T>(),
           "C02.st2tost2.invert.pivoting", "C:(C^-1:s) = s");
    }
    // det: any matrix (singular ones included: the documented result is the determinant)
    const R d = ref::detN(n, m);
    R bound = 1;  // Hadamard bound: product of the row norms
    for (int I = 0; I < n; ++I) {
      R rn = 0;
      for (int J = 0; J < n; ++J) rn += m[static_cast<std::size_t>(I * n + J)] * m[static_cast<std::size_t>(I * n + J)];
      bound *= std::sqrt(rn);
    }
    if (!(bound < static_cast<R>(std::numeric_limits<T>::max()) * 1e-3L &&
          bound > static_cast<R>(std::numeric_limits<T>::min()) * 1e6L))
      return;
    c.close(det(C), d, 4096 * u * bound,
            exch ? "C02.st2tost2.det.row_exchange" : "C02.st2tost2.det", "det(C)");
  }

  template <unsigned short N, typename T>
  void basis(verif::Case& c) {
    using S = stensor<N, T>;
    using C4 = st2tost2<N, T>;
    const double sc = gen::scale(c, std::is_same_v<T, float> ? 8 : 30);
    const C4 C = f4::fromT4<C4>(f4::gen(c, N, SYM, SYM, sc), N, SYM, SYM);
    const T4 Cr = f4::toT4(C, N, SYM, SYM);
    const auto r = gen::toRotationMatrix<rotation_matrix<T>>(gen::rot(c, N));
    const M3 Rm = gen::rotationMatrixToM3(r);
    const R u = U<T>(), tiny = tinyOf<T>();
    const R nC = ref::norm(Cr);
    c.nontrivial(N >= 2 && nC > 0 && gen::misalignment(Rm) > 1e-3);
    // C'_ijkl = r_mi r_nj r_pk r_ql C_mnpq   (same direction as change_basis(s,r) = r^T s r)
    const T4 E = ref::rotate(Cr, ref::transpose(Rm));
    f4::cmp(c, C4(change_basis(C, r)), E, N, SYM, SYM, 512 * u * nC + tiny,
            "C02.st2tost2.change_basis", "change_basis(C,r)");
    // the rotation operator itself: Rot_ijkl s_kl = (r^T s r)_ij
    T4 Rot;
    REF_FOR4 Rot(i, j, k, l) = (Rm(k, i) * Rm(l, j) + Rm(l, i) * Rm(k, j)) / 2;
    f4::cmp(c, C4(C4::fromRotationMatrix(r)), Rot, N, SYM, SYM, 256 * u,
            "C02.st2tost2.fromRotationMatrix", "fromRotationMatrix(r)");
    // coherence: rotating operator and argument = rotating the result
    const S s = gen::toStensor<S>(gen::sym(c, N, 1.));
    const M3 Sm = gen::stensorToM3(s);
    const S lhs = C4(change_basis(C, r)) * S(change_basis(s, r));
    const M3 rhs = ref::transpose(Rm) * ref::ddot(Cr, Sm) * Rm;
    cmpS(c, lhs, rhs, 1024 * u * nC * ref::norm(Sm) + tiny, "C02.st2tost2.change_basis",
         "change_basis(C,r)*change_basis(s,r) = change_basis(C*s,r)");
  }

  template <unsigned short N, typename T>
  void pushforward(verif::Case& c) {
    using TT = tensor<N, T>;
    using C4 = st2tost2<N, T>;
    const double sc = gen::scale(c, std::is_same_v<T, float> ? 6 : 20);
    // fully anisotropic moduli (all components non-zero) in 3 cases out of 4: every
    // entry of the operand must matter (structured moduli hide storage errors)
    C4 C = f4::fromT4<C4>(f4::gen(c, N, SYM, SYM, sc), N, SYM, SYM);
    if (c.chance(1, 2, "force_dense")) {
      c.tag("pushforward.forced_dense");
      for (int I = 0; I < f4::dimOf(N, SYM); ++I)
        for (int J = 0; J < f4::dimOf(N, SYM); ++J) {
          const double v = c.real(0.1, 1., "dense") * (c.boolean("sgn") ? 1 : -1);
          C(I, J) = static_cast<T>(sc * v);
        }
    }
    const T4 Cr = f4::toT4(C, N, SYM, SYM);
    const bool isF = c.chance(2, 3, "use_genF");
    const TT F = gen::toTensor<TT>(isF ? gen::F(c, N, 0.2, 5.) : gen::dense(c, N, 1.));
    const M3 Fm = gen::tensorToM3(F);
    const R u = U<T>(), tiny = tinyOf<T>();
    const R nC = ref::norm(Cr), nF = ref::norm(Fm);
    c.nontrivial(N >= 2 && nC > 0 && nonsym(Fm, N));
    // Ct_ijkl = F_im F_jn F_kp F_lq C_mnpq   (st2tost2.hxx)
    const T4 E = ref::pushForward(Cr, Fm);
    f4::cmp(c, C4(push_forward(C, F)), E, N, SYM, SYM, 1024 * u * nC * nF * nF * nF * nF + tiny,
            "C02.st2tost2.push_forward", "push_forward(C,F)");
    if (!isF) return;
    // pull back = push forward by the inverse
    const M3 iF = ref::inverse(Fm);
    const R nI = ref::norm(iF), k2 = nF * nI;
    f4::cmp(c, C4(pull_back(C, F)), ref::pushForward(Cr, iF), N, SYM, SYM,
            1024 * u * k2 * nC * nI * nI * nI * nI + tiny, "C02.st2tost2.pull_back",
            "pull_back(C,F)");
    // two-step round trip: the intermediate tensor couples every component
    const R k4 = k2 * k2 * k2 * k2;
    f4::cmp(c, C4(pull_back(C4(push_forward(C, F)), F)), Cr, N, SYM, SYM, 4096 * u * k4 * nC + tiny,
            "C02.st2tost2.push_pull_roundtrip", "pull_back(push_forward(C,F),F) = C");
    f4::cmp(c, C4(push_forward(C4(pull_back(C, F)), F)), Cr, N, SYM, SYM, 4096 * u * k4 * nC + tiny,
            "C02.st2tost2.push_pull_roundtrip", "push_forward(pull_back(C,F),F) = C");
  }

}  // namespace

#define C02_INST(NAME, FCT)                          \
  VERIF_SUB(NAME##_1d) { FCT<1u, double>(c); }       \
  VERIF_SUB(NAME##_2d) { FCT<2u, double>(c); }       \
  VERIF_SUB(NAME##_3d) { FCT<3u, double>(c); }       \
  VERIF_SUB_W(NAME##_3f, 0.5) { FCT<3u, float>(c); }

C02_INST(projectors, projectors)
C02_INST(products, products)
C02_INST(inversion, inversion)
C02_INST(pivoting, pivoting)
C02_INST(basis, basis)
C02_INST(pushforward, pushforward)

VERIF_MAIN("C02_st2tost2")
