/*!
 * C24 - LogarithmicStrainHandler is energetically consistent.
 *
 * Oracle (C23_fsref.hxx, long double, no TFEL code):
 *  - Hencky strain E_log = 1/2 log C by cyclic Jacobi.  Both settings of the
 *    handler return this *Lagrangian* tensor (Miehe-Apel-Lambrecht framework:
 *    callers in mfront/src/AbaqusInterface.cxx, CastemInterface.cxx feed it to
 *    the behaviour in the EULERIAN setting, upstream
 *    tests/Material/LogarithmicStrainHandlerTest.cxx uses the same T with both
 *    settings); the Eulerian Hencky strain 1/2 log b is its rotation
 *    R E_log R^T, which is what is asserted for the EULERIAN setting.
 *  - dual stress T: T:dE_log = S:dE_GL, i.e. S = T : dE_log/dE_GL
 *    (Daleckii-Krein formula of the logarithm, itself cross-checked by finite
 *    differences of the reference logarithm), sigma = F S F^T / J;
 *    the stress power identity is asserted literally for a generated dF/dt.
 *  - tangent moduli: for the generated affine law T(E_log) = K:(E_log-E_log(F))+T
 *    the material moduli are the (Richardson) finite difference of the
 *    reference S w.r.t. E_GL; spatial / Truesdell / Abaqus moduli are extracted
 *    from their defining objective rate relations along F(t)=(I+tL)F.
 * Input classes: distinct / nearly equal / tiny gap / two or three equal
 * eigenvalues of C, fs::classifyStretches (the class
 * is part of the assertion key, tolerances are relaxed by 1/gap).
 * Non-trivial: N >= 2, rotation > 0.2 rad or tilted principal axes, T not
 * coaxial with C.
 */
#include <cstdlib>
#include <cstring>
#include <stdexcept>
#include "C23_fsref.hxx"
#include "TFEL/Math/tensor.hxx"
#include "TFEL/Math/stensor.hxx"
#include "TFEL/Math/st2tost2.hxx"
#include "TFEL/Material/LogarithmicStrainHandler.hxx"

using ref::M3;
using ref::R;
using ref::T4;
using namespace tfel::math;
using tfel::material::LogarithmicStrainHandler;
using tfel::material::LogarithmicStrainHandlerBase;

#ifndef C24_DIM
#error "compile with -DC24_DIM=1, 2 or 3 (one unit per space dimension, see engine/specs/C24.json)"
#endif

namespace {

  constexpr unsigned short N = C24_DIM;
  constexpr R u = std::numeric_limits<double>::epsilon();
  using Handler = LogarithmicStrainHandler<N, double>;
  using Stensor = stensor<N, double>;
  using Tensor = tensor<N, double>;
  using ST2toST2 = st2tost2<N, double>;
  constexpr int nS = StensorDimeToSize<N>::value;

  bool thorough() {
    const char* t = std::getenv("VERIF_TIER");
    return t != nullptr && std::strcmp(t, "thorough") == 0;
  }

  struct Setup {
    Tensor F;
    M3 Fm, C, Rm, Um;
    fs::Spec sC;
    fs::Kinematics kin;
    R kC = 1;      //!< condition number of C
    R gap = 1;     //!< smallest relative gap between the eigenvalues of C the handler separates
    R relax = 1;   //!< 1/gap relaxation of the tolerances
    bool doubleEigenvalue3d = false;
    bool equalLarge = false;  //!< fs::StretchClass::equalLarge
    std::string cls;  //!< distinct | nearly_equal | tiny_gap | equal (fs::classifyStretches)
    Handler::Setting setting;
    const char* sname;
  };

  Setup setup(verif::Case& c) {
    Setup s;
    const double lo = thorough() ? 0.2 : 0.5, hi = thorough() ? 5. : 2.;
    s.F = gen::toTensor<Tensor>(gen::F(c, N, lo, hi));
    s.Fm = gen::tensorToM3(s.F);
    s.C = ref::transpose(s.Fm) * s.Fm;
    s.sC = fs::spec(s.C);
    s.kin = fs::kinematics(s.Fm);
    ref::polar(s.Fm, s.Rm, s.Um);
    s.kC = s.kin.cond * s.kin.cond;
    const fs::StretchClass sc = fs::classifyStretches(s.C, N);
    s.gap = sc.gap;
    s.cls = sc.name;
    s.doubleEigenvalue3d = sc.doubleEigenvalue3d;
    if (s.doubleEigenvalue3d) c.tag("stretch.double_eigenvalue_3d");
    s.equalLarge = sc.equalLarge;
    if (s.equalLarge) c.tag("stretch.equal_large");
    s.relax = sc.relax();
    c.tag("stretch." + s.cls);
    const bool eul = c.boolean("eulerian");
    s.setting = eul ? Handler::EULERIAN : Handler::LAGRANGIAN;
    s.sname = eul ? "eulerian" : "lagrangian";
    c.tag(std::string("setting.") + s.sname);
    return s;
  }

  //! T does not commute with C, principal axes of C or rotation not trivial
  void nontrivial(verif::Case& c, const Setup& s, const M3& T) {
    const M3 comm = T * s.C - s.C * T;
    const bool noncoaxial = ref::norm(comm) > 1e-3L * ref::norm(T) * ref::norm(s.C);
    const bool tilted = gen::misalignment(s.sC.V) > 1e-2L || s.kin.angle > 0.2L;
    if (noncoaxial) c.tag("T.non_coaxial");
    c.nontrivial(N >= 2 && tilted && noncoaxial);
  }

  void cmpS(verif::Case& c, const Stensor& a, const M3& e, R tol, const std::string& key,
            const std::string& what) {
    const auto v = ref::toStensor(e);
    for (int k = 0; k < nS; ++k)
      c.close(a[k], v[k], tol, key, what + " component " + std::to_string(k));
  }
  T4 toT4(const ST2toST2& k) {
    return ref::toT4([&k](int I, int J) { return k(I, J); }, nS, true, nS, true);
  }
  void cmpK(verif::Case& c, const ST2toST2& k, const T4& D, R tol, const std::string& key,
            const std::string& what) {
    for (int I = 0; I < nS; ++I)
      for (int J = 0; J < nS; ++J)
        c.close(k(I, J), ref::componentOf(D, I, true, J, true), tol, key,
                what + " (" + std::to_string(I) + "," + std::to_string(J) + ")");
  }
  R maxAbsK(const T4& D) { return fs::maxComponent(D, N, true, true); }

  Stensor genT(verif::Case& c, R sc) {
    return gen::toStensor<Stensor>(sc * fs::genSymTensor(c, N, 1., "T"));
  }
  R genScale(verif::Case& c) {
    return c.chance(1, 3, "unit_modulus") ? 1. : c.log10real(-3, 3, "modulus");
  }

  // ------------------------------------------------------------ Hencky strain
  void henckyBody(verif::Case& c) {
    const Setup s = setup(c);
    c.nontrivial(N >= 2 && (gen::misalignment(s.sC.V) > 1e-2L || s.kin.angle > 0.2L));
    const Handler h(s.setting, s.F);
    const M3 El = fs::halfLog(s.C);
    R emax = 0;
    for (auto x : s.sC.vp) emax = std::max(emax, std::fabs(std::log(x)) / 2);
    const R tol = 1024 * u * s.kC * (1 + emax);
    const std::string key = "C24.hencky." + s.cls;
    const Stensor e = h.getHenckyLogarithmicStrain();
    cmpS(c, e, El, tol, key, std::string("E_log = 1/2 log C, ") + s.sname);
    if (s.setting == Handler::EULERIAN) {
      // 1/2 log b = R (1/2 log C) R^T
      const M3 b = s.Fm * ref::transpose(s.Fm);
      const M3 eb = fs::halfLog(b);
      const M3 er = s.Rm * gen::stensorToM3(e) * ref::transpose(s.Rm);
      for (int i = 0; i < 3; ++i)
        for (int j = 0; j < 3; ++j)
          c.close(er(i, j), eb(i, j), 4 * tol, key, "R E_log R^T = 1/2 log b");
    }
    // Abaqus convention: engineering shear strains
    double tab[6] = {0, 0, 0, 0, 0, 0};
    h.getHenckyLogarithmicStrain(tab);
    for (int k = 0; k < nS; ++k) {
      int i, j;
      ref::stensorIndex(k, i, j);
      c.close(tab[k], (k < 3 ? 1 : 2) * El(i, j), 2 * tol, "C24.hencky.pointer",
              "engineering components");
    }
    const auto& Fh = h.getDeformationGradient();
    for (int k = 0; k < ref::tensorSize(N); ++k)
      c.check(Fh[k] == s.F[k], "C24.hencky.deformation_gradient", "getDeformationGradient");
  }

  // ------------------------------------------------------ stress conversions
  void stressBody(verif::Case& c) {
    const Setup s = setup(c);
    const R sc = genScale(c);
    const Stensor T = genT(c, sc);
    const M3 Tm = gen::stensorToM3(T);
    nontrivial(c, s, Tm);
    const Handler h(s.setting, s.F);
    const R J = ref::det(s.Fm);
    const T4 P = fs::dElog_dEgl(s.sC);  // dE_log/dE_GL
    const M3 Sref = ref::ddot(Tm, P);
    const M3 sigref = (1 / J) * ref::sym(s.Fm * Sref * ref::transpose(s.Fm));
    const R nT = ref::maxabs(Tm);
    const R nF = ref::norm(s.Fm), niF = ref::norm(ref::inverse(s.Fm));
    // |S| <= |T| |C^-1|, |sigma| <= |F|^2 |S| / J
    const R tolS = 1e-10L * s.relax * s.kC * nT * niF * niF;
    const R tolSig = tolS * nF * nF / J;
    const std::string cl = "." + s.cls;
    // equal stretches of large magnitude: class of its own (findings/pending/C24.json)
    auto skey = [&](const char* k) {
      return s.equalLarge ? std::string("C24.stress.equal_large") : std::string(k) + cl;
    };
    // oracle self check: Daleckii-Krein derivative against the finite difference
    // of the reference logarithm along a generated direction
    const M3 L = gen::dense(c, N, 1.);
    const M3 dF = L * s.Fm;
    const M3 dEgl = ref::sym(ref::transpose(s.Fm) * dF);
    R err = 0;
    const M3 dElog = fs::ddt(
        [&](R t) {
          const M3 Ft = s.Fm + t * dF;
          return fs::halfLog(ref::transpose(Ft) * Ft);
        },
        R(4e-3) / std::max(R(1), ref::norm(L)), err);
    {
      const M3 dk = ref::ddot(P, dEgl);
      const R m = ref::maxabs(dk) + ref::maxabs(dElog);
      for (int i = 0; i < 3; ++i)
        for (int j = 0; j < 3; ++j)
          c.close(dk(i, j), dElog(i, j), 1e-7L * m + 100 * err,
                  "C24.oracle.dlog", "Daleckii-Krein vs finite difference of the logarithm");
    }
    const M3 d = ref::sym(L);
    const R pT = ref::ddot(Tm, dElog);  // T : dE_log/dt
    const R tolP = 1e-9L * s.relax * s.kC * nT * std::max(R(1), ref::norm(L)) * 10 + 100 * err * nT;
    Stensor sig;
    if (s.setting == Handler::LAGRANGIAN) {
      const Stensor S = h.convertToSecondPiolaKirchhoffStress(T);
      cmpS(c, S, Sref, tolS, skey("C24.pk2"), "S = T : dE_log/dE_GL");
      // stress power, literally
      c.close(ref::ddot(gen::stensorToM3(S), dEgl), pT, tolP, skey("C24.power"),
              "S:dE_GL = T:dE_log");
      const Stensor T2 = h.convertFromSecondPiolaKirchhoffStress(S);
      cmpS(c, T2, Tm, 1e-10L * s.relax * s.kC * s.kC * nT, skey("C24.roundtrip"),
           "convertFromSecondPiolaKirchhoffStress o convertToSecondPiolaKirchhoffStress");
      // raw pointer overloads (plain components)
      double tab[6] = {0, 0, 0, 0, 0, 0};
      T.exportTab(tab);
      h.convertToSecondPiolaKirchhoffStress(tab);
      Stensor S2;
      S2.importTab(tab);
      for (int k = 0; k < nS; ++k)
        c.close(S2[k], S[k], 256 * u * s.kC * s.relax * ref::maxabs(gen::stensorToM3(S)) + 1e-300L, "C24.pointer.pk2",
                "pointer overload of convertToSecondPiolaKirchhoffStress");
      h.convertFromSecondPiolaKirchhoffStress(tab);
      Stensor T3;
      T3.importTab(tab);
      for (int k = 0; k < nS; ++k)
        c.close(T3[k], T2[k], 1e-10L * s.relax * s.kC * s.kC * nT, "C24.pointer.pk2",
                "pointer overload of convertFromSecondPiolaKirchhoffStress");
    } else if (N >= 2) {
      // the Lagrangian-only conversions report the wrong setting
      bool thrown = false;
      try {
        (void)h.convertToSecondPiolaKirchhoffStress(T);
      } catch (const std::runtime_error&) {
        thrown = true;
      }
      c.check(thrown, "C24.setting_guard", "convertToSecondPiolaKirchhoffStress in EULERIAN setting");
    }
    sig = h.convertToCauchyStress(T);
    cmpS(c, sig, sigref, tolSig, skey("C24.cauchy"), std::string("sigma = F S F^T/J, ") + s.sname);
    c.close(J * ref::ddot(gen::stensorToM3(sig), d), pT, tolP,
            skey("C24.power"), std::string("J sigma:d = T:dE_log, ") + s.sname);
    const Stensor T4b = h.convertFromCauchyStress(sig);
    cmpS(c, T4b, Tm, 1e-10L * s.relax * s.kC * s.kC * nT, skey("C24.roundtrip"),
         std::string("convertFromCauchyStress o convertToCauchyStress, ") + s.sname);
    {
      double tab[6] = {0, 0, 0, 0, 0, 0};
      T.exportTab(tab);
      h.convertToCauchyStress(tab);
      Stensor s2;
      s2.importTab(tab);
      for (int k = 0; k < nS; ++k)
        c.close(s2[k], sig[k], 256 * u * s.kC * s.relax * ref::maxabs(gen::stensorToM3(sig)) + 1e-300L,
                "C24.pointer.cauchy", "pointer overload of convertToCauchyStress");
      h.convertFromCauchyStress(tab);
      Stensor T5;
      T5.importTab(tab);
      for (int k = 0; k < nS; ++k)
        c.close(T5[k], T4b[k], 1e-10L * s.relax * s.kC * s.kC * nT, "C24.pointer.cauchy",
                "pointer overload of convertFromCauchyStress");
    }
  }

  // ---------------------------------------------------------- tangent moduli
  void moduliBody(verif::Case& c) {
    const Setup s = setup(c);
    const R sc = genScale(c);
    bool spd = true;
    const ST2toST2 K = [&] {
      const T4 k4 = sc * fs::genStiffness(c, N, spd);
      ST2toST2 k;
      for (int I = 0; I < nS; ++I)
        for (int J = 0; J < nS; ++J) k(I, J) = static_cast<double>(ref::componentOf(k4, I, true, J, true));
      return k;
    }();
    c.tag(spd ? "K.spd" : "K.symmetric_indefinite");
    const Stensor T = genT(c, sc * (c.chance(1, 8, "T_zero") ? 0. : 1.));
    const M3 Tm = gen::stensorToM3(T);
    nontrivial(c, s, Tm);
    // affine law in the logarithmic space passing through (E_log(F), T)
    fs::Ctx x;
    x.N = N;
    x.F0 = M3::Id();
    x.F1 = s.Fm;
    x.lmin = s.kin.stretch[0];
    x.law.kind = fs::HENCKY;
    x.law.K = toT4(K);
    x.law.T0 = Tm - ref::ddot(x.law.K, fs::halfLog(s.C));
    const Handler h(s.setting, s.F);
    const std::string cl = "." + s.cls;
    const R amp = s.kC * s.kC;
    /*
     * key = sub-claim + setting + input class.  Three classes have a key of their
     * own: the Abaqus moduli in the LAGRANGIAN setting (whatever the stretches),
     * the tiny gaps and, in 3D, the double eigenvalues (all moduli), see
     * findings/pending/C24.json.
     */
    auto check = [&](const ST2toST2& k, int flag, const std::string& kind, const std::string& what) {
      const fs::Op r = fs::refOperator(flag, x);
      const R m = maxAbsK(r.D);
      c.check(r.err <= 1e-9L * m + 1e-300L, "C24.oracle.fd_converged",
              "Richardson estimate too large for " + what);
      std::string key = "C24.moduli." + kind + "." + s.sname + "." + s.cls;
      if (s.doubleEigenvalue3d) key = "C24.moduli.double_eigenvalue_3d";
      if (s.equalLarge) key = "C24.moduli.equal_large";
      if (s.cls == "tiny_gap") key = "C24.moduli.tiny_gap";
      // key of its own only while that defect is listed as known: once repaired the Abaqus moduli
      // of the LAGRANGIAN setting are asserted under the class keys like the other conversions
      if (flag == fs::ABAQUS && s.setting == Handler::LAGRANGIAN &&
          verif::Global::get().known_keys.count("C24.moduli.abaqus.lagrangian"))
        key = "C24.moduli.abaqus.lagrangian";
      // DESIGN: 1e-6 relaxed by 1/gap for nearly equal stretches; much tighter otherwise
      const R rel = s.relax > 1 ? 4 * std::max(1e-9L * amp, R(1e-6L)) * s.relax : 1e-9L * amp;
      cmpK(c, k, r.D, rel * m + 100 * r.err, key, what + ", " + s.sname);
    };
    // one conversion per case: a known defect of one of them must not hide the others
    const int nk = N == 1 ? 3 : 4;
    switch (c.pick(nk, "conversion")) {
      case 0:
        if (s.setting == Handler::LAGRANGIAN) {
          check(h.convertToMaterialTangentModuli(K, T), fs::DS_DEGL, "material",
                "convertToMaterialTangentModuli = dS/dE_GL");
        } else if (N >= 2) {
          bool thrown = false;
          try {
            (void)h.convertToMaterialTangentModuli(K, T);
          } catch (const std::runtime_error&) {
            thrown = true;
          }
          c.check(thrown, "C24.setting_guard", "convertToMaterialTangentModuli in EULERIAN setting");
        }
        break;
      case 1:
        check(h.convertToSpatialTangentModuli(K, T), fs::SPATIAL_MODULI, "spatial",
              "convertToSpatialTangentModuli: Lie derivative of tau");
        break;
      case 2:
        check(h.convertToCauchyStressTruesdellRateTangentModuli(K, T), fs::C_TRUESDELL, "truesdell",
              "convertToCauchyStressTruesdellRateTangentModuli: Truesdell rate of sigma");
        break;
      default:
#if C24_DIM >= 2
        check(h.convertToAbaqusTangentModuli(K, T), fs::ABAQUS, "abaqus",
              "convertToAbaqusTangentModuli: Jaumann rate of tau / J");
#endif
        break;
    }
  }

  // ------------------- raw pointer overloads of the tangent moduli conversions
  /*!
   * `Abaqus/Standard` conventions of the header: Fortran (column major) matrix
   * relating the stress components to the engineering strains, i.e.
   * D(i,j) = Mandel(i,j)/(f_i f_j), f = 1 (i<3), sqrt2 otherwise.  Consistency of
   * the two overloads holds for any K: a non symmetric one is used so that a
   * missing transposition is visible.
   */
  void pointerModuliBody(verif::Case& c) {
    const Setup s = setup(c);
    if (s.cls == "tiny_gap" || s.cls == "nearly_equal") c.discard();
    const R sc = genScale(c);
    ST2toST2 K;
    for (int I = 0; I < nS; ++I)
      for (int J = 0; J < nS; ++J) K(I, J) = static_cast<double>(sc * c.sreal(1., "K"));
    const Stensor T = genT(c, sc);
    nontrivial(c, s, gen::stensorToM3(T));
    const Handler h(s.setting, s.F);
    auto f = [](int i) { return i < 3 ? R(1) : ref::sqrt2; };
    double A[36], tab[6] = {0, 0, 0, 0, 0, 0};
    T.exportTab(tab);
    auto fill = [&] {
      for (int I = 0; I < nS; ++I)
        for (int J = 0; J < nS; ++J) A[J * nS + I] = static_cast<double>(K(I, J) / (f(I) * f(J)));
    };
    auto cmp = [&](const ST2toST2& k, const std::string& what) {
      R m = 0;
      for (int I = 0; I < nS; ++I)
        for (int J = 0; J < nS; ++J) m = std::max(m, std::fabs(static_cast<R>(k(I, J))));
      for (int I = 0; I < nS; ++I)
        for (int J = 0; J < nS; ++J)
          c.close(A[J * nS + I] * f(I) * f(J), k(I, J), 1e-10L * s.kC * s.kC * m + 1e-300L,
                  "C24.pointer.moduli", what);
    };
    fill();
    h.convertToCauchyStressTruesdellRateTangentModuli(A, tab);
    cmp(h.convertToCauchyStressTruesdellRateTangentModuli(K, T),
        "pointer overload of convertToCauchyStressTruesdellRateTangentModuli");
#if C24_DIM >= 2
    fill();
    h.convertToAbaqusTangentModuli(A, tab);
    cmp(h.convertToAbaqusTangentModuli(K, T), "pointer overload of convertToAbaqusTangentModuli");
#endif
  }

  // --------------------------------------- updateAxialDeformationGradient
  /*!
   * Plane stress use (mfront/include/MFront/GenericBehaviour/
   * LogarithmicStrainIntegrate.hxx, CastemInterface.cxx): the handler is built
   * with the in-plane F, the axial component is updated afterwards and the
   * stress conversions are used with an axial dual stress equal to zero.
   * They must agree with a handler built from the complete F.
   */
  void axialBody(verif::Case& c) {
#if C24_DIM != 3
    {
      Setup s = setup(c);
      const int iz = N == 1 ? 1 : 2;  // axial direction: zz is stored second in 1D
      const R sc = genScale(c);
      Stensor T = genT(c, sc);
      T[iz] = 0;
      nontrivial(c, s, gen::stensorToM3(T));
      const double Fzz = c.real(thorough() ? 0.2 : 0.5, thorough() ? 5. : 2., "Fzz");
      Handler h(s.setting, s.F);
      h.updateAxialDeformationGradient(Fzz);
      Tensor F2 = s.F;
      F2[iz] = Fzz;
      c.check(h.getDeformationGradient()[iz] == Fzz, "C24.axial", "axial component updated");
      const Handler h2(s.setting, F2);
      const Stensor s1 = h.convertToCauchyStress(T);
      const Stensor s2 = h2.convertToCauchyStress(T);
      R m = 0;
      for (int k = 0; k < nS; ++k) m = std::max(m, std::fabs(static_cast<R>(s2[k])));
      for (int k = 0; k < nS; ++k)
        c.close(s1[k], s2[k], 1e-10L * s.relax * s.kC * m + 1e-300L, "C24.axial",
                std::string("convertToCauchyStress after updateAxialDeformationGradient, ") + s.sname);
      const Stensor t1 = h.convertFromCauchyStress(s2);
      for (int k = 0; k < nS; ++k)
        c.close(t1[k], T[k], 1e-10L * s.relax * s.kC * s.kC * ref::maxabs(gen::stensorToM3(T)) + 1e-300L,
                "C24.axial",
                std::string("convertFromCauchyStress after updateAxialDeformationGradient, ") + s.sname);
    }
#endif
  }

}  // namespace

#define C24_STR2(x) #x
#define C24_STR(x) C24_STR2(x)

VERIF_SUB(hencky) { henckyBody(c); }
VERIF_SUB(stress) { stressBody(c); }
VERIF_SUB(moduli) { moduliBody(c); }
VERIF_SUB_W(pointer_moduli, 0.3) { pointerModuliBody(c); }
#if C24_DIM != 3
VERIF_SUB_W(axial, 0.3) { axialBody(c); }
#endif

VERIF_MAIN("C24_loghandler" C24_STR(C24_DIM) "d")
