/*!
 * C27 - Out-of-bounds policies behave as documented (API level).
 *
 * Tested: tfel::material::BoundsCheckBase and BoundsCheck<1|2|3>
 *   lowerBoundCheck / upperBoundCheck / lowerAndUpperBoundsChecks
 * on scalars (float, double, long double), quantities (qt with a raw bound
 * and with a quantity bound) and symmetric tensors (stensor<N,T>, T raw or
 * quantity), for the policies None / Warning / Strict and for the call
 * without policy (what mfront emits for @PhysicalBounds,
 * mfront/src/CodeGeneratorUtilities.cxx:writePhysicalBoundsChecks).
 *
 * Oracle (docs/web/Default-keywords.md "@Bounds"/"@PhysicalBounds", header):
 *   outside := value < lb  or  value > ub      (bounds inclusive)
 *   Strict / no policy : OutOfBoundsException iff outside, nothing displayed
 *                        when inside
 *   Warning            : never throws, a message is displayed iff outside and
 *                        it names the variable
 *   None               : never throws, nothing displayed
 *   tensors            : outside iff at least one component is outside
 * The comparison `outside` is evaluated by the harness on the very values
 * that are passed (same floating-point type), so no tolerance is involved.
 * NaN values/bounds are outside the quantifier of the property ("values on
 * and around bounds") and are never generated; bounds satisfy lb <= ub.
 *
 * "Displayed" = anything written to std::cerr or std::cout while the check
 * runs (both are captured by swapping their rdbuf; the library writes to
 * std::cerr, src/Material/BoundsCheck.cxx).
 *
 * Non-trivial (DESIGN 7/C27): a tested value on or within one ulp of a bound.
 */
#include "verif.hxx"
#include <limits>
#include <type_traits>
#include "TFEL/Math/qt.hxx"
#include "TFEL/Math/stensor.hxx"
#include "TFEL/Material/BoundsCheck.hxx"
#include "TFEL/Material/MaterialException.hxx"

using namespace tfel::material;
using namespace tfel::math;

namespace {

  //! captures std::cerr and std::cout
  struct Capture {
    Capture() : ocerr(std::cerr.rdbuf(err.rdbuf())), ocout(std::cout.rdbuf(out.rdbuf())) {}
    ~Capture() { release(); }
    void release() {
      if (ocerr != nullptr) std::cerr.rdbuf(ocerr);
      if (ocout != nullptr) std::cout.rdbuf(ocout);
      ocerr = ocout = nullptr;
    }
    std::ostringstream err, out;

   private:
    std::streambuf* ocerr;
    std::streambuf* ocout;
  };

  enum Kind { LOWER = 0, UPPER = 1, BOTH = 2 };
  // 0: None, 1: Warning, 2: Strict, 3: no policy argument (physical bounds)
  enum Pol { P_NONE = 0, P_WARNING = 1, P_STRICT = 2, P_DEFAULT = 3 };
  const char* polName(int p) {
    static const char* n[] = {"None", "Warning", "Strict", "default"};
    return n[p];
  }
  const char* kindName(int k) {
    static const char* n[] = {"lower", "upper", "both"};
    return n[k];
  }
  OutOfBoundsPolicy toPolicy(int p) {
    return p == P_NONE ? None : (p == P_WARNING ? Warning : Strict);
  }

  template <typename T>
  T up(T x) {
    return std::nextafter(x, std::numeric_limits<T>::infinity());
  }
  template <typename T>
  T down(T x) {
    return std::nextafter(x, -std::numeric_limits<T>::infinity());
  }

  //! a finite bound
  template <typename T>
  T genBound(verif::Case& c) {
    const int kmax = std::is_same_v<T, float> ? 30 : 300;
    const auto cls = c.integer(0, 7, "bound_class");
    T b;
    switch (cls) {
      case 0: b = T(0); break;
      case 1: b = static_cast<T>(c.integer(-3, 3, "bound_int")); break;
      case 2: b = static_cast<T>(c.sreal(1000., "bound")); break;
      case 3: b = static_cast<T>(293.15); break;
      case 4: {
        const T s = c.boolean("bound_neg") ? T(-1) : T(1);
        b = s * static_cast<T>(c.log10real(-kmax, kmax, "bound_mag"));
        break;
      }
      case 5: b = (c.boolean("bound_neg") ? T(-1) : T(1)) * std::numeric_limits<T>::denorm_min(); break;
      case 6: b = (c.boolean("bound_neg") ? T(-1) : T(1)) * std::numeric_limits<T>::max(); break;
      default: b = static_cast<T>(c.sreal(1., "bound")); break;
    }
    if (!std::isfinite(b)) b = T(1);
    return b;
  }

  template <typename T>
  struct Bounds {
    T lb, ub;
  };

  //! lb <= ub, both finite
  template <typename T>
  Bounds<T> genBounds(verif::Case& c) {
    T lb = genBound<T>(c);
    T ub;
    const auto cls = c.integer(0, 4, "width_class");
    switch (cls) {
      case 0: ub = lb; c.tag("bounds.equal"); break;
      case 1: ub = up(lb); c.tag("bounds.one_ulp"); break;
      case 2: ub = lb + static_cast<T>(c.log10real(-3, 3, "width")) * std::max<T>(std::fabs(lb), T(1)); c.tag("bounds.interval"); break;
      default: ub = genBound<T>(c); c.tag("bounds.independent"); break;
    }
    if (!std::isfinite(ub)) ub = std::numeric_limits<T>::max();
    if (ub < lb) std::swap(lb, ub);
    return {lb, ub};
  }

  /*!
   * a value placed relatively to the bounds that are really checked
   * (kind LOWER only looks at lb, UPPER at ub); `near` is set when the value
   * is on or within one ulp of a checked bound
   */
  template <typename T>
  T genValue(verif::Case& c, const Bounds<T>& b, const int kind, bool& near) {
    const T inf = std::numeric_limits<T>::infinity();
    const auto cls = c.integer(0, 11, "value_class");
    const bool useLower = kind == LOWER || (kind == BOTH && c.boolean("side"));
    const T ref = kind == LOWER ? b.lb : (kind == UPPER ? b.ub : (useLower ? b.lb : b.ub));
    switch (cls) {
      case 0:
      case 1: near = true; c.tag("value.on_bound"); return ref;
      case 2:
      case 3: near = true; c.tag("value.ulp_below"); return down(ref);
      case 4:
      case 5: near = true; c.tag("value.ulp_above"); return up(ref);
      case 6: {
        c.tag("value.between");
        const T t = static_cast<T>(c.real(0., 1., "t"));
        T v = b.lb + t * (b.ub - b.lb);
        if (!std::isfinite(v)) v = b.lb / 2 + b.ub / 2;
        near = (v == b.lb || v == b.ub || v == up(b.lb) || v == down(b.ub));
        return v;
      }
      case 7: {
        c.tag("value.far_below");
        const T m = std::max<T>(std::fabs(ref), T(1));
        T v = ref - m * static_cast<T>(c.log10real(-6, 6, "far"));
        if (!std::isfinite(v)) v = -std::numeric_limits<T>::max();
        return v;
      }
      case 8: {
        c.tag("value.far_above");
        const T m = std::max<T>(std::fabs(ref), T(1));
        T v = ref + m * static_cast<T>(c.log10real(-6, 6, "far"));
        if (!std::isfinite(v)) v = std::numeric_limits<T>::max();
        return v;
      }
      case 9: c.tag("value.minus_inf"); return -inf;
      case 10: c.tag("value.plus_inf"); return inf;
      default: c.tag("value.any"); return genBound<T>(c);
    }
  }

  template <typename T>
  bool isOutside(const T v, const Bounds<T>& b, const int kind) {
    if (kind == LOWER) return v < b.lb;
    if (kind == UPPER) return v > b.ub;
    return (v < b.lb) || (v > b.ub);
  }

  //! call the tested function: Value and Bound types are passed as such
  template <typename BC, typename Value, typename Bound>
  void call(const std::string& n, const Value& v, const Bound lb, const Bound ub,
            const int kind, const int pol) {
    if (pol == P_DEFAULT) {
      if (kind == LOWER) BC::lowerBoundCheck(n, v, lb);
      else if (kind == UPPER) BC::upperBoundCheck(n, v, ub);
      else BC::lowerAndUpperBoundsChecks(n, v, lb, ub);
    } else {
      const auto p = toPolicy(pol);
      if (kind == LOWER) BC::lowerBoundCheck(n, v, lb, p);
      else if (kind == UPPER) BC::upperBoundCheck(n, v, ub, p);
      else BC::lowerAndUpperBoundsChecks(n, v, lb, ub, p);
    }
  }

  struct Outcome {
    bool thrown = false;
    std::string what, err, out;
  };

  template <typename BC, typename Value, typename Bound>
  Outcome observe(const std::string& n, const Value& v, const Bound lb, const Bound ub,
                  const int kind, const int pol) {
    Outcome o;
    Capture cap;
    try {
      call<BC>(n, v, lb, ub, kind, pol);
    } catch (const OutOfBoundsException& e) {
      // the documented error of the Strict policy
      o.thrown = true;
      o.what = e.what();
    } catch (...) {
      cap.release();
      throw;
    }
    cap.release();
    o.err = cap.err.str();
    o.out = cap.out.str();
    return o;
  }

  //! the truth table
  void judge(verif::Case& c, const Outcome& o, const bool outside, const int kind,
             const int pol, const std::string& name, const std::string& cls,
             const std::string& desc) {
    const std::string k = std::string(kindName(kind));
    const std::string displayed = o.err + o.out;
    const std::string ctx = desc + " kind=" + k + " policy=" + polName(pol) +
                            " outside=" + (outside ? "1" : "0") + " thrown=" +
                            (o.thrown ? "1" : "0") + " displayed='" + displayed + "'";
    if (pol == P_STRICT || pol == P_DEFAULT) {
      const std::string key = std::string(pol == P_STRICT ? "C27.strict." : "C27.physical_default.") + cls;
      c.check(o.thrown == outside, key + ".throws_iff_outside", ctx);
      if (!outside) c.check(displayed.empty(), key + ".silent_inside", ctx);
      if (o.thrown) c.check(o.what.find(name) != std::string::npos, key + ".message_names_variable", ctx + " what=" + o.what);
    } else if (pol == P_WARNING) {
      const std::string key = "C27.warning." + cls;
      c.check(!o.thrown, key + ".never_throws", ctx);
      c.check(displayed.empty() == !outside, key + ".warns_iff_outside", ctx);
      if (outside) c.check(displayed.find(name) != std::string::npos, key + ".names_variable", ctx);
    } else {
      const std::string key = "C27.none." + cls;
      c.check(!o.thrown, key + ".never_throws", ctx);
      c.check(displayed.empty(), key + ".never_warns", ctx);
    }
    c.tag(std::string("policy.") + polName(pol));
    c.tag("kind." + k);
    c.tag(outside ? "outcome.outside" : "outcome.inside");
  }

  template <typename T>
  std::string show(const T v) {
    char b[64];
    std::snprintf(b, sizeof b, "%.21Lg", static_cast<long double>(v));
    return b;
  }

  std::string genName(verif::Case& c) {
    static const char* names[] = {"T", "sig", "p", "eel", "YoungModulus", "x_1"};
    return names[c.pick(6, "name")];
  }

  // ---------------------------------------------------------------- scalars
  /*!
   * \tparam T: floating point type
   * \tparam M: 0 raw scalar, 1 quantity value with a raw bound, 2 quantity
   * value with quantity bounds (generic `T` overload)
   */
  template <unsigned short N, typename T, int M>
  void scalarN(verif::Case& c, const int kind, const int pol) {
    using BC = BoundsCheck<N>;
    const auto b = genBounds<T>(c);
    bool near = false;
    const T v = genValue<T>(c, b, kind, near);
    c.nontrivial(near);
    const auto n = genName(c);
    const bool outside = isOutside(v, b, kind);
    const std::string desc = "value=" + show(v) + " lb=" + show(b.lb) + " ub=" + show(b.ub) +
                             " N=" + std::to_string(N);
    Outcome o;
    if constexpr (M == 0) {
      o = observe<BC>(n, v, b.lb, b.ub, kind, pol);
      judge(c, o, outside, kind, pol, n, "scalar", desc);
    } else if constexpr (M == 1) {
      using Q = qt<unit::Stress, T>;
      o = observe<BC>(n, Q(v), b.lb, b.ub, kind, pol);
      judge(c, o, outside, kind, pol, n, "qt", desc);
    } else {
      using Q = qt<unit::Temperature, T>;
      o = observe<BC>(n, Q(v), Q(b.lb), Q(b.ub), kind, pol);
      judge(c, o, outside, kind, pol, n, "qt_qtbound", desc);
    }
  }

  template <typename T, int M>
  void scalar(verif::Case& c) {
    const int N = static_cast<int>(c.integer(0, 3, "N"));
    const int kind = static_cast<int>(c.integer(0, 2, "kind"));
    const int pol = static_cast<int>(c.integer(0, 3, "policy"));
    if (N == 0) {
      // BoundsCheckBase itself
      struct Base : BoundsCheckBase {};
      const auto b = genBounds<T>(c);
      bool near = false;
      const T v = genValue<T>(c, b, kind, near);
      c.nontrivial(near);
      const auto n = genName(c);
      const bool outside = isOutside(v, b, kind);
      const std::string desc = "value=" + show(v) + " lb=" + show(b.lb) + " ub=" + show(b.ub) + " base";
      if constexpr (M == 0) {
        judge(c, observe<BoundsCheckBase>(n, v, b.lb, b.ub, kind, pol), outside, kind, pol, n, "scalar", desc);
      } else if constexpr (M == 1) {
        using Q = qt<unit::Stress, T>;
        judge(c, observe<BoundsCheckBase>(n, Q(v), b.lb, b.ub, kind, pol), outside, kind, pol, n, "qt", desc);
      } else {
        using Q = qt<unit::Temperature, T>;
        judge(c, observe<BoundsCheckBase>(n, Q(v), Q(b.lb), Q(b.ub), kind, pol), outside, kind, pol, n, "qt_qtbound", desc);
      }
    } else if (N == 1) {
      scalarN<1u, T, M>(c, kind, pol);
    } else if (N == 2) {
      scalarN<2u, T, M>(c, kind, pol);
    } else {
      scalarN<3u, T, M>(c, kind, pol);
    }
  }

  // ---------------------------------------------------------------- tensors
  template <unsigned short N, typename T, bool Quantity>
  void stensorCheck(verif::Case& c) {
    using BC = BoundsCheck<N>;
    using Num = std::conditional_t<Quantity, qt<unit::Stress, T>, T>;
    using S = stensor<N, Num>;
    const int kind = static_cast<int>(c.integer(0, 2, "kind"));
    const int pol = static_cast<int>(c.integer(0, 3, "policy"));
    const auto b = genBounds<T>(c);
    S s;
    const auto sz = s.size();
    // all components strictly inside unless chosen otherwise: the interesting
    // cases have exactly one special component
    const T mid = [&b, kind]() -> T {
      if (kind == LOWER) return std::isfinite(b.lb + std::fabs(b.lb) + 1) ? b.lb + std::fabs(b.lb) + 1 : b.lb;
      if (kind == UPPER) return std::isfinite(b.ub - std::fabs(b.ub) - 1) ? b.ub - std::fabs(b.ub) - 1 : b.ub;
      return b.lb / 2 + b.ub / 2;
    }();
    bool near = false;
    bool outside = false;
    std::string desc = "N=" + std::to_string(N) + " lb=" + show(b.lb) + " ub=" + show(b.ub) + " s=[";
    const int mode = static_cast<int>(c.integer(0, 3, "tensor_mode"));
    const auto special = c.pick(sz, "special_component");
    int nout = 0;
    for (std::size_t i = 0; i != sz; ++i) {
      T v = mid;
      if (mode == 0 || (mode <= 2 && i == special)) {
        bool nr = false;
        v = genValue<T>(c, b, kind, nr);
        near = near || nr;
      }
      const bool o = isOutside(v, b, kind);
      outside = outside || o;
      nout += o ? 1 : 0;
      s[static_cast<unsigned short>(i)] = Num(v);
      desc += show(v) + (i + 1 == sz ? "]" : ",");
    }
    c.nontrivial(near);
    c.tag(nout == 0 ? "tensor.all_inside" : (nout == 1 ? "tensor.one_outside" : "tensor.several_outside"));
    if (nout == 1 && special >= 3) c.tag("tensor.only_shear_outside");
    const auto n = genName(c);
    const auto o = observe<BC>(n, s, b.lb, b.ub, kind, pol);
    judge(c, o, outside, kind, pol, n, Quantity ? "stensor_qt" : "stensor", desc);
  }

}  // namespace

VERIF_SUB(scalar_double) { scalar<double, 0>(c); }
VERIF_SUB(scalar_float) { scalar<float, 0>(c); }
VERIF_SUB(scalar_ldouble) { scalar<long double, 0>(c); }
VERIF_SUB(qt_double) { scalar<double, 1>(c); }
VERIF_SUB(qt_float) { scalar<float, 1>(c); }
VERIF_SUB(qt_qtbound_double) { scalar<double, 2>(c); }
VERIF_SUB(stensor1_double) { stensorCheck<1u, double, false>(c); }
VERIF_SUB(stensor2_double) { stensorCheck<2u, double, false>(c); }
VERIF_SUB(stensor3_double) { stensorCheck<3u, double, false>(c); }
VERIF_SUB(stensor2_float) { stensorCheck<2u, float, false>(c); }
VERIF_SUB(stensor3_float) { stensorCheck<3u, float, false>(c); }
VERIF_SUB(stensor1_qt) { stensorCheck<1u, double, true>(c); }
VERIF_SUB(stensor2_qt) { stensorCheck<2u, double, true>(c); }
VERIF_SUB(stensor3_qt) { stensorCheck<3u, double, true>(c); }

VERIF_MAIN("C27_bounds")
