/*!
 * C02 (unit "mixed") - fourth order tensors between symmetric and non
 * symmetric tensors (t2tost2, st2tot2), their products with the other kinds
 * and the conversions between the four storages.
 * Oracle: expansion to 3x3x3x3 arrays through the Mandel basis (symmetric
 * side) and the tensor basis (non symmetric side) of refmath.hxx.
 * Non-trivial: N >= 2 and non-zero operands.
 */
#include "C02_common.hxx"
#include "TFEL/Math/stensor.hxx"
#include "TFEL/Math/tensor.hxx"
#include "TFEL/Math/st2tost2.hxx"
#include "TFEL/Math/t2tot2.hxx"
#include "TFEL/Math/t2tost2.hxx"
#include "TFEL/Math/st2tot2.hxx"

using namespace tfel::math;

namespace {

  constexpr bool SYM = true, NS = false;

  template <unsigned short N, typename T>
  void products(verif::Case& c) {
    using S = stensor<N, T>;
    using TT = tensor<N, T>;
    using SS = st2tost2<N, T>;
    using TTt = t2tot2<N, T>;
    using TS = t2tost2<N, T>;  // tensor -> stensor
    using ST = st2tot2<N, T>;  // stensor -> tensor
    const int kmax = std::is_same_v<T, float> ? 8 : 30;
    const double sc = gen::scale(c, kmax), sd = gen::scale(c, kmax, "scale2");
    const TS A = f4::fromT4<TS>(f4::gen(c, N, SYM, NS, sc), N, SYM, NS);
    const ST B = f4::fromT4<ST>(f4::gen(c, N, NS, SYM, sc), N, NS, SYM);
    const SS C = f4::fromT4<SS>(f4::gen(c, N, SYM, SYM, sc), N, SYM, SYM);
    const TTt D = f4::fromT4<TTt>(f4::gen(c, N, NS, NS, sc), N, NS, NS);
    const S s = gen::toStensor<S>(gen::sym(c, N, sd));
    const TT a = gen::toTensor<TT>(gen::dense(c, N, sd));
    const T4 Ar = f4::toT4(A, N, SYM, NS), Br = f4::toT4(B, N, NS, SYM);
    const T4 Cr = f4::toT4(C, N, SYM, SYM), Dr = f4::toT4(D, N, NS, NS);
    const M3 Sm = gen::stensorToM3(s), Am = gen::tensorToM3(a);
    const R u = U<T>(), tiny = tinyOf<T>();
    const R nA = ref::norm(Ar), nB = ref::norm(Br), nC = ref::norm(Cr), nD = ref::norm(Dr);
    const R nS = ref::norm(Sm), na = ref::norm(Am);
    c.nontrivial(N >= 2 && (nA > 0 || nB > 0) && (nonsym(Am, N) || nS > 0));
    // t2tost2
    cmpS(c, S(A * a), ref::ddot(Ar, Am), 256 * u * nA * na + tiny, "C02.t2tost2.apply", "A*a");
    cmpT(c, TT(s * A), ref::ddot(Sm, Ar), 256 * u * nA * nS + tiny, "C02.t2tost2.apply_left",
         "s*A");
    cmpT(c, TT(s | A), ref::ddot(Sm, Ar), 256 * u * nA * nS + tiny, "C02.t2tost2.apply_left",
         "s|A");
    f4::cmp(c, TS(C * A), ref::ddot(Cr, Ar), N, SYM, NS, 256 * u * nC * nA + tiny,
            "C02.t2tost2.product_st2tost2", "C*A");
    f4::cmp(c, TS(A * D), ref::ddot(Ar, Dr), N, SYM, NS, 256 * u * nA * nD + tiny,
            "C02.t2tost2.product_t2tot2", "A*D");
    f4::cmp(c, TS(s ^ a), ref::otimes(Sm, Am), N, SYM, NS, 128 * u * nS * na + tiny,
            "C02.t2tost2.dyadic", "s^a");
    f4::cmp(c, TS(2 * A - TS(s ^ a)), R(2) * Ar - ref::otimes(Sm, Am), N, SYM, NS,
            256 * u * (2 * nA + nS * na) + tiny, "C02.t2tost2.lincomb", "2A - s^a");
    // st2tot2
    cmpT(c, TT(B * s), ref::ddot(Br, Sm), 256 * u * nB * nS + tiny, "C02.st2tot2.apply", "B*s");
    cmpS(c, S(a * B), ref::ddot(Am, Br), 256 * u * nB * na + tiny, "C02.st2tot2.apply_left",
         "a*B");
    cmpS(c, S(a | B), ref::ddot(Am, Br), 256 * u * nB * na + tiny, "C02.st2tot2.apply_left",
         "a|B");
    f4::cmp(c, ST(D * B), ref::ddot(Dr, Br), N, NS, SYM, 256 * u * nD * nB + tiny,
            "C02.st2tot2.product_t2tot2", "D*B");
    f4::cmp(c, ST(B * C), ref::ddot(Br, Cr), N, NS, SYM, 256 * u * nB * nC + tiny,
            "C02.st2tot2.product_st2tost2", "B*C");
    f4::cmp(c, ST(a ^ s), ref::otimes(Am, Sm), N, NS, SYM, 128 * u * nS * na + tiny,
            "C02.st2tot2.dyadic", "a^s");
    f4::cmp(c, ST(2 * B - ST(a ^ s)), R(2) * Br - ref::otimes(Am, Sm), N, NS, SYM,
            256 * u * (2 * nB + nS * na) + tiny, "C02.st2tot2.lincomb", "2B - a^s");
    // compositions changing kind
    f4::cmp(c, TTt(B * A), ref::ddot(Br, Ar), N, NS, NS, 256 * u * nA * nB + tiny,
            "C02.mixed.st2tot2_t2tost2", "B*A (t2tot2)");
    f4::cmp(c, SS(A * B), ref::ddot(Ar, Br), N, SYM, SYM, 256 * u * nA * nB + tiny,
            "C02.mixed.t2tost2_st2tot2", "A*B (st2tost2)");
  }

  template <unsigned short N, typename T>
  void conversions(verif::Case& c) {
    using S = stensor<N, T>;
    using TT = tensor<N, T>;
    using SS = st2tost2<N, T>;
    using TTt = t2tot2<N, T>;
    using TS = t2tost2<N, T>;
    const int kmax = std::is_same_v<T, float> ? 8 : 30;
    const double sc = gen::scale(c, kmax);
    const TS A = f4::fromT4<TS>(f4::gen(c, N, SYM, NS, sc), N, SYM, NS);
    const TTt D = f4::fromT4<TTt>(f4::gen(c, N, NS, NS, sc), N, NS, NS);
    const T4 Ar = f4::toT4(A, N, SYM, NS), Dr = f4::toT4(D, N, NS, NS);
    const S s = gen::toStensor<S>(gen::sym(c, N, 1.));
    const TT a = gen::toTensor<TT>(gen::dense(c, N, 1.));
    const M3 Sm = gen::stensorToM3(s), Am = gen::tensorToM3(a);
    const R u = U<T>(), tiny = tinyOf<T>();
    const R nA = ref::norm(Ar), nD = ref::norm(Dr);
    c.nontrivial(N >= 2 && (nA > 0 || nD > 0));
    // t2tost2 -> t2tot2 : same linear map, the (symmetric) result stored as a
    // non symmetric tensor: same 3x3x3x3 array
    const TTt e1(A);
    f4::cmp(c, e1, Ar, N, NS, NS, 128 * u * nA + tiny, "C02.convert.t2tost2_to_t2tot2",
            "t2tot2(t2tost2)");
    TTt e2;
    convert(e2, A);
    f4::cmp(c, e2, Ar, N, NS, NS, 128 * u * nA + tiny, "C02.convert.t2tost2_to_t2tot2",
            "convert(t2tot2&,t2tost2)");
    cmpT(c, TT(e1 * a), ref::ddot(Ar, Am), 256 * u * nA * ref::norm(Am) + tiny,
         "C02.convert.t2tost2_to_t2tot2", "t2tot2(A)*a = unsyme(A*a)");
    // t2tot2 -> t2tost2 : symmetric part of the result
    T4 Ds;
    REF_FOR4 Ds(i, j, k, l) = (Dr(i, j, k, l) + Dr(j, i, k, l)) / 2;
    f4::cmp(c, TS(convertToT2toST2(D)), Ds, N, SYM, NS, 128 * u * nD + tiny,
            "C02.convert.t2tot2_to_t2tost2", "convertToT2toST2(D)");
    cmpS(c, S(TS(convertToT2toST2(D)) * a), ref::sym(ref::ddot(Dr, Am)),
         256 * u * nD * ref::norm(Am) + tiny, "C02.convert.t2tot2_to_t2tost2",
         "convertToT2toST2(D)*a = syme(D*a)");
  }

  template <unsigned short N, typename T>
  void convert_st2tost2(verif::Case& c) {
    using S = stensor<N, T>;
    using SS = st2tost2<N, T>;
    using TS = t2tost2<N, T>;
    const int kmax = std::is_same_v<T, float> ? 8 : 30;
    const double sc = gen::scale(c, kmax);
    const TS A = f4::fromT4<TS>(f4::gen(c, N, SYM, NS, sc), N, SYM, NS);
    const T4 Ar = f4::toT4(A, N, SYM, NS);
    const S s = gen::toStensor<S>(gen::sym(c, N, 1.));
    const M3 Sm = gen::stensorToM3(s);
    const R u = U<T>(), tiny = tinyOf<T>();
    const R nA = ref::norm(Ar);
    c.nontrivial(N >= 2 && nA > 0);
    // t2tost2 -> st2tost2 : restriction to symmetric arguments
    T4 Asym;
    REF_FOR4 Asym(i, j, k, l) = (Ar(i, j, k, l) + Ar(i, j, l, k)) / 2;
    const SS r(SS::convert(A));
    // convert(A)*s = A*unsyme(s) is the defining property.  The checks that
    // involve the (I>=3,J>=3) block of the result have their own key and come
    // last (see findings/pending/C02.json).
    const M3 expected = ref::ddot(Ar, Sm);
    const S got = r * s;
    const R tolc = 256 * u * nA * ref::norm(Sm) + tiny;
    bool shear_arg = false;
    for (int k = 3; k < ref::stensorSize(N); ++k) shear_arg = shear_arg || s[k] != 0;
    const auto v = ref::toStensor(expected);
    auto component = [&](int I, int J) {
      c.close(static_cast<R>(r(I, J)), ref::componentOf(Asym, I, SYM, J, SYM), 128 * u * nA + tiny,
              (I >= 3 && J >= 3) ? "C02.convert.t2tost2_to_st2tost2.shear_block"
                                 : "C02.convert.t2tost2_to_st2tost2",
              "convert(A) component (" + std::to_string(I) + "," + std::to_string(J) + ")");
    };
    auto action = [&](int k) {
      c.close(static_cast<R>(got[k]), v[k], tolc,
              (k >= 3 && shear_arg) ? "C02.convert.t2tost2_to_st2tost2.shear_block"
                                    : "C02.convert.t2tost2_to_st2tost2",
              "convert(A)*s = A*unsyme(s), component " + std::to_string(k));
    };
    const int n = f4::dimOf(N, SYM);
    for (int I = 0; I < n; ++I)
      for (int J = 0; J < n; ++J)
        if (!(I >= 3 && J >= 3)) component(I, J);
    for (int k = 0; k < n; ++k)
      if (!(k >= 3 && shear_arg)) action(k);
    for (int I = 3; I < n; ++I)
      for (int J = 3; J < n; ++J) component(I, J);
    for (int k = 3; k < n; ++k)
      if (shear_arg) action(k);
  }

  template <unsigned short N, typename T>
  void basis(verif::Case& c) {
    using S = stensor<N, T>;
    using TT = tensor<N, T>;
    using TS = t2tost2<N, T>;
    const double sc = gen::scale(c, std::is_same_v<T, float> ? 8 : 30);
    const TS A = f4::fromT4<TS>(f4::gen(c, N, SYM, NS, sc), N, SYM, NS);
    const T4 Ar = f4::toT4(A, N, SYM, NS);
    const auto r = gen::toRotationMatrix<rotation_matrix<T>>(gen::rot(c, N));
    const M3 Rm = gen::rotationMatrixToM3(r);
    const R u = U<T>(), tiny = tinyOf<T>();
    const R nA = ref::norm(Ar);
    c.nontrivial(N >= 2 && nA > 0 && gen::misalignment(Rm) > 1e-3);
    const T4 E = ref::rotate(Ar, ref::transpose(Rm));
    f4::cmp(c, TS(change_basis(A, r)), E, N, SYM, NS, 512 * u * nA + tiny,
            "C02.t2tost2.change_basis", "change_basis(A,r)");
    const TT a = gen::toTensor<TT>(gen::dense(c, N, 1.));
    const M3 Am = gen::tensorToM3(a);
    const S lhs = TS(change_basis(A, r)) * TT(change_basis(a, r));
    cmpS(c, lhs, ref::transpose(Rm) * ref::ddot(Ar, Am) * Rm, 1024 * u * nA * ref::norm(Am) + tiny,
         "C02.t2tost2.change_basis", "change_basis(A,r)*change_basis(a,r) = change_basis(A*a,r)");
  }

}  // namespace

#define C02_INST(NAME, FCT)                          \
  VERIF_SUB(NAME##_1d) { FCT<1u, double>(c); }       \
  VERIF_SUB(NAME##_2d) { FCT<2u, double>(c); }       \
  VERIF_SUB(NAME##_3d) { FCT<3u, double>(c); }       \
  VERIF_SUB_W(NAME##_3f, 0.5) { FCT<3u, float>(c); }

C02_INST(products, products)
C02_INST(conversions, conversions)
C02_INST(convert_st2tost2, convert_st2tost2)
C02_INST(basis, basis)

VERIF_MAIN("C02_mixed")
