//! C07 - fixed size solvers, sizes 1..6 (closed forms 1,2,3 and LU), float for 2,3,4
#define C07_SIZES(X) X(1) X(2) X(3) X(4) X(5) X(6)
#define C07_FLOAT_SIZES(X) X(2) X(3) X(4)
#include "C07_tiny.hxx"
VERIF_MAIN("C07_tiny_a")
