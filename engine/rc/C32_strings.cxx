/*!
 * C32 - String utilities meet their specifications
 * (include/TFEL/Utilities/StringAlgorithms.hxx, src/Utilities/StringAlgorithms.cxx).
 *
 * Oracles are reference implementations written from the statement (naive
 * scanners), never from the tested code.  Exhaustive parts: every string of
 * length <= 8 over a three letter alphabet (9841 strings) for both tokenize
 * functions and both keep flags, every (string<=8 over {a,b}) x (pattern<=3)
 * x (replacement list) for replace_all, every pair of strings <= 5 over {a,b}
 * for starts_with/ends_with.  Random parts: strings up to length 200 over
 * {a,b,c,',',' ','\0',0xff}.
 *
 * Domain decisions (README soundness 1,3):
 *  - tokenize(s, d) with an empty delimiter string d never terminates
 *    (s.find("",b)==b for ever): no caller passes an empty delimiter and the
 *    statement has no meaning for it -> outside the domain, never generated.
 *  - tokenize(s, d) has no keep flag: the observed (and relied upon, see
 *    GlossaryEntry.cxx) convention "one trailing empty field is dropped" is
 *    accepted together with the keep-everything reading.
 *  - tokenize("", c, false): both {} and {""} are accepted (callers such as
 *    `tokenize(file, '/').back()` rely on a non-empty result).
 *  - replace_all's `ps` argument is outside the statement: only ps = 0.
 *  - convert<double>: leading white space, hex floats, inf/nan, results outside
 *    the normal range are tagged `ambiguous` and not judged.
 */
#include "verif.hxx"
#include <cfloat>
#include "TFEL/Utilities/StringAlgorithms.hxx"

namespace tu = tfel::utilities;
using Strings = std::vector<std::string>;

namespace {

  std::string show(const std::string& s) {
    std::string r = "\"";
    for (unsigned char ch : s) {
      if (ch >= 0x20 && ch < 0x7f && ch != '"' && ch != '\\') {
        r += static_cast<char>(ch);
      } else {
        char b[8];
        std::snprintf(b, sizeof b, "\\x%02x", ch);
        r += b;
      }
    }
    return r + "\"";
  }
  std::string show(const Strings& v) {
    std::string r = "[";
    for (std::size_t i = 0; i != v.size(); ++i) r += (i ? "," : "") + show(v[i]);
    return r + "]";
  }

  // ---------------------------------------------------------------- references
  //! split at every occurrence of c: occurrences+1 fields
  Strings refSplitChar(const std::string& s, const char c) {
    Strings r(1);
    for (const char ch : s) {
      if (ch == c) {
        r.emplace_back();
      } else {
        r.back() += ch;
      }
    }
    return r;
  }
  Strings dropEmpty(const Strings& v) {
    Strings r;
    for (const auto& f : v)
      if (!f.empty()) r.push_back(f);
    return r;
  }
  std::string join(const Strings& v, const std::string& d) {
    std::string r;
    for (std::size_t i = 0; i != v.size(); ++i) {
      if (i) r += d;
      r += v[i];
    }
    return r;
  }
  bool matchAt(const std::string& s, std::size_t i, const std::string& p) {
    if (i + p.size() > s.size()) return false;
    for (std::size_t k = 0; k != p.size(); ++k)
      if (s[i + k] != p[k]) return false;
    return true;
  }
  //! split at every left-to-right non-overlapping occurrence of d (d not empty)
  Strings refSplitString(const std::string& s, const std::string& d) {
    Strings r(1);
    std::size_t i = 0;
    while (i < s.size()) {
      if (matchAt(s, i, d)) {
        r.emplace_back();
        i += d.size();
      } else {
        r.back() += s[i];
        ++i;
      }
    }
    return r;
  }
  //! naive left-to-right non-overlapping replacement
  std::string refReplace(const std::string& s, const std::string& s1,
                         const std::string& s2) {
    if (s1.empty()) return s;
    std::string r;
    std::size_t i = 0;
    while (i < s.size()) {
      if (matchAt(s, i, s1)) {
        r += s2;
        i += s1.size();
      } else {
        r += s[i];
        ++i;
      }
    }
    return r;
  }

  // ---------------------------------------------------------------- judges
  /*!
   * tokenize(s,c,keep).  `deferred_known` (exhaustive sweeps): the known class
   * is counted instead of thrown so that the sweep goes on behind it.
   */
  void judgeTokenizeChar(verif::Case& c, const std::string& s, const char d,
                         const bool keep, std::size_t* deferred_known = nullptr) {
    const auto got = tu::tokenize(s, d, keep);
    const auto all = refSplitChar(s, d);
    const std::string ctx = " s=" + show(s) + " c=" + show(std::string(1, d)) +
                            " got=" + show(got);
    if (keep) {
      std::size_t occ = 0;
      for (const char ch : s) occ += (ch == d);
      c.check(got.size() == occ + 1, "C32.tokenize_char.keep.count",
              "number of fields != occurrences+1:" + ctx);
      c.check(join(got, std::string(1, d)) == s, "C32.tokenize_char.keep.join",
              "joining the fields does not reproduce the input:" + ctx);
      c.check(got == all, "C32.tokenize_char.keep.fields", "wrong fields:" + ctx);
      return;
    }
    const auto expected = dropEmpty(all);
    if (s.empty()) {
      // not judged beyond "nothing but (at most one) empty field"
      c.check(got.empty() || (got.size() == 1 && got[0].empty()),
              "C32.tokenize_char.nokeep.empty_input", "unexpected fields:" + ctx);
      return;
    }
    if (got == expected) return;
    if (s[0] == d) {
      // candidate 16: a leading delimiter yields an empty first field.
      // Residual claim behind the known class: everything else is right.
      Strings rest(got.begin() + (got.empty() ? 0 : 1), got.end());
      c.check(!got.empty() && got[0].empty() && rest == expected,
              "C32.tokenize_char.nokeep.fields",
              "wrong fields (beyond the leading empty field):" + ctx +
                  " expected=" + show(expected));
      if (deferred_known != nullptr) {
        ++*deferred_known;
        return;
      }
      c.check(false, "C32.tokenize_char.nokeep.leading_delimiter_empty_field",
              "empty first field although keep_empty_strings=false:" + ctx +
                  " expected=" + show(expected));
    }
    c.check(false, "C32.tokenize_char.nokeep.fields",
            "wrong fields:" + ctx + " expected=" + show(expected));
  }

  void judgeTokenizeString(verif::Case& c, const std::string& s,
                           const std::string& d) {
    const auto got = tu::tokenize(s, d);
    const auto all = refSplitString(s, d);
    auto dropped = all;
    if (dropped.back().empty()) dropped.pop_back();
    const std::string ctx =
        " s=" + show(s) + " d=" + show(d) + " got=" + show(got);
    for (const auto& f : got) {
      c.check(f.find(d) == std::string::npos, "C32.tokenize_str.field_has_delim",
              "a field contains the delimiter:" + ctx);
    }
    const auto j = join(got, d);
    c.check(j == s || j + d == s, "C32.tokenize_str.join",
            "joining the fields does not reproduce the input:" + ctx);
    c.check(got == all || got == dropped, "C32.tokenize_str.fields",
            "wrong fields:" + ctx + " expected=" + show(all) +
                " (a dropped trailing empty field is accepted)");
  }

  void judgeReplace(verif::Case& c, const std::string& s, const std::string& s1,
                    const std::string& s2) {
    const auto e = refReplace(s, s1, s2);
    const std::string ctx =
        " s=" + show(s) + " s1=" + show(s1) + " s2=" + show(s2);
    const auto r1 = tu::replace_all(s, s1, s2);
    c.check(r1 == e, s1.empty() ? "C32.replace_all.empty_pattern" : "C32.replace_all.copy",
            "replace_all(s,s1,s2):" + ctx + " got=" + show(r1) + " expected=" + show(e));
    std::string r2 = "previous content to be cleared";
    tu::replace_all(r2, s, s1, s2);
    c.check(r2 == e, "C32.replace_all.result_arg",
            "replace_all(r,s,s1,s2):" + ctx + " got=" + show(r2) + " expected=" + show(e));
    if (s1.size() == 1 && s2.size() == 1) {
      const auto r3 = tu::replace_all(s, s1[0], s2[0]);
      c.check(r3 == e, "C32.replace_all.char_char",
              "replace_all(s,c1,c2):" + ctx + " got=" + show(r3) + " expected=" + show(e));
    }
    if (s1.size() == 1) {
      std::string r4 = s;
      tu::replace_all(r4, s1[0], s2);
      c.check(r4 == e, "C32.replace_all.char_string",
              "replace_all(s&,c,n):" + ctx + " got=" + show(r4) + " expected=" + show(e));
    }
  }

  void judgeAffixes(verif::Case& c, const std::string& a, const std::string& b) {
    const bool sw = a.size() >= b.size() && a.compare(0, b.size(), b) == 0;
    const bool ew =
        a.size() >= b.size() && a.compare(a.size() - b.size(), b.size(), b) == 0;
    c.check(tu::starts_with(a, b) == sw, "C32.starts_with",
            "starts_with(" + show(a) + "," + show(b) + ") != " + (sw ? "true" : "false"));
    c.check(tu::ends_with(a, b) == ew, "C32.ends_with",
            "ends_with(" + show(a) + "," + show(b) + ") != " + (ew ? "true" : "false"));
  }

  //! k-th string (shortlex order) over an alphabet of size n: length l, index i
  template <typename F>
  void forAllStrings(const std::string& alphabet, const int maxlen, F f) {
    const std::size_t n = alphabet.size();
    std::string s;
    for (int l = 0; l <= maxlen; ++l) {
      std::size_t count = 1;
      for (int k = 0; k < l; ++k) count *= n;
      s.assign(static_cast<std::size_t>(l), alphabet[0]);
      for (std::size_t i = 0; i != count; ++i) {
        std::size_t v = i;
        for (int k = 0; k < l; ++k) {
          s[static_cast<std::size_t>(k)] = alphabet[v % n];
          v /= n;
        }
        f(s);
      }
    }
  }

  const char pool[] = {'a', 'b', 'c', ',', ' ', '\0', '\xff', ':', '_', '\n', '/'};
  constexpr std::size_t npool = sizeof pool;

  std::string randomString(verif::Case& c, const std::string& alphabet,
                           const int maxlen, const char* nm) {
    const auto l = c.integer(0, maxlen, nm);
    std::string s;
    for (std::int64_t i = 0; i != l; ++i) s += alphabet[c.pick(alphabet.size())];
    return s;
  }

  bool nontrivialDelims(const std::string& s, const std::string& d) {
    if (d.empty() || s.size() < d.size()) return false;
    const auto f = refSplitString(s, d);
    if (f.size() < 3) return false;  // >= 2 occurrences
    for (std::size_t i = 0; i != f.size(); ++i)
      if (f[i].empty()) return true;  // adjacent pair or one at either end
    return false;
  }

}  // namespace

// -------------------------------------------------------------- tokenize(s,c,b)
VERIF_SUB_W(tokenize_char_exhaustive, 0.004) {
  // alphabet = delimiter + two other distinct characters of the pool
  const auto id = c.pick(npool, "delim");
  auto i1 = c.pick(npool - 1, "x");
  auto i2 = c.pick(npool - 2, "y");
  std::vector<char> rest;
  for (std::size_t i = 0; i != npool; ++i)
    if (i != id) rest.push_back(pool[i]);
  const char x = rest[i1];
  rest.erase(rest.begin() + static_cast<std::ptrdiff_t>(i1));
  const char y = rest[i2];
  const std::string alphabet{x, y, pool[id]};
  std::size_t known = 0, n = 0;
  forAllStrings(alphabet, 8, [&](const std::string& s) {
    judgeTokenizeChar(c, s, pool[id], true);
    judgeTokenizeChar(c, s, pool[id], false, &known);
    ++n;
  });
  c.nontrivial(true);
  c.tag("exhaustive.len<=8.alphabet3");
  c.note("exhaustive: " + std::to_string(n) + " strings x {keep,nokeep}");
  // the known class (leading delimiter, findings/pending/C32.json) is reported
  // by tokenize_char_random; here it is only counted so that the sweep itself is
  // accounted as an evaluation (its residual claim has been verified above)
  if (known != 0) {
    c.tag("sweep.with_known_leading_delimiter_items");
    c.note(std::to_string(known) + " strings with the known leading-delimiter empty field");
  }
}

VERIF_SUB(tokenize_char_random) {
  const char d = pool[c.pick(npool, "delim")];
  // the delimiter is made frequent
  std::string alphabet(pool, pool + npool);
  alphabet += std::string(3, d);
  const auto s = randomString(c, alphabet, c.chance(1, 4) ? 200 : 24, "len");
  const bool keep = c.boolean("keep");
  c.nontrivial(nontrivialDelims(s, std::string(1, d)));
  c.tag(keep ? "keep" : "nokeep");
  if (!s.empty() && s[0] == d) c.tag("leading_delimiter");
  if (!s.empty() && s.back() == d) c.tag("trailing_delimiter");
  judgeTokenizeChar(c, s, d, keep);
}

// -------------------------------------------------------------- tokenize(s,d)
VERIF_SUB_W(tokenize_string_exhaustive, 0.004) {
  // three distinct characters of the pool
  std::vector<char> rest(pool, pool + npool);
  std::string alphabet;
  for (int k = 0; k < 3; ++k) {
    const auto i = c.pick(rest.size(), "letter");
    alphabet += rest[i];
    rest.erase(rest.begin() + static_cast<std::ptrdiff_t>(i));
  }
  // every delimiter of length 1..3 over the first two letters
  Strings delims;
  forAllStrings(alphabet.substr(0, 2), 3, [&](const std::string& d) {
    if (!d.empty()) delims.push_back(d);
  });
  std::size_t n = 0;
  forAllStrings(alphabet, 8, [&](const std::string& s) {
    for (const auto& d : delims) {
      judgeTokenizeString(c, s, d);
      ++n;
    }
  });
  c.nontrivial(true);
  c.tag("exhaustive.len<=8.alphabet3.delims14");
  c.note("exhaustive: " + std::to_string(n) + " (string, delimiter) pairs");
}

VERIF_SUB(tokenize_string_random) {
  const std::string letters = c.boolean("small") ? std::string("ab") : std::string(pool, pool + npool);
  auto d = randomString(c, letters, 4, "dlen");
  if (d.empty()) d = std::string(1, letters[c.pick(letters.size(), "d0")]);
  // build s from fragments so that the delimiter does occur
  std::string s;
  const auto nf = c.integer(0, c.chance(1, 4) ? 40 : 8, "fragments");
  for (std::int64_t i = 0; i != nf; ++i) {
    if (c.chance(2, 5, "isdelim")) {
      s += d;
    } else {
      s += randomString(c, letters, 5, "flen");
    }
  }
  c.nontrivial(nontrivialDelims(s, d));
  if (d.size() > 1) c.tag("multichar_delimiter");
  judgeTokenizeString(c, s, d);
}

// -------------------------------------------------------------- replace_all
VERIF_SUB_W(replace_all_exhaustive, 0.004) {
  // replacements: empty, one char, the pattern itself, containing the pattern...
  const std::string ab = "ab";
  Strings patterns;
  forAllStrings(ab, 3, [&](const std::string& p) { patterns.push_back(p); });
  const auto extra = randomString(c, "abz", 4, "extra_replacement");
  std::size_t n = 0;
  forAllStrings(ab, 8, [&](const std::string& s) {
    for (const auto& p : patterns) {
      for (const auto& r : {std::string{}, std::string("a"), std::string("z"), p, p + p,
                            "z" + p + "z", std::string("ab"), extra}) {
        judgeReplace(c, s, p, r);
        ++n;
      }
    }
  });
  c.nontrivial(true);
  c.tag("exhaustive.len<=8.ab.patterns<=3");
  c.note("exhaustive: " + std::to_string(n) + " (s, pattern, replacement) triples");
}

VERIF_SUB(replace_all_random) {
  const std::string letters = c.boolean("small") ? std::string("ab") : std::string(pool, pool + npool);
  const auto s1 = randomString(c, letters, 4, "s1len");
  const auto s2 = c.chance(1, 4, "s2_has_s1") ? ("x" + s1 + s1)
                                               : randomString(c, letters, 4, "s2len");
  std::string s;
  const auto nf = c.integer(0, c.chance(1, 4) ? 40 : 8, "fragments");
  for (std::int64_t i = 0; i != nf; ++i) {
    if (c.chance(2, 5, "ispattern")) {
      s += s1;
    } else {
      s += randomString(c, letters, 5, "flen");
    }
  }
  std::size_t occ = 0;
  if (!s1.empty())
    for (std::size_t i = 0; i + s1.size() <= s.size();)
      if (matchAt(s, i, s1)) {
        ++occ;
        i += s1.size();
      } else {
        ++i;
      }
  c.nontrivial(occ >= 2);
  if (s1.empty()) c.tag("empty_pattern");
  if (s1.size() >= 2 && s1[0] == s1.back()) c.tag("self_overlapping_pattern");
  judgeReplace(c, s, s1, s2);
}

// -------------------------------------------------------------- starts/ends_with
VERIF_SUB_W(affixes_exhaustive, 0.004) {
  const char x = pool[c.pick(npool, "x")];
  const std::string ab{'a', x == 'a' ? 'b' : x};
  Strings all;
  forAllStrings(ab, 5, [&](const std::string& s) { all.push_back(s); });
  for (const auto& a : all)
    for (const auto& b : all) judgeAffixes(c, a, b);
  c.nontrivial(true);
  c.tag("exhaustive.pairs.len<=5");
  c.note("exhaustive: " + std::to_string(all.size() * all.size()) + " pairs");
}

VERIF_SUB(affixes_random) {
  const std::string letters(pool, pool + npool);
  const auto a = randomString(c, letters, 30, "alen");
  std::string b;
  switch (c.integer(0, 4, "kind")) {
    case 0: b = a.substr(0, c.pick(a.size() + 1, "prefix")); break;
    case 1: b = a.substr(c.pick(a.size() + 1, "suffix")); break;
    case 2: b = a + randomString(c, letters, 3, "longer"); break;
    case 3: {
      b = a.substr(0, c.pick(a.size() + 1, "prefix"));
      if (!b.empty()) b[c.pick(b.size(), "flip")] ^= 1;
      break;
    }
    default: b = randomString(c, letters, 30, "blen");
  }
  c.nontrivial(!b.empty() && b.size() <= a.size());
  judgeAffixes(c, a, b);
}

// -------------------------------------------------------------- convert<double>
VERIF_SUB(convert_double) {
  // grammar: [sign] digits [. digits] [e [sign] digits]
  std::string lit;
  const auto sign = c.integer(0, 2, "sign");
  if (sign == 1) lit += '-';
  if (sign == 2) lit += '+';
  const auto form = c.integer(0, 3, "form");  // 0: D  1: D.D  2: D.  3: .D
  const auto ni = form == 3 ? 0 : c.integer(1, 8, "int_digits");
  const auto nf = (form == 1 || form == 3) ? c.integer(1, 7, "frac_digits") : 0;
  std::uint64_t m = 0;
  for (std::int64_t i = 0; i != ni; ++i) {
    const auto dg = c.integer(0, 9, "d");
    lit += static_cast<char>('0' + dg);
    m = 10 * m + static_cast<std::uint64_t>(dg);
  }
  if (form != 0) lit += '.';
  for (std::int64_t i = 0; i != nf; ++i) {
    const auto dg = c.integer(0, 9, "d");
    lit += static_cast<char>('0' + dg);
    m = 10 * m + static_cast<std::uint64_t>(dg);
  }
  std::int64_t ex = 0;
  if (c.boolean("has_exponent")) {
    lit += c.boolean("E") ? 'E' : 'e';
    ex = c.chance(1, 5, "large") ? c.integer(-330, 330, "exp") : c.integer(-22, 22, "exp");
    if (ex < 0) {
      lit += '-';
    } else if (c.boolean("plus")) {
      lit += '+';
    }
    if (c.chance(1, 6, "leading_zero")) lit += '0';
    lit += std::to_string(ex < 0 ? -ex : ex);
  }
  // what to do with it
  const auto action = c.integer(0, 9, "action");
  std::string s = lit;
  bool expect_reject = false, ambiguous = false;
  static const char* const junk[] = {"x", " ", "f", "e", "e+", ".", "..", "-", ",", "d0", "L", "\t", "_"};
  static const char* const invalid[] = {"", "+", "-", ".", "e5", "E", "abc", "--1", "+-1", "-+2", ".e3",
                                        "e", "1e", "1e+", "1E-", "1.5e", "1 2", "1,5", "0x", "- 1", "+.", "-.e1"};
  if (action == 0) {
    const std::string j = junk[c.pick(sizeof junk / sizeof *junk, "junk")];
    s = lit + j;
    // digits + "." is a complete literal; everything else is not
    expect_reject = !(j == "." && form == 0 && lit.find_first_of("eE") == std::string::npos);
    c.tag("trailing_junk");
  } else if (action == 1) {
    s = invalid[c.pick(sizeof invalid / sizeof *invalid, "invalid")];
    expect_reject = true;
    c.tag("invalid");
  } else if (action == 2) {
    static const char* const amb[] = {" 1.5", "\t2", "\n3e2", "0x1p3", "0x10", "inf", "-inf", "nan", "INF",
                                      "infinity", "NAN", "1e999", "-1e999", "1e-320", "4e-324", "1e-400"};
    s = amb[c.pick(sizeof amb / sizeof *amb, "ambiguous")];
    ambiguous = true;
    c.tag("ambiguous");
  } else {
    c.tag("valid");
  }
  bool accepted = false;
  double v = 0;
  std::string what;
  try {
    v = tu::convert<double>(s);
    accepted = true;
  } catch (const std::invalid_argument& e) {
    what = e.what();
    c.tag("rejected.invalid_argument");
  }
  if (ambiguous) {
    c.tag(accepted ? "ambiguous.accepted" : "ambiguous.rejected");
    return;
  }
  if (expect_reject) {
    c.nontrivial(true);
    c.check(!accepted, "C32.convert.reject",
            "convert<double>(" + show(s) + ") accepted an incomplete numeric string");
    return;
  }
  // exact reference: m * 10^k with m < 2^53 and |k| <= 22 is one correctly
  // rounded operation (both operands are exact doubles)
  const std::int64_t k = ex - nf;
  static const double p10[] = {1e0,  1e1,  1e2,  1e3,  1e4,  1e5,  1e6,  1e7,
                               1e8,  1e9,  1e10, 1e11, 1e12, 1e13, 1e14, 1e15,
                               1e16, 1e17, 1e18, 1e19, 1e20, 1e21, 1e22};
  double ref;
  bool exact_ref = false;
  if (k >= -22 && k <= 22) {
    ref = k >= 0 ? static_cast<double>(m) * p10[k] : static_cast<double>(m) / p10[-k];
    exact_ref = true;
    c.tag("reference.exact");
  } else {
    ref = std::strtod(lit.c_str() + (sign != 0 ? 1 : 0), nullptr);
    c.tag("reference.strtod");
  }
  if (sign == 1) ref = -ref;
  if (!(ref == 0 || (std::fabs(ref) >= DBL_MIN && std::fabs(ref) <= DBL_MAX))) {
    c.tag("ambiguous.out_of_normal_range");
    return;
  }
  if (ref == 0 && m != 0) {
    c.tag("ambiguous.underflow");
    return;
  }
  c.nontrivial(m != 0 && (form != 0 || ex != 0));
  c.check(accepted, "C32.convert.accept",
          "convert<double>(" + show(s) + ") rejected a complete numeric string: " + what);
  c.check(v == ref && std::signbit(v) == std::signbit(ref), "C32.convert.value",
          "convert<double>(" + show(s) + ") = " + std::to_string(v) + " expected " +
              std::to_string(ref) + (exact_ref ? " (exact reference)" : " (strtod)"));
}

VERIF_MAIN("C32_strings")
